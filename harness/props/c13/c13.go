// Package c13: the endorsement manifest stays a faithful index over every endorse history.
//
// Real endorse runs (endorse.VirtualFirmware: measure, sign, commit) are driven through an
// in-memory version-control double (transactional and write-through) and through
// testing/nonprod/localnonvcs. After every run the files visible through the version-control
// abstraction are judged against the property text by oracle.go, which knows nothing about the
// repository's merge rules.
package c13

import (
	"context"
	"crypto/sha512"
	"encoding/hex"
	"fmt"
	"io"
	"io/fs"
	"math/rand/v2"
	"os"
	"path"
	"path/filepath"
	"sort"
	"strings"
	"time"

	"github.com/google/gce-tcb-verifier/cmd/output"
	"github.com/google/gce-tcb-verifier/endorse"
	"github.com/google/gce-tcb-verifier/keys"
	rpb "github.com/google/gce-tcb-verifier/proto/releases"
	"github.com/google/gce-tcb-verifier/sev"
	"github.com/google/gce-tcb-verifier/sign/memca"
	"github.com/google/gce-tcb-verifier/testing/fakeovmf"
	"github.com/google/gce-tcb-verifier/testing/nonprod/localnonvcs"
	"github.com/google/gce-tcb-verifier/testing/nonprod/memkm"
	"github.com/google/gce-tcb-verifier/testing/testsign"
	spb "github.com/google/go-sev-guest/proto/sevsnp"
	"google.golang.org/protobuf/encoding/prototext"

	"verifharness/core"
)

const entryPoint = "endorse.VirtualFirmware"

func init() {
	core.Register(&core.Info{
		ID: "C13", Level: "exploration",
		Rule: "case = one history of real endorse runs (endorse.VirtualFirmware: measure a 4 KiB image, sign, commit) against one store: in-memory VCS double with workspaces and atomic commit (mem-tx), the same double writing through (mem-wt), testing/nonprod/localnonvcs on a temp dir (local), or both at once via Context.VCSs (multi). " +
			"Cases 0 and 1 are closures: breadth-first search over abstract store states (ordered (path,image) manifest entries + which image each *.binarypb signs) for the pool 3 images x 3 candidate names x overwrite{on,off} plus 3 snapshot-mode runs, every action run from every reached state until no new state appears (mem-tx and local; thorough adds 4 images x 3 names on mem-tx and 3 images x 4 names on mem-wt). " +
			"The other cases are random histories of 8..40 runs over pools of 2..6 images and 2..6 candidate names (plain, default, with a sub-directory, with spaces/non-ASCII), 1..2 output directories, overwrite probability 0.25/0.5/0.8, 10% snapshot-mode runs, scripted retriable commit conflicts with 0..2 retries (mem-tx) and failed endorsement-file writes (mem-wt); two thirds of the conflicts have a cause: another process's complete endorse run (own Context, candidate and image from the same pools, overwrite 0.7) lands in the store inside the failing submit, between the attempt and its retry, and mem-tx-race histories are a contended store where half of the runs meet such a conflict (the store then saw two sequential runs: the one that landed, then the retried one; each is judged as such); three histories in five are made by a caller that keeps ONE endorse.Context for all runs and reassigns its fields (struct: new context.Context per run; ctx: one context.Context and output.Options changed in place; ctx+buf: also one image buffer refilled in place), the others build a Context per run like the CLI; run timestamps are not monotonic (newer than, older than, or equal to earlier runs'; every action of the mem-tx closures also has an older-timestamp variant); local-links histories turn not-yet-existing candidate paths into symlinks to an existing endorsement file, a missing target or a directory between runs and then endorse under those names without overwrite. " +
			"Audit cases (numbered after all others, audit.go): interleaved: 2..4 independent histories of 8..16 runs, each on its own store behind a wrapper that sees every call the library makes on the version-control abstraction, in flight at the same time in one process; in one half of the batches exactly one goroutine runs at a time and a PRNG passes the turn before and after every such call (the same interleaving in every execution), in the other half the goroutines run in parallel and meet before and after every such call, so that the code between two calls runs at the same moment on several cores; every store is judged after each of its own runs. " +
			"mixed-callers: one store written in turn by two kept endorse.Contexts and by fresh ones (for localnonvcs half of these through a new T on the same root), one run in eight a dry run (Context.DryRun toggled on kept Contexts), a third of the fresh runs without overwrite made with a context that carries no output.Options at all. " +
			"stores-differ: two stores of any kinds; the first third of the runs goes to store 0 only, later runs are addressed (Context.VCSs, reassigned per run also on a kept Context) to both in the usual or the reversed order or to one of them, so that the stores hold different files; every store is judged after every run, the clauses about the latest run only in the stores the run was addressed to and only when the whole run succeeded. " +
			"faults: one call of the version-control abstraction fails once or twice during two runs in five, permanently or with an error the store calls retriable (0..2 retries): opening the workspace, reading the candidate file (the existence check), reading the manifest, writing the endorsement file (nothing written), and on the transactional double also the manifest write, the chmod and the commit. " +
			"store-switch (observed only): a kept Context whose VCS field is pointed at one of two stores before each run. " +
			"Round-4 cases (numbered after the audit cases, round4.go): unusual-names: histories of 12..30 runs on mem-tx, mem-wt and local whose candidate pool is 2..5 decorations of 1..3 stems, as callers hand names over: with a trailing, leading or embedded line break (LF, CRLF, text-proto content after the break), CR, tab, leading/trailing/double blanks, quotes, backslashes, back-ticks, '#', braces, brackets, ':' ';' ',', '%' verbs, control characters and escape sequences, invisible and non-ASCII characters, 200-byte names, and names the store or the manifest cannot carry (NUL and more than 255 bytes on local, invalid UTF-8 everywhere: those runs must fail and leave the store faithful); ReleaseBranch, Commit, half of the snapshot image names and a quarter of the output directories come from the same alphabet; the run's timestamp is in one run of three handed over in another zone (+14h, -12h, +5:45) and sometimes lies in the year 1, 1677, 1969, 2262 or 9999. " +
			"option-matrix: histories of 16..40 runs over at most 4 names in which every run draws its whole output.Options (overwrite x keep_going (0.3/0.5/0.9) x quiet/normal/verbose/use-logs) and, one run in eight, a dry or a measurement-only run, besides snapshot mode, scripted conflicts with retries and a concurrent landing (mem-tx) and failed endorsement writes (mem-wt); half of them from one kept Context (options value replaced or changed in place). " +
			"Oracle after every run, over the files visible through the version-control abstraction: every manifest parses; no path and no digest twice; every entry's path (relative to the manifest) names a file that decodes as a VMLaunchEndorsement whose signed golden measurement carries the entry's digest; after a successful manifest-mode run the image's SHA-384 maps to <candidate>.binarypb and that file signs this digest with this run's timestamp; after a run without overwrite every *.binarypb that existed before is byte-identical. " +
			"non-trivial = the run met a manifest: distinct (store kind, relation of the request to the manifest before the run {fresh, path-held, digest-held, same-entry, path-and-digest-in-different-entries}, target file existed, overwrite, outcome) cells, plus (landed run's relation and outcome, retried run's relation, overwrite, outcome) for runs that raced, (caller mode, image differs from the Context's first, relation, outcome) for runs from a reused Context, plus every distinct abstract state the closures reached; round-4 cases add (store, kind of name, manifest already listed an unusual name, relation, overwrite, result) and (store, overwrite, keep_going, verbosity, real/dry/measurement-only/snapshot, candidate file free / signs the same image / signs another image, result), with floors for every overwrite x keep_going pair meeting each of the three candidate-file states; audit cases add the store kind's tag (other histories in flight / another history's calls inside this run's commit phase; mixed callers; one of two stores, two stores in the same or in different states; the faulted call) to the run cells, plus (store, caller, dry or real, who changed the store last, result), (VCSs kinds, file exists in first/second store, overwrite) for runs addressed to two different stores and (store, faulted call, permanent/retriable, file existed, overwrite, retries, result) for faults that fired",
		Assumptions: []string{
			"entry paths are resolved relative to the directory of the manifest (the repository stores the basename)",
			"the closure abstracts from create times, signature bytes and snapshot-mode files; it is exhaustive for its pool only if endorse's behaviour does not depend on those",
			"snapshot-mode runs use image names that do not collide with manifest-mode file names; the never-replaced clause is applied to *.binarypb files only (snapshot mode rewrites <image>.signed by definition)",
			"the transactional double is a version-control system of the kind the comment on endorse.RetrySubmit describes: a workspace is synced when it is opened, and a submit does not notice by itself that the head moved on (lost updates are possible; only scripted conflicts fail a submit)",
			"a run that lands during another run's failed submit attempt is a run of the history like any other: seen from the store the order is the landed run, then the retried run; nothing is demanded about runs that fail",
			"endorse.Context is a struct of exported fields filled in by the caller; a caller may keep one value and reassign Image, CandidateName, Timestamp, OutDir and the snapshot fields between runs, and may refill the image buffer in place between (never during) runs",
			"injected faults are limited to commit conflicts on the transactional double and to the endorsement-file write on the write-through double (nothing written); a failed manifest write on a non-transactional store is outside the property",
			"a run WITH overwrite whose candidate path is a symlink is the same two-names-one-file case as ./a and is not generated; a dangling link's target name is outside the candidate pool",
			"candidate names that are different spellings of one file (a, ./a, x/../a) are exercised for the record only and never judged",
			"histories on different stores in one process are independent: each must keep its own manifest faithful whatever the other does at the same time; runs on ONE store are never made at the same time (a read-modify-write of the manifest without a lock loses updates by design; the transactional double's conflicts model that case)",
			"a dry run (Context.DryRun) and a run that was not addressed to a store are runs of the history that the store's manifest need not index; the other clauses are judged after them as after any run",
			"a context without output.Options gives no overwrite permission",
			"a fault of a single call is injected before the call reaches the store (nothing of that call happens); on the stores that write through only calls before the first write of a run are failed",
			"a run is addressed to the stores the caller put into Context.VCSs (or Context.VCS of a fresh Context); a kept Context whose VCS field alone is reassigned still endorses into the store of its first run (VirtualFirmware keeps it in VCSs) — recorded under store-switch-observation, not judged",
			"a candidate name is any string the caller hands over; names that contain '/' only do so as well-formed sub-directory prefixes (no empty, '.' or '..' segments: those are the respelling case above); a name the store cannot use as a file name or the manifest cannot carry as a string makes the run fail, which is not judged beyond the clauses that hold after any run",
			"keep_going, the verbosity options, ReleaseBranch and Commit are settings of a run like any other: a run made with them is a run of the history, judged by its result exactly like the others (a run that reports success in manifest mode has written the file its digest maps to); a measurement-only run, like a dry run, writes nothing the manifest has to index",
			"signing uses the repository's development keys (memkm/memca test-only instances); verdicts do not depend on key values",
		},
		ShardsQuick: 8, ShardsThor: 16, TimeoutS: 600, TimeoutThor: 3000, Run: run,
	})
}

// ---- stores ----

type store interface {
	Kind() string
	VCS() endorse.VersionControl
	Snapshot() map[string][]byte
	Load(map[string][]byte)
	Close()
}

type memStore struct{ v *MemVCS }

func (m *memStore) Kind() string {
	if m.v.WriteThrough {
		return "mem-wt"
	}
	return "mem-tx"
}
func (m *memStore) VCS() endorse.VersionControl { return m.v }
func (m *memStore) Snapshot() map[string][]byte { return m.v.Snapshot() }
func (m *memStore) Load(f map[string][]byte)    { m.v.Load(f) }
func (m *memStore) Close()                      {}

type localStore struct{ t *localnonvcs.T }

func newLocalStore() *localStore {
	dir, err := os.MkdirTemp("", "verif-c13-")
	if err != nil {
		panic(err)
	}
	return &localStore{t: &localnonvcs.T{Root: dir}}
}
func (l *localStore) Kind() string                { return "local" }
func (l *localStore) VCS() endorse.VersionControl { return l.t }
func (l *localStore) Close()                      { os.RemoveAll(l.t.Root) }
func (l *localStore) Snapshot() map[string][]byte {
	out := map[string][]byte{}
	filepath.WalkDir(l.t.Root, func(p string, d fs.DirEntry, err error) error {
		if err != nil || d.IsDir() {
			return nil
		}
		b, err := os.ReadFile(p)
		if err != nil {
			return nil
		}
		rel, _ := filepath.Rel(l.t.Root, p)
		out[filepath.ToSlash(rel)] = b
		return nil
	})
	return out
}
func (l *localStore) Load(files map[string][]byte) {
	ents, _ := os.ReadDir(l.t.Root)
	for _, e := range ents {
		os.RemoveAll(filepath.Join(l.t.Root, e.Name()))
	}
	for k, b := range files {
		p := filepath.Join(l.t.Root, filepath.FromSlash(k))
		os.MkdirAll(filepath.Dir(p), 0o755)
		if err := os.WriteFile(p, b, 0o755); err != nil {
			panic(err)
		}
	}
}

type world struct {
	kind   string
	stores []store
}

func newWorld(kind string) *world {
	w := &world{kind: kind}
	switch kind {
	case "mem-tx":
		w.stores = []store{&memStore{NewMemVCS("/depot/fw", false)}}
	case "mem-wt":
		w.stores = []store{&memStore{NewMemVCS("/depot/fw", true)}}
	case "local":
		w.stores = []store{newLocalStore()}
	case "multi":
		w.stores = []store{&memStore{NewMemVCS("/depot/fw", false)}, newLocalStore()}
	default:
		panic(kind)
	}
	return w
}

func (w *world) close() {
	for _, s := range w.stores {
		s.Close()
	}
}

// ---- actions ----

type action struct {
	img       int
	name      string
	ow        bool
	outDir    string
	snapshot  bool
	snapDir   string
	imageName string
	retries   int
	conflicts int    // scripted retriable commit failures (mem-tx)
	failWrite bool   // scripted endorsement-file write failure (mem-wt)
	tsClass   string // how the run's timestamp relates to earlier runs: "", older, equal
	link      string // local store: the candidate path is a symlink to: file, missing, dir
	// concurrent, if set, is another complete endorse run (own Context, as from another process)
	// that lands in the store while this run's first submit attempt fails with a conflict (mem-tx).
	concurrent *action
	concTS     time.Time
	ctxMode    string // how the caller holds the endorse.Context: "", struct, ctx, ctx+buf (evidence)

	// dimensions of the audit cases (audit.go); the zero values are the behaviour of all other cases
	dry      bool          // Context.DryRun is set: nothing is written, and the manifest need not index this run
	noOpts   bool          // the context carries no output.Options at all (overwrite permission unset, not false)
	freshT   bool          // local store: the run goes through a new localnonvcs.T on the same root
	sel      []int         // worlds with several stores: the stores the run is addressed to, in Context.VCSs order (nil: all)
	skip     bool          // set per store while judging: the run was not addressed to this store
	flt      *fault        // scripted fault of a hooked store during this run
	tag      string        // appended to the store kind in the evidence cells
	tagAfter func() string // evaluated after the run, appended to tag
	viaVCS   int           // store-switch probe: the caller assigns Context.VCS = store viaVCS-1 and nothing else
	who      string        // which caller made the run (evidence and witness)

	// dimensions of the round-4 cases (round4.go); the zero values are the behaviour of all other cases
	keepGoing   bool   // output.Options.KeepGoing (--keep_going)
	verb        string // output.Options verbosity: "" quiet, normal (Out/Err sinks), verbose, use-logs
	measureOnly bool   // Context.MeasurementOnly: nothing is signed or written, the manifest need not index this run
	branch      string // Context.ReleaseBranch
	commit      []byte // Context.Commit
	nameKind    string // what is unusual about the candidate name (evidence); "" for the names of namePool
	zone        string // the run's timestamp is handed over in this zone / far from the present (evidence)
}

func (a action) String() string {
	s := fmt.Sprintf("image=%d candidate=%q overwrite=%v out_dir=%q", a.img, a.name, a.ow, a.outDir)
	if a.snapshot {
		s += fmt.Sprintf(" snapshot_dir=%q image_name=%q", a.snapDir, a.imageName)
	}
	if a.conflicts > 0 || a.retries > 0 {
		s += fmt.Sprintf(" commit_conflicts=%d retries=%d", a.conflicts, a.retries)
	}
	if a.failWrite {
		s += " endorsement-write-fails"
	}
	if a.tsClass != "" {
		s += " timestamp=" + a.tsClass
	}
	if a.link != "" {
		s += " candidate-path-is-symlink-to-" + a.link
	}
	if a.dry {
		s += " dry_run"
	}
	if a.noOpts {
		s += " (context without output options)"
	}
	if a.keepGoing {
		s += " keep_going"
	}
	if a.verb != "" {
		s += " output=" + a.verb
	}
	if a.measureOnly {
		s += " measurement_only"
	}
	if a.branch != "" {
		s += fmt.Sprintf(" release_branch=%q", a.branch)
	}
	if a.zone != "" {
		s += " timestamp-given-as=" + a.zone
	}
	if a.freshT {
		s += " (through a new localnonvcs.T)"
	}
	if a.viaVCS > 0 {
		s += fmt.Sprintf(" (caller assigned Context.VCS = store %d)", a.viaVCS-1)
	}
	if a.sel != nil {
		s += fmt.Sprintf(" addressed-to-stores=%v", a.sel)
	}
	if a.flt != nil {
		s += " fault{" + a.flt.String() + "}"
	}
	if a.who != "" {
		s += " caller=" + a.who
	}
	if a.concurrent != nil {
		s += " {while the first submit attempt is in flight another run lands: " + a.concurrent.String() + "}"
	}
	return s
}

func (a action) base() string {
	n := a.name
	if n == "" {
		n = "endorsement"
	}
	return n + ".binarypb"
}

// ---- environment ----

type env struct {
	c       *core.Ctx
	kc      *keys.Context
	images  [][]byte
	digests [][]byte
	names   map[string]string // hex digest -> "i<k>"
	st      stats
	// evidence for floors
	acceptedClass map[string]bool
	refusals      int
	keptFiles     int
	oldMerges     int    // accepted merges into an existing entry with a timestamp not newer than recorded ones
	linkRefusals  int    // runs without overwrite on a symlink to an existing endorsement
	observeOnly   bool   // alias histories: findings are counted, never reported as violations
	raceRefresh   int    // retried runs that succeeded after a concurrent run refreshed a listed candidate
	reusedChanged int    // successful runs from a reused Context whose image differs from that Context's first
	observeWhat   string // what an observe-only history is about (notes)
	lastErr       error  // result of the latest run made by stepOn
	light         bool   // runs are made from several goroutines: panics are recovered here, not by core.Guard
	au            auditStats
	r4            r4Stats
}

// session is a caller that keeps one endorse.Context (and possibly one context.Context, one
// output.Options and one image buffer) for many runs, the way a batch job or a service does:
// set Image, CandidateName, ..., call VirtualFirmware, repeat.
type session struct {
	mode     string // struct: one endorse.Context, a new context.Context per run; ctx: one context.Context, options changed in place; ctx+buf: also one image buffer refilled in place
	ec       *endorse.Context
	opts     *output.Options
	ctx      context.Context
	buf      []byte
	firstImg int
	runs     int
}

func newEnv(c *core.Ctx) *env {
	e := &env{c: c, names: map[string]string{}, acceptedClass: map[string]bool{}}
	for i := 0; i < 8; i++ {
		fw := make([]byte, 4096)
		for j := 0; j < 64; j++ {
			fw[256+j] = byte(i*37 + j + 1)
		}
		if err := fakeovmf.InitializeSevGUIDTable(fw, 0x20, 0xff0000ff, fakeovmf.DefaultSnpSections()); err != nil {
			panic(err)
		}
		d := sha512.Sum384(fw)
		e.images = append(e.images, fw)
		e.digests = append(e.digests, d[:])
		e.names[hex.EncodeToString(d[:])] = fmt.Sprintf("i%d", i)
	}
	manager := memkm.TestOnlyT()
	e.kc = &keys.Context{CA: memca.TestOnlyCertificateAuthority(), Manager: manager, Signer: manager.Signer, Random: testsign.RootRand()}
	return e
}

// script arms the scripted faults of the doubles for one run.
func script(w *world, a action) {
	for _, s := range w.stores {
		if m, ok := s.(*memStore); ok {
			m.v.FailCommits, m.v.FailEndorsementWrite, m.v.OnConflict = 0, false, nil
			if !m.v.WriteThrough {
				m.v.FailCommits = a.conflicts
			} else {
				m.v.FailEndorsementWrite = a.failWrite
			}
		}
	}
}

// endorse performs one real run: from a fresh endorse.Context (ses == nil) or from the long-lived
// one of ses, whose fields are reassigned.
func (e *env) endorse(i int, gname string, w *world, a action, ts time.Time, ses *session) (error, bool) {
	var ec *endorse.Context
	if ses != nil && ses.ec != nil {
		ec = ses.ec
	} else {
		ec = &endorse.Context{SevSnp: &sev.SnpEndorsementRequest{LaunchVmsas: 1, Product: spb.SevProduct_SEV_PRODUCT_MILAN, ImageID: "00000000-0000-4000-8000-000000000001"}}
		switch {
		case a.sel != nil || a.viaVCS > 0:
		case len(w.stores) == 1:
			ec.VCS = vcsFor(w.stores[0], a)
		default:
			for _, s := range w.stores {
				ec.VCSs = append(ec.VCSs, s.VCS())
			}
		}
	}
	if a.sel != nil { // the caller names the stores of this run (also on a kept Context)
		ec.VCS, ec.VCSs = nil, nil
		for _, k := range a.sel {
			ec.VCSs = append(ec.VCSs, vcsFor(w.stores[k], a))
		}
	}
	if a.viaVCS > 0 {
		ec.VCS = w.stores[a.viaVCS-1].VCS()
	}
	ec.DryRun, ec.MeasurementOnly, ec.ReleaseBranch, ec.Commit = a.dry, a.measureOnly, a.branch, a.commit
	image := e.images[a.img]
	if ses != nil && ses.mode == "ctx+buf" {
		if ses.buf == nil {
			ses.buf = make([]byte, len(image))
		}
		copy(ses.buf, image) // all pool images have one size
		image = ses.buf
	}
	ec.ClSpec, ec.Image, ec.Timestamp, ec.CandidateName, ec.OutDir, ec.CommitRetries = uint64(1000+a.img), image, ts, a.name, a.outDir, a.retries
	ec.SnapshotDir, ec.ImageName = "", ""
	if a.snapshot {
		ec.SnapshotDir, ec.ImageName = a.snapDir, a.imageName
	}
	var ctx context.Context
	switch {
	case ses == nil && a.noOpts:
		ctx = endorse.NewContext(keys.NewContext(context.Background(), e.kc), ec)
	case ses == nil:
		ctx = endorse.NewContext(output.NewContext(keys.NewContext(context.Background(), e.kc), optionsFor(a)), ec)
	case ses.ec == nil:
		ses.ec, ses.firstImg = ec, a.img
		ses.opts = optionsFor(a)
		ses.ctx = endorse.NewContext(output.NewContext(keys.NewContext(context.Background(), e.kc), ses.opts), ec)
		ctx = ses.ctx
	case ses.mode == "struct":
		ctx = endorse.NewContext(output.NewContext(keys.NewContext(context.Background(), e.kc), optionsFor(a)), ec)
	default:
		setOptions(ses.opts, a) // the caller's options value is changed in place
		ctx = ses.ctx
	}
	if ses != nil {
		ses.runs++
	}
	var err error
	if e.light {
		panicked := e.lightGuard(i, gname, func() { err = endorse.VirtualFirmware(ctx) })
		return err, panicked
	}
	m := e.c.Guard(i, entryPoint, gname, core.Budget{}, func() { err = endorse.VirtualFirmware(ctx) })
	return err, m.Panicked
}

// optionsFor is the output.Options a caller builds for the run: quiet with the overwrite setting for
// every case but those that vary the other options (round4.go).
func optionsFor(a action) *output.Options {
	o := &output.Options{}
	setOptions(o, a)
	return o
}

func setOptions(o *output.Options, a action) {
	*o = output.Options{Overwrite: a.ow, KeepGoing: a.keepGoing}
	switch a.verb {
	case "":
		o.Quiet = true
	case "normal":
		o.Out, o.Err = io.Discard, io.Discard
	case "verbose": // debug output goes to the worker's stdout, which nobody reads
		o.Verbose, o.Out = true, io.Discard
	case "use-logs": // the dependency's logger, to the worker's stderr
		o.UseLogs = true
	}
}

// landed is a concurrent run that went through while another run's submit attempt was in flight.
type landed struct {
	a         action
	pre, post map[string][]byte
	err       error
	panicked  bool
}

// stepOn runs one action on the world, judges every store, records evidence. It returns the
// number of findings.
func (e *env) stepOn(i int, gname string, w *world, a action, ts time.Time, hist []string, ses *session) int {
	pres := make([]map[string][]byte, len(w.stores))
	for k, s := range w.stores {
		pres[k] = s.Snapshot()
	}
	script(w, a)
	var land *landed
	if a.concurrent != nil {
		ms := w.stores[0].(*memStore)
		ms.v.OnConflict = func() {
			l := &landed{a: *a.concurrent, pre: ms.Snapshot()}
			l.err, l.panicked = e.endorse(i, gname, w, l.a, a.concTS, nil)
			l.post = ms.Snapshot()
			land = l
		}
	}
	err, panicked := e.endorse(i, gname, w, a, ts, ses)
	e.lastErr = err
	nf := 0
	if panicked {
		nf++
	}
	if ses != nil {
		a.ctxMode = ses.mode
	}
	if a.tagAfter != nil {
		a.tag += a.tagAfter()
	}
	var lclass, loutcome string
	if land != nil {
		// Seen from the store this is a sequential history: the concurrent run, then this run.
		if land.panicked {
			nf++
		}
		var n int
		n, lclass, loutcome = e.account(i, gname, w, w.stores[0], land.a, a.concTS, land.err, land.pre, land.post,
			append(append([]string(nil), hist...), "(the first submit attempt of the next run ["+a.base()+"] is in flight and will fail with a conflict)"), "+landed-during-conflict")
		nf += n
		pres[0] = land.post
		hist = append(append([]string(nil), hist...), "(concurrent) "+land.a.String())
		a.concurrent = nil
	}
	for k, s := range w.stores {
		ak := a
		ak.skip = (a.sel != nil && !contains(a.sel, k)) || (a.viaVCS > 0 && a.viaVCS-1 != k)
		n, class, outcome := e.account(i, gname, w, s, ak, ts, err, pres[k], s.Snapshot(), hist, "")
		nf += n
		if ak.skip {
			continue
		}
		if land != nil && !e.observeOnly {
			e.c.Count("concurrent-landings/"+loutcome+"/then-retried-run-"+outcome, 1)
			e.c.Cell("race|landed=%s,%s|retried=%s,overwrite=%v,%s", lclass, loutcome, class, a.ow, outcome)
			if loutcome == "ok" && outcome == "ok" && (lclass == "path-held" || lclass == "path-and-digest-in-different-entries") {
				e.raceRefresh++
			}
		}
		if ses != nil && ses.runs > 1 && !e.observeOnly {
			e.c.Count("runs-from-reused-context/"+ses.mode+"/"+outcome, 1)
			e.c.Cell("reused-context|%s|image-differs-from-first=%v|%s|%s", ses.mode, a.img != ses.firstImg, class, outcome)
			if outcome == "ok" && !a.snapshot && !a.dry && a.img != ses.firstImg {
				e.reusedChanged++
			}
		}
	}
	return nf
}

// account judges one run on one store (pre, post: the files visible before and after it) and
// records the evidence. It returns the number of findings, the merge class and the outcome.
func (e *env) account(i int, gname string, w *world, s store, a action, ts time.Time, err error, pre, post map[string][]byte, hist []string, tag string) (int, string, string) {
	c := e.c
	nf := 0
	// a dry run and a run that was not addressed to this store write nothing the manifest has to index
	st := &step{outDir: a.outDir, base: a.base(), digest: e.digests[a.img], overwrite: a.ow, snapshot: a.snapshot || a.dry || a.skip || a.measureOnly, ts: ts, err: err}
	class := mergeClass(pre, st)
	_, targetExists := pre[path.Join(a.outDir, st.base)]
	fs := judge(pre, post, st, &e.st)
	for _, f := range fs {
		nf++
		if e.observeOnly {
			what := e.observeWhat
			if what == "" {
				what = "alias"
			}
			c.Count(what+"-observation/"+f.rule, 1)
			if what == "alias" {
				what = "alias names"
			}
			c.Note(what+" (not judged): rule %s fired, e.g. after [%s]: %s", f.rule, strings.Join(append(append([]string(nil), hist...), a.String()), " ; "), f.detail)
			continue
		}
		wit := map[string]any{"store": s.Kind(), "history": append(append([]string(nil), hist...), a.String()), "run_error": fmt.Sprint(err),
			"state_before": abstractKey(pre, e.names), "state_after": abstractKey(post, e.names)}
		if a.ctxMode != "" && a.who == "" {
			wit["caller"] = "every run of this history is made from one long-lived endorse.Context (" + a.ctxMode + "), fields reassigned before each run"
		}
		if mb, ok := post[path.Join(a.outDir, manifestName)]; ok && len(mb) < 4000 {
			wit["manifest_after"] = string(mb)
		}
		if ms, ok := s.(*memStore); ok {
			wit["vcs_calls"] = tail(ms.v.Log, 24)
		}
		if hs, ok := s.(*hookedStore); ok {
			wit["vcs_calls"] = tail(hs.hk.log, 32)
		}
		if a.who != "" {
			wit["caller_of_this_run"] = a.who + " (the runs of this history are made in turn by fresh Contexts and by two kept ones, kept-A and kept-B, whose fields are reassigned before each of their runs)"
		}
		c.Violate(core.Violation{Kind: "oracle", Entry: entryPoint, Site: f.rule, Gen: gname, Case: i,
			Detail: fmt.Sprintf("[%s, after run %d: %s] %s", s.Kind(), len(hist)+1, a.String(), f.detail), Witness: wit})
	}
	// evidence
	outcome := "ok"
	switch {
	case err == nil:
	case a.failWrite || (a.conflicts > a.retries) || (a.flt != nil && a.flt.fired > 0):
		outcome = "failed-injected"
	case !a.snapshot && targetExists && !a.ow:
		outcome = "refused-existing-without-overwrite"
	case a.link == "dir" || a.link == "missing":
		outcome = "failed-on-non-regular-target"
	case len(w.stores) > 1:
		outcome = "failed-in-other-store"
	case nameNotStorable(s.Kind(), a):
		outcome = "failed-name-not-storable"
	default:
		outcome = "failed-other"
		if !e.observeOnly {
			c.Note("unexpected error (not judged): %s on %s: %v", a.String(), s.Kind(), err)
		}
	}
	if e.observeOnly {
		return nf, class, outcome
	}
	if a.skip {
		c.Count("stores-not-addressed-by-a-run", 1)
		return nf, "not-addressed", "not-addressed"
	}
	c.Count("runs/"+outcome, 1)
	if a.dry {
		c.Count("dry-runs/"+outcome, 1)
		c.Cell("%s|dry-run|%s|%s", s.Kind()+tag+a.tag, class, outcome)
		return nf, "dry-run", outcome
	}
	if a.measureOnly {
		c.Count("measurement-only-runs/"+outcome, 1)
		c.Cell("%s|measurement-only|%s|%s", s.Kind()+tag+a.tag, class, outcome)
		return nf, "measurement-only", outcome
	}
	if a.snapshot {
		c.Count("snapshot-mode-runs", 1)
		c.Cell("%s|snapshot-mode|%s", s.Kind()+tag, outcome)
		return nf, "snapshot-mode", outcome
	}
	if outcome == "ok" {
		e.acceptedClass[class] = true
	}
	if outcome == "refused-existing-without-overwrite" {
		e.refusals++
		if a.link == "file" {
			e.linkRefusals++
		}
	}
	if !a.ow {
		for kk := range pre {
			if strings.HasSuffix(kk, ".binarypb") {
				e.keptFiles++
			}
		}
	}
	if a.conflicts > 0 && err == nil {
		c.Count("runs/ok-after-commit-retry", 1)
	}
	kind := s.Kind() + tag + a.tag
	if a.link != "" {
		kind += "+symlink-to-" + a.link
		c.Count("symlink-candidate-runs/"+a.link+"/"+outcome, 1)
	}
	if a.tsClass != "" && outcome == "ok" && class != "fresh" {
		c.Count("merges-with-"+a.tsClass+"-timestamp/"+class, 1)
		e.oldMerges++
	}
	c.Cell("%s|%s|target-exists=%v|overwrite=%v|ts=%s|%s", kind, class, targetExists, a.ow, a.tsClass, outcome)
	c.Count("merge-class/"+class+"/"+outcome, 1)
	return nf, class, outcome
}

func tail(s []string, n int) []string {
	if len(s) > n {
		s = s[len(s)-n:]
	}
	return append([]string(nil), s...)
}

// ---- closure ----

func (e *env) closure(i int, kind string, nimg int, cands []string, older bool) {
	c := e.c
	pool := fmt.Sprintf("%d images x %d candidates", nimg, len(cands))
	tsv := "timestamp{newer}"
	if older {
		tsv = "timestamp{newer,older}"
	}
	gname := fmt.Sprintf("closure store=%s pool=%s %q x overwrite{on,off} x %s + %d snapshot-mode runs", kind, pool, cands, tsv, nimg)
	c.Begin(i, gname, entryPoint, nil)
	var acts []action
	for img := 0; img < nimg; img++ {
		for _, n := range cands {
			for _, ow := range []bool{false, true} {
				acts = append(acts, action{img: img, name: n, ow: ow, outDir: "out"})
				if older {
					acts = append(acts, action{img: img, name: n, ow: ow, outDir: "out", tsClass: "older"})
				}
			}
		}
		acts = append(acts, action{img: img, name: "a", ow: img%2 == 0, outDir: "out", snapshot: true, snapDir: "snap", imageName: fmt.Sprintf("fw%d.fd", img)})
	}
	type node struct {
		files map[string][]byte
		hist  []string
	}
	w := newWorld(kind)
	defer w.close()
	seen := map[string]bool{abstractKey(map[string][]byte{}, e.names): true}
	queue := []node{{files: map[string][]byte{}}}
	ts := int64(1700000000)
	transitions, bad, depth := 0, 0, 0
	const maxStates = 50000
	complete := true
	for len(queue) > 0 && complete {
		n := queue[0]
		queue = queue[1:]
		if len(n.hist) > depth {
			depth = len(n.hist)
		}
		for _, a := range acts {
			w.stores[0].Load(n.files)
			ts++
			when := time.Unix(ts, 0)
			if a.tsClass == "older" { // older than every "newer" run, unique by its nanoseconds
				when = time.Unix(1500000000, ts-1700000000)
			}
			if e.stepOn(i, gname, w, a, when, n.hist, nil) > 0 {
				bad++
			}
			transitions++
			post := w.stores[0].Snapshot()
			k := abstractKey(post, e.names)
			if !seen[k] {
				seen[k] = true
				c.Cell("closure-state|%s", k)
				queue = append(queue, node{files: post, hist: append(append([]string(nil), n.hist...), a.String())})
			}
			if bad >= 25 || len(seen) > maxStates {
				complete = false
				break
			}
		}
	}
	tag := kind + "/" + strings.ReplaceAll(pool, " ", "")
	c.Count("closure/"+tag+"/states", len(seen))
	c.Count("closure/"+tag+"/transitions", transitions)
	c.Max("closure/"+tag+"/depth", int64(depth))
	if complete {
		c.Note("closure over %s reached its fixpoint: %d abstract states, %d transitions (every one of %d actions from every state), depth %d: exhaustive for the pool %s x overwrite{on,off} x %s",
			kind, len(seen), transitions, len(acts), depth, pool, tsv)
	}
	c.Floor("closure-fixpoint-reached/"+tag, complete)
	c.Sample(map[string]any{"case": i, "closure": kind, "pool": pool, "states": len(seen), "transitions": transitions, "depth": depth, "complete": complete})
	c.End(i)
}

// ---- random histories ----

var namePool = []string{"", "a", "b", "rc1", "rel/rc2", "ovmf_x64_csm_20240101.00_RC00", "endorsement", "a.binarypb", "manifest", "with space", "größe-ü", "deep/er/rc3"}
var outDirPool = []string{"", "out", "rel/v1"}

func pick[T any](r *rand.Rand, pool []T, n int) []T {
	p := r.Perm(len(pool))
	out := make([]T, 0, n)
	for _, k := range p[:n] {
		out = append(out, pool[k])
	}
	return out
}

func (e *env) history(i int, kind string) {
	c := e.c
	r := c.Rand(i)
	imgs := pick(r, []int{0, 1, 2, 3, 4, 5, 6, 7}, 2+r.IntN(5))
	names := pick(r, namePool, 2+r.IntN(5))
	outs := pick(r, outDirPool, 1+r.IntN(2))
	length := 8 + r.IntN(33)
	pOw := []float64{0.25, 0.5, 0.8}[r.IntN(3)]
	// who calls: a new endorse.Context per run (the CLI), or one long-lived Context whose fields
	// are reassigned before each run (batch job, service)
	var ses *session
	caller := "fresh-context-per-run"
	if m := r.IntN(5); m >= 2 {
		ses = &session{mode: []string{"struct", "ctx", "ctx+buf"}[m-2]}
		caller = "one-reused-context(" + ses.mode + ")"
	}
	gname := fmt.Sprintf("history store=%s images=%v candidates=%q out_dirs=%q runs=%d p(overwrite)=%.2f caller=%s", kind, imgs, names, outs, length, pOw, caller)
	c.Begin(i, gname, entryPoint, nil)
	links := kind == "local-links"
	if links {
		kind = "local"
	}
	racy := kind == "mem-tx-race" // contended store: half of the runs meet a conflict caused by another process's run
	if racy {
		kind = "mem-tx"
	}
	w := newWorld(kind)
	defer w.close()
	var hist []string
	var used []time.Time
	linked := map[string]string{} // out_dir-relative candidate path -> kind of link target
	var next *action
	for s := 0; s < length; s++ {
		a := action{img: imgs[r.IntN(len(imgs))], name: names[r.IntN(len(names))], ow: r.Float64() < pOw, outDir: outs[0]}
		if len(outs) > 1 && r.IntN(5) == 0 {
			a.outDir = outs[1]
		}
		if links {
			if next != nil {
				a.name, a.outDir = next.name, next.outDir
				next = nil
			} else if r.IntN(4) == 0 {
				l := action{name: names[r.IntN(len(names))], outDir: a.outDir}
				if k := makeLink(r, w.stores[0].(*localStore).t.Root, l, s); k != "" {
					linked[path.Join(l.outDir, l.base())] = k
					hist = append(hist, fmt.Sprintf("(harness: %s becomes a symlink to %s)", path.Join(l.outDir, l.base()), k))
					c.Count("symlinks-created/"+k, 1)
					if r.IntN(2) == 0 {
						next = &l
					} else {
						a.name = l.name
					}
				}
			}
		}
		// timestamps are not monotonic: mostly newer than all earlier runs, sometimes older than
		// all of them (unique nanoseconds), sometimes exactly an earlier run's timestamp
		when := time.Unix(1700000000+int64(s), 0)
		switch t := r.IntN(20); {
		case t < 5:
			a.tsClass = "older"
			when = time.Unix(1600000000+int64(r.IntN(1000)), int64(s+1))
		case t < 8 && len(used) > 0:
			a.tsClass = "equal"
			when = used[r.IntN(len(used))]
		}
		used = append(used, when)
		if r.IntN(10) == 0 {
			a.snapshot = true
			a.snapDir = "snap"
			if r.IntN(2) == 0 && a.outDir != "" {
				a.snapDir = a.outDir // an empty snapshot directory would mean manifest mode
			}
			a.imageName = fmt.Sprintf("fw%d.fd", a.img)
		}
		switch kind {
		case "mem-tx":
			if r.IntN(7) == 0 || (racy && r.IntN(2) == 0) {
				a.conflicts, a.retries = 1+r.IntN(2), r.IntN(3)
				if racy && r.IntN(2) == 0 {
					a.retries = a.conflicts
				}
				if racy || r.IntN(3) > 0 {
					// the conflict has a cause: another process's run lands while the first attempt is in flight
					n := action{img: imgs[r.IntN(len(imgs))], name: names[r.IntN(len(names))], ow: r.IntN(10) < 7, outDir: a.outDir}
					a.concurrent, a.concTS = &n, time.Unix(1700000000+int64(s), 500_000_000)
				}
			}
		case "mem-wt":
			if !a.snapshot && r.IntN(7) == 0 {
				a.failWrite = true
			}
		}
		if k := linked[path.Join(a.outDir, a.base())]; k != "" && !a.snapshot {
			// Overwriting through a symlink is the alias case (two names, one file): never judged,
			// so never generated. Without overwrite nothing that exists may change.
			a.link, a.ow = k, false
		}
		nf := e.stepOn(i, gname, w, a, when, hist, ses)
		hist = append(hist, a.String())
		if nf > 0 {
			break // one refuted history is enough; later runs would only repeat it
		}
	}
	if links {
		kind = "local-links"
	}
	if racy {
		kind = "mem-tx-race"
	}
	c.Count("histories/"+kind, 1)
	c.Count("histories-by-caller/"+caller, 1)
	c.Max("history-length", int64(len(hist)))
	if i%17 == 0 {
		c.Sample(map[string]any{"case": i, "history": gname, "first_runs": hist[:min(4, len(hist))], "final_state": abstractKey(w.stores[0].Snapshot(), e.names)})
	}
	c.End(i)
}

// makeLink turns the (not yet existing) candidate path of l into a symlink: to an existing
// endorsement file of the same output directory, to a missing target, or to a directory. It
// returns the kind of target, or "" when nothing was created.
func makeLink(r *rand.Rand, root string, l action, serial int) string {
	dir := filepath.Join(root, filepath.FromSlash(l.outDir))
	lp := filepath.Join(dir, filepath.FromSlash(l.base()))
	if _, err := os.Lstat(lp); err == nil {
		return ""
	}
	if err := os.MkdirAll(filepath.Dir(lp), 0o755); err != nil {
		return ""
	}
	kind := []string{"file", "file", "file", "missing", "dir"}[r.IntN(5)]
	var target string
	switch kind {
	case "file":
		var cands []string
		filepath.WalkDir(dir, func(p string, d fs.DirEntry, err error) error {
			if err == nil && d.Type().IsRegular() && strings.HasSuffix(p, ".binarypb") {
				cands = append(cands, p)
			}
			return nil
		})
		if len(cands) == 0 {
			return ""
		}
		sort.Strings(cands)
		target = cands[r.IntN(len(cands))]
	case "missing":
		target = filepath.Join(dir, fmt.Sprintf("gone-%d.binarypb", serial))
	case "dir":
		target = filepath.Join(dir, fmt.Sprintf("some-dir-%d", serial))
		if err := os.MkdirAll(target, 0o755); err != nil {
			return ""
		}
	}
	rel, err := filepath.Rel(filepath.Dir(lp), target)
	if err != nil || os.Symlink(rel, lp) != nil {
		return ""
	}
	return kind
}

// aliasHistory exercises candidate names that spell the same file differently. Observation only.
func (e *env) aliasHistory(i int) {
	c := e.c
	r := c.Rand(i)
	names := []string{"a", "./a", "sub/../a", "b", "x/../b"}
	gname := fmt.Sprintf("alias-history store=mem-tx candidates=%q (observation only)", names)
	c.Begin(i, gname, entryPoint, nil)
	w := newWorld("mem-tx")
	defer w.close()
	e.observeOnly = true
	defer func() { e.observeOnly = false }()
	var hist []string
	for s := 0; s < 12; s++ {
		a := action{img: r.IntN(3), name: names[r.IntN(len(names))], ow: r.IntN(4) != 0, outDir: "out"}
		nf := e.stepOn(i, gname, w, a, time.Unix(1700000000+int64(s), 0), hist, nil)
		hist = append(hist, a.String())
		if nf > 0 {
			break
		}
	}
	c.Count("alias-observation/histories", 1)
	c.End(i)
}

// ---- oracle self-test ----

// selfTest makes a genuine two-entry store with real runs, then corrupts copies of it in the
// ways the property forbids and requires the oracle to name each corruption.
func (e *env) selfTest() bool {
	w := newWorld("mem-tx")
	const sentinel = -1
	for k, a := range []action{{img: 0, name: "a", outDir: "out"}, {img: 1, name: "b", outDir: "out"}} {
		if err, _ := e.endorse(sentinel, "oracle self-test", w, a, time.Unix(1600000000+int64(k), 0), nil); err != nil {
			return false
		}
	}
	good := w.stores[0].Snapshot()
	var st stats
	if len(judge(map[string][]byte{}, good, &step{outDir: "out", base: "b.binarypb", digest: e.digests[1], ts: time.Unix(1600000001, 0)}, &st)) != 0 {
		return false
	}
	if st.sigValid != 2 || st.entriesChecked != 2 {
		return false
	}
	clone := func() map[string][]byte {
		m := map[string][]byte{}
		for k, v := range good {
			m[k] = v
		}
		return m
	}
	manifest := func(pd ...any) []byte {
		m := &rpb.VMEndorsementMap{}
		for k := 0; k < len(pd); k += 2 {
			m.Entries = append(m.Entries, &rpb.VMEndorsementMap_Entry{Path: pd[k].(string), Digest: pd[k+1].([]byte)})
		}
		b, _ := prototext.Marshal(m)
		return b
	}
	has := func(fs []finding, rule string) bool {
		for _, f := range fs {
			if f.rule == rule {
				return true
			}
		}
		return false
	}
	type tc struct {
		rule string
		pre  map[string][]byte
		post map[string][]byte
		s    *step
	}
	var tcs []tc
	p := clone()
	p["out/manifest.textproto"] = []byte("entries { path: \"a.binarypb\" digest: ")
	tcs = append(tcs, tc{"manifest-unparsable", good, p, nil})
	p = clone()
	p["out/manifest.textproto"] = manifest("a.binarypb", e.digests[0], "a.binarypb", e.digests[1])
	tcs = append(tcs, tc{"duplicate-path", good, p, nil})
	p = clone()
	p["out/manifest.textproto"] = manifest("a.binarypb", e.digests[0], "b.binarypb", e.digests[0])
	tcs = append(tcs, tc{"duplicate-digest", good, p, nil})
	p = clone()
	delete(p, "out/a.binarypb")
	tcs = append(tcs, tc{"entry-file-missing", good, p, nil})
	p = clone()
	p["out/a.binarypb"], p["out/b.binarypb"] = good["out/b.binarypb"], good["out/a.binarypb"]
	tcs = append(tcs, tc{"entry-digest-differs-from-signed-digest", good, p, nil})
	p = clone()
	p["out/a.binarypb"] = e.images[0]
	tcs = append(tcs, tc{"entry-file-not-an-endorsement", good, p, nil})
	tcs = append(tcs, tc{"latest-run-not-indexed", good, good, &step{outDir: "out", base: "c.binarypb", digest: e.digests[2], overwrite: true, ts: time.Unix(1600000002, 0)}})
	tcs = append(tcs, tc{"latest-run-maps-to-other-file", good, good, &step{outDir: "out", base: "c.binarypb", digest: e.digests[1], overwrite: true, ts: time.Unix(1600000002, 0)}})
	tcs = append(tcs, tc{"latest-run-file-not-written-by-run", good, good, &step{outDir: "out", base: "b.binarypb", digest: e.digests[1], overwrite: true, ts: time.Unix(1600000009, 0)}})
	p = clone()
	p["out/a.binarypb"] = good["out/b.binarypb"]
	tcs = append(tcs, tc{"replaced-without-overwrite", good, p, &step{outDir: "out", base: "zz.binarypb", digest: e.digests[3], overwrite: false, err: fmt.Errorf("refused")}})
	for _, t := range tcs {
		if !has(judge(t.pre, t.post, t.s, &st), t.rule) {
			e.c.Note("oracle self-test: seeded corruption %q was not flagged", t.rule)
			return false
		}
	}
	e.c.Count("oracle-selftest/seeded-corruptions-flagged", len(tcs))
	return true
}

// ---- run ----

func run(c *core.Ctx) {
	e := newEnv(c)
	selfOK := e.selfTest()
	nh := c.N(480, 4800)
	nalias := c.N(8, 40)
	kinds := []string{"mem-tx", "local", "mem-wt", "multi", "local-links", "mem-tx-race"}
	const nclosure = 4
	base := nclosure + nh + nalias
	base4 := base + e.auditCases()
	total := base4 + e.round4Cases()
	for i := 0; i < total; i++ {
		if !c.Mine(i) {
			continue
		}
		switch {
		case i == 0:
			e.closure(i, "mem-tx", 3, []string{"", "a", "b"}, true)
		case i == 1:
			e.closure(i, "local", 3, []string{"", "a", "b"}, false)
		case i == 2:
			if c.Thorough() {
				e.closure(i, "mem-tx", 4, []string{"", "a", "b"}, true)
			}
		case i == 3:
			if c.Thorough() {
				e.closure(i, "mem-wt", 3, []string{"", "a", "b", "rel/c"}, false)
			}
		case i < nclosure+nh:
			e.history(i, kinds[i%len(kinds)])
		case i < base:
			e.aliasHistory(i)
		case i < base4:
			e.auditCase(i, i-base)
		default:
			e.round4Case(i, i-base4)
		}
	}
	e.auditEvidence()
	e.round4Evidence()
	c.Count("manifest-entries-checked", e.st.entriesChecked)
	c.Count("entry-files-with-valid-signature", e.st.sigValid)
	c.Count("entry-files-with-invalid-signature(not judged)", e.st.sigInvalid)
	c.Count("files-that-had-to-survive-a-run-without-overwrite", e.keptFiles)
	c.Max("manifest-entries", int64(e.st.maxEntries))
	var classes []string
	for k := range e.acceptedClass {
		classes = append(classes, k)
	}
	sort.Strings(classes)
	all := true
	for _, k := range []string{"fresh", "path-held", "digest-held", "same-entry", "path-and-digest-in-different-entries"} {
		if !e.acceptedClass[k] {
			all = false
		}
	}
	c.Floor("oracle-selftest-flags-seeded-corruptions", selfOK)
	c.Floor("every-merge-class-accepted-at-least-once", all)
	c.Floor("refusal-without-overwrite-observed", e.refusals > 0)
	c.Floor("merge-with-older-or-equal-timestamp-accepted", e.oldMerges > 0)
	c.Floor("run-without-overwrite-on-symlink-to-existing-endorsement-observed", e.linkRefusals > 0)
	c.Floor("existing-files-survived-runs-without-overwrite", e.keptFiles > 0)
	c.Floor("retried-run-succeeded-after-concurrent-refresh-of-a-listed-candidate", e.raceRefresh > 0)
	c.Floor("run-from-reused-context-with-another-image-than-its-first-succeeded", e.reusedChanged > 0)
}
