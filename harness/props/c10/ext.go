package c10

// ext.go: case families appended after the single-fault enumeration of c10.go (case numbers >= extBase, so the
// earlier cases keep their numbers and PRNG streams). They add the workload dimensions the enumeration never
// produced, and are judged by the same rules (health of the reloaded authority, destroy-before-record order,
// the long-lived value keeps endorsing, a later overwrite-permitted rotation succeeds):
//
//	X1  one fault per call position, under every combination of --overwrite/--keep_going on the FAULTED rotation,
//	    with the injected error drawn from error CLASSES (plain, gRPC status codes, context errors, os sentinels),
//	    with the serial override unset / zero / explicit, with the writer's open and data write as fault positions
//	    of their own, from two pre-states (after one rotation; right after bootstrap = the first rotation ever).
//	X2  outages: from a call position on, a burst of 2..3 calls or every later call of that component fails; or the
//	    command's context is cancelled / passes its deadline at that position and every later call fails with it.
//	X3  pairs of faults ACROSS attempts: a faulted rotation, then a second rotation over its leftovers that is
//	    faulted too, under every flag combination and with the same or the default serial, then the recovery
//	    rotation (with --overwrite, with and without --keep_going).

import (
	"context"
	"fmt"
	"math/big"
	"strings"
	"time"

	"github.com/google/gce-tcb-verifier/rotate"

	"verifharness/authority"
	"verifharness/core"
	"verifharness/doubles"
)

const (
	extBase = 1_000_000

	// judgeSharedCertObject: a rotation given --overwrite and a serial override equal to the subject serial of the
	// RECORDED primary's certificate (same common name => same object name) replaces that certificate object with the
	// new key's certificate before the manifest is written; a fault between the two leaves the recorded primary with
	// another key's certificate. While false such cases are generated and counted but not judged.
	judgeSharedCertObject = true
)

// serial modes of an attempt
const (
	serUnset     = iota // nil => predecessor's subject serial + 1
	serZero             // explicit 0 => the same default
	serNext             // the default value, given explicitly
	serFar              // an explicit value far from the sequence
	serSame             // the value the previous attempt used (the operator repeats the command line)
	serOfPrimary        // the recorded primary's own subject serial
)

var serNames = []string{"unset", "zero", "explicit-next", "explicit-far", "same-as-previous-attempt", "of-recorded-primary"}

type prestate struct {
	name  string
	snap  *authority.Snap
	trace []string
}

type attemptSpec struct {
	fl     flags
	serial int
	far    int64
	plan   func(f *ctl)
	desc   string
}

// extStats collects what the floors need (per shard; floors are OR-ed over shards).
type extStats struct {
	flagsReached   map[string]bool
	statusCoded    bool
	burst          bool
	ctxTripped     bool
	secondOverLeft bool
	openOrData     bool
	firstRotation  bool
	serialExplicit bool
	ran            bool
}

func newExtStats() *extStats { return &extStats{flagsReached: map[string]bool{}} }

func (st *extStats) floors(c *core.Ctx) {
	if !st.ran {
		// a shard that owns no extended case says nothing (another shard's true decides)
		for _, n := range []string{"ext-every-flag-combination-had-a-reached-fault", "ext-status-coded-or-context-error-class-reached", "ext-burst-of-2+-failing-calls-reached",
			"ext-live-context-cancelled-mid-command", "ext-second-attempt-faulted-over-leftovers", "ext-writer-open-or-data-write-fault-reached",
			"ext-first-rotation-after-bootstrap-faulted", "ext-explicit-serial-attempt-faulted"} {
			c.Floor(n, false)
		}
		return
	}
	all := true
	for _, fl := range flagCombos {
		all = all && st.flagsReached[fl.String()]
	}
	c.Floor("ext-every-flag-combination-had-a-reached-fault", all)
	c.Floor("ext-status-coded-or-context-error-class-reached", st.statusCoded)
	c.Floor("ext-burst-of-2+-failing-calls-reached", st.burst)
	c.Floor("ext-live-context-cancelled-mid-command", st.ctxTripped)
	c.Floor("ext-second-attempt-faulted-over-leftovers", st.secondOverLeft)
	c.Floor("ext-writer-open-or-data-write-fault-reached", st.openOrData)
	c.Floor("ext-first-rotation-after-bootstrap-faulted", st.firstRotation)
	c.Floor("ext-explicit-serial-attempt-faulted", st.serialExplicit)
}

func component(call string) string {
	if j := strings.Index(call, "."); j > 0 {
		return call[:j+1]
	}
	return call
}

func callKind(call string) string {
	if j := strings.Index(call, ":"); j > 0 {
		return call[:j]
	}
	return call
}

func okCall(log []doubles.Call, prefix string) bool {
	for _, l := range log {
		if strings.HasPrefix(l.Name, prefix) && (l.Result == "ok" || l.Result == "crash-after" || l.Result == faultErrorAfter) {
			return true
		}
	}
	return false
}

// extended runs the appended families for one assembly.
func extended(c *core.Ctx, ai int, a *authority.Assembly, aname string, long bool, snapBoot, snapRot *authority.Snap, t0 time.Time, st *extStats) {
	base := extBase + ai*20000
	g := &rig{a: a, long: long}
	const cn = "signingKeyCn"

	// does this shard own anything here? (avoids the two fault-free trace rotations otherwise)
	pres := []*prestate{{name: "after-one-rotation", snap: snapRot}, {name: "after-bootstrap", snap: snapBoot}}

	type xcase struct {
		idx      int
		fam      string
		pre      int
		attempts func(tr []string) []attemptSpec
		recKG    bool
	}
	var cases []xcase
	// trace lengths are not known before the fault-free runs; positions are enumerated up to a bound and cases whose
	// position lies beyond the actual trace are dropped (fixed list per trace, no PRNG involved in the selection)
	const maxPos = 40
	thor := c.Thorough()

	// ---- X1 ----
	for p := range pres {
		for i := 1; i <= maxPos; i++ {
			if !thor && (i+p)%2 != 0 {
				continue
			}
			for k := 0; k < 2; k++ {
				idx := base + p*2000 + (i-1)*2 + k
				i, k, p := i, k, p
				cases = append(cases, xcase{idx: idx, fam: "X1", pre: p, recKG: (i+k)%2 == 1, attempts: func(tr []string) []attemptSpec {
					if i > len(tr) {
						return nil
					}
					r := c.Rand(idx)
					fl := flagCombos[(i+k*2+ai+p)%4]
					ser := (i/2 + k) % 4
					if fl.ow && r.IntN(6) == 0 {
						ser = serOfPrimary
					}
					far := int64(1000 + r.IntN(9000))
					var ft fault
					if k == 0 {
						ft = fault{kind: doubles.FaultError, class: r.IntN(len(classes))}
					} else {
						ft = fault{kind: []string{doubles.FaultCrashBefore, doubles.FaultCrashAfter}[r.IntN(2)]}
						if strings.HasPrefix(tr[i-1], "storage.Writer:") || strings.HasPrefix(tr[i-1], "storage.WriteData:") {
							// a crash at the open / data write of a writer has no effect of its own; use the position for a second error class
							ft = fault{kind: doubles.FaultError, class: 1 + r.IntN(len(classes)-1)}
						}
					}
					d := fmt.Sprintf("%s at call #%d (%s in the default-serial trace)", ft.kind, i, tr[i-1])
					if ft.kind == doubles.FaultError {
						_, cname := mkErr(ft.class, tr[i-1])
						d += "[" + cname + "]"
					}
					return []attemptSpec{{fl: fl, serial: ser, far: far, desc: d, plan: func(f *ctl) { f.faults[i] = ft }}}
				}})
			}
		}
	}
	// ---- X2 ----
	// variants: 0 = the whole component is down, 1 = only this kind of request fails (opens succeed, commits do not),
	// 2 = the command's live context ends. quick runs one variant per position, thorough all three.
	for i := 1; i <= maxPos; i++ {
		for v := 0; v < 3; v++ {
			if !thor && (i+1)%3 != v {
				continue
			}
			idx := base + 5000 + (i-1)*3 + v
			i, v := i, v
			p := 0
			if i%4 == 0 {
				p = 1
			}
			cases = append(cases, xcase{idx: idx, fam: "X2", pre: p, recKG: i%2 == 0, attempts: func(tr []string) []attemptSpec {
				if i > len(tr) {
					return nil
				}
				r := c.Rand(idx)
				fl := flagCombos[(i/3+v+ai)%4]
				if v < 2 {
					scope := component(tr[i-1])
					if v == 1 {
						scope = callKind(tr[i-1])
						if strings.Contains(tr[i-1], ":") {
							scope += ":"
						}
					}
					n := []int{0, 3, 2}[(i/3)%3]
					class := r.IntN(len(classes))
					_, cname := mkErr(class, tr[i-1])
					ln := "every later call"
					if n > 0 {
						ln = fmt.Sprintf("%d calls", n)
					}
					return []attemptSpec{{fl: fl, serial: r.IntN(2), desc: fmt.Sprintf("outage of %s* from call #%d (%s): %s fail [%s]", scope, i, tr[i-1], ln, cname),
						plan: func(f *ctl) { f.outFrom, f.outLen, f.outScope, f.outClass = i, n, scope, class }}}
				}
				var cerr error = context.Canceled
				if r.IntN(2) == 0 {
					cerr = context.DeadlineExceeded
				}
				// who looks at the context: everything; only the store side (a network object store under in-process keys);
				// everything but the key manager
				storeSide := "storage."
				if a.CA == authority.MemCA {
					storeSide = "ca."
				}
				honour := [][]string{nil, {storeSide}, {"storage.", "ca.", "signer."}}[r.IntN(3)]
				hd := "every component"
				if honour != nil {
					hd = strings.Join(honour, "*,") + "*"
				}
				ser := r.IntN(2)
				return []attemptSpec{{fl: fl, serial: ser, desc: fmt.Sprintf("command context ends (%v) at call #%d (%s), observed by %s", cerr, i, tr[i-1], hd),
					plan: func(f *ctl) { f.ctxAt, f.ctxErr, f.ctxHonour = i, cerr, honour }}}
			}})
		}
	}
	// ---- X3 ----
	n3 := c.N(20, 72)
	for m := 0; m < n3; m++ {
		idx := base + 10000 + m
		m := m
		p := 0
		if m%6 == 5 {
			p = 1
		}
		cases = append(cases, xcase{idx: idx, fam: "X3", pre: p, recKG: m%2 == 1, attempts: func(tr []string) []attemptSpec {
			r := c.Rand(idx)
			create := 1
			for q, nm := range tr {
				if nm == "manager.CreateNewSigningKeyVersion" {
					create = q + 1
				}
			}
			kinds3 := []string{doubles.FaultError, doubles.FaultCrashBefore, doubles.FaultCrashAfter}
			i := create + r.IntN(len(tr)-create+1)
			f1 := fault{kind: kinds3[r.IntN(3)], class: r.IntN(len(classes))}
			fl1 := flagCombos[r.IntN(4)]
			ser1 := []int{serUnset, serNext, serFar}[r.IntN(3)]
			far := int64(1000 + r.IntN(9000))
			j := 1 + r.IntN(len(tr)+2)
			f2 := fault{kind: kinds3[r.IntN(3)], class: r.IntN(len(classes))}
			fl2 := flagCombos[m%4]
			ser2 := serUnset
			if m%3 == 0 {
				ser2 = serSame
			}
			return []attemptSpec{
				{fl: fl1, serial: ser1, far: far, desc: fmt.Sprintf("%s at call #%d (%s in the default-serial trace)", f1.kind, i, tr[i-1]), plan: func(f *ctl) { f.faults[i] = f1 }},
				{fl: fl2, serial: ser2, far: far, desc: fmt.Sprintf("then %s at call #%d of the second attempt", f2.kind, j), plan: func(f *ctl) { f.faults[j] = f2 }},
			}
		}})
	}

	mine := false
	for _, x := range cases {
		if c.Mine(x.idx) {
			mine = true
		}
	}
	if !mine {
		return
	}
	st.ran = true

	skc := func(h int, ser *big.Int) *rotate.SigningKeyContext {
		return &rotate.SigningKeyContext{SigningKeyCommonName: cn, SigningKeySerial: ser, Now: t0.Add(time.Duration(h) * time.Hour)}
	}
	// fault-free traces through the rig, one per pre-state
	for _, p := range pres {
		g.restore(p.snap)
		f0 := newCtl()
		_, err := g.rotate(f0, flags{}, skc(2, nil))
		c.Eval(1)
		p.trace = f0.names()
		if err != nil {
			c.Oracle(base, "rotate.Key", "fault-free-rotation-failed", aname+" "+p.name, "%v", err)
			return
		}
		if h := a.Health(); h != "" {
			c.Oracle(base, "rotate.Key", "unhealthy-after-fault-free-rotation", aname+" "+p.name, "%s", h)
			return
		}
		if ov := orderViolation(f0.calls(), a.CA); ov != "" {
			c.Violate(core.Violation{Kind: "oracle", Entry: "rotate.Key", Site: "destroy-before-record", Gen: aname + " " + p.name + " fault-free", Case: base, Detail: ov})
		}
		c.Max("ext-trace-length/"+aname+"/"+p.name, int64(len(p.trace)))
	}

	for _, x := range cases {
		if !c.Mine(x.idx) {
			continue
		}
		pre := pres[x.pre]
		ats := x.attempts(pre.trace)
		if ats == nil {
			continue
		}
		var descs []string
		for _, at := range ats {
			descs = append(descs, fmt.Sprintf("%s {%s serial=%s}", at.desc, at.fl, serNames[at.serial]))
		}
		gname := fmt.Sprintf("%s %s pre=%s: %s", aname, x.fam, pre.name, strings.Join(descs, "; "))
		c.Begin(x.idx, gname, "rotate.Key", nil)
		c.Count("ext/"+x.fam+"/cases", 1)
		g.restore(pre.snap)
		outcome := "ok"
		wit := map[string]any{"assembly": aname, "family": x.fam, "pre_state": pre.name}
		var prevSerial *big.Int
		stop := false
		suspect := false
		cellCall, cellClass, cellKind := "", "", ""
		leftovers := false
		for n, at := range ats {
			cur := primarySubjectSerial(a)
			next := (*big.Int)(nil)
			if cur != nil {
				next = new(big.Int).Add(cur, big.NewInt(1))
			}
			var ser *big.Int
			switch at.serial {
			case serZero:
				ser = big.NewInt(0)
			case serNext:
				ser = next
			case serFar:
				ser = big.NewInt(at.far)
			case serSame:
				ser = prevSerial
			case serOfPrimary:
				ser = cur
			}
			explicit := ser != nil && ser.Sign() != 0
			collides := explicit && cur != nil && ser.Cmp(cur) == 0 && a.CA != authority.MemCA && at.fl.ow
			if explicit {
				prevSerial = ser
			} else {
				prevSerial = next
			}
			f := newCtl()
			at.plan(f)
			rerr, crashed := doubles.RunCrashable(func() error { _, e := g.rotate(f, at.fl, skc(2+n, ser)); return e })
			c.Eval(1)
			log := f.calls()
			inj := f.injected > 0
			tag := fmt.Sprintf("attempt%d", n+1)
			wit[tag] = map[string]any{"what": at.desc, "flags": at.fl.String(), "serial": fmt.Sprint(ser), "error": fmt.Sprint(rerr), "crashed": crashed, "log": log}
			if !inj {
				c.Count("ext/"+x.fam+"/"+tag+"-fault-not-reached", 1)
			} else {
				c.Count("ext/"+x.fam+"/"+tag+"-fault-reached", 1)
				c.Count("ext/flags-of-faulted-rotation/"+at.fl.String(), 1)
				c.Count("ext/serial-of-faulted-rotation/"+serNames[at.serial], 1)
				st.flagsReached[at.fl.String()] = true
				if explicit {
					st.serialExplicit = true
				}
				for cls, k := range f.classSeen {
					c.Count("ext/error-class/"+cls, k)
					if cls != "plain" {
						st.statusCoded = true
					}
					if strings.HasPrefix(cls, "live-context:") {
						st.ctxTripped = true
					}
					if cellClass == "" || cls < cellClass {
						cellClass = cls
					}
				}
				if f.injected >= 2 {
					st.burst = true
					c.Count("ext/runs-with-2+-failing-calls", 1)
				}
				if strings.HasPrefix(f.firstFault, "storage.Writer:") || strings.HasPrefix(f.firstFault, "storage.WriteData:") {
					st.openOrData = true
				}
				if x.pre == 1 && n == 0 {
					st.firstRotation = true
				}
				if n == 1 && leftovers {
					st.secondOverLeft = true
					c.Count("ext/X3/second-attempt-faulted-over-leftovers", 1)
				}
				if rerr == nil && !crashed {
					c.Count("ext/fault-swallowed", 1)
				}
				if cellCall == "" || n == 1 {
					cellCall = callKind(f.firstFault)
					if ft, ok := f.faults[firstKey(f.faults)]; ok {
						cellKind = ft.kind
					} else if f.ctxAt > 0 {
						cellKind = "context-end"
					} else {
						cellKind = "outage"
					}
				}
			}
			if collides {
				c.Count("ext/attempts-whose-serial-names-the-recorded-primarys-certificate-object", 1)
			}
			if n == 0 && inj && okCall(log, "manager.CreateNewSigningKeyVersion") {
				leftovers = true
			}
			if crashed {
				g.drop() // the process is gone
			} else if long && inj {
				c.Eval(1)
				if msg := g.probe(t0.Add(time.Duration(2+n)*time.Hour + time.Minute)); msg != "" {
					if collides && !judgeSharedCertObject {
						suspect = true
					} else {
						outcome = "VALUE-UNUSABLE"
						c.Violate(core.Violation{Kind: "oracle", Entry: "rotate.Key", Site: "authority-value-unusable-after-failed-rotation", Gen: gname, Case: x.idx,
							Detail: fmt.Sprintf("after %s (%s, error=%v) the same authority value can no longer endorse: %s", tag, at.desc, rerr, msg), Witness: wit})
						stop = true
						break
					}
				}
			}
			if h := a.Health(); h != "" {
				if collides && !judgeSharedCertObject {
					suspect = true
					c.Count("ext/not-judged/recorded-primarys-certificate-object-replaced-before-a-fault", 1)
					c.Note("not judged (judgeSharedCertObject=false): %s %s {%s}: %s", aname, at.desc, at.fl, h)
				} else {
					outcome = "UNHEALTHY"
					c.Violate(core.Violation{Kind: "oracle", Entry: "rotate.Key", Site: "primary-unusable-after-fault", Gen: gname, Case: x.idx,
						Detail: fmt.Sprintf("after %s (%s; flags %s; serial %v; error=%v crashed=%v): %s", tag, at.desc, at.fl, ser, rerr, crashed, h), Witness: wit})
				}
				stop = true
				break
			}
			if ov := orderViolation(log, a.CA); ov != "" {
				outcome = "ORDER"
				c.Violate(core.Violation{Kind: "oracle", Entry: "rotate.Key", Site: "destroy-before-record", Gen: gname + " " + tag, Case: x.idx, Detail: ov, Witness: wit})
			}
		}
		if !stop && !suspect {
			// a later fault-free rotation allowed to overwrite leftovers must succeed
			fr := newCtl()
			rfl := flags{ow: true, kg: x.recKG}
			_, err := g.rotate(fr, rfl, skc(8, nil))
			c.Eval(1)
			c.Count("ext/recovery/"+rfl.String(), 1)
			wit["recovery"] = map[string]any{"flags": rfl.String(), "error": fmt.Sprint(err), "log": fr.calls()}
			if err != nil {
				outcome = "RECOVERY-FAILED"
				c.Violate(core.Violation{Kind: "oracle", Entry: "rotate.Key", Site: "recovery-rotation-failed", Gen: gname, Case: x.idx,
					Detail: fmt.Sprintf("fault-free rotation with %s after [%s] failed: %v", rfl, strings.Join(descs, "; "), err), Witness: wit})
			} else if h := a.Health(); h != "" {
				outcome = "UNHEALTHY-AFTER-RECOVERY"
				c.Violate(core.Violation{Kind: "oracle", Entry: "rotate.Key", Site: "unhealthy-after-recovery-rotation", Gen: gname, Case: x.idx,
					Detail: fmt.Sprintf("after recovery rotation (%s) following [%s]: %s", rfl, strings.Join(descs, "; "), h), Witness: wit})
			} else if ov := orderViolation(fr.calls(), a.CA); ov != "" {
				outcome = "ORDER"
				c.Violate(core.Violation{Kind: "oracle", Entry: "rotate.Key", Site: "destroy-before-record", Gen: gname + " recovery", Case: x.idx, Detail: ov, Witness: wit})
			}
		}
		if suspect {
			outcome = "not-judged"
		}
		if cellCall != "" {
			last := ats[len(ats)-1]
			c.Cell("%s|%s|%s|%s|%s|%s|%s|%s", x.fam, aname, pre.name, cellCall, cellKind, cellClass, last.fl, outcome)
		}
		if (x.idx/2)%25 == 0 {
			c.Sample(map[string]any{"case": gname, "outcome": outcome})
		}
		c.End(x.idx)
	}
}

func firstKey(m map[int]fault) int {
	first := 0
	for k := range m {
		if first == 0 || k < first {
			first = k
		}
	}
	return first
}
