// Package c10: signing-key rotation is failure-atomic.
package c10

import (
	"fmt"
	"math/big"
	"os"
	"strings"
	"time"

	"github.com/google/gce-tcb-verifier/rotate"

	"verifharness/authority"
	"verifharness/core"
	"verifharness/doubles"
)

func init() {
	core.Register(&core.Info{
		ID: "C10", Level: "fault_enumeration",
		Rule: "per assembly (key manager x certificate authority): bootstrap + one rotation, snapshot; a fault-free rotation is recorded to obtain the call trace T over manager/signer/CA/storage; then for EVERY position i of T and every fault kind (error return, crash before the call's effect, crash after it) the rotation is re-run from the restored snapshot with that single fault, " +
			"and (thorough) for sampled pairs of positions. After each run: the authority reloaded as a fresh process must name a primary key that is live, has a stored certificate for that key verifying under the stored root, and signs verifiably; the call log must not show DestroyKeyVersion(old) before the event that records the new primary (manifest write / CA finalize); a following fault-free rotation with overwrite must succeed and leave a healthy authority. " +
			"non-trivial = fault positions that were actually reached (the run's log shows the injected fault); distinct = (assembly, call name at the position, fault kind, outcome class). " +
			"Appended families (cases >= 1000000, same rules): X1 one fault per call position of the trace (now with the object writer's open and data write as positions of their own) with the FAULTED rotation run under every combination of --overwrite/--keep_going, the injected error drawn from error classes (plain, gRPC status codes, context errors, os sentinels), the serial override unset / 0 / explicit, from two pre-states (after one rotation; right after bootstrap); " +
			"X2 outages: a burst of 2..3 or every later call of one component fails from a position on, or the command's live context is cancelled / expires at that position; X3 pairs of faults across attempts: a faulted rotation, then a second rotation over its leftovers that is faulted too (every flag combination, same or default serial), then the recovery rotation with --overwrite, with and without --keep_going; " +
			"X4 (cases >= 2000000) ambiguous failures: each call of the rotation that changes something (key creation, signing, certificate object write, manifest write, CA finalize, old-key destruction) takes effect and THEN reports an error of a drawn class, the process living on, under the flag combinations and serial modes from both pre-states; " +
			"X5 rotations failing by refusal: the authority already holds a certificate under the key version name the new key gets (a spare certified through the authority's mutation interface with its own or with the rotation's subject; an earlier generation's certificate after bootstrap --overwrite), rotation run fault-free under every flag combination and with single faults of the four kinds at drawn call kinds; " +
			"X6 a crash between the open and the commit of the NEW certificate object's writer while the store writes a not-yet-existing object through as the calls arrive; " +
			"X7 (cases >= 3000000) several rotations by ONE process that keeps ONE key manager value (and signer) from rotation to rotation: a chain of 2..3 rotations, each with its own fault (call kind, the four fault kinds, error class, flags, serial mode), the first one's enumerated over the ways a rotation ends around the record of its key (old-key destruction refused / lost, record applied but reported failed, no fault, failure before the record), no restore in between, a crash ending the process; every rule applied after every rotation of the chain, plus: the same process can still endorse; " +
			"distinct = (family, assembly, pre-state, [what the process's previous rotation did,] first faulted call, fault kind, error class, flags, outcome)",
		Assumptions: []string{"crashes happen at call boundaries of the repository's own interfaces (object granularity), not inside a write",
			"for in-memory components a crash means the operation was cut short while the process state survives",
			"gcpkms is exercised against the KMS model by C20; here the four nonprod managers/authorities (and gcsca over memory and disk) are used",
			"error classes that read as an answer at a query (NotFound / AlreadyExists / os.ErrNotExist / os.ErrExist) are injected only at calls that change something",
			"not judged (counted, see judgeAmbiguousManifestWrite): on storage/local an error injected at the Close of the key-manifest writer leaves the written manifest in place; the retry of a process that kept its authority value after that is counted only",
			"not judged (counted, see judgeSharedCertObject): a rotation with --overwrite whose serial override equals the recorded primary's own subject serial, i.e. whose certificate object IS the recorded primary's certificate object",
			"an applied-but-failed call (X4) is produced only at calls whose effect the component applies in one piece; the component's state after it is that of a successful call",
			"X6 writes through only objects that do not exist at the writer's open; an existing object (manifest, root, a replaced certificate) is always replaced as a whole",
			"X7: a crash ends the process and with it the key manager value it kept (the in-memory key set of memkm survives, as in the other families); explicit far serial overrides of one chain are distinct",
			"not judged (counted): whether a rotation WITHOUT --overwrite over an occupied name is refused or goes through (X5) - only the state it leaves is judged; a pre-state that cannot be set up is counted, not judged"},
		ShardsQuick: 10, ShardsThor: 16, TimeoutS: 5400, TimeoutThor: 10800, Exhaustive: true, Run: run,
	})
}

var kinds = []string{doubles.FaultError, doubles.FaultCrashBefore, doubles.FaultCrashAfter}

// orderViolation checks "old key destroyed only after the new primary is recorded".
func orderViolation(log []doubles.Call, ca string) string {
	recorded := false
	for _, c := range log {
		effective := c.Result == "ok" || c.Result == "crash-after" || c.Result == faultErrorAfter
		if !effective {
			continue
		}
		if ca == authority.MemCA {
			if c.Name == "ca.Finalize" {
				recorded = true
			}
		} else if c.Name == "storage.Write:keyManifest.textproto" {
			recorded = true
		}
		if strings.HasPrefix(c.Name, "manager.DestroyKeyVersion:") && !recorded {
			return fmt.Sprintf("%s (call %d) happened before the new primary was recorded", c.Name, c.Seq)
		}
	}
	return ""
}

// judgeAmbiguousManifestWrite: over storage/local the shared store double hands the bytes to the file at Write and
// injects the error at Close, so an "error" fault at the key-manifest write leaves the NEW manifest on disk although the
// call failed (an ambiguous failure, not the "error = no effect" of the fault model). A process that keeps its authority
// value (which, correctly, still describes the old manifest) and repeats the rotation then has memkm/localkm
// CreateNewSigningKeyVersion regenerate the version name that the manifest on disk already records as primary.
// Reported to the coordinator; counted, not judged, while false (thorough tier only: long-lived value over gcsca-disk).
const judgeAmbiguousManifestWrite = true

func ambiguousManifestWrite(long bool, ca string, faults map[int]string, trace []string) bool {
	if !long || ca != authority.GcscaDisk {
		return false
	}
	for p, k := range faults {
		if k == doubles.FaultError && p >= 1 && p <= len(trace) && trace[p-1] == "storage.Write:keyManifest.textproto" {
			return true
		}
	}
	return false
}

func run(c *core.Ctx) {
	pairs := authority.Pairs()
	if !c.Thorough() {
		pairs = pairs[:4]
	}
	t0 := time.Date(2025, 1, 1, 0, 0, 0, 0, time.UTC)
	reached := 0
	xst := newExtStats()
	yst := &ext2Stats{}
	zst := &ext3Stats{}
	// development aid: VERIF_C10_ONLY=X7 runs the X7 family alone; the floors of everything skipped then fail, so such a
	// run can report violations but never a pass
	onlyX7 := os.Getenv("VERIF_C10_ONLY") == "X7"
	// every storage-backed authority is also exercised as ONE long-lived value kept across the failed rotation,
	// the probe and the recovery rotation (a service using the library), not only reloaded per command like the CLI
	type asm struct {
		km, ca string
		long   bool
	}
	var asms []asm
	for _, p := range pairs {
		asms = append(asms, asm{p[0], p[1], false})
	}
	for _, p := range pairs {
		if p[1] != authority.MemCA && (c.Thorough() || p[0] == authority.MemKM) {
			asms = append(asms, asm{p[0], p[1], true})
		}
	}
	for ai, p0 := range asms {
		p := [2]string{p0.km, p0.ca}
		// does this shard own any case of this assembly? cases are numbered ai*10000 + k
		dir, err := os.MkdirTemp("", "verif-c10-")
		if err != nil {
			panic(err)
		}
		a := authority.New(p[0], p[1], dir)
		a.LongLived = p0.long
		aname := a.Name()
		if p0.long {
			aname += "(long-lived authority value)"
		}
		var snapBoot *authority.Snap
		setup := func() error {
			if err := a.Bootstrap(&doubles.FCtl{}, authority.Opts{}, authority.DefaultBootstrap(t0)); err != nil {
				return fmt.Errorf("bootstrap: %w", err)
			}
			snapBoot = a.Snapshot()
			if _, err := a.Rotate(&doubles.FCtl{}, authority.Opts{}, &rotate.SigningKeyContext{SigningKeyCommonName: "signingKeyCn", Now: t0.Add(time.Hour)}); err != nil {
				return fmt.Errorf("first rotation: %w", err)
			}
			return nil
		}
		base := ai * 10000
		c.Begin(base, aname+" setup", "rotate.Bootstrap+rotate.Key", nil)
		if err := setup(); err != nil {
			c.Oracle(base, "rotate.Key", "fault-free-setup-failed", a.Name(), "%v", err)
			os.RemoveAll(dir)
			continue
		}
		if h := a.Health(); h != "" {
			c.Oracle(base, "rotate.Key", "unhealthy-after-fault-free-rotation", a.Name(), "%s", h)
		}
		snap := a.Snapshot()
		skc := func(h int) *rotate.SigningKeyContext {
			return &rotate.SigningKeyContext{SigningKeyCommonName: "signingKeyCn", SigningKeySerial: big.NewInt(0), Now: t0.Add(time.Duration(h) * time.Hour)}
		}
		// fault-free trace (from the same restored state every faulted run starts from)
		a.Restore(snap)
		f0 := &doubles.FCtl{}
		_, err = a.Rotate(f0, authority.Opts{}, skc(2))
		c.Eval(3)
		trace := f0.Names()
		if err != nil {
			c.Oracle(base, "rotate.Key", "fault-free-rotation-failed", a.Name(), "%v", err)
		}
		if ov := orderViolation(f0.Log, a.CA); ov != "" {
			c.Violate(core.Violation{Kind: "oracle", Entry: "rotate.Key", Site: "destroy-before-record", Gen: a.Name() + " fault-free", Case: base, Detail: ov,
				Witness: map[string]any{"trace": trace}})
		}
		if h := a.Health(); h != "" {
			c.Oracle(base, "rotate.Key", "unhealthy-after-fault-free-rotation", a.Name(), "%s", h)
		}
		c.Max("trace-length/"+aname, int64(len(trace)))
		if c.Mine(base) {
			c.Sample(map[string]any{"assembly": a.Name(), "fault_free_trace": trace})
		}
		c.End(base)

		type fs struct {
			faults map[int]string
			desc   string
		}
		var cases []fs
		for i := 1; i <= len(trace); i++ {
			for _, k := range kinds {
				cases = append(cases, fs{map[int]string{i: k}, fmt.Sprintf("%s@%d(%s)", k, i, trace[i-1])})
			}
		}
		if c.Thorough() {
			r := c.RandNamed("pairs-" + a.Name())
			for n := 0; n < 60; n++ {
				i := 1 + r.IntN(len(trace))
				j := 1 + r.IntN(len(trace))
				if i == j {
					continue
				}
				ki, kj := doubles.FaultError, kinds[r.IntN(3)]
				if i > j {
					i, j = j, i
				}
				cases = append(cases, fs{map[int]string{i: ki, j: kj}, fmt.Sprintf("%s@%d(%s)+%s@%d(%s)", ki, i, trace[i-1], kj, j, trace[min(j, len(trace))-1])})
			}
		}
		for k, fc := range cases {
			idx := base + 1 + k
			if !c.Mine(idx) || onlyX7 {
				continue
			}
			gname := aname + " " + fc.desc
			c.Begin(idx, gname, "rotate.Key", nil)
			a.Restore(snap)
			f := &doubles.FCtl{Faults: fc.faults}
			var rerr error
			rerr, crashed := doubles.RunCrashable(func() error { _, e := a.Rotate(f, authority.Opts{}, skc(2)); return e })
			c.Eval(1)
			injected := false
			for _, l := range f.Log {
				if l.Result == "injected-error" || strings.HasPrefix(l.Result, "crash") {
					injected = true
				}
			}
			outcome := "ok"
			if !injected {
				outcome = "fault-not-reached"
				c.Count("fault-not-reached", 1)
			} else {
				reached++
			}
			if injected && rerr == nil && !crashed {
				// a single error fault that the rotation swallowed: allowed only if the state is healthy (checked below)
				c.Count("fault-swallowed", 1)
			}
			wit := map[string]any{"assembly": aname, "faults": fc.desc, "rotation_error": fmt.Sprint(rerr), "crashed": crashed, "log": f.Log}
			if crashed {
				a.DropLongLived() // the process is gone
			} else if p0.long && injected {
				// same process, same authority value, no reload: endorsing must keep working after the failed rotation
				if msg := a.SignProbe(t0.Add(3 * time.Hour)); msg != "" {
					outcome = "VALUE-UNUSABLE"
					c.Violate(core.Violation{Kind: "oracle", Entry: "rotate.Key", Site: "authority-value-unusable-after-failed-rotation", Gen: gname, Case: idx,
						Detail: fmt.Sprintf("after rotation failed with %s (error=%v) the same authority value can no longer endorse: %s", fc.desc, rerr, msg), Witness: wit})
				}
				c.Eval(1)
			}
			if h := a.Health(); h != "" {
				outcome = "UNHEALTHY"
				c.Violate(core.Violation{Kind: "oracle", Entry: "rotate.Key", Site: "primary-unusable-after-fault", Gen: gname, Case: idx,
					Detail: fmt.Sprintf("after rotation with %s (error=%v crashed=%v): %s", fc.desc, rerr, crashed, h), Witness: wit})
			} else {
				if ov := orderViolation(f.Log, a.CA); ov != "" {
					outcome = "ORDER"
					c.Violate(core.Violation{Kind: "oracle", Entry: "rotate.Key", Site: "destroy-before-record", Gen: gname, Case: idx, Detail: ov, Witness: wit})
				}
				// an operator's first reaction: run the same rotation again, fault-free, WITHOUT permission to overwrite
				// (plainly, or with --keep_going). It may be refused because of leftovers — that is one more failed rotation,
				// after which the recorded primary must still be usable and nothing may have been destroyed ahead of a record.
				if retry := (k/3 + k) % 3; injected && retry != 0 {
					ro := authority.Opts{KeepGoing: retry == 1}
					fr := &doubles.FCtl{}
					_, rr := a.Rotate(fr, ro, skc(2))
					c.Eval(1)
					c.Count(fmt.Sprintf("retries-without-overwrite/keep_going=%v/refused=%v", ro.KeepGoing, rr != nil), 1)
					if rr != nil && p0.long {
						a.DropLongLived()
					}
					wit["retry_keep_going"], wit["retry_error"], wit["retry_log"] = ro.KeepGoing, fmt.Sprint(rr), fr.Log
					if h := a.Health(); h != "" {
						if ambiguousManifestWrite(p0.long, a.CA, fc.faults, trace) && !judgeAmbiguousManifestWrite {
							c.Count("not-judged/retry-on-a-kept-authority-value-after-a-manifest-write-that-failed-but-landed", 1)
							c.Note("not judged (judgeAmbiguousManifestWrite=false): %s, retry keep_going=%v returned %v: %s", gname, ro.KeepGoing, rr, h)
							c.End(idx)
							continue
						}
						outcome = "UNHEALTHY-AFTER-RETRY"
						c.Violate(core.Violation{Kind: "oracle", Entry: "rotate.Key", Site: "primary-unusable-after-retry-without-overwrite", Gen: gname, Case: idx,
							Detail: fmt.Sprintf("after %s, the rotation was run again fault-free with keep_going=%v overwrite=false (returned %v): %s", fc.desc, ro.KeepGoing, rr, h), Witness: wit})
						c.End(idx)
						continue
					}
					if ov := orderViolation(fr.Log, a.CA); ov != "" {
						outcome = "ORDER"
						c.Violate(core.Violation{Kind: "oracle", Entry: "rotate.Key", Site: "destroy-before-record", Gen: gname + " retry", Case: idx, Detail: ov, Witness: wit})
					}
				}
				// a later fault-free rotation allowed to overwrite leftovers must succeed
				f2 := &doubles.FCtl{}
				if _, err := a.Rotate(f2, authority.Opts{Overwrite: true}, skc(3)); err != nil {
					outcome = "RECOVERY-FAILED"
					c.Violate(core.Violation{Kind: "oracle", Entry: "rotate.Key", Site: "recovery-rotation-failed", Gen: gname, Case: idx,
						Detail: fmt.Sprintf("fault-free --overwrite rotation after %s failed: %v", fc.desc, err), Witness: wit})
				} else if h := a.Health(); h != "" {
					outcome = "UNHEALTHY-AFTER-RECOVERY"
					c.Violate(core.Violation{Kind: "oracle", Entry: "rotate.Key", Site: "unhealthy-after-recovery-rotation", Gen: gname, Case: idx,
						Detail: fmt.Sprintf("after recovery rotation following %s: %s", fc.desc, h), Witness: wit})
				}
				c.Eval(1)
			}
			if injected {
				first := 0
				for p := range fc.faults {
					if first == 0 || p < first {
						first = p
					}
				}
				name := trace[min(first, len(trace))-1]
				if j := strings.Index(name, ":"); j > 0 {
					name = name[:j]
				}
				c.Cell("%s|%s|%d-faults|%s|%s", aname, name, len(fc.faults), fc.faults[first], outcome)
			}
			if k%40 == 0 {
				c.Sample(map[string]any{"case": gname, "rotation_error": fmt.Sprint(rerr), "crashed": crashed, "outcome": outcome})
			}
			c.End(idx)
		}
		// appended families (case numbers >= extBase): flags, error classes, outages, context end, pairs across attempts
		a.LongLived = false
		if !onlyX7 {
			extended(c, ai, a, aname, p0.long, snapBoot, snap, t0, xst)
			// appended families (case numbers >= ext2Base): applied-but-failed calls, refusals over occupied names
			extended2(c, ai, a, aname, p0.long, snapBoot, snap, t0, yst)
		}
		// appended family (case numbers >= ext3Base): several rotations by one process keeping one key manager value
		extended3(c, ai, a, aname, p0.long, snapBoot, snap, t0, zst)
		os.RemoveAll(dir)
	}
	c.Floor("some-fault-position-reached", reached > 0)
	xst.floors(c)
	yst.floors(c)
	zst.floors(c)
}
