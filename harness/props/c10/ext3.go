package c10

// ext3.go: a case family appended after those of ext2.go (case numbers >= ext3Base). The dimension the earlier
// families never produced: SEVERAL rotations run by ONE process that keeps ONE key manager value (and its signer)
// from rotation to rotation, the way a service using the library does. Every earlier family built the key manager
// per command (as the command line does), so nothing a manager value remembers of an earlier rotation - a rotation
// that recorded its key and then failed, one that failed before recording anything, one that went through - ever met
// the next rotation.
//
//	X7  a chain of 2..3 rotations in one process over one key manager value (and, for the long-lived assemblies, one
//	    authority value), each with its own fault (call kind, fault kind of the four, error class, flags, serial mode),
//	    no restore in between; a crash ends the process (the next rotation of the chain runs in a new one). The first
//	    rotation's fault is enumerated over the ways a rotation ends after (or just before) its key became the recorded
//	    primary - the old-key destruction refused or lost, the record applied but reported as failed, no fault at all,
//	    a failure before the record - the later ones over the call kinds of a rotation. After EVERY rotation of the
//	    chain the same rules as before are applied: the authority reloaded as a fresh process is healthy, the same
//	    process can still endorse, nothing was destroyed ahead of a record; at the end a fault-free rotation allowed to
//	    overwrite leftovers succeeds in the same process.

import (
	"fmt"
	"math/big"
	"os"
	"strings"
	"time"

	"github.com/google/gce-tcb-verifier/rotate"

	"verifharness/authority"
	"verifharness/core"
	"verifharness/doubles"
)

const ext3Base = 3_000_000

// judgeStaleValueAfterAmbiguousManifestWrite: a process that keeps ONE gcsca authority value sees its manifest write
// take effect and report an error (lost acknowledgement). gcsca.Finalize returns at the failed writeManifest and keeps
// its cached (old) manifest, so the value goes on naming the OLD primary while the store records the NEW one. The next
// rotation by that process asks this value for the primary, so memkm/localkm CreateNewSigningKeyVersion REGENERATES
// the key version name the store already records as primary; if that rotation then fails before its own manifest
// write, the recorded primary's certificate is for another key. Found by X7 on the unchanged tree and reported to the
// coordinator; while false, what follows a rotation run with such a stale value is counted, not judged.
// (VERIF_C10_JUDGE_STALE=1 in the environment judges it all the same: for trying a repair out, never needed for a pass.)
const judgeStaleValueAfterAmbiguousManifestWriteDefault = true

var judgeStaleValueAfterAmbiguousManifestWrite = judgeStaleValueAfterAmbiguousManifestWriteDefault || os.Getenv("VERIF_C10_JUDGE_STALE") == "1"

// ext3Stats collects what the floors of the ext3 family need (per shard; floors are OR-ed over shards).
type ext3Stats struct {
	afterRecordedThenFailed bool // a rotation was faulted in a process whose previous rotation had recorded its key as primary and then failed
	afterUnrecorded         bool // a rotation was faulted in a process whose previous rotation had made a key and failed before recording it
	afterSuccess            bool // a rotation was faulted in a process whose previous rotation went through
	thirdInProcess          bool // a third rotation ran in a process that had run two before
}

func (st *ext3Stats) floors(c *core.Ctx) {
	c.Floor("ext3-rotation-faulted-in-the-process-of-a-rotation-that-recorded-its-key-and-then-failed", st.afterRecordedThenFailed)
	c.Floor("ext3-rotation-faulted-in-the-process-of-a-rotation-that-failed-before-recording-its-key", st.afterUnrecorded)
	c.Floor("ext3-rotation-faulted-in-the-process-of-a-rotation-that-went-through", st.afterSuccess)
	c.Floor("ext3-three-rotations-in-one-process", st.thirdInProcess)
}

type step3 struct {
	prefix string // "" = no injected fault
	kind   string
}

// recordCall is the call whose effect records the new primary.
func recordCall(ca string) string {
	if ca == authority.MemCA {
		return "ca.Finalize"
	}
	return "storage.Write:keyManifest.textproto"
}

// extended3 runs the X7 family for one assembly.
func extended3(c *core.Ctx, ai int, a *authority.Assembly, aname string, long bool, snapBoot, snapRot *authority.Snap, t0 time.Time, st *ext3Stats) {
	base := ext3Base + ai*20000
	const cn = "signingKeyCn"
	gcs := a.CA != authority.MemCA
	cat := faultCatalogue
	if !gcs {
		cat = cat[:10]
	}
	// how the first rotation of a chain ends (enumerated)
	firsts := []step3{
		{"manager.DestroyKeyVersion:", doubles.FaultError},
		{"ca.Finalize", faultErrorAfter},
		{"", ""},
		{"manager.DestroyKeyVersion:", faultErrorAfter},
		{recordCall(a.CA), faultErrorAfter},
		{"signer.Sign:", doubles.FaultError},
		{"manager.DestroyKeyVersion:", doubles.FaultCrashBefore},
		{"manager.CreateNewSigningKeyVersion", faultErrorAfter},
	}
	nEnum, nDrawn := c.N(18, 64), c.N(6, 32)
	type zcase struct {
		idx   int
		m     int
		drawn bool
	}
	var cases []zcase
	for m := 0; m < nEnum; m++ {
		cases = append(cases, zcase{idx: base + m, m: m})
	}
	for m := 0; m < nDrawn; m++ {
		cases = append(cases, zcase{idx: base + 1000 + m, m: m, drawn: true})
	}
	mine := false
	for _, x := range cases {
		if c.Mine(x.idx) {
			mine = true
		}
	}
	if !mine {
		return
	}
	g := &rig{a: a, long: long, longKM: true}
	skc := func(h int, ser *big.Int) *rotate.SigningKeyContext {
		return &rotate.SigningKeyContext{SigningKeyCommonName: cn, SigningKeySerial: ser, Now: t0.Add(time.Duration(h) * time.Hour)}
	}
	pres := []*prestate{{name: "after-one-rotation", snap: snapRot}, {name: "after-bootstrap", snap: snapBoot}}

	for _, x := range cases {
		if !c.Mine(x.idx) {
			continue
		}
		r := c.Rand(x.idx)
		// ---- the chain ----
		type attempt struct {
			step3
			nth     int
			class   int
			fl      flags
			serMode int
			far     int64
		}
		draw := func(s step3) attempt {
			at := attempt{step3: s, nth: 1, class: r.IntN(len(classes)), fl: flagCombos[r.IntN(4)], serMode: []int{serUnset, serNext, serFar}[r.IntN(3)], far: int64(1000 + r.IntN(9000))}
			if at.prefix != "" && (strings.HasPrefix(at.prefix, "storage.") && !strings.Contains(at.prefix, "keyManifest") || strings.HasPrefix(at.prefix, "ca.Primary")) {
				at.nth = 1 + r.IntN(2)
			}
			return at
		}
		var chain []attempt
		pre := pres[0]
		if x.drawn {
			if r.IntN(3) == 0 {
				pre = pres[1]
			}
			n := 2 + r.IntN(2)
			for k := 0; k < n; k++ {
				s := step3{cat[r.IntN(len(cat))], kinds4[r.IntN(len(kinds4))]}
				if r.IntN(8) == 0 {
					s = step3{}
				}
				chain = append(chain, draw(s))
			}
		} else {
			if x.m%5 == 4 {
				pre = pres[1]
			}
			chain = append(chain, draw(firsts[x.m%len(firsts)]))
			chain = append(chain, draw(step3{cat[(x.m*3+ai)%len(cat)], kinds4[r.IntN(len(kinds4))]}))
			if x.m%4 == 3 {
				chain = append(chain, draw(step3{cat[r.IntN(len(cat))], kinds4[r.IntN(len(kinds4))]}))
			}
		}
		// explicit far serials of one chain are distinct (a repeated serial override is X3's subject, not this one's)
		for k := range chain {
			chain[k].far += int64(k) * 10000
		}
		var descs []string
		for _, at := range chain {
			d := "no injected fault"
			if at.prefix != "" {
				d = fmt.Sprintf("%s at call #%d of kind %s*", at.kind, at.nth, at.prefix)
				if at.kind == doubles.FaultError || at.kind == faultErrorAfter {
					_, cname := mkErr(at.class, at.prefix)
					d += "[" + cname + "]"
				}
			}
			descs = append(descs, fmt.Sprintf("%s {%s serial=%s}", d, at.fl, serNames[at.serMode]))
		}
		gname := fmt.Sprintf("%s X7 pre=%s, one process keeping its key manager value: %s", aname, pre.name, strings.Join(descs, "; then "))
		c.Begin(x.idx, gname, "rotate.Key", nil)
		c.Count("ext3/X7/cases", 1)
		g.restore(pre.snap)
		wit := map[string]any{"assembly": aname, "family": "X7", "pre_state": pre.name}
		outcome := "ok"
		stop := false
		// what the previous rotation of THIS process did ("" = this process has not rotated yet)
		prev := ""
		inProcess := 0
		// stale: this process's kept gcsca authority value saw a manifest write that landed but reported an error, and
		// has not written a manifest since
		stale := false
		notJudged := func(what, h string) bool {
			if !stale || judgeStaleValueAfterAmbiguousManifestWrite {
				return false
			}
			c.Count("ext3/not-judged/rotation-by-a-kept-authority-value-after-a-manifest-write-that-landed-but-reported-failure", 1)
			c.Note("not judged (judgeStaleValueAfterAmbiguousManifestWrite=false): %s: %s: %s", gname, what, h)
			return true
		}
		cellPrev, cellCall, cellKind, cellClass := "", "", "", ""
		var lastFl flags
		for n, at := range chain {
			cur := primarySubjectSerial(a)
			var ser *big.Int
			switch {
			case at.serMode == serNext && cur != nil:
				ser = new(big.Int).Add(cur, big.NewInt(1))
			case at.serMode == serFar:
				ser = big.NewInt(at.far)
			}
			f := newCtl()
			if at.prefix != "" {
				f.byName = []nameFault{{prefix: at.prefix, nth: at.nth, ft: fault{kind: at.kind, class: at.class}}}
			}
			rerr, crashed := doubles.RunCrashable(func() error { _, e := g.rotate(f, at.fl, skc(2+n, ser)); return e })
			c.Eval(1)
			inProcess++
			log := f.calls()
			inj := f.injected > 0
			tag := fmt.Sprintf("rotation%d", n+1)
			wit[tag] = map[string]any{"what": descs[n], "serial": fmt.Sprint(ser), "error": fmt.Sprint(rerr), "crashed": crashed, "process_had_rotated": prev, "log": log}
			if inProcess >= 3 {
				st.thirdInProcess = true
			}
			if inj {
				c.Count("ext3/X7/"+tag+"-fault-reached", 1)
				c.Count("ext3/X7/faulted-in-a-process-whose-previous-rotation/"+orNone(prev), 1)
				switch prev {
				case "recorded-then-failed":
					st.afterRecordedThenFailed = true
				case "failed-unrecorded-with-new-key":
					st.afterUnrecorded = true
				case "went-through":
					st.afterSuccess = true
				}
				cellPrev, cellCall, cellKind, lastFl = orNone(prev), callKind(f.firstFault), at.kind, at.fl
				cellClass = ""
				for cls, k := range f.classSeen {
					c.Count("ext3/error-class/"+cls, k)
					if cellClass == "" || cls < cellClass {
						cellClass = cls
					}
				}
				if rerr == nil && !crashed {
					c.Count("ext3/fault-swallowed", 1)
				}
			} else if at.prefix != "" {
				c.Count("ext3/X7/"+tag+"-fault-not-reached", 1)
			}
			failed := inj || rerr != nil || crashed
			site := "primary-unusable-after-fault"
			if !inj && rerr != nil {
				site = "primary-unusable-after-refused-rotation"
			} else if !failed {
				site = "unhealthy-after-fault-free-rotation"
			}
			if crashed {
				g.drop() // the process is gone, and with it its key manager and authority values
				prev, inProcess = "", 0
			} else {
				// same process, same key manager value (and authority value when long-lived): endorsing must keep working
				c.Eval(1)
				if msg := g.probe(t0.Add(time.Duration(2+n)*time.Hour + time.Minute)); msg != "" {
					if notJudged(tag+" probe", msg) {
						outcome, stop = "not-judged", true
						break
					}
					outcome, stop = "PROCESS-CANNOT-ENDORSE", true
					c.Violate(core.Violation{Kind: "oracle", Entry: "rotate.Key", Site: "process-cannot-endorse-after-rotation", Gen: gname, Case: x.idx,
						Detail: fmt.Sprintf("after %s (%s; error=%v; this process's previous rotation: %s) the process, with the key manager value it kept, can no longer endorse: %s", tag, descs[n], rerr, orNone(prev), msg), Witness: wit})
					break
				}
				switch {
				case rerr == nil && !inj:
					prev = "went-through"
				case okCall(log, recordCall(a.CA)):
					prev = "recorded-then-failed"
				case okCall(log, "manager.CreateNewSigningKeyVersion"):
					prev = "failed-unrecorded-with-new-key"
				default:
					prev = "failed-before-key-creation"
				}
			}
			if h := a.Health(); h != "" {
				if notJudged(tag, h) {
					outcome, stop = "not-judged", true
					break
				}
				outcome, stop = "UNHEALTHY", true
				c.Violate(core.Violation{Kind: "oracle", Entry: "rotate.Key", Site: site, Gen: gname, Case: x.idx,
					Detail: fmt.Sprintf("after %s (%s; serial %v; error=%v crashed=%v): %s", tag, descs[n], ser, rerr, crashed, h), Witness: wit})
				break
			}
			if ov := orderViolation(log, a.CA); ov != "" {
				outcome = "ORDER"
				c.Violate(core.Violation{Kind: "oracle", Entry: "rotate.Key", Site: "destroy-before-record", Gen: gname + " " + tag, Case: x.idx, Detail: ov, Witness: wit})
			}
			// the staleness of the kept authority value as the NEXT rotation of this process will meet it
			if crashed || !long {
				stale = false
			} else {
				for _, l := range log {
					if l.Name == "storage.Write:keyManifest.textproto" {
						stale = l.Result == faultErrorAfter
					}
				}
			}
		}
		if !stop && stale && !judgeStaleValueAfterAmbiguousManifestWrite {
			// the recovery rotation would be run with the stale value too
			c.Count("ext3/not-judged/recovery-rotation-by-a-kept-authority-value-after-a-manifest-write-that-landed-but-reported-failure", 1)
			stop, outcome = true, "recovery-not-judged"
		}
		if !stop {
			// a later fault-free rotation allowed to overwrite leftovers must succeed (same process)
			fr := newCtl()
			rfl := flags{ow: true, kg: x.m%2 == 1}
			_, err := g.rotate(fr, rfl, skc(8, nil))
			c.Eval(1)
			c.Count("ext3/recovery/"+rfl.String(), 1)
			wit["recovery"] = map[string]any{"flags": rfl.String(), "error": fmt.Sprint(err), "log": fr.calls()}
			if err != nil {
				outcome = "RECOVERY-FAILED"
				c.Violate(core.Violation{Kind: "oracle", Entry: "rotate.Key", Site: "recovery-rotation-failed", Gen: gname, Case: x.idx,
					Detail: fmt.Sprintf("fault-free rotation with %s after [%s] failed: %v", rfl, strings.Join(descs, "; then "), err), Witness: wit})
			} else if h := a.Health(); h != "" {
				outcome = "UNHEALTHY-AFTER-RECOVERY"
				c.Violate(core.Violation{Kind: "oracle", Entry: "rotate.Key", Site: "unhealthy-after-recovery-rotation", Gen: gname, Case: x.idx,
					Detail: fmt.Sprintf("after recovery rotation (%s) following [%s]: %s", rfl, strings.Join(descs, "; then "), h), Witness: wit})
			} else if msg := g.probe(t0.Add(8*time.Hour + time.Minute)); msg != "" {
				outcome = "PROCESS-CANNOT-ENDORSE"
				c.Violate(core.Violation{Kind: "oracle", Entry: "rotate.Key", Site: "process-cannot-endorse-after-rotation", Gen: gname + " recovery", Case: x.idx,
					Detail: fmt.Sprintf("after the recovery rotation (%s) following [%s] the process can no longer endorse: %s", rfl, strings.Join(descs, "; then "), msg), Witness: wit})
			} else if ov := orderViolation(fr.calls(), a.CA); ov != "" {
				outcome = "ORDER"
				c.Violate(core.Violation{Kind: "oracle", Entry: "rotate.Key", Site: "destroy-before-record", Gen: gname + " recovery", Case: x.idx, Detail: ov, Witness: wit})
			}
		}
		if cellCall != "" {
			c.Cell("X7|%s|%s|prev=%s|%s|%s|%s|%s|%s", aname, pre.name, cellPrev, cellCall, cellKind, cellClass, lastFl, outcome)
		}
		if x.idx%5 == 0 {
			c.Sample(map[string]any{"case": gname, "outcome": outcome})
		}
		c.End(x.idx)
	}
}

func orNone(s string) string {
	if s == "" {
		return "none-yet"
	}
	return s
}
