package c10

// ext2.go: case families appended after those of ext.go (case numbers >= ext2Base). Two dimensions the earlier
// families never produced, judged by the same rules (health of the reloaded authority, the long-lived value keeps
// endorsing, destroy-before-record order, a later overwrite-permitted rotation succeeds):
//
//	X4  AMBIGUOUS failures: a call that changes something TAKES EFFECT and then reports an error (lost
//	    acknowledgement, deadline passing after the component applied the request), at every such call of a rotation
//	    (new key creation, signing, certificate object write, manifest write, CA finalize, old-key destruction), under
//	    the flag combinations, error classes and serial modes, from both pre-states. The earlier fault kinds were
//	    "error = no effect" and crashes; a process that LIVES ON after an applied-but-failed step (and may react to the
//	    error) was never produced.
//	X5  rotations that fail by REFUSAL, not by an injected fault: the authority already holds a certificate under the
//	    key version name the rotation's new key gets (a spare certified ahead of time through the authority's own
//	    mutation interface, with a subject of its own or with the subject the rotation will use; or the certificate of an
//	    earlier generation's key version after a re-bootstrap with --overwrite). Rotation is run fault-free under every
//	    flag combination (without --overwrite it is refused at the certificate upload / finalize step = a failed
//	    rotation; with --overwrite it goes through) and with single faults of all four kinds at sampled calls.
//	X6  a crash BETWEEN the open and the commit of the new certificate object's writer while the store writes a new
//	    object through as the calls arrive (storage/local does; the other families hand an object to the store as a
//	    whole at Close). Only objects that do not exist yet are written through: no existing object is ever torn.

import (
	"context"
	"fmt"
	"math/big"
	"strings"
	"time"

	"github.com/google/gce-tcb-verifier/keys"
	"github.com/google/gce-tcb-verifier/rotate"
	sops "github.com/google/gce-tcb-verifier/sign/ops"

	"verifharness/authority"
	"verifharness/core"
	"verifharness/doubles"
)

const ext2Base = 2_000_000

// ext2Stats collects what the floors of the ext2 families need (per shard; floors are OR-ed over shards).
type ext2Stats struct {
	lostAckDestroy    bool // an applied-but-failed old-key destruction was produced
	lostAckRecord     bool // an applied-but-failed manifest write / CA finalize was produced
	refusedOccupied   bool // a fault-free rotation without --overwrite was refused over an occupied name
	overwroteOccupied bool // a fault-free rotation with --overwrite went through over an occupied name
	faultedOccupied   bool // a fault was reached in a rotation over an occupied name
	crashMidObject    bool // a crash between the open and the commit of a new object written through to the store
}

func (st *ext2Stats) floors(c *core.Ctx) {
	c.Floor("ext2-applied-but-failed-old-key-destruction-produced", st.lostAckDestroy)
	c.Floor("ext2-applied-but-failed-record-of-new-primary-produced", st.lostAckRecord)
	c.Floor("ext2-rotation-without-overwrite-refused-over-occupied-name", st.refusedOccupied)
	c.Floor("ext2-rotation-with-overwrite-succeeded-over-occupied-name", st.overwroteOccupied)
	c.Floor("ext2-fault-reached-in-rotation-over-occupied-name", st.faultedOccupied)
	c.Floor("ext2-crash-between-open-and-commit-of-a-new-object-reached", st.crashMidObject)
}

// commitKinds are the calls of a rotation whose effect is applied in one piece (slot numbers are fixed; the two
// storage slots do not exist over memca).
var commitKinds = []string{
	"manager.CreateNewSigningKeyVersion",
	"signer.Sign:",
	"ca.Finalize",
	"manager.DestroyKeyVersion:",
	"storage.Write:" + authority.CertDir + "/",
	"storage.Write:keyManifest.textproto",
}

// faultCatalogue lists the call kinds of a rotation (the first 10 exist in every assembly, the rest over gcsca only).
var faultCatalogue = []string{
	"manager.CreateNewSigningKeyVersion", "ca.PrimarySigningKeyVersion", "ca.PrimaryRootKeyVersion", "ca.CABundle:", "ca.Certificate:",
	"signer.PublicKey:", "manager.CertificateTemplate", "signer.Sign:", "ca.Finalize", "manager.DestroyKeyVersion:",
	"storage.Read:", "storage.Exists:", "storage.Writer:", "storage.WriteData:", "storage.Write:" + authority.CertDir + "/", "storage.Write:keyManifest.textproto",
}

var kinds4 = []string{doubles.FaultError, doubles.FaultCrashBefore, doubles.FaultCrashAfter, faultErrorAfter}

// certifySpare does what an operator provisioning a spare signing key does, in a process of its own: the key manager
// creates the next key version, the root certifies it with the given subject, and the certificate is added to the
// authority through its mutation interface WITHOUT making the key primary. Returns the spare's key version name.
func (g *rig) certifySpare(cn string, serial *big.Int, now time.Time) (string, error) {
	defer g.drop()
	ctx, err := g.command(newCtl(), flags{ow: true})
	if err != nil {
		return "", err
	}
	ctx = rotate.NewSigningKeyContext(ctx, &rotate.SigningKeyContext{SigningKeyCommonName: cn, SigningKeySerial: serial, Now: now})
	kc, err := keys.FromContext(ctx)
	if err != nil {
		return "", err
	}
	name, err := kc.Manager.CreateNewSigningKeyVersion(ctx)
	if err != nil {
		return "", err
	}
	root, err := kc.CA.PrimaryRootKeyVersion(ctx)
	if err != nil {
		return "", err
	}
	issuer, err := sops.IssuerCertFromBundle(ctx, kc.CA, root)
	if err != nil {
		return "", err
	}
	mut := kc.CA.NewMutation()
	if _, err := rotate.InternalSignAndUpload(ctx, &rotate.InternalSignAndUploadRequest{Mutation: mut, Issuer: issuer, SubjectKeyVersionName: name, IssuerKeyVersionName: root}); err != nil {
		return "", err
	}
	return name, kc.CA.Finalize(ctx, mut)
}

type prestate2 struct {
	name     string
	occupied bool
	build    func() error // brings the assembly into the state (from a restored snapshot)
	snap     *authority.Snap
	tried    bool
	err      error
}

// extended2 runs the X4 / X5 families for one assembly.
func extended2(c *core.Ctx, ai int, a *authority.Assembly, aname string, long bool, snapBoot, snapRot *authority.Snap, t0 time.Time, st *ext2Stats) {
	base := ext2Base + ai*20000
	g := &rig{a: a, long: long}
	const cn = "signingKeyCn"
	thor := c.Thorough()
	gcs := a.CA != authority.MemCA

	spare := func(from *authority.Snap, sameSubject bool) func() error {
		return func() error {
			g.restore(from)
			scn, ser := "spareCn", big.NewInt(int64(20000+ai))
			if sameSubject {
				cur := primarySubjectSerial(a)
				if cur == nil {
					return fmt.Errorf("recorded primary's subject serial unreadable")
				}
				scn, ser = cn, new(big.Int).Add(cur, big.NewInt(1))
			}
			name, err := g.certifySpare(scn, ser, t0.Add(90*time.Minute))
			if err != nil {
				return fmt.Errorf("certifying a spare: %w", err)
			}
			if h := a.Health(); h != "" {
				return fmt.Errorf("after certifying spare %q: %s", name, h)
			}
			if _, err := a.FreshCA().Certificate(context.Background(), name); err != nil {
				return fmt.Errorf("spare %q has no certificate: %w", name, err)
			}
			return nil
		}
	}
	pres := []*prestate2{
		{name: "after-one-rotation", snap: snapRot, tried: true},
		{name: "after-bootstrap", snap: snapBoot, tried: true},
		{name: "after-one-rotation+spare-certified-under-next-name", occupied: true, build: spare(snapRot, false)},
		{name: "after-one-rotation+spare-with-the-rotation's-subject-under-next-name", occupied: true, build: spare(snapRot, true)},
		{name: "after-bootstrap+spare-certified-under-next-name", occupied: true, build: spare(snapBoot, false)},
		{name: "re-bootstrapped-with-overwrite-over-a-rotated-authority", occupied: true, build: func() error {
			g.restore(snapRot)
			if err := a.Bootstrap(&doubles.FCtl{}, authority.Opts{Overwrite: true}, authority.DefaultBootstrap(t0.Add(90*time.Minute))); err != nil {
				return fmt.Errorf("bootstrap --overwrite: %w", err)
			}
			if h := a.Health(); h != "" {
				return fmt.Errorf("after bootstrap --overwrite: %s", h)
			}
			return nil
		}},
	}
	getPre := func(p int) *prestate2 {
		ps := pres[p]
		if !ps.tried {
			ps.tried = true
			if ps.err = ps.build(); ps.err == nil {
				ps.snap = a.Snapshot()
			} else {
				// setting the scene is not the subject of this property: counted and noted, never judged
				c.Count("ext2/pre-state-unavailable/"+ps.name, 1)
				c.Note("ext2: %s: pre-state %q could not be set up: %v", aname, ps.name, ps.err)
			}
			c.Eval(1)
		}
		return ps
	}

	type ycase struct {
		idx    int
		fam    string
		pre    int
		fl     flags
		prefix string // "" = no injected fault
		nth    int
		kind   string // "" = drawn from the case's PRNG
		recKG  bool
		drawn  bool // call kind, flags drawn from the case's PRNG
		stream bool // objects that do not exist yet are written through as the calls arrive
	}
	var cases []ycase
	// ---- X4 ----
	for ki, ck := range commitKinds {
		if strings.HasPrefix(ck, "storage.") && !gcs {
			continue
		}
		for p := 0; p < 2; p++ {
			for fi, fl := range flagCombos {
				if !thor && (fi+ki+p+ai)%2 != 0 {
					continue
				}
				cases = append(cases, ycase{idx: base + (ki*2+p)*4 + fi, fam: "X4", pre: p, fl: fl, prefix: ck, nth: 1, kind: faultErrorAfter, recKG: (ki+fi)%2 == 1})
			}
		}
	}
	// ---- X5 ----
	for pi := 2; pi < len(pres); pi++ {
		for fi, fl := range flagCombos {
			cases = append(cases, ycase{idx: base + 1000 + (pi-2)*4 + fi, fam: "X5", pre: pi, fl: fl, recKG: (pi+fi)%2 == 1})
		}
		nf := c.N(6, 24)
		for m := 0; m < nf; m++ {
			cases = append(cases, ycase{idx: base + 2000 + (pi-2)*100 + m, fam: "X5", pre: pi, drawn: true, recKG: m%2 == 1})
		}
	}

	// ---- X6 ----
	if gcs {
		n := 0
		for p := 0; p < 2; p++ {
			for _, pk := range [][2]string{{"storage.Writer:" + authority.CertDir + "/", doubles.FaultCrashAfter}, {"storage.WriteData:" + authority.CertDir + "/", doubles.FaultCrashBefore},
				{"storage.WriteData:" + authority.CertDir + "/", doubles.FaultCrashAfter}, {"storage.Write:" + authority.CertDir + "/", doubles.FaultCrashBefore}} {
				cases = append(cases, ycase{idx: base + 3000 + n, fam: "X6", pre: p, fl: flagCombos[(n+p+ai)%4], prefix: pk[0], nth: 1, kind: pk[1], recKG: n%2 == 1, stream: true})
				n++
			}
		}
	}

	mine := false
	for _, x := range cases {
		if c.Mine(x.idx) {
			mine = true
		}
	}
	if !mine {
		return
	}
	skc := func(h int, ser *big.Int) *rotate.SigningKeyContext {
		return &rotate.SigningKeyContext{SigningKeyCommonName: cn, SigningKeySerial: ser, Now: t0.Add(time.Duration(h) * time.Hour)}
	}

	for _, x := range cases {
		if !c.Mine(x.idx) {
			continue
		}
		r := c.Rand(x.idx)
		class := r.IntN(len(classes))
		serMode := []int{serUnset, serNext, serFar}[r.IntN(3)]
		far := int64(1000 + r.IntN(9000))
		if x.drawn {
			cat := faultCatalogue
			if !gcs {
				cat = cat[:10]
			}
			x.prefix = cat[r.IntN(len(cat))]
			x.kind = kinds4[r.IntN(len(kinds4))]
			x.fl = flagCombos[r.IntN(4)]
			x.nth = 1
			if strings.HasPrefix(x.prefix, "storage.") && !strings.Contains(x.prefix, "keyManifest") || strings.HasPrefix(x.prefix, "ca.Primary") {
				x.nth = 1 + r.IntN(2)
			}
		}
		pre := getPre(x.pre)
		what := "no injected fault"
		if x.prefix != "" {
			_, cname := mkErr(class, x.prefix)
			what = fmt.Sprintf("%s at call #%d of kind %s*", x.kind, x.nth, x.prefix)
			if x.kind == doubles.FaultError || x.kind == faultErrorAfter {
				what += "[" + cname + "]"
			}
		}
		if x.stream {
			what += " while the new certificate object is written through to the store as the calls arrive"
		}
		gname := fmt.Sprintf("%s %s pre=%s: %s {%s serial=%s}", aname, x.fam, pre.name, what, x.fl, serNames[serMode])
		c.Begin(x.idx, gname, "rotate.Key", nil)
		c.Count("ext2/"+x.fam+"/cases", 1)
		if pre.err != nil {
			c.Count("ext2/"+x.fam+"/not-run-pre-state-unavailable", 1)
			c.End(x.idx)
			continue
		}
		g.restore(pre.snap)
		cur := primarySubjectSerial(a)
		var ser *big.Int
		switch {
		case serMode == serNext && cur != nil:
			ser = new(big.Int).Add(cur, big.NewInt(1))
		case serMode == serFar:
			ser = big.NewInt(far)
		}
		f := newCtl()
		f.streamNew = x.stream
		if x.prefix != "" {
			f.byName = []nameFault{{prefix: x.prefix, nth: x.nth, ft: fault{kind: x.kind, class: class}}}
		}
		rerr, crashed := doubles.RunCrashable(func() error { _, e := g.rotate(f, x.fl, skc(2, ser)); return e })
		c.Eval(1)
		log := f.calls()
		inj := f.injected > 0
		wit := map[string]any{"assembly": aname, "family": x.fam, "pre_state": pre.name, "what": what, "flags": x.fl.String(), "serial": fmt.Sprint(ser),
			"error": fmt.Sprint(rerr), "crashed": crashed, "log": log}
		outcome, cellKind, cellClass := "ok", "none", ""
		switch {
		case inj:
			cellKind = x.kind
			c.Count("ext2/"+x.fam+"/fault-reached", 1)
			c.Count("ext2/flags-of-faulted-rotation/"+x.fl.String(), 1)
			for cls, k := range f.classSeen {
				c.Count("ext2/error-class/"+cls, k)
				if cellClass == "" || cls < cellClass {
					cellClass = cls
				}
			}
			for _, l := range log {
				if l.Result == faultErrorAfter {
					c.Count("ext2/applied-but-failed/"+callKind(l.Name), 1)
					if strings.HasPrefix(l.Name, "manager.DestroyKeyVersion:") {
						st.lostAckDestroy = true
					}
					if l.Name == "ca.Finalize" || l.Name == "storage.Write:keyManifest.textproto" {
						st.lostAckRecord = true
					}
				}
			}
			if pre.occupied {
				st.faultedOccupied = true
			}
			if x.stream && crashed {
				st.crashMidObject = true
				c.Count("ext2/X6/crash-between-open-and-commit-of-the-new-certificate-object/"+callKind(f.firstFault), 1)
			}
			if rerr == nil && !crashed {
				c.Count("ext2/fault-swallowed", 1)
			}
		case x.prefix != "":
			c.Count("ext2/"+x.fam+"/fault-not-reached", 1)
		}
		if !inj && pre.occupied {
			switch {
			case rerr != nil && !x.fl.ow:
				cellKind = "refused"
				st.refusedOccupied = true
				c.Count("ext2/X5/refused-without-overwrite/"+x.fl.String(), 1)
			case rerr == nil && x.fl.ow:
				st.overwroteOccupied = true
				c.Count("ext2/X5/went-through-with-overwrite/"+x.fl.String(), 1)
			default:
				c.Count(fmt.Sprintf("ext2/X5/other/%s/error=%v", x.fl, rerr != nil), 1)
			}
		}
		failed := inj || rerr != nil || crashed
		site := "primary-unusable-after-fault"
		if !inj && rerr != nil {
			site = "primary-unusable-after-refused-rotation"
		} else if !failed {
			site = "unhealthy-after-fault-free-rotation"
		}
		stop := false
		if crashed {
			g.drop() // the process is gone
		} else if long && failed {
			// same process, same authority value, no reload: endorsing must keep working after the failed rotation
			c.Eval(1)
			if msg := g.probe(t0.Add(2*time.Hour + time.Minute)); msg != "" {
				outcome, stop = "VALUE-UNUSABLE", true
				c.Violate(core.Violation{Kind: "oracle", Entry: "rotate.Key", Site: "authority-value-unusable-after-failed-rotation", Gen: gname, Case: x.idx,
					Detail: fmt.Sprintf("after the rotation (%s; error=%v) the same authority value can no longer endorse: %s", what, rerr, msg), Witness: wit})
			}
		}
		if !stop {
			if h := a.Health(); h != "" {
				outcome, stop = "UNHEALTHY", true
				c.Violate(core.Violation{Kind: "oracle", Entry: "rotate.Key", Site: site, Gen: gname, Case: x.idx,
					Detail: fmt.Sprintf("after the rotation (%s; flags %s; serial %v; error=%v crashed=%v): %s", what, x.fl, ser, rerr, crashed, h), Witness: wit})
			} else if ov := orderViolation(log, a.CA); ov != "" {
				outcome = "ORDER"
				c.Violate(core.Violation{Kind: "oracle", Entry: "rotate.Key", Site: "destroy-before-record", Gen: gname, Case: x.idx, Detail: ov, Witness: wit})
			}
		}
		if !stop {
			// a later fault-free rotation allowed to overwrite leftovers must succeed
			fr := newCtl()
			rfl := flags{ow: true, kg: x.recKG}
			_, err := g.rotate(fr, rfl, skc(8, nil))
			c.Eval(1)
			c.Count("ext2/recovery/"+rfl.String(), 1)
			wit["recovery"] = map[string]any{"flags": rfl.String(), "error": fmt.Sprint(err), "log": fr.calls()}
			if err != nil {
				outcome = "RECOVERY-FAILED"
				c.Violate(core.Violation{Kind: "oracle", Entry: "rotate.Key", Site: "recovery-rotation-failed", Gen: gname, Case: x.idx,
					Detail: fmt.Sprintf("fault-free rotation with %s after the rotation with [%s] (error=%v) failed: %v", rfl, what, rerr, err), Witness: wit})
			} else if h := a.Health(); h != "" {
				outcome = "UNHEALTHY-AFTER-RECOVERY"
				c.Violate(core.Violation{Kind: "oracle", Entry: "rotate.Key", Site: "unhealthy-after-recovery-rotation", Gen: gname, Case: x.idx,
					Detail: fmt.Sprintf("after recovery rotation (%s) following [%s]: %s", rfl, what, h), Witness: wit})
			} else if ov := orderViolation(fr.calls(), a.CA); ov != "" {
				outcome = "ORDER"
				c.Violate(core.Violation{Kind: "oracle", Entry: "rotate.Key", Site: "destroy-before-record", Gen: gname + " recovery", Case: x.idx, Detail: ov, Witness: wit})
			}
		}
		if inj || (pre.occupied && x.prefix == "") {
			ck := "none"
			if inj {
				ck = callKind(f.firstFault)
			}
			c.Cell("%s|%s|%s|%s|%s|%s|%s|%s", x.fam, aname, pre.name, ck, cellKind, cellClass, x.fl, outcome)
		}
		if x.idx%7 == 0 {
			c.Sample(map[string]any{"case": gname, "rotation_error": fmt.Sprint(rerr), "crashed": crashed, "outcome": outcome})
		}
		c.End(x.idx)
	}
}
