package c10

// rig.go: a second wiring of the same assemblies with c10's own recording doubles. Compared with the shared doubles
// it can (a) answer an injected fault with an error of a chosen CLASS (plain, gRPC status codes, context errors,
// os sentinel errors), (b) fail a BURST of consecutive calls or every call from a position on (an outage of one
// component or of everything), (c) cancel / expire the command's context at a position (every later call then
// fails with the context's error, as real storage and KMS clients do), (d) fault the OPEN and the data WRITE of an
// object writer, not only its Close. The state (keys, certificates, store, directories), snapshots and the health
// oracle are the ones of authority.Assembly.

import (
	"context"
	"crypto"
	crand "crypto/rand"
	"crypto/rsa"
	"crypto/sha256"
	"crypto/x509"
	"fmt"
	"io"
	"math/big"
	"os"
	"path/filepath"
	"strings"
	"sync"
	"time"

	"github.com/google/gce-tcb-verifier/cmd/output"
	"github.com/google/gce-tcb-verifier/endorse"
	"github.com/google/gce-tcb-verifier/keys"
	epb "github.com/google/gce-tcb-verifier/proto/endorsement"
	"github.com/google/gce-tcb-verifier/rotate"
	"github.com/google/gce-tcb-verifier/sign/gcsca"
	"github.com/google/gce-tcb-verifier/sign/nonprod"
	sops "github.com/google/gce-tcb-verifier/sign/ops"
	styp "github.com/google/gce-tcb-verifier/sign/types"
	"github.com/google/gce-tcb-verifier/storage/local"
	"github.com/google/gce-tcb-verifier/storage/storagei"
	"github.com/google/gce-tcb-verifier/testing/nonprod/localkm"
	"github.com/google/gce-tcb-verifier/testing/nonprod/memkm"

	"google.golang.org/grpc/codes"
	"google.golang.org/grpc/status"
	"google.golang.org/protobuf/proto"

	"verifharness/authority"
	"verifharness/core"
	"verifharness/doubles"
)

// ---- error classes ----

type errClass struct {
	name string
	mk   func(call string) error
	// effectOnly classes read as an ANSWER ("not there", "already there") at a query; they are faults only at calls
	// that are asked to change something.
	effectOnly bool
}

var classes = []errClass{
	{name: "plain", mk: func(n string) error { return fmt.Errorf("%s: %w", n, doubles.ErrInjected) }},
	{name: "grpc-Unavailable", mk: func(n string) error { return status.Errorf(codes.Unavailable, "%s: injected fault", n) }},
	{name: "grpc-DeadlineExceeded", mk: func(n string) error { return status.Errorf(codes.DeadlineExceeded, "%s: injected fault", n) }},
	{name: "grpc-Aborted", mk: func(n string) error { return status.Errorf(codes.Aborted, "%s: injected fault", n) }},
	{name: "grpc-Internal", mk: func(n string) error { return status.Errorf(codes.Internal, "%s: injected fault", n) }},
	{name: "ctx-deadline", mk: func(n string) error { return fmt.Errorf("%s: %w", n, context.DeadlineExceeded) }},
	{name: "ctx-canceled", mk: func(n string) error { return fmt.Errorf("%s: %w", n, context.Canceled) }},
	{name: "grpc-AlreadyExists", effectOnly: true, mk: func(n string) error { return status.Errorf(codes.AlreadyExists, "%s: injected fault", n) }},
	{name: "grpc-NotFound", effectOnly: true, mk: func(n string) error { return status.Errorf(codes.NotFound, "%s: injected fault", n) }},
	{name: "os-ErrExist", effectOnly: true, mk: func(n string) error { return fmt.Errorf("%s: %w", n, os.ErrExist) }},
	{name: "os-ErrNotExist", effectOnly: true, mk: func(n string) error { return fmt.Errorf("%s: %w", n, os.ErrNotExist) }},
}

// effectCall reports whether a call asks its component to change something.
func effectCall(name string) bool {
	for _, p := range []string{"storage.Writer:", "storage.WriteData:", "storage.Write:", "manager.CreateNewSigningKeyVersion", "manager.DestroyKeyVersion:", "signer.Sign:", "ca.Finalize"} {
		if strings.HasPrefix(name, p) {
			return true
		}
	}
	return false
}

// commitCall reports whether a call is one whose effect is applied in one piece by the component behind it, so that
// "applied, but reported as failed" is a possible outcome of it.
func commitCall(name string) bool {
	for _, p := range []string{"storage.Write:", "manager.CreateNewSigningKeyVersion", "manager.DestroyKeyVersion:", "signer.Sign:", "ca.Finalize"} {
		if strings.HasPrefix(name, p) {
			return true
		}
	}
	return false
}

func mkErr(class int, call string) (error, string) {
	cl := classes[class%len(classes)]
	if cl.effectOnly && !effectCall(call) {
		cl = classes[0]
	}
	return cl.mk(call), cl.name
}

// ---- switchable context ----

// swCtx is a context whose Done/Err can be tripped by the controller at a chosen call.
type swCtx struct {
	context.Context
	mu   sync.Mutex
	done chan struct{}
	err  error
}

func newSwCtx() *swCtx { return &swCtx{Context: context.Background(), done: make(chan struct{})} }

func (c *swCtx) Done() <-chan struct{} { return c.done }
func (c *swCtx) Err() error {
	c.mu.Lock()
	defer c.mu.Unlock()
	return c.err
}
func (c *swCtx) trip(err error) {
	c.mu.Lock()
	if c.err == nil {
		c.err = err
		close(c.done)
	}
	c.mu.Unlock()
}

// ---- controller ----

// faultErrorAfter: the call TAKES EFFECT and then reports an error of the chosen class (a lost acknowledgement, a
// deadline that passes after the component applied the request). The process lives on and sees a failed call.
const faultErrorAfter = "error-after-effect"

type fault struct {
	kind  string // doubles.FaultError | FaultCrashBefore | FaultCrashAfter | faultErrorAfter
	class int
}

// ctl is the call log and fault plan of one command.
type ctl struct {
	mu     sync.Mutex
	n      int
	log    []doubles.Call
	faults map[int]fault
	// outage: from call outFrom on, calls whose name starts with outScope fail with outClass; outLen > 0 bounds the burst
	outFrom, outLen int
	outScope        string
	outClass        int
	outCount        int
	// the command's context is tripped with ctxErr when call ctxAt is entered
	ctxAt  int
	ctxErr error
	ctx    *swCtx
	// ctxHonour lists the call-name prefixes of the components that look at the context (network clients do, the
	// in-process nonprod key managers do not); nil = every component does
	ctxHonour []string

	// streamNew: an object that does not exist yet is written THROUGH to the back end as the calls arrive (opened at
	// the writer's open, data handed on at the data write, committed at Close) instead of as a whole at Close, so that a
	// crash between the open and the commit leaves what the back end leaves of an unfinished NEW object. Objects that
	// exist are still replaced as a whole (no torn objects: the design's object-granularity assumption).
	streamNew bool
	// byName places a fault at the nth call whose name starts with a prefix (no trace of the run is needed beforehand)
	byName []nameFault

	injected   int            // calls answered with an injected error, a context error, or a crash
	classSeen  map[string]int // error class -> injected count
	firstFault string         // name of the first faulted call
}

type nameFault struct {
	prefix string
	nth    int
	ft     fault
	count  int
}

func newCtl() *ctl {
	return &ctl{ctx: newSwCtx(), faults: map[int]fault{}, classSeen: map[string]int{}}
}

func (f *ctl) enter(ctx context.Context, name string) (int, error) {
	f.mu.Lock()
	f.n++
	seq := f.n
	for k := range f.byName {
		if nf := &f.byName[k]; strings.HasPrefix(name, nf.prefix) {
			if nf.count++; nf.count == nf.nth {
				f.faults[seq] = nf.ft
			}
		}
	}
	ft := f.faults[seq]
	if ft.kind == faultErrorAfter && !commitCall(name) {
		// nothing to apply at a query or at the open / data write of a writer: the failure is a plain error
		ft.kind = doubles.FaultError
	}
	if f.ctxAt == seq && f.ctxErr != nil {
		f.ctx.trip(f.ctxErr)
	}
	res := "ok"
	var err error
	cname := ""
	switch {
	case ft.kind == doubles.FaultError:
		err, cname = mkErr(ft.class, name)
		res = "injected-error"
	case ft.kind == doubles.FaultCrashBefore:
		res = "crash-before"
	case ft.kind == doubles.FaultCrashAfter, ft.kind == faultErrorAfter:
	case f.outFrom > 0 && seq >= f.outFrom && (f.outLen == 0 || f.outCount < f.outLen) && strings.HasPrefix(name, f.outScope):
		f.outCount++
		err, cname = mkErr(f.outClass, name)
		res = "injected-error"
	case ctx != nil && ctx.Err() != nil && f.honours(name):
		err = fmt.Errorf("%s: %w", name, ctx.Err())
		cname = "live-context:" + ctx.Err().Error()
		res = "injected-error"
	}
	if res != "ok" {
		f.injected++
		if f.firstFault == "" {
			f.firstFault = name
		}
		if cname != "" {
			f.classSeen[cname]++
		}
	}
	f.log = append(f.log, doubles.Call{Seq: seq, Name: name, Result: res})
	f.mu.Unlock()
	if ft.kind == doubles.FaultCrashBefore {
		panic(core.CrashSentinel{At: seq})
	}
	return seq, err
}

func (f *ctl) honours(name string) bool {
	if f.ctxHonour == nil {
		return true
	}
	for _, p := range f.ctxHonour {
		if strings.HasPrefix(name, p) {
			return true
		}
	}
	return false
}

// exit is called after the call's effect with the call's own error; it returns the error the caller gets (the call's
// own, or the injected one of an error-after-effect fault) and realises crash-after.
func (f *ctl) exit(seq int, err error) error {
	f.mu.Lock()
	ft := f.faults[seq]
	if err != nil && seq-1 < len(f.log) {
		f.log[seq-1].Result = "error: " + err.Error()
	}
	if ft.kind == doubles.FaultCrashAfter && seq-1 < len(f.log) {
		f.log[seq-1].Result = "crash-after"
		f.injected++
		if f.firstFault == "" {
			f.firstFault = f.log[seq-1].Name
		}
	}
	if ft.kind == faultErrorAfter && err == nil && seq-1 < len(f.log) && commitCall(f.log[seq-1].Name) {
		var cname string
		err, cname = mkErr(ft.class, f.log[seq-1].Name)
		f.log[seq-1].Result = "error-after-effect"
		f.injected++
		f.classSeen[cname]++
		if f.firstFault == "" {
			f.firstFault = f.log[seq-1].Name
		}
	}
	f.mu.Unlock()
	if ft.kind == doubles.FaultCrashAfter {
		panic(core.CrashSentinel{At: seq})
	}
	return err
}

func (f *ctl) names() []string {
	f.mu.Lock()
	defer f.mu.Unlock()
	out := make([]string, len(f.log))
	for i, c := range f.log {
		out[i] = c.Name
	}
	return out
}

func (f *ctl) calls() []doubles.Call {
	f.mu.Lock()
	defer f.mu.Unlock()
	return append([]doubles.Call(nil), f.log...)
}

// ---- storage double: objects become visible at Close (object granularity for every back end) ----

type rStore struct {
	inner storagei.Client
	f     *ctl
}

type rW struct {
	s      *rStore
	ctx    context.Context
	b, o   string
	buf    []byte
	failed error
	iw     io.WriteCloser // written through (ctl.streamNew and the object did not exist at the open)
}

func (s *rStore) Reader(ctx context.Context, b, o string) (io.ReadCloser, error) {
	seq, err := s.f.enter(ctx, "storage.Read:"+o)
	if err != nil {
		return nil, err
	}
	r, err := s.inner.Reader(ctx, b, o)
	if err != nil && s.inner.IsNotExists(err) {
		s.f.exit(seq, nil) // an absent object is an answer
		return r, err
	}
	s.f.exit(seq, err)
	return r, err
}

func (s *rStore) Exists(ctx context.Context, b, o string) (bool, error) {
	seq, err := s.f.enter(ctx, "storage.Exists:"+o)
	if err != nil {
		return false, err
	}
	ok, err := s.inner.Exists(ctx, b, o)
	s.f.exit(seq, err)
	return ok, err
}

// Writer opens an object writer. Nothing reaches the back end before Close, so a refused open and a refused data
// write have no effect on the stored object (no torn objects: the design's object-granularity assumption).
func (s *rStore) Writer(ctx context.Context, b, o string) (io.WriteCloser, error) {
	seq, err := s.f.enter(ctx, "storage.Writer:"+o)
	if err != nil {
		return nil, err
	}
	w := &rW{s: s, ctx: ctx, b: b, o: o}
	if s.f.streamNew {
		if ok, e := s.inner.Exists(ctx, b, o); e == nil && !ok {
			iw, e := s.inner.Writer(ctx, b, o)
			if e != nil {
				s.f.exit(seq, e)
				return nil, e
			}
			w.iw = iw
		}
	}
	s.f.exit(seq, nil)
	return w, nil
}

func (w *rW) Write(p []byte) (int, error) {
	seq, err := w.s.f.enter(w.ctx, "storage.WriteData:"+w.o)
	if err != nil {
		w.failed = err
		return 0, err
	}
	if w.iw != nil {
		n, err := w.iw.Write(p)
		w.s.f.exit(seq, err)
		return n, err
	}
	w.buf = append(w.buf, p...)
	w.s.f.exit(seq, nil)
	return len(p), nil
}

func (w *rW) Close() error {
	if w.failed != nil {
		// an object writer whose data write failed commits nothing and says so again at Close (object stores do)
		if w.iw != nil {
			w.iw.Close()
		}
		return fmt.Errorf("close after failed write: %w", w.failed)
	}
	seq, err := w.s.f.enter(w.ctx, "storage.Write:"+w.o)
	if err != nil {
		return err
	}
	if w.iw != nil {
		return w.s.f.exit(seq, w.iw.Close())
	}
	iw, err := w.s.inner.Writer(w.ctx, w.b, w.o)
	if err == nil {
		if _, err = iw.Write(w.buf); err != nil {
			iw.Close()
		} else {
			err = iw.Close()
		}
	}
	return w.s.f.exit(seq, err)
}

func (s *rStore) IsNotExists(err error) bool { return s.inner.IsNotExists(err) }
func (s *rStore) EnsureBucketExists(ctx context.Context, b string) error {
	seq, err := s.f.enter(ctx, "storage.EnsureBucketExists")
	if err != nil {
		return err
	}
	err = s.inner.EnsureBucketExists(ctx, b)
	s.f.exit(seq, err)
	return err
}
func (s *rStore) Wipeout(ctx context.Context, b string) error {
	seq, err := s.f.enter(ctx, "storage.Wipeout")
	if err != nil {
		return err
	}
	err = s.inner.Wipeout(ctx, b)
	s.f.exit(seq, err)
	return err
}

// ---- signer / manager / CA doubles ----

type rSigner struct {
	inner styp.Signer
	f     *ctl
}

func (s *rSigner) Sign(ctx context.Context, k string, d styp.Digest, o crypto.SignerOpts) ([]byte, error) {
	seq, err := s.f.enter(ctx, "signer.Sign:"+k)
	if err != nil {
		return nil, err
	}
	b, err := s.inner.Sign(ctx, k, d, o)
	if err = s.f.exit(seq, err); err != nil {
		return nil, err
	}
	return b, nil
}
func (s *rSigner) PublicKey(ctx context.Context, k string) ([]byte, error) {
	seq, err := s.f.enter(ctx, "signer.PublicKey:"+k)
	if err != nil {
		return nil, err
	}
	b, err := s.inner.PublicKey(ctx, k)
	s.f.exit(seq, err)
	return b, err
}

type rManager struct {
	inner keys.ManagerInterface
	f     *ctl
}

func (m *rManager) CreateFirstSigningKey(ctx context.Context) (string, error) {
	seq, err := m.f.enter(ctx, "manager.CreateFirstSigningKey")
	if err != nil {
		return "", err
	}
	s, err := m.inner.CreateFirstSigningKey(ctx)
	m.f.exit(seq, err)
	return s, err
}
func (m *rManager) CreateNewSigningKeyVersion(ctx context.Context) (string, error) {
	seq, err := m.f.enter(ctx, "manager.CreateNewSigningKeyVersion")
	if err != nil {
		return "", err
	}
	s, err := m.inner.CreateNewSigningKeyVersion(ctx)
	if err = m.f.exit(seq, err); err != nil {
		return "", err
	}
	return s, nil
}
func (m *rManager) CreateNewRootKey(ctx context.Context) (string, error) {
	seq, err := m.f.enter(ctx, "manager.CreateNewRootKey")
	if err != nil {
		return "", err
	}
	s, err := m.inner.CreateNewRootKey(ctx)
	m.f.exit(seq, err)
	return s, err
}
func (m *rManager) CertificateTemplate(ctx context.Context, issuer *x509.Certificate, pub any) (*x509.Certificate, error) {
	seq, err := m.f.enter(ctx, "manager.CertificateTemplate")
	if err != nil {
		return nil, err
	}
	c, err := m.inner.CertificateTemplate(ctx, issuer, pub)
	m.f.exit(seq, err)
	return c, err
}
func (m *rManager) DestroyKeyVersion(ctx context.Context, k string) error {
	seq, err := m.f.enter(ctx, "manager.DestroyKeyVersion:"+k)
	if err != nil {
		return err
	}
	err = m.inner.DestroyKeyVersion(ctx, k)
	return m.f.exit(seq, err)
}
func (m *rManager) Wipeout(ctx context.Context) error {
	seq, err := m.f.enter(ctx, "manager.Wipeout")
	if err != nil {
		return err
	}
	err = m.inner.Wipeout(ctx)
	m.f.exit(seq, err)
	return err
}

type rCA struct {
	inner styp.CertificateAuthority
	f     *ctl
}

func (c *rCA) Certificate(ctx context.Context, k string) ([]byte, error) {
	seq, err := c.f.enter(ctx, "ca.Certificate:"+k)
	if err != nil {
		return nil, err
	}
	b, err := c.inner.Certificate(ctx, k)
	c.f.exit(seq, nil) // an absent certificate is an answer, not a fault
	return b, err
}
func (c *rCA) CABundle(ctx context.Context, k string) ([]byte, error) {
	seq, err := c.f.enter(ctx, "ca.CABundle:"+k)
	if err != nil {
		return nil, err
	}
	b, err := c.inner.CABundle(ctx, k)
	c.f.exit(seq, nil)
	return b, err
}
func (c *rCA) PrimaryRootKeyVersion(ctx context.Context) (string, error) {
	seq, err := c.f.enter(ctx, "ca.PrimaryRootKeyVersion")
	if err != nil {
		return "", err
	}
	s, err := c.inner.PrimaryRootKeyVersion(ctx)
	c.f.exit(seq, err)
	return s, err
}
func (c *rCA) PrimarySigningKeyVersion(ctx context.Context) (string, error) {
	seq, err := c.f.enter(ctx, "ca.PrimarySigningKeyVersion")
	if err != nil {
		return "", err
	}
	s, err := c.inner.PrimarySigningKeyVersion(ctx)
	c.f.exit(seq, err)
	return s, err
}
func (c *rCA) NewMutation() styp.CertificateAuthorityMutation { return c.inner.NewMutation() }
func (c *rCA) Finalize(ctx context.Context, m styp.CertificateAuthorityMutation) error {
	seq, err := c.f.enter(ctx, "ca.Finalize")
	if err != nil {
		return err
	}
	err = c.inner.Finalize(ctx, m)
	return c.f.exit(seq, err)
}
func (c *rCA) PrepareResources(ctx context.Context) error {
	seq, err := c.f.enter(ctx, "ca.PrepareResources")
	if err != nil {
		return err
	}
	err = c.inner.PrepareResources(ctx)
	c.f.exit(seq, err)
	return err
}
func (c *rCA) Wipeout(ctx context.Context) error {
	seq, err := c.f.enter(ctx, "ca.Wipeout")
	if err != nil {
		return err
	}
	err = c.inner.Wipeout(ctx)
	c.f.exit(seq, err)
	return err
}

// ---- the rig ----

type flags struct{ ow, kg bool }

func (fl flags) String() string { return fmt.Sprintf("overwrite=%v,keep_going=%v", fl.ow, fl.kg) }

var flagCombos = []flags{{false, false}, {true, false}, {false, true}, {true, true}}

// rig runs commands over an Assembly's state through c10's own doubles.
type rig struct {
	a    *authority.Assembly
	long bool // keep ONE gcsca authority value across commands (a long-running process)

	llCA    *gcsca.CertificateAuthority
	llStore *rStore

	// longKM: keep ONE key manager value and its signer across commands (a long-running process that rotates more
	// than once), instead of building them per command like the CLI does. Whatever the manager value remembers from
	// an earlier command is then still there in the next one.
	longKM   bool
	llSigner *nonprod.Signer
	llMgr    keys.ManagerInterface
}

func (g *rig) raw() storagei.Client {
	switch g.a.CA {
	case authority.GcscaMem:
		return g.a.MemStore
	case authority.GcscaDisk:
		return &local.StorageClient{Root: filepath.Join(g.a.Dir, "ca")}
	}
	return nil
}

// drop forgets the long-lived authority value (the process ended, or the state underneath was replaced).
func (g *rig) drop() {
	g.llCA, g.llStore = nil, nil
	g.llSigner, g.llMgr = nil, nil
}

func (g *rig) restore(s *authority.Snap) {
	g.a.Restore(s)
	g.drop()
}

// keyComponents is what a new process sees: memkm keeps its keys, localkm reloads them from its directory.
func (g *rig) keyComponents() (*nonprod.Signer, keys.ManagerInterface, error) {
	if g.longKM {
		if g.llMgr == nil {
			s, m, err := g.freshKeyComponents()
			if err != nil {
				return nil, nil, err
			}
			g.llSigner, g.llMgr = s, m
		}
		return g.llSigner, g.llMgr, nil
	}
	return g.freshKeyComponents()
}

func (g *rig) freshKeyComponents() (*nonprod.Signer, keys.ManagerInterface, error) {
	if g.a.KM == authority.MemKM {
		return g.a.MemSigner, &memkm.T{Signer: g.a.MemSigner}, nil
	}
	s := &nonprod.Signer{Rand: crand.Reader}
	t := &localkm.T{T: memkm.T{Signer: s}, KeyDir: filepath.Join(g.a.Dir, "keys")}
	if err := t.Init(context.Background()); err != nil {
		return nil, nil, err
	}
	return s, t, nil
}

// command builds the context of one command; every component is wrapped by f and observes f's context.
func (g *rig) command(f *ctl, fl flags) (context.Context, error) {
	s, mgr, err := g.keyComponents()
	if err != nil {
		return nil, err
	}
	var ca styp.CertificateAuthority
	switch {
	case g.a.CA == authority.MemCA:
		ca = g.a.MemCAObj
	case g.long:
		if g.llCA == nil {
			g.llStore = &rStore{inner: g.raw(), f: f}
			g.llCA = &gcsca.CertificateAuthority{Storage: g.llStore, PrivateBucket: authority.Bucket, RootPath: authority.RootPath, SigningCertDirInGCS: authority.CertDir}
		}
		g.llStore.f = f
		ca = g.llCA
	default:
		ca = &gcsca.CertificateAuthority{Storage: &rStore{inner: g.raw(), f: f}, PrivateBucket: authority.Bucket, RootPath: authority.RootPath, SigningCertDirInGCS: authority.CertDir}
	}
	kc := &keys.Context{CA: &rCA{inner: ca, f: f}, Manager: &rManager{inner: mgr, f: f}, Signer: &rSigner{inner: s, f: f}, Random: crand.Reader}
	oo := &output.Options{Quiet: true, Overwrite: fl.ow, KeepGoing: fl.kg}
	return output.NewContext(keys.NewContext(f.ctx, kc), oo), nil
}

// rotate runs rotate.Key the way the command line does (serial nil or 0 = predecessor's subject serial + 1).
func (g *rig) rotate(f *ctl, fl flags, skc *rotate.SigningKeyContext) (string, error) {
	ctx, err := g.command(f, fl)
	if err != nil {
		return "", err
	}
	c := *skc
	ctx = rotate.NewSigningKeyContext(ctx, &c)
	if c.SigningKeySerial == nil || c.SigningKeySerial.Sign() == 0 {
		c.SigningKeySerial, err = sops.NextSigningKeySerial(ctx)
		if err != nil {
			return "", err
		}
	}
	return rotate.Key(ctx)
}

// probe signs a minimal document through endorse.SignDoc with this process's authority value (the long-lived one
// when g.long) and checks the signature under the embedded certificate. "" = endorsing works.
func (g *rig) probe(now time.Time) string {
	ctx, err := g.command(newCtl(), flags{})
	if err != nil {
		return "context: " + err.Error()
	}
	e, err := endorse.SignDoc(endorse.NewContext(ctx, &endorse.Context{Timestamp: now}), &epb.VMGoldenMeasurement{Digest: make([]byte, 48), ClSpec: 1})
	if err != nil {
		return "endorse.SignDoc: " + err.Error()
	}
	gm := &epb.VMGoldenMeasurement{}
	if err := proto.Unmarshal(e.SerializedUefiGolden, gm); err != nil {
		return "payload: " + err.Error()
	}
	cert, err := x509.ParseCertificate(gm.Cert)
	if err != nil {
		return "embedded certificate: " + err.Error()
	}
	pk, ok := cert.PublicKey.(*rsa.PublicKey)
	if !ok {
		return "embedded certificate is not for an RSA key"
	}
	d := sha256.Sum256(e.SerializedUefiGolden)
	if err := rsa.VerifyPSS(pk, crypto.SHA256, d[:], e.Signature, nil); err != nil {
		return "signature does not verify under the embedded certificate"
	}
	return ""
}

// primarySubjectSerial is the subject serial of the recorded primary's certificate as a fresh process reads it.
func primarySubjectSerial(a *authority.Assembly) *big.Int {
	st := a.Observe()
	if st.PrimaryCert == nil {
		return nil
	}
	z, ok := new(big.Int).SetString(st.PrimaryCert.Subject.SerialNumber, 0)
	if !ok {
		return nil
	}
	return z
}
