package c08

import (
	"encoding/json"
	"testing"
)

func TestScratch(t *testing.T) {
	d := directed()
	for _, i := range []int{91, 0} {
		b, _ := json.Marshal(d[i].spec.Tdx)
		t.Logf("%d %s %v only=%v\n%s", i, d[i].class, d[i].muts, d[i].only, b)
	}
}
