package c08

import (
	"math/rand/v2"
	"testing"
	"time"
)

func TestScratch(t *testing.T) {
	if !checkBuilder() {
		t.Fatal("builder mismatch")
	}
	ents := entries()
	for i, cs := range directed() {
		switch cs.class {
		case "genuine", "well-formed", "directed:sev-4GiB-disjoint", "directed:tdx-large-but-plausible", "directed:tdx-many-sections":
		default:
			continue
		}
		fw := cs.spec.Build()
		for _, e := range ents {
			if len(cs.only) > 0 {
				ok := false
				for _, o := range cs.only {
					ok = ok || o == e.name
				}
				if !ok {
					continue
				}
			}
			t0 := time.Now()
			err := e.call(fw, &cs.opts)
			t.Logf("%d %s %v len=%d %s: %v err=%v", i, cs.class, cs.muts, len(fw), e.name, time.Since(t0), err)
		}
	}
	// random well-formed acceptance
	r := rand.New(rand.NewPCG(1, 2))
	bad := 0
	for k := 0; k < 300; k++ {
		s := wellFormed(r, drawSize(r)&^4095)
		o := normalOpts(r)
		fw := s.Build()
		for _, e := range ents {
			if err := e.call(fw, &o); err != nil {
				bad++
				if bad < 10 {
					t.Logf("well-formed rejected by %s: %v", e.name, err)
				}
			}
		}
	}
	t.Logf("well-formed rejected: %d", bad)
}
