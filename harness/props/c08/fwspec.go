package c08

import (
	"encoding/binary"
	"encoding/hex"
	"math/rand/v2"
	"strings"
)

// The firmware image builder. Images are written byte by byte from a Spec with the harness' own
// little-endian writers and GUID encoder (nothing from ovmf/abi), so a Spec is a compact,
// JSON-serialisable description from which the image is rebuilt deterministically.
//
// Layout the repository's parser expects (all offsets are taken from the image itself):
//
//	[ ... filler ... SEV metadata (16-byte header + 12-byte sections) ... TDVF GUID(16) + descriptor(16)
//	  + 32-byte sections ... ]
//	[ GUID table: entries, each "payload | size u16 | guid 16", walked upwards from the footer ]
//	[ footer entry: size u16 (whole table incl. footer) | footer guid ]
//	[ 0x20 bytes reset vector ]
const (
	guidFooter   = "96b582de-1fb2-45f7-baea-a366c55a082d"
	guidSevReset = "00f771de-1a7e-4fcb-890e-68c77e2fb44e"
	guidSevOff   = "dc886566-984a-4798-a75e-5585a7bf67cc"
	guidTdxOff   = "e47a6535-984a-4798-865e-4685a7bf8ec2"
	guidTdvf     = "e9eaf9f3-168e-44d5-a8eb-7f4d8738f6ae"

	sevSig = 0x56455341 // "ASEV"
	tdxSig = 0x46564454 // "TDVF"

	secUnmeasured = 1
	secSecret     = 2
	secCpuid      = 3
	secCaa        = 4

	tdBFV     = 0
	tdCFV     = 1
	tdHOB     = 2
	tdTempMem = 3
)

// Sec12 is one SEV metadata section.
type Sec12 struct {
	Addr uint32 `json:"addr"`
	Len  uint32 `json:"len"`
	Kind uint32 `json:"kind"`
}

// Sec32 is one TDVF metadata section.
type Sec32 struct {
	DataOff  uint32 `json:"data_off"`
	DataSize uint32 `json:"data_size"`
	Base     uint64 `json:"base"`
	Size     uint64 `json:"size"`
	Type     uint32 `json:"type"`
	Attr     uint32 `json:"attr"`
}

// Entry is one GUID-table entry: payload followed by the 18-byte (size, guid) header.
type Entry struct {
	GUID string `json:"guid"`
	Data []byte `json:"data"`
	Size int    `json:"size"` // declared size; -1 = len(Data)+18
}

// SevMeta is the SEV metadata block written at Pos (from the start of the image).
type SevMeta struct {
	Pos  int     `json:"pos"`
	Sig  uint32  `json:"sig"`
	Len  uint32  `json:"len"`
	Ver  uint32  `json:"ver"`
	Cnt  uint32  `json:"cnt"`
	Secs []Sec12 `json:"secs"`
}

// TdxMeta is the TDVF GUID + descriptor + sections written at Pos.
type TdxMeta struct {
	Pos  int     `json:"pos"`
	GUID string  `json:"guid"`
	Sig  uint32  `json:"sig"`
	Len  uint32  `json:"len"`
	Ver  uint32  `json:"ver"`
	Cnt  uint32  `json:"cnt"`
	Secs []Sec32 `json:"secs"`
	// Rep > 0 appends Rep further sections generated as TempMem{Base: RepBase + k*RepStep, Size: RepSize}
	// (keeps the spec compact for images with tens of thousands of sections).
	Rep     int    `json:"rep,omitempty"`
	RepBase uint64 `json:"rep_base,omitempty"`
	RepStep uint64 `json:"rep_step,omitempty"`
	RepSize uint64 `json:"rep_size,omitempty"`
	// RepFV != nil turns the generated sections into firmware-volume sections (type CFV) that each carry
	// RepFV.DataSize bytes of the file from RepFV.DataOff on (memory size = RepSize), with RepFV.Attr.
	RepFV *RepFV `json:"rep_fv,omitempty"`
}

// RepFV describes the file range of generated firmware-volume sections (see TdxMeta.Rep).
type RepFV struct {
	DataOff  uint32 `json:"data_off"`
	DataSize uint32 `json:"data_size"`
	Attr     uint32 `json:"attr"`
}

// Patch overwrites W bytes (1,2,4,8) at Off with V, little endian, after everything else is written;
// W = -1 xors the byte at Off with V.
type Patch struct {
	Off int    `json:"off"`
	W   int    `json:"w"`
	V   uint64 `json:"v"`
}

// Spec describes one image.
type Spec struct {
	Size     int      `json:"size"`
	FillSeed uint64   `json:"fill_seed"` // 0 = zero filler, else PCG stream
	Raw      bool     `json:"raw,omitempty"`
	Tail     int      `json:"tail"`      // bytes after the footer entry (0x20 in real images)
	Footer   string   `json:"footer"`    // footer GUID
	FooterSz int      `json:"footer_sz"` // declared table size; -1 = computed
	Entries  []Entry  `json:"entries"`   // nearest the footer first
	Sev      *SevMeta `json:"sev,omitempty"`
	Tdx      *TdxMeta `json:"tdx,omitempty"`
	Patches  []Patch  `json:"patches,omitempty"`
	Cut      int      `json:"cut"` // -1 = none; else final length (truncate / zero-extend)
}

func efiGUID(s string) [16]byte {
	var out [16]byte
	b, err := hex.DecodeString(strings.ReplaceAll(s, "-", ""))
	if err != nil || len(b) != 16 {
		copy(out[:], s) // malformed on purpose: any 16 bytes will do
		return out
	}
	out[0], out[1], out[2], out[3] = b[3], b[2], b[1], b[0]
	out[4], out[5] = b[5], b[4]
	out[6], out[7] = b[7], b[6]
	copy(out[8:], b[8:])
	return out
}

func u32le(v uint32) []byte { return binary.LittleEndian.AppendUint32(nil, v) }

// put copies b to fw[off:], clipped to the image.
func put(fw []byte, off int, b []byte) {
	if off < 0 {
		if -off >= len(b) {
			return
		}
		b = b[-off:]
		off = 0
	}
	if off >= len(fw) {
		return
	}
	copy(fw[off:], b)
}

func (m *TdxMeta) allSecs() []Sec32 {
	if m.Rep <= 0 {
		return m.Secs
	}
	out := make([]Sec32, 0, len(m.Secs)+m.Rep)
	out = append(out, m.Secs...)
	for k := 0; k < m.Rep; k++ {
		x := Sec32{Base: m.RepBase + uint64(k)*m.RepStep, Size: m.RepSize, Type: tdTempMem}
		if m.RepFV != nil {
			x.DataOff, x.DataSize, x.Type, x.Attr = m.RepFV.DataOff, m.RepFV.DataSize, tdCFV, m.RepFV.Attr
		}
		out = append(out, x)
	}
	return out
}

// Build writes the image.
func (s *Spec) Build() []byte {
	size := s.Size
	if size < 0 {
		size = 0
	}
	fw := make([]byte, size)
	if s.FillSeed != 0 {
		r := rand.New(rand.NewPCG(s.FillSeed, 0x5eed))
		i := 0
		for ; i+8 <= len(fw); i += 8 {
			binary.LittleEndian.PutUint64(fw[i:], r.Uint64())
		}
		for ; i < len(fw); i++ {
			fw[i] = byte(r.Uint32())
		}
	}
	if s.Raw {
		return s.finish(fw)
	}
	if m := s.Sev; m != nil {
		b := make([]byte, 0, 16+12*len(m.Secs))
		b = binary.LittleEndian.AppendUint32(b, m.Sig)
		b = binary.LittleEndian.AppendUint32(b, m.Len)
		b = binary.LittleEndian.AppendUint32(b, m.Ver)
		b = binary.LittleEndian.AppendUint32(b, m.Cnt)
		for _, x := range m.Secs {
			b = binary.LittleEndian.AppendUint32(b, x.Addr)
			b = binary.LittleEndian.AppendUint32(b, x.Len)
			b = binary.LittleEndian.AppendUint32(b, x.Kind)
		}
		put(fw, m.Pos, b)
	}
	if m := s.Tdx; m != nil {
		secs := m.allSecs()
		b := make([]byte, 0, 32+32*len(secs))
		g := efiGUID(m.GUID)
		b = append(b, g[:]...)
		b = binary.LittleEndian.AppendUint32(b, m.Sig)
		b = binary.LittleEndian.AppendUint32(b, m.Len)
		b = binary.LittleEndian.AppendUint32(b, m.Ver)
		b = binary.LittleEndian.AppendUint32(b, m.Cnt)
		for _, x := range secs {
			b = binary.LittleEndian.AppendUint32(b, x.DataOff)
			b = binary.LittleEndian.AppendUint32(b, x.DataSize)
			b = binary.LittleEndian.AppendUint64(b, x.Base)
			b = binary.LittleEndian.AppendUint64(b, x.Size)
			b = binary.LittleEndian.AppendUint32(b, x.Type)
			b = binary.LittleEndian.AppendUint32(b, x.Attr)
		}
		put(fw, m.Pos, b)
	}
	// GUID table, written from the footer upwards.
	total := 18
	for _, e := range s.Entries {
		total += len(e.Data) + 18
	}
	p := size - s.Tail - 18
	fsz := s.FooterSz
	if fsz < 0 {
		fsz = total
	}
	hdr := func(sz int, guid string) []byte {
		g := efiGUID(guid)
		return append(binary.LittleEndian.AppendUint16(nil, uint16(sz)), g[:]...)
	}
	put(fw, p, hdr(fsz, s.Footer))
	for _, e := range s.Entries {
		sz := e.Size
		if sz < 0 {
			sz = len(e.Data) + 18
		}
		p -= 18
		put(fw, p, hdr(sz, e.GUID))
		p -= len(e.Data)
		put(fw, p, e.Data)
	}
	return s.finish(fw)
}

func (s *Spec) finish(fw []byte) []byte {
	for _, pt := range s.Patches {
		var b []byte
		switch pt.W {
		case -1: // xor one byte
			if pt.Off >= 0 && pt.Off < len(fw) {
				fw[pt.Off] ^= byte(pt.V)
			}
			continue
		case 1:
			b = []byte{byte(pt.V)}
		case 2:
			b = binary.LittleEndian.AppendUint16(nil, uint16(pt.V))
		case 4:
			b = binary.LittleEndian.AppendUint32(nil, uint32(pt.V))
		default:
			b = binary.LittleEndian.AppendUint64(nil, pt.V)
		}
		put(fw, pt.Off, b)
	}
	if s.Cut >= 0 {
		if s.Cut <= len(fw) {
			fw = fw[:s.Cut:s.Cut]
		} else {
			fw = append(fw, make([]byte, s.Cut-len(fw))...)
		}
	}
	return fw
}

// entry returns the table entry with the given GUID (nil when absent).
func (s *Spec) entry(guid string) *Entry {
	for i := range s.Entries {
		if s.Entries[i].GUID == guid {
			return &s.Entries[i]
		}
	}
	return nil
}

func (s *Spec) setOff(guid string, v uint32) {
	if e := s.entry(guid); e != nil {
		e.Data = u32le(v)
	}
}

// cleanExample is the layout of the repository's own test image (fakeovmf.CleanExample), rebuilt
// with this builder; used to validate the builder byte for byte and as the genuine baseline.
func cleanExample(size int) *Spec {
	s := &Spec{Size: size, Tail: 0x20, Footer: guidFooter, FooterSz: -1, Cut: -1}
	s.Sev = &SevMeta{Pos: 0, Sig: sevSig, Len: 16 + 3*12, Ver: 1, Cnt: 3, Secs: []Sec12{
		{0xff001000, 0x1000, secUnmeasured}, {0xff003000, 0x1000, secCpuid}, {0xff004000, 0x1000, secSecret}}}
	s.Tdx = &TdxMeta{Pos: 0x100, GUID: guidTdvf, Sig: tdxSig, Len: 208, Ver: 1, Cnt: 6, Secs: []Sec32{
		{DataOff: 0x20000, DataSize: 0x1e0000, Base: 0xffe20000, Size: 0x1e0000, Type: tdBFV, Attr: 1},
		{DataSize: 0x20000, Base: 0xffe00000, Size: 0x20000, Type: tdCFV},
		{Base: 0x810000, Size: 0x10000, Type: tdTempMem},
		{Base: 0x80b000, Size: 0x2000, Type: tdTempMem},
		{Base: 0x809000, Size: 0x2000, Type: tdHOB},
		{Base: 0x800000, Size: 0x6000, Type: tdTempMem}}}
	s.Entries = []Entry{
		{GUID: guidSevReset, Data: u32le(0xff0000ff), Size: -1},
		{GUID: guidSevOff, Data: u32le(uint32(size)), Size: -1},
		{GUID: guidTdxOff, Data: u32le(uint32(size - 0x100 - 16)), Size: -1},
	}
	// the two marker strings of the example ("LGTM" x4 at 0x800 and 0xa00)
	v := uint64(0)
	for i, ch := range []byte("LGTMLGTM") {
		v |= uint64(ch) << (8 * i)
	}
	s.Patches = []Patch{{0x800, 8, v}, {0x808, 8, v}, {0xa00, 8, v}, {0xa08, 8, v}}
	return s
}

// wellFormed draws an image that satisfies every validity rule the SEV and TDX paths state:
// page-multiple size, consistent table, SEV sections page-aligned / disjoint / one secret, one
// cpuid, >=1 unmeasured, TDVF firmware volumes tiling the image, one TD-HOB, disjoint ranges.
func wellFormed(r *rand.Rand, size int) *Spec {
	s := &Spec{Size: size, Tail: 0x20, Footer: guidFooter, FooterSz: -1, Cut: -1}
	if r.IntN(3) > 0 {
		s.FillSeed = r.Uint64() | 1
	}
	usable := size - 1024
	mid := usable / 2
	a := r.IntN(mid - 300 + 1)
	b := mid + r.IntN(usable-300-mid+1)
	if r.IntN(2) == 0 {
		a &^= 15
		b &^= 15
	}
	sevPos, tdxPos := a, b
	if r.IntN(2) == 0 {
		sevPos, tdxPos = b, a
	}
	// SEV sections
	var secs []Sec12
	page := uint32(0x800 + r.IntN(0xfd000))
	add := func(kind uint32, pages int) {
		secs = append(secs, Sec12{Addr: page << 12, Len: uint32(pages) << 12, Kind: kind})
		page += uint32(pages + r.IntN(4))
	}
	kinds := []uint32{secSecret, secCpuid}
	for k := 0; k < 1+r.IntN(3); k++ {
		kinds = append(kinds, secUnmeasured)
	}
	if r.IntN(3) == 0 {
		kinds = append(kinds, secCaa)
	}
	r.Shuffle(len(kinds), func(i, j int) { kinds[i], kinds[j] = kinds[j], kinds[i] })
	for _, k := range kinds {
		n := 1
		if k == secUnmeasured {
			n = 1 + r.IntN(8)
		}
		add(k, n)
	}
	r.Shuffle(len(secs), func(i, j int) { secs[i], secs[j] = secs[j], secs[i] })
	s.Sev = &SevMeta{Pos: sevPos, Sig: sevSig, Len: uint32(16 + 12*len(secs)), Ver: 1, Cnt: uint32(len(secs)), Secs: secs}

	// TDVF sections: firmware volumes tile the image
	var tsecs []Sec32
	pages := size / 4096
	cuts := []int{0, pages}
	if pages > 1 && r.IntN(4) > 0 {
		cuts = []int{0, 1 + r.IntN(pages-1), pages}
		if pages > 3 && r.IntN(3) == 0 {
			c2 := 1 + r.IntN(pages-1)
			if c2 != cuts[1] {
				lo, hi := min(c2, cuts[1]), max(c2, cuts[1])
				cuts = []int{0, lo, hi, pages}
			}
		}
	}
	romBase := uint64(1<<32) - uint64(size)
	bfv := r.IntN(len(cuts) - 1)
	for k := 0; k+1 < len(cuts); k++ {
		off, end := uint32(cuts[k])<<12, uint32(cuts[k+1])<<12
		if k+2 == len(cuts) {
			end = uint32(size) // unaligned sizes: the last volume takes the remainder
		}
		sz := end - off
		t := Sec32{DataOff: off, DataSize: sz, Base: romBase + uint64(off), Size: uint64(sz), Type: tdCFV, Attr: uint32(r.IntN(2))}
		if k == bfv {
			t.Type, t.Attr = tdBFV, 1
		}
		tsecs = append(tsecs, t)
	}
	lowPage := uint64(0x800 + r.IntN(0x400))
	addLow := func(typ uint32, n int) {
		tsecs = append(tsecs, Sec32{Base: lowPage << 12, Size: uint64(n) << 12, Type: typ, Attr: 0})
		lowPage += uint64(n + r.IntN(3))
	}
	hobAt := r.IntN(4)
	for k := 0; k < 4; k++ {
		if k == hobAt {
			addLow(tdHOB, 2+r.IntN(3))
		} else if r.IntN(2) == 0 {
			addLow(tdTempMem, 1+r.IntN(16))
		}
	}
	r.Shuffle(len(tsecs), func(i, j int) { tsecs[i], tsecs[j] = tsecs[j], tsecs[i] })
	s.Tdx = &TdxMeta{Pos: tdxPos, GUID: guidTdvf, Sig: tdxSig, Len: uint32(16 + 32*len(tsecs)), Ver: 1, Cnt: uint32(len(tsecs)), Secs: tsecs}

	s.Entries = []Entry{
		{GUID: guidSevReset, Data: u32le(r.Uint32()), Size: -1},
		{GUID: guidSevOff, Data: u32le(uint32(size - sevPos)), Size: -1},
		{GUID: guidTdxOff, Data: u32le(uint32(size - tdxPos - 16)), Size: -1},
	}
	for k := r.IntN(3); k > 0; k-- {
		g := make([]byte, 16)
		for i := range g {
			g[i] = byte(r.Uint32())
		}
		d := make([]byte, r.IntN(40))
		for i := range d {
			d[i] = byte(r.Uint32())
		}
		gs := hex.EncodeToString(g)
		s.Entries = append(s.Entries, Entry{GUID: gs[:8] + "-" + gs[8:12] + "-" + gs[12:16] + "-" + gs[16:20] + "-" + gs[20:], Data: d, Size: -1})
	}
	r.Shuffle(len(s.Entries), func(i, j int) { s.Entries[i], s.Entries[j] = s.Entries[j], s.Entries[i] })
	return s
}
