package c08

import (
	"encoding/json"
	"fmt"
	"math/rand/v2"
	"runtime"
	"runtime/debug"
	"runtime/metrics"
	"sort"
	"strings"
	"sync"
	"sync/atomic"
	"syscall"
	"time"

	"verifharness/core"
)

// Strata appended behind the layout stratum (audit of the workload dimensions the seeded-change
// rounds kept finding empty). Case numbers continue after the layout stratum, every case draws from
// c.Rand(i) only, and the verdict is the one of every other case: panic / death / CPU / allocation.
//
//	hob-fit     the one place where the analysis writes generated content into a range whose size the
//	            image declares: the TD-HOB. Its declared size sweeps the exact length of the hand-off list
//	            (56 + 48 per section and unaccepted range + 8) -9..+1 bytes for 0..8 unaccepted ranges and
//	            2..341 sections, plus the page-sized ranges that the list fills exactly / misses by one record.
//	concurrent  the same entry point (or a mix) on 8 goroutines in lock step, each goroutine on its own images
//	            (fresh contents in most calls, exact repeats of an earlier image in the others, some copied
//	            into a buffer that is refilled in place) and its own options: only state the library keeps
//	            process-wide (a cache, a pool, a scratch buffer, a lazily built table) is shared.
//
// Considered and not added: RAM bank lists built from the edges of the image's own sections. Two
// scratch changes of unacceptedMemRanges that need a section to start at / straddle the end of a bank
// were both caught by the existing cases (tdx.sec.base=2^32 against the shape banks; the hostile bank
// table), so that dimension is already produced.

const (
	concGoroutines = 8
	concCalls      = 24
)

func fixedSpec(seed uint64, size int) *Spec { return wellFormed(rand.New(rand.NewPCG(seed, 8)), size) }

// ---- hob-fit ----

// hobFit is one case: an image per declared TD-HOB size.
type hobFit struct {
	n     int      // sections
	u     int      // unaccepted ranges the sizes are centred on (-1: page-sized range)
	sizes []uint64 // declared TD-HOB sizes, ascending
	nx    int
}

func hobFitSpec(nx int, hob uint64) *Spec {
	const size = 64 << 10
	s := fixedSpec(500, size)
	s.Sev.Pos = 0
	s.setOff(guidSevOff, uint32(size))
	s.Tdx.Pos = 0x200
	s.setOff(guidTdxOff, uint32(size-0x200-16))
	s.Tdx.Secs = []Sec32{
		{DataOff: 0, DataSize: size, Base: 1<<32 - size, Size: size, Type: tdBFV, Attr: 1},
		{Base: 0x800000, Size: hob, Type: tdHOB},
	}
	s.Tdx.Rep, s.Tdx.RepBase, s.Tdx.RepStep, s.Tdx.RepSize = nx, 0x900000, 0x1000, 0x1000
	s.Tdx.Cnt = uint32(2 + nx)
	s.Tdx.Len = 16 + 32*s.Tdx.Cnt
	return s
}

var hobFitOpts = Opts{Vcpus: 2, Product: 1, SnpVmsas: 1, ImageID: "3e2a9d4c-1b5f-4c7a-9e8d-0f1a2b3c4d5e", Shapes: []string{"c3-standard-4"}, Early: true,
	LegacyShape: "c3-standard-4", Banks: [][2]uint64{{0, 3 << 30}, {4<<30 - 2<<20, 2 << 20}, {4 << 30, 12 << 30}}, BanksAll: true}

// hobFitCases: one case per (number of sections, number of unaccepted ranges): the sizes around the
// exact length of the list for that pair, so that a case whose pair is the one an entry point really
// produces has sizes on both sides of the boundary, one byte apart.
func hobFitCases() []hobFit {
	var out []hobFit
	for _, nx := range []int{0, 1, 5, 20, 82, 338} {
		n := nx + 2
		for u := 0; u <= 8; u++ {
			hf := hobFit{n: n, u: u, nx: nx}
			for _, d := range []int{-9, -8, -4, -1, 0, 1} {
				hf.sizes = append(hf.sizes, uint64(64+48*(n+u)+d))
			}
			out = append(out, hf)
		}
	}
	// page-sized ranges: 64 + 48*84 = 4096 and 64 + 48*340 = 16384 are filled exactly
	// (and 64 + 48*(79+5) = 4096 with the five unaccepted ranges of the modes that carry RAM banks)
	for _, nx := range []int{76, 77, 78, 81, 82, 83} {
		out = append(out, hobFit{n: nx + 2, u: -1, nx: nx, sizes: []uint64{0x1000}})
	}
	for _, nx := range []int{337, 338, 339} {
		out = append(out, hobFit{n: nx + 2, u: -1, nx: nx, sizes: []uint64{0x4000}})
	}
	return out
}

func (hf *hobFit) caseOf(size uint64) caseT {
	d := int(int64(size) - int64(64+48*hf.n))
	return caseT{class: "hob-fit", spec: hobFitSpec(hf.nx, size), opts: hobFitOpts,
		muts: []mut{{fmt.Sprintf("tdx.hob-fit/sections=%d", hf.n), fmt.Sprintf("list%+d", d)}}}
}

// ---- the monitored call of the appended strata (same monitor as the main loop) ----

type extRun struct {
	c    *core.Ctx
	mo   *monitor
	ents []entry
	ms   []metrics.Sample
}

func (x *extRun) call(i int, e *entry, gname string, in []byte, fw []byte, o *Opts) (core.Measured, error) {
	m, err, _ := x.callS(i, e, gname, in, fw, o, false)
	return m, err
}

// callS is call with the status of the monitored call; a call that is not made (its entry point has a
// non-termination verdict for this shape of options in this process) and one that did not return
// report an error that no repository code produces.
func (x *extRun) callS(i int, e *entry, gname string, in []byte, fw []byte, o *Opts, earlyStop bool) (core.Measured, error, callStatus) {
	c := x.c
	shape := optShape(e.name, o)
	if why := x.mo.stoppedWhy(e.name, shape); why != "" {
		c.Count("not-called-after-"+why+"/"+e.name+"/"+shape, 1)
		return core.Measured{}, errNotCalled, stBlocked
	}
	c.Begin(i, gname, e.name, in)
	b := budget(len(fw), e.nmeas(o))
	m, err, st := x.mo.run(i, e.name, gname, b, shape, earlyStop, func() error { return e.call(fw, o) })
	if st != stReturned {
		return m, errNoReturn, st
	}
	if m.Panicked {
		c.Count("panic/"+e.name, 1)
	} else if err == nil {
		c.Count("ok/"+e.name, 1)
	} else {
		c.Count("error/"+e.name, 1)
	}
	return m, err, st
}

var (
	errNotCalled = fmt.Errorf("(harness) not called: the entry point has a non-termination verdict in this process")
	errNoReturn  = fmt.Errorf("(harness) the call did not return")
)

func (x *extRun) entry(name string) *entry {
	for k := range x.ents {
		if x.ents[k].name == name {
			return &x.ents[k]
		}
	}
	panic("no entry " + name)
}

func caseRecord(cs *caseT, fw []byte) (string, []byte) {
	var mnames []string
	for _, m := range cs.muts {
		mnames = append(mnames, m.field+"="+m.val)
	}
	gname := fmt.Sprintf("%s[%s] len=%d", cs.class, strings.Join(mnames, "; "), len(fw))
	rec := map[string]any{"class": cs.class, "mutations": mnames, "spec": cs.spec, "opts": cs.opts, "len": len(fw)}
	if len(fw) <= 4096 {
		rec["image"] = fw
	}
	input, _ := json.Marshal(rec)
	return gname, input
}

// build runs the generator of one case; a fault of the generator never looks like one of the repository.
func (x *extRun) build(i int, f func() (caseT, []byte)) (cs caseT, fw []byte, ok bool) {
	defer func() {
		if e := recover(); e != nil {
			x.c.Note("generator fault at case %d (case skipped): %v", i, e)
			x.c.Count("generator-faults", 1)
			ok = false
		}
	}()
	cs, fw = f()
	return cs, fw, true
}

// runExt runs the appended strata. ext0 is the first case number behind the layout stratum, layout0
// the first of the layout stratum. Returns false when a generator faulted.
func runExt(c *core.Ctx, mo *monitor, ents []entry, layout0, ext0 int) bool {
	x := &extRun{c: c, mo: mo, ents: ents, ms: []metrics.Sample{{Name: "/gc/heap/allocs:bytes"}}}
	generatorOK := true
	fits := hobFitCases()
	nC := c.N(130, 1560)
	total := len(fits) + nC
	c.Max("appended-strata-cases", int64(total))
	// as in the layout stratum: on a tree on which one of these (or a layout) cases ended the process (such a
	// tree is refuted by that case, and every further death costs three CPU budgets), only about two more
	// of this shard's appended cases run after the restart; the others are counted
	keepEvery := max(total/c.NShards/2, 1)
	thinned := c.Only < 0 && c.SkipTo > layout0

	located := map[string]int{}
	pagedFull, pagedOver := 0, 0
	overlapped := false
	concAccepted := map[string]int{}
	concCallsTotal := 0

	for k := 0; k < total; k++ {
		i := ext0 + k
		if !c.Mine(i) {
			continue
		}
		if thinned && (i/c.NShards)%keepEvery != 0 {
			c.Count("appended-cases-not-run-after-a-death", 1)
			continue
		}
		switch {
		case k < len(fits):
			hf := &fits[k]
			c.Count("cases/hob-fit", 1)
			type bound struct{ minFit, maxOver uint64 }
			bounds := map[string]*bound{} // entry -> smallest size that held the list, largest that did not
			for _, size := range hf.sizes {
				cs, fw, ok := x.build(i, func() (caseT, []byte) { cs := hf.caseOf(size); return cs, cs.spec.Build() })
				if !ok {
					generatorOK = false
					continue
				}
				gname, input := caseRecord(&cs, fw)
				first := true
				for ei := range x.ents {
					e := &x.ents[ei]
					if e.side != "tdx" {
						continue
					}
					var in []byte
					if first {
						in = input
					}
					m, err, st := x.callS(i, e, gname, in, fw, &cs.opts, false)
					if st != stReturned {
						continue
					}
					first = false
					if m.Panicked {
						c.Cell("tdx.hob-fit|%s|PANIC", e.name)
						continue
					}
					over := err != nil && strings.Contains(err.Error(), "TD HOB buffer is overflowing")
					cls := "list-fits"
					if over {
						cls = "list-does-not-fit"
					}
					c.Cell("tdx.hob-fit/sections=%d|%s|%s|%s", hf.n, e.name, cls, outcome(err))
					if hf.u < 0 {
						if err == nil {
							pagedFull++
							c.Count("hob-fit/page-sized-range-filled-exactly-measured/"+e.name, 1)
						} else if over {
							pagedOver++
						}
						continue
					}
					bd := bounds[e.name]
					if bd == nil {
						bd = &bound{minFit: ^uint64(0)}
						bounds[e.name] = bd
					}
					if over {
						bd.maxOver = max(bd.maxOver, size)
					} else {
						bd.minFit = min(bd.minFit, size)
					}
				}
			}
			// this case's pair is the one the entry point produces when it has sizes on both sides of
			// the exact list length, one byte apart
			for name, bd := range bounds {
				if bd.minFit != ^uint64(0) && bd.maxOver != 0 && bd.minFit == bd.maxOver+1 {
					located[name]++
					c.Count(fmt.Sprintf("hob-fit/list-length-located-to-the-byte/%s/sections=%d/unaccepted-ranges=%d", name, hf.n, hf.u), 1)
				}
			}
		default:
			b := k - len(fits)
			ok := x.concurrent(i, b, &overlapped, concAccepted, &concCallsTotal)
			generatorOK = generatorOK && ok
		}
		c.End(i)
	}

	for _, e := range ents {
		if e.side == "tdx" {
			c.Floor("hob-fit/list-length-boundary-located-to-the-byte/"+e.name, located[e.name] > 0)
		}
	}
	c.Floor("hob-fit/page-sized-range-filled-exactly-was-measured", pagedFull > 0)
	c.Floor("hob-fit/page-sized-range-one-record-short-was-refused", pagedOver > 0)
	c.Floor("concurrent/calls-overlapped", overlapped)
	for _, e := range ents {
		c.Floor("concurrent/accepted-some-well-formed-image/"+e.name, concAccepted[e.name] > 0)
	}
	c.Count("concurrent/calls", concCallsTotal)
	// the strata appended behind the concurrent batches (wrap.go)
	if !runTail(x, ext0+total) {
		generatorOK = false
	}
	return generatorOK
}

// ---- concurrent ----

type barrier struct {
	n         int32
	count     atomic.Int32
	gen       atomic.Int32
	mu        sync.Mutex
	ch        chan struct{} // closed when the current generation is complete
	abandonCh chan struct{} // closed when the batch has a non-termination verdict: everybody goes home
	abandoned atomic.Bool
}

func newBarrier(n int) *barrier {
	return &barrier{n: int32(n), ch: make(chan struct{}), abandonCh: make(chan struct{})}
}

func (b *barrier) abandon() {
	if b.abandoned.CompareAndSwap(false, true) {
		close(b.abandonCh)
	}
}

// wait reports false when the batch was abandoned.
func (b *barrier) wait() bool {
	g := b.gen.Load()
	b.mu.Lock()
	ch := b.ch // the channel of this generation: taken before this goroutine is counted
	b.mu.Unlock()
	if b.count.Add(1) == b.n {
		b.mu.Lock()
		b.ch = make(chan struct{})
		b.mu.Unlock()
		b.count.Store(0)
		b.gen.Add(1)
		close(ch)
		return !b.abandoned.Load()
	}
	// spin while the others are about to arrive (calls on these images take 10..500 us), then park: a
	// goroutine that waits for a call that does not return must not use the CPU at all (mon.go)
	for k := 0; k < 4000; k++ {
		if b.gen.Load() != g {
			return !b.abandoned.Load()
		}
		runtime.Gosched()
	}
	select {
	case <-ch:
	case <-b.abandonCh:
		return false
	}
	return !b.abandoned.Load()
}

func procUserCPU() time.Duration {
	var ru syscall.Rusage
	if syscall.Getrusage(0, &ru) != nil {
		return 0
	}
	return time.Duration(ru.Utime.Nano())
}

type concStep struct {
	fw      []byte
	kind    string // well-formed | layout | hostile
	fresh   bool   // contents no call of this process has seen before
	inPlace bool   // copied into the goroutine's reusable buffer before the call
	e       *entry
}

type concPanic struct{ msg, site, entry, gen string }

// concurrent runs batch b: every goroutine gets its own images, options and (for mixed batches) entry
// points; all goroutines make call j together.
func (x *extRun) concurrent(i, b int, overlapped *bool, accepted map[string]int, callsTotal *int) bool {
	c := x.c
	r := c.Rand(i)
	mode := b % (len(x.ents) + 1)
	name := "mixed"
	if mode < len(x.ents) {
		name = x.ents[mode].name
	}
	steps := make([][]concStep, concGoroutines)
	opts := make([]Opts, concGoroutines)
	var firstSpec *Spec
	total := 0
	allocSum := uint64(0)
	okGen := true
	func() {
		defer func() {
			if e := recover(); e != nil {
				c.Note("generator fault at case %d (case skipped): %v", i, e)
				c.Count("generator-faults", 1)
				okGen = false
			}
		}()
		for g := range steps {
			o := normalOpts(r)
			if r.IntN(4) == 0 {
				o = hostileOpts(r)
			}
			opts[g] = o
			type base struct {
				s    *Spec
				kind string
			}
			var bases []base
			for q := 0; q < 4; q++ {
				size := 4096 * (1 + r.IntN(8))
				s := wellFormed(r, size)
				kind := "well-formed"
				switch (q + g) % 4 {
				case 1:
					tdxLayout(r, s)
					kind = "layout"
				case 2:
					if r.IntN(2) == 0 {
						sevLayout(r, s)
						kind = "layout"
					} else {
						tblLayout(r, s)
						kind = "layout"
					}
				case 3:
					mutate(r, s, false)
					kind = "hostile"
				}
				bases = append(bases, base{s, kind})
			}
			if firstSpec == nil {
				firstSpec = bases[0].s
			}
			var built [][]byte
			for j := 0; j < concCalls; j++ {
				bs := bases[j%4]
				st := concStep{kind: bs.kind}
				if j%3 == 2 && j >= 4 { // an exact repeat of the image of four calls ago: same bytes, same or another buffer
					st.fw = built[j-4]
					if r.IntN(2) == 0 {
						st.fw = append([]byte(nil), st.fw...)
						st.fw = st.fw[:len(st.fw):len(st.fw)]
					}
					st.kind = steps[g][j-4].kind
				} else {
					bs.s.FillSeed = r.Uint64() | 1 // new filler: contents nobody has analysed yet
					st.fw = bs.s.Build()
					st.fresh = true
				}
				st.inPlace = j%8 == 5
				built = append(built, st.fw)
				if mode < len(x.ents) {
					st.e = &x.ents[mode]
				} else {
					st.e = &x.ents[r.IntN(len(x.ents))]
				}
				total += len(st.fw)
				allocSum += budget(len(st.fw), st.e.nmeas(&o)).Alloc
				steps[g] = append(steps[g], st)
			}
		}
	}()
	if !okGen {
		return false
	}
	c.Count("cases/concurrent", 1)
	c.Count("cases/concurrent/"+name, 1)
	ename := "concurrent:" + name
	gname := fmt.Sprintf("concurrent[%s] batch %d: %d goroutines x %d calls in lock step, %d image bytes", name, b, concGoroutines, concCalls, total)
	rec, _ := json.Marshal(map[string]any{"class": "concurrent", "entry": name, "batch": b, "goroutines": concGoroutines, "calls": concCalls,
		"first_spec": firstSpec, "first_opts": opts[0]})
	c.Begin(i, gname, ename, rec)
	// the batch as a whole: per-call figures cannot be told apart while calls overlap; panics, fatal errors and
	// non-termination can. Allocation: the sum of the budgets of the calls. CPU: the images are 4..32 KiB and a
	// call on one costs a millisecond, so the whole batch gets twice the constant part of ONE call's budget (the
	// in-line check sees only the waiting thread; the watchdog ends a batch whose process has used three
	// times that; the maximum observed is reported as concurrent/batch-process-cpu-ms).
	bd := core.Budget{CPU: 2 * cpuBase, Alloc: allocSum}
	cpu0 := procUserCPU()
	var inflight, maxInflight, oks, errs atomic.Int64
	var mu sync.Mutex
	var panics []concPanic
	okBy := map[string]int{}
	afterFail := map[string]int{}
	cells := map[string]bool{}
	bar := newBarrier(concGoroutines)
	var cur [concGoroutines]atomic.Int32 // step (1-based) a goroutine is inside a call of; 0 = between calls
	stuckWhere := ""
	c.Guard(i, ename, gname, bd, func() {
		var wg sync.WaitGroup
		for g := 0; g < concGoroutines; g++ {
			wg.Add(1)
			go func(g int) {
				defer wg.Done()
				o := opts[g]
				buf := make([]byte, 8*4096+8192)
				prevFailed := false
				for j := range steps[g] {
					st := &steps[g][j]
					fw := st.fw
					if st.inPlace && len(fw) <= len(buf) {
						copy(buf, fw)
						fw = buf[:len(fw):len(fw)]
					}
					if !bar.wait() {
						return
					}
					shape := optShape(st.e.name, &o)
					if why := x.mo.stoppedWhy(st.e.name, shape); why != "" {
						c.Count("not-called-after-"+why+"/"+st.e.name+"/"+shape, 1)
						continue
					}
					cur[g].Store(int32(j + 1))
					var err error
					panicked := false
					func() {
						defer func() {
							if rec := recover(); rec != nil {
								panicked = true
								mu.Lock()
								if len(panics) < 4 {
									panics = append(panics, concPanic{fmt.Sprint(rec), core.PanicSite(debug.Stack()), st.e.name, st.kind})
								}
								mu.Unlock()
							}
						}()
						n := inflight.Add(1)
						for {
							m := maxInflight.Load()
							if n <= m || maxInflight.CompareAndSwap(m, n) {
								break
							}
						}
						defer inflight.Add(-1)
						err = st.e.call(fw, &o)
					}()
					mu.Lock()
					switch {
					case panicked:
						cells[fmt.Sprintf("concurrent|%s|%s|PANIC", st.e.name, st.kind)] = true
					case err == nil:
						oks.Add(1)
						if prevFailed {
							afterFail[st.e.name]++
						}
						if st.kind == "well-formed" && o.Normal {
							okBy[st.e.name]++
						}
						cells[fmt.Sprintf("concurrent|%s|%s|ok", st.e.name, st.kind)] = true
					default:
						errs.Add(1)
						cells[fmt.Sprintf("concurrent|%s|%s|error", st.e.name, st.kind)] = true
					}
					mu.Unlock()
					prevFailed = !panicked && err != nil
					cur[g].Store(0)
				}
			}(g)
		}
		// the batch is awaited the way a single call is (mon.go): it is declared blocked only when the whole
		// process has been idle for a long stretch and every goroutine of the batch that is not waiting at the
		// barrier is parked on a synchronisation primitive
		done := make(chan struct{})
		go func() { wg.Wait(); close(done) }()
		tk := time.NewTicker(idleTick)
		defer tk.Stop()
		var w idleWatch
		w.reset()
		for {
			select {
			case <-done:
				return
			case <-tk.C:
			}
			if blocked, desc := w.tick(c, "(*extRun).concurrent.func"); blocked {
				stuckWhere = desc
				bar.abandon()
				return
			}
		}
	})
	if stuckWhere != "" {
		var who []string
		for g := range cur {
			if j := int(cur[g].Load()); j > 0 {
				st := &steps[g][j-1]
				shape := optShape(st.e.name, &opts[g])
				who = append(who, fmt.Sprintf("%s (options: %s) on a %s image", st.e.name, shape, st.kind))
				x.mo.stop(st.e.name, shape, "a-non-termination-verdict")
				c.Count("non-termination/blocked-calls/concurrent:"+st.e.name+"/"+shape, 1)
			}
		}
		c.Violate(core.Violation{Kind: "oracle", Entry: ename, Site: ruleBlocked, Gen: gname, Case: i,
			Detail: fmt.Sprintf("calls that did not return and do not compute: %s: %s. The batch is abandoned", strings.Join(who, ", "), stuckWhere)})
	}
	mu.Lock() // (an abandoned batch leaves goroutines behind; they are parked, but nothing below relies on that)
	defer mu.Unlock()
	for _, p := range panics {
		c.Count("panic/concurrent:"+p.entry, 1)
		c.Violate(core.Violation{Kind: "panic", Entry: "concurrent:" + p.entry, Site: p.site, Gen: gname + " on a " + p.gen + " image", Case: i, Detail: p.msg})
	}
	c.Max("concurrent/batch-process-cpu-ms", int64((procUserCPU()-cpu0)/time.Millisecond)) // observed, not judged
	n := int(oks.Load() + errs.Load())
	c.Eval(max(n-1, 0))
	*callsTotal += n
	c.Count("concurrent/ok-calls/"+name, int(oks.Load()))
	c.Count("concurrent/error-calls/"+name, int(errs.Load()))
	c.Max("concurrent/max-calls-in-flight", maxInflight.Load())
	if maxInflight.Load() >= 2 {
		*overlapped = true
	}
	var keys []string
	for k := range cells {
		keys = append(keys, k)
	}
	sort.Strings(keys)
	for _, k := range keys {
		c.Cell("%s", k)
	}
	for k, v := range okBy {
		accepted[k] += v
	}
	for k, v := range afterFail {
		c.Count("concurrent/result-directly-after-a-failed-call-of-the-same-goroutine/"+k, v)
	}
	nfresh, nrepeat, ninplace := 0, 0, 0
	for g := range steps {
		for _, st := range steps[g] {
			if st.fresh {
				nfresh++
			} else {
				nrepeat++
			}
			if st.inPlace {
				ninplace++
			}
		}
	}
	c.Count("concurrent/calls-on-fresh-contents", nfresh)
	c.Count("concurrent/calls-repeating-an-earlier-image", nrepeat)
	c.Count("concurrent/calls-on-a-buffer-refilled-in-place", ninplace)
	if b%17 == 0 {
		c.Sample(map[string]any{"case": i, "gen": gname})
	}
	return true
}
