package c08

import (
	"fmt"
	"math/rand/v2"
	"strings"
)

// Strata appended behind the concurrent batches (fourth round). Case numbers continue, every case
// draws from c.Rand(i) only, the verdicts are the ones of every other case (panic / death / CPU /
// allocation / non-termination).
//
//	refused-options  "every byte string AND every launch option": images the analysis refuses at every
//	                 depth (no table, foreign footer, truncated, broken SEV or TDVF signature, a size that
//	                 is not a page multiple, a misaligned or missing section ...) and a valid control,
//	                 crossed with the option shapes that change how much work a request fans out into
//	                 (all VMSA counts / one / an unsupported count; every product incl. unknown ones; no,
//	                 one, all, unknown and repeated machine shapes with and without early accept; bank
//	                 lists). The random strata cross the same two dimensions only by chance of the draw;
//	                 here the cross product is complete in every run. What a refused image must still do
//	                 is return: its error has to come back through whatever the options set in motion.
//	sum-wrap         the SUM of per-section sizes wraps 2^32 although every single field is in range:
//	                 hundreds to thousands of firmware-volume sections that each cover (most of) the whole
//	                 file at disjoint guest addresses, so that the declared volume bytes are w * 2^32 + the
//	                 image size (+- a page, or exactly w * 2^32, or a small multiple of the size without
//	                 any wrap, as controls that must be refused or accepted cheaply). A tree that adds the
//	                 sizes up in 32 bits accepts such an image and measures w * 4 GiB for it.
//
// judgeFvSizeSumWrap gates exactly the calls of the sum-wrap stratum that measure an image whose
// wrapping sum the parse (ovmf.ExtractMaterialGuestPhysicalRegions, called first in the same case)
// has ACCEPTED and that are not cheap by construction (tdx.MRTD in default mode on sections without
// the extend attribute only adds pages). While it is false these calls are not made (the cases are
// generated, parsed by the three parse-only entry points, measured in the cheap mode, and counted
// under sum-wrap/...): on the tree as it stands every one of them costs 12..50 s of CPU time and
// refutes the time clause of the property (finding: validateTDXMetadataSections adds the volume sizes
// into a uint32). When it is true each case makes one such call, selected by the case, under the
// ordinary budget with the verdict taken as soon as the call has used its CPU or allocation budget (the
// call is not waited for any longer), and after the first such verdict the process makes no further call.
// On a tree that refuses these images every entry point is called on them and costs microseconds.
const judgeFvSizeSumWrap = true

// ---- refused-options ----

var refusalClasses = []string{"valid", "empty", "zero-bytes", "random-bytes", "size-not-page-multiple", "sev-signature", "tdx-signature",
	"sev-no-cpuid-section", "sev-section-misaligned", "footer-guid", "truncated-table", "tdx-no-hob", "one-byte"}

var optionSets = []string{"all-vmsas/milan", "all-vmsas/genoa", "all-vmsas/unknown-product", "all-vmsas/product-3", "two-vmsas", "vmsas-255", "all-vmsas/bad-family-id",
	"no-shapes/early/vcpus-0", "all-shapes/early/vcpus-512", "unknown-shape/early", "no-banks", "all-vmsas/hostile-draw"}

func refusedImage(r *rand.Rand, class string) *Spec {
	size := 4096 * (1 + r.IntN(8))
	switch class {
	case "empty":
		return &Spec{Raw: true, Size: 0, Cut: -1}
	case "one-byte":
		return &Spec{Raw: true, Size: 1, FillSeed: r.Uint64() | 1, Cut: -1}
	case "zero-bytes":
		return &Spec{Raw: true, Size: size, Cut: -1}
	case "random-bytes":
		return &Spec{Raw: true, Size: size, FillSeed: r.Uint64() | 1, Cut: -1}
	case "size-not-page-multiple":
		return wellFormed(r, size+[]int{1, 0x200, 0x800, 4095}[r.IntN(4)])
	}
	s := wellFormed(r, size)
	switch class {
	case "sev-signature":
		s.Sev.Sig ^= 1 << r.IntN(32)
	case "tdx-signature":
		s.Tdx.Sig ^= 1 << r.IntN(32)
	case "sev-no-cpuid-section":
		for k := range s.Sev.Secs {
			if s.Sev.Secs[k].Kind == secCpuid {
				s.Sev.Secs[k].Kind = secUnmeasured
			}
		}
	case "sev-section-misaligned":
		s.Sev.Secs[r.IntN(len(s.Sev.Secs))].Addr |= 0x10 << r.IntN(7)
	case "footer-guid":
		s.Footer = guidTdvf
	case "truncated-table":
		s.Cut = s.Size - 0x20 - r.IntN(0x30)
	case "tdx-no-hob":
		var secs []Sec32
		for _, x := range s.Tdx.Secs {
			if x.Type != tdHOB {
				secs = append(secs, x)
			}
		}
		setTdxSecs(s, secs)
	}
	return s
}

func optionSet(r *rand.Rand, set string) Opts {
	o := normalOpts(r)
	o.Normal = false
	o.SnpVmsas = 0
	switch set {
	case "all-vmsas/milan":
		o.Product, o.Normal = 1, true
	case "all-vmsas/genoa":
		o.Product, o.Normal = 2, true
	case "all-vmsas/unknown-product":
		o.Product = 0
	case "all-vmsas/product-3":
		o.Product = 3
	case "two-vmsas":
		o.SnpVmsas = 2
	case "vmsas-255":
		o.SnpVmsas = 255 // a count GCE does not sell; counts stay <= 512 (assumption: cost that grows with an option is not judged)
	case "all-vmsas/bad-family-id":
		o.FamilyID = "not-a-guid"
	case "no-shapes/early/vcpus-0":
		o.Shapes, o.Early, o.Vcpus = nil, true, 0
	case "all-shapes/early/vcpus-512":
		o.Shapes, o.Early, o.Vcpus = shapes, true, 512
	case "unknown-shape/early":
		o.Shapes, o.Early, o.LegacyShape = []string{"c3-standard-4", "n2d-standard-2", "c3-standard-4"}, true, "c3-highmem-4"
	case "no-banks":
		o.Banks = nil
	case "all-vmsas/hostile-draw":
		o = hostileOpts(r)
		o.SnpVmsas = 0
	}
	return o
}

// ---- sum-wrap ----

// sumWrap is one image whose firmware-volume sizes add up to Wraps * 2^32 + Size + Delta: k sections
// of D bytes (the generated CFV list) and the boot firmware volume that takes the remainder.
type sumWrap struct {
	Size  int    // image size
	D     uint32 // size of the repeated sections (<= Size)
	Wraps int
	Delta int64
	Attr  uint32 // the extend attribute of every volume section
	Low   bool   // volumes packed from 4 GiB upwards (inside the RAM banks) instead of from 1 TiB
	Exp   string // the entry point that makes the gated measuring call of this case
	Tile  bool   // (one repeated section only) it carries the file range behind the boot volume's instead of the same one
}

func (sw *sumWrap) total() uint64 {
	return uint64(int64(uint64(sw.Wraps)<<32+uint64(sw.Size)) + sw.Delta)
}

// split returns the number of repeated sections and the size of the boot volume.
func (sw *sumWrap) split() (int, uint32) {
	t := sw.total()
	k := t / uint64(sw.D)
	rem := t % uint64(sw.D)
	if rem == 0 {
		k, rem = k-1, uint64(sw.D)
	}
	return int(k), uint32(rem)
}

func (sw *sumWrap) fits() bool {
	if uint64(sw.D) > uint64(sw.Size) || sw.D == 0 || sw.total() == 0 {
		return false
	}
	k, _ := sw.split()
	return k >= 0 && k <= 16500 && 0x200+32+32*(k+2)+0x400 <= sw.Size
}

func (sw *sumWrap) name() string {
	switch {
	case sw.Delta == 0 && sw.Wraps > 0:
		return fmt.Sprintf("sum=%dx2^32+size", sw.Wraps)
	case sw.Delta == -int64(sw.Size) && sw.Wraps > 0:
		return fmt.Sprintf("sum=%dx2^32", sw.Wraps)
	case sw.Wraps > 0 && sw.Delta > 0:
		return fmt.Sprintf("sum=%dx2^32+size+page", sw.Wraps)
	case sw.Wraps > 0:
		return fmt.Sprintf("sum=%dx2^32+size-page", sw.Wraps)
	case sw.Delta == 0:
		return "sum=size"
	}
	return "sum=multiple-of-size"
}

func (sw *sumWrap) spec() *Spec {
	size := sw.Size
	s := fixedSpec(600, size)
	s.Sev.Pos = 0
	s.setOff(guidSevOff, uint32(size))
	s.Tdx.Pos = 0x200
	s.setOff(guidTdxOff, uint32(size-0x200-16))
	k, rem := sw.split()
	s.Tdx.Secs = []Sec32{
		{DataOff: 0, DataSize: rem, Base: 1<<32 - uint64(rem), Size: uint64(rem), Type: tdBFV, Attr: 1},
		{Base: 0x800000, Size: 0x100000, Type: tdHOB},
	}
	base := uint64(1) << 40
	if sw.Low {
		base = 1 << 32
	}
	s.Tdx.Rep, s.Tdx.RepBase, s.Tdx.RepStep, s.Tdx.RepSize = k, base, uint64(sw.D), uint64(sw.D)
	s.Tdx.RepFV = &RepFV{DataSize: sw.D, Attr: sw.Attr}
	if sw.Tile && k == 1 {
		s.Tdx.RepFV.DataOff = rem
	}
	s.Tdx.Cnt = uint32(2 + k)
	s.Tdx.Len = 16 + 32*s.Tdx.Cnt
	return s
}

var sumWrapOpts = Opts{Vcpus: 1, Product: 1, SnpVmsas: 1, ImageID: "3e2a9d4c-1b5f-4c7a-9e8d-0f1a2b3c4d5e", LegacyShape: "c3-standard-4",
	Banks: [][2]uint64{{0, 3 << 30}, {4<<30 - 2<<20, 2 << 20}, {4 << 30, 12 << 30}}, BanksAll: true}

var measuringEntries = []string{"tdx.MRTD/default", "tdx.MRTD/legacy", "tdx.MRTD/early-accept", "tdx.MRTD/banks", "tdx.UnsignedTDX"}

func sumWrapFixed() []sumWrap {
	const K, M = 1 << 10, 1 << 20
	return []sumWrap{
		{Size: 512 * K, D: 512 * K, Wraps: 1, Attr: 1, Exp: "tdx.MRTD/default"}, // 8193 volumes of 512 KiB
		{Size: 512 * K, D: 512 * K, Wraps: 1, Attr: 0, Low: true, Exp: "tdx.MRTD/legacy"},
		{Size: 384 * K, D: 384 * K, Wraps: 1, Attr: 1, Exp: "tdx.UnsignedTDX"}, // the smallest size class whose metadata holds the list
		{Size: 1 * M, D: 1 * M, Wraps: 2, Attr: 1, Exp: "tdx.MRTD/default"},
		{Size: 1 * M, D: 512 * K, Wraps: 1, Attr: 0, Low: true, Exp: "tdx.MRTD/banks"},
		{Size: 2 * M, D: 2 * M, Wraps: 4, Attr: 1, Exp: "tdx.MRTD/early-accept"},
		{Size: 768 * K, D: 768*K - 4096, Wraps: 1, Attr: 1, Exp: "tdx.MRTD/default"},
		{Size: 1 * M, D: 1 * M, Wraps: 1, Attr: 1, Low: true, Exp: "tdx.MRTD/legacy"},
		// controls: the sum wraps but not onto the size, wraps onto zero, or does not wrap at all
		{Size: 512 * K, D: 512 * K, Wraps: 1, Delta: 4096, Attr: 1, Exp: "tdx.MRTD/default"},
		{Size: 512 * K, D: 512 * K, Wraps: 1, Delta: -4096, Attr: 1, Exp: "tdx.MRTD/default"},
		{Size: 512 * K, D: 512 * K, Wraps: 1, Delta: -512 * K, Attr: 1, Exp: "tdx.MRTD/default"},
		{Size: 512 * K, D: 512 * K, Wraps: 0, Delta: 512 * K, Attr: 1, Exp: "tdx.MRTD/default"},      // twice the file
		{Size: 512 * K, D: 512 * K, Wraps: 0, Delta: 63 * 512 * K, Attr: 0, Exp: "tdx.MRTD/default"}, // 64 times the file
		{Size: 512 * K, D: 256 * K, Wraps: 0, Attr: 1, Tile: true, Exp: "tdx.MRTD/default"},          // two halves: the exact sum
	}
}

func sumWrapDrawn(r *rand.Rand) sumWrap {
	const K = 1 << 10
	for {
		sw := sumWrap{Size: []int{512 * K, 640 * K, 768 * K, 1024 * K, 1536 * K, 2048 * K}[r.IntN(6)], Wraps: []int{1, 1, 2, 3}[r.IntN(4)],
			Attr: uint32(r.IntN(2)), Low: r.IntN(2) == 0, Exp: measuringEntries[r.IntN(len(measuringEntries))]}
		switch r.IntN(3) {
		case 0:
			sw.D = uint32(sw.Size)
		case 1:
			sw.D = uint32(sw.Size - 4096*(1+r.IntN(8)))
		default:
			sw.D = uint32(sw.Size / 2)
		}
		sw.Delta = []int64{0, 0, 0, 4096, -4096, -int64(sw.Size)}[r.IntN(6)]
		if sw.fits() {
			return sw
		}
	}
}

// ---- the two strata ----

// runTail runs the strata behind the concurrent batches; tail0 is their first case number.
func runTail(x *extRun, tail0 int) bool {
	c := x.c
	generatorOK := true
	nRO := len(refusalClasses) * len(optionSets) * c.N(1, 4)
	fixedSW := sumWrapFixed()
	nSW := len(fixedSW) + c.N(10, 80)
	c.Max("tail-strata-cases", int64(nRO+nSW))

	refusedAllVmsas, validAllVmsas := 0, 0
	exactOK, wrongRefused, wrapAccepted, wrapRefused := 0, 0, 0, 0
	overBudgetSeen := false
	afterDeath := c.Only < 0 && c.SkipTo > tail0+nRO

	for k := 0; k < nRO+nSW; k++ {
		i := tail0 + k
		if !c.Mine(i) {
			continue
		}
		if overBudgetSeen {
			// the abandoned call is still computing and allocating: nothing else is measured in this process
			// (sum-wrap is the last stratum). Never taken on a tree without such a verdict.
			c.Count("sum-wrap/cases-not-run-after-a-budget-verdict", 1)
			continue
		}
		r := c.Rand(i)
		if k < nRO {
			class := refusalClasses[k%len(refusalClasses)]
			set := optionSets[(k/len(refusalClasses))%len(optionSets)]
			cs, fw, ok := x.build(i, func() (caseT, []byte) {
				s := refusedImage(r, class)
				cs := caseT{class: "refused-options", spec: s, opts: optionSet(r, set), muts: []mut{{"img.refused/" + class, set}}}
				return cs, s.Build()
			})
			if !ok {
				generatorOK = false
				continue
			}
			c.Count("cases/refused-options", 1)
			gname, input := caseRecord(&cs, fw)
			first := true
			for ei := range x.ents {
				e := &x.ents[ei]
				var in []byte
				if first {
					in = input
				}
				m, err, st := x.callS(i, e, gname, in, fw, &cs.opts, false)
				if st != stReturned {
					continue
				}
				first = false
				if m.Panicked {
					c.Cell("refused-options/%s/%s|%s|PANIC", class, set, e.name)
					continue
				}
				c.Cell("refused-options/%s/%s|%s|%s", class, set, e.name, outcome(err))
				if e.name == "sev.UnsignedSnp" && cs.opts.SnpVmsas == 0 {
					if err != nil && class != "valid" {
						refusedAllVmsas++
					}
					if err == nil {
						validAllVmsas++
					}
				}
			}
			c.End(i)
			continue
		}

		// sum-wrap
		j := k - nRO
		var sw sumWrap
		if j < len(fixedSW) {
			sw = fixedSW[j]
		}
		cs, fw, ok := x.build(i, func() (caseT, []byte) {
			if j >= len(fixedSW) {
				sw = sumWrapDrawn(r)
			}
			if !sw.fits() {
				panic(fmt.Sprintf("sum-wrap case does not fit its image: %+v", sw))
			}
			s := sw.spec()
			nk, rem := sw.split()
			cs := caseT{class: "sum-wrap", spec: s, opts: sumWrapOpts,
				muts: []mut{{"tdx.fv-sizes/" + sw.name(), fmt.Sprintf("%d volumes of %d KiB + one of %d KiB in %d KiB, attr %d", nk, sw.D>>10, rem>>10, sw.Size>>10, sw.Attr)}}}
			return cs, s.Build()
		})
		if !ok {
			generatorOK = false
			continue
		}
		c.Count("cases/sum-wrap", 1)
		c.Count("sum-wrap/cases/"+sw.name(), 1)
		wraps := sw.Wraps > 0 && sw.Delta == 0
		gname, input := caseRecord(&cs, fw)
		first := true
		parseAccepted := false
		for ei := range x.ents {
			e := &x.ents[ei]
			if e.side != "tdx" { // the SEV half of these images is the one of a plain well-formed image
				continue
			}
			measuring := strings.HasPrefix(e.name, "tdx.")
			costly := measuring && parseAccepted && sw.total() > 64*uint64(sw.Size) && !(e.name == "tdx.MRTD/default" && sw.Attr == 0)
			early := false
			if costly {
				switch {
				case !judgeFvSizeSumWrap:
					c.Count("sum-wrap/measuring-call-not-made-while-not-judged/"+e.name, 1)
					continue
				case e.name != sw.Exp:
					c.Count("sum-wrap/measuring-call-left-to-another-case/"+e.name, 1)
					continue
				case afterDeath:
					c.Count("sum-wrap/measuring-call-not-made-after-a-verdict/"+e.name, 1)
					continue
				}
				early = true
			}
			var in []byte
			if first {
				in = input
			}
			m, err, st := x.callS(i, e, gname, in, fw, &cs.opts, early)
			if st == stOverBudget {
				overBudgetSeen = true
				c.Cell("tdx.fv-sizes/%s|%s|OVER-BUDGET", sw.name(), e.name)
				break
			}
			if st != stReturned {
				continue
			}
			first = false
			if m.Panicked {
				c.Cell("tdx.fv-sizes/%s|%s|PANIC", sw.name(), e.name)
				continue
			}
			c.Cell("tdx.fv-sizes/%s|%s|%s", sw.name(), e.name, outcome(err))
			if e.name == "ovmf.ExtractMaterialGuestPhysicalRegions" {
				parseAccepted = err == nil
				switch {
				case wraps && err == nil:
					wrapAccepted++
					c.Count("sum-wrap/wrapping-sum-accepted-by-the-parse", 1)
					c.Max("sum-wrap/declared-volume-MiB-of-an-accepted-image", int64(sw.total()>>20))
				case wraps:
					wrapRefused++
					c.Count("sum-wrap/wrapping-sum-refused-by-the-parse", 1)
				case sw.Wraps == 0 && sw.Delta == 0 && err == nil:
					exactOK++
				case err != nil:
					wrongRefused++
				}
			}
			if costly || (measuring && parseAccepted && wraps) {
				c.Max("sum-wrap/cpu-ms-of-a-measurement-of-an-accepted-image/"+e.name, int64(m.CPU.Milliseconds()))
			}
		}
		c.End(i)
	}
	c.Floor("refused-options/all-vmsa-counts-on-a-refused-image-returned-an-error", refusedAllVmsas > 0)
	c.Floor("refused-options/all-vmsa-counts-on-a-valid-image-returned-a-result", validAllVmsas > 0)
	c.Floor("sum-wrap/exact-sum-of-two-volumes-was-accepted", exactOK > 0)
	c.Floor("sum-wrap/sum-that-misses-the-size-was-refused", wrongRefused > 0)
	c.Floor("sum-wrap/wrapping-sum-reached-the-parse", wrapAccepted+wrapRefused > 0)
	// the stratum appended behind sum-wrap (decl.go)
	if !runDecl(x, tail0+nRO+nSW, overBudgetSeen) {
		generatorOK = false
	}
	return generatorOK
}
