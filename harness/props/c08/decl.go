package c08

import (
	"fmt"
	"math/rand/v2"
	"runtime"
)

// Stratum appended behind the sum-wrap stratum (fifth round): declared extent against a control.
//
// Every other stratum judges allocation against the absolute budget (256 MiB + 512 bytes per image
// byte per measurement), whose constant part is there for the fixed costs of a call. Memory that a call
// keeps or allocates PER PAGE OF GUEST MEMORY THE METADATA DECLARES (a set of measured pages, a list of
// page records, a per-page buffer) is not a fixed cost and has nothing to do with the size of the
// image either, but as long as the declared extent is limited by the 32-bit address space (about one
// million pages) it hides below that constant. What tells it from a fixed cost is a control: the same
// image, byte for byte, except that the sections that carry the extent declare one page each.
//
//	case     a small well-formed image (4..64 KiB) whose SEV section list is: one secret page, one CPUID
//	         page and 1..8 disjoint, page-aligned sections that together declare 1 GiB .. ~4 GiB below the
//	         ROM window; the carrier of the extent is a list of pre-validated sections (mostly), the
//	         secret section, the CPUID section or a list of SVSM CAA sections; list order shuffled;
//	         vCPU count, product and VMSA counts (one / all 15) drawn. The control declares one page in
//	         every carrier section and is otherwise identical (same length, same options).
//	calls    ovmf.SevData.ExtractFromFirmware, sev.LaunchDigest, sev.UnsignedSnp: control first, then the
//	         image with the extent, in the same process, under the ordinary monitor (panic / death /
//	         CPU / allocation budget / non-termination are judged as everywhere).
//	rule     allocation-follows-declared-extent-not-image-size: both calls returned a result (errors are
//	         never judged) and the call on the image with the extent allocated more than declTol bytes more
//	         than the call on its control. The two images have the same size and the control pays every
//	         cost that is fixed or related to the size, so the excess is memory "unrelated to its size".
//	         declTol (8 MiB) is only there for what the process allocates besides the call while the
//	         longer call runs (the harness' own samplers, one goroutine dump of the idle watch, the
//	         granularity of the runtime's allocation counter); when it is exceeded the pair is measured
//	         up to two more times and the smallest excess decides, so that one disturbed measurement
//	         is never a verdict. CPU time is NOT compared with the control: the tree as it stands
//	         hashes one record per declared page (1 M records, ~0.5 s for 4 GiB) and the property's time
//	         clause is left to the absolute budget.
//
// Not extended to the TDX half: there the unchanged tree itself allocates zero buffers of the declared
// TD-HOB / TempMem sizes, which the repair of F08 caps at 64 MiB in total; that cap is what the constant
// part of the budget was sized for, and lists of such sections are judged against it (scratch-list).
const (
	judgeDeclaredExtent = true
	declTol             = 8 << 20
	ruleDeclared        = "allocation-follows-declared-extent-not-image-size"
)

var declExtents = []bval{{1 << 30, "1GiB"}, {3 << 29, "1.5GiB"}, {2 << 30, "2GiB"}, {3 << 30, "3GiB"}, {7 << 29, "3.5GiB"}, {0xff000000 - 0x40000, "4GiB-16MiB"}}

var declEntries = []string{"ovmf.SevData.ExtractFromFirmware", "sev.LaunchDigest", "sev.UnsignedSnp"}

type declCase struct {
	large, control *Spec
	opts           Opts
	carrier        string
	m              int
	extent         bval
}

func declDraw(r *rand.Rand) declCase {
	size := 4096 * []int{1, 1, 2, 3, 4, 8, 16}[r.IntN(7)]
	s := wellFormed(r, size)
	o := normalOpts(r)
	o.SnpVmsas = []uint32{1, 1, 1, 2, 4, 8, 1, 0}[r.IntN(8)]
	dc := declCase{extent: declExtents[r.IntN(len(declExtents))], opts: o}
	if o.SnpVmsas == 0 {
		// all 15 VMSA counts: 15 measurements of the extent in one call; the smallest extent keeps the case at ~2 s
		dc.extent = declExtents[0]
	}
	kind := uint32(secUnmeasured)
	switch r.IntN(8) {
	case 0:
		kind, dc.carrier, dc.m = secSecret, "secret", 1
	case 1:
		kind, dc.carrier, dc.m = secCpuid, "cpuid", 1
	case 2:
		kind, dc.carrier, dc.m = secCaa, "svsm-caa", []int{1, 2, 4}[r.IntN(3)]
	default:
		dc.carrier, dc.m = "pre-validated", []int{1, 1, 2, 3, 4, 8}[r.IntN(6)]
	}
	share := uint32(dc.extent.v/uint64(dc.m)) &^ 0xfff
	// the list: the small members first, then shuffled; addresses ascend from a drawn page with gaps of 0..3 pages
	type member struct {
		kind    uint32
		carries bool
	}
	var ms []member
	for _, k := range []uint32{secSecret, secCpuid, secUnmeasured} {
		if k != kind {
			ms = append(ms, member{k, false})
		}
	}
	for j := 0; j < dc.m; j++ {
		ms = append(ms, member{kind, true})
	}
	r.Shuffle(len(ms), func(i, j int) { ms[i], ms[j] = ms[j], ms[i] })
	// guest addresses are handed out in a second drawn order, so that list order and address order differ
	order := r.Perm(len(ms))
	addr := make([]uint32, len(ms))
	page := uint32(r.IntN(0x40))
	for _, j := range order {
		addr[j] = page << 12
		n := uint32(1)
		if ms[j].carries {
			n = share >> 12
		}
		page += n + uint32(r.IntN(4))
	}
	if uint64(page)<<12 > 0xffc00000 {
		panic(fmt.Sprintf("declared-extent case does not fit below the ROM window: ends at page %#x", page))
	}
	var large, control []Sec12
	for j, m := range ms {
		l := uint32(0x1000)
		if m.carries {
			l = share
		}
		large = append(large, Sec12{Addr: addr[j], Len: l, Kind: m.kind})
		control = append(control, Sec12{Addr: addr[j], Len: 0x1000, Kind: m.kind})
	}
	with := func(secs []Sec12) *Spec {
		c := *s
		sev := *s.Sev
		sev.Secs, sev.Cnt, sev.Len = secs, uint32(len(secs)), uint32(16+12*len(secs))
		c.Sev = &sev
		return &c
	}
	dc.large, dc.control = with(large), with(control)
	return dc
}

// runDecl runs the declared-extent stratum; d0 is its first case number. skip is set when an abandoned
// call of the stratum before is still computing in this process (nothing can be measured then).
func runDecl(x *extRun, d0 int, skip bool) bool {
	c := x.c
	n := c.N(32, 320)
	c.Max("declared-extent-cases", int64(n))
	generatorOK := true
	judged := map[string]int{}
	for k := 0; k < n; k++ {
		i := d0 + k
		if !c.Mine(i) {
			continue
		}
		if skip {
			c.Count("declared-extent/cases-not-run-after-a-budget-verdict", 1)
			continue
		}
		r := c.Rand(i)
		var dc declCase
		var fwC, fwL []byte
		if _, _, ok := x.build(i, func() (caseT, []byte) {
			dc = declDraw(r)
			fwC, fwL = dc.control.Build(), dc.large.Build()
			return caseT{}, nil
		}); !ok {
			generatorOK = false
			continue
		}
		c.Count("cases/declared-extent", 1)
		c.Count("declared-extent/carrier/"+dc.carrier, 1)
		field := fmt.Sprintf("sev.declared-extent/%s/sections=%s", dc.carrier, bucket(dc.m))
		csC := caseT{class: "declared-extent", spec: dc.control, opts: dc.opts, muts: []mut{{field, "control:one-page-each"}}}
		csL := caseT{class: "declared-extent", spec: dc.large, opts: dc.opts, muts: []mut{{field, dc.extent.name}}}
		gnameC, inputC := caseRecord(&csC, fwC)
		gnameL, inputL := caseRecord(&csL, fwL)
		firstC, firstL := true, true
		// pair makes the two calls of one measurement; ok is false when one of them did not come back
		// with a measurement that can be compared (not made, no return, panic)
		pair := func(e *entry) (errC, errL error, excess int64, ok bool) {
			var in []byte
			if firstC {
				in, firstC = inputC, false
			}
			// the runtime credits small allocations to its counter when a span is used up or at the next
			// collection; a collection before each call keeps what the generator and the call before it
			// allocated out of this call's figure
			runtime.GC()
			mC, errC, st := x.callS(i, e, gnameC, in, fwC, &dc.opts, false)
			if st != stReturned || mC.Panicked {
				return errC, nil, 0, false
			}
			in = nil
			if firstL {
				in, firstL = inputL, false
			}
			runtime.GC()
			mL, errL, st := x.callS(i, e, gnameL, in, fwL, &dc.opts, false)
			if st != stReturned || mL.Panicked {
				if mL.Panicked {
					c.Cell("%s=%s|%s|PANIC", field, dc.extent.name, e.name)
				}
				return errC, errL, 0, false
			}
			c.Max("declared-extent/cpu-ms-with-the-extent/"+e.name, mL.CPU.Milliseconds())
			return errC, errL, int64(mL.Alloc) - int64(mC.Alloc), true
		}
		for _, name := range declEntries {
			e := x.entry(name)
			errC, errL, excess, ok := pair(e)
			if !ok {
				c.Count("declared-extent/not-judged:a-call-did-not-return-a-measurement/"+name, 1)
				continue
			}
			c.Cell("%s=%s|%s|%s", field, dc.extent.name, name, outcome(errL))
			if errC != nil || errL != nil {
				// errors are never judged; an image that is refused was not measured
				c.Count("declared-extent/not-judged:refused/"+name, 1)
				continue
			}
			attempts := 1
			for excess > declTol && attempts < 3 {
				_, _, again, ok := pair(e)
				if !ok {
					break
				}
				excess = min(excess, again)
				attempts++
			}
			judged[name]++
			c.Count("declared-extent/judged-against-control/"+name, 1)
			c.Max("declared-extent/alloc-bytes-beyond-the-control/"+name, max(excess, 0))
			if excess > declTol {
				if attempts < 3 {
					c.Count("declared-extent/not-judged:repeat-measurement-failed/"+name, 1)
					continue
				}
				detail := fmt.Sprintf("%s allocated %d bytes more (smallest of %d measurements; tolerance %d) on a %d-byte image whose %s section(s) declare %s of guest memory than on the same image with one page declared per section; both calls returned a result, the images have the same size and the options are the same, so the excess follows the declared extent and not the size of the image",
					name, excess, attempts, declTol, len(fwL), dc.carrier, dc.extent.name)
				if judgeDeclaredExtent {
					c.Oracle(i, name, ruleDeclared, gnameL, "%s", detail)
				} else {
					c.Count("declared-extent/excess-seen-while-not-judged/"+name, 1)
					c.Note("not judged: %s", detail)
				}
			}
		}
		if k%8 == 0 {
			c.Sample(map[string]any{"case": i, "gen": gnameL, "control": gnameC, "opts": dc.opts})
		}
		c.End(i)
	}
	c.Floor("declared-extent/an-image-declaring-GiBs-was-measured-and-compared-with-its-control/sev.LaunchDigest", judged["sev.LaunchDigest"] > 0)
	c.Floor("declared-extent/an-image-declaring-GiBs-was-measured-and-compared-with-its-control/sev.UnsignedSnp", judged["sev.UnsignedSnp"] > 0)
	return generatorOK
}
