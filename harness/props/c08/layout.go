package c08

import (
	"fmt"
	"math/rand/v2"
	"strings"
)

// The "layout" stratum: the LISTS an image carries (TDVF sections, SEV sections, GUID-table entries)
// re-arranged and salted with degenerate members - records that describe nothing (a zero-sized
// TempMem / TD-HOB / firmware-volume section, a zero-length SEV section, a table entry without
// payload) - at controlled positions relative to the members the analysis singles out (the TD-HOB
// and the boot firmware volume; the secret and CPUID pages; the metadata-offset entries).
//
// The field mutations of hostile.go change one value of a list whose order wellFormed drew at random
// and almost never produce a degenerate member in front of a distinguished one. Code that filters,
// skips, merges or re-indexes list members while it walks the list is only exercised when such
// members exist and sit before / after / around the distinguished ones, with the distinguished one
// first, in the middle, or last. Everything else about these images is well-formed, so the unchanged
// tree accepts and measures most of them (a floor checks that it does); the verdict is the same as
// for every other case: panic / death / CPU / allocation.

const (
	hobFirst = "first"
	hobLast  = "last"
	hobPenul = "penultimate"
	hobMid   = "middle"
)

// setTdxSecs installs a section list. Lists that no longer fit in the room wellFormed left behind the
// metadata header move the metadata to the front of the image (as scratchList does).
func setTdxSecs(s *Spec, secs []Sec32) {
	s.Tdx.Secs = secs
	s.Tdx.Rep = 0
	s.Tdx.Cnt = uint32(len(secs))
	s.Tdx.Len = uint32(16 + 32*len(secs))
	if 32+32*len(secs) > 288 {
		s.Sev.Pos = 0
		s.setOff(guidSevOff, uint32(s.Size))
		s.Tdx.Pos = 0x200
		s.setOff(guidTdxOff, uint32(s.Size-0x200-16))
	}
}

func insertSec32(l []Sec32, at int, x Sec32) []Sec32 {
	l = append(l, Sec32{})
	copy(l[at+1:], l[at:])
	l[at] = x
	return l
}

func insertSec12(l []Sec12, at int, x Sec12) []Sec12 {
	l = append(l, Sec12{})
	copy(l[at+1:], l[at:])
	l[at] = x
	return l
}

func bucket(n int) string {
	if n >= 5 {
		return "5+"
	}
	return fmt.Sprint(n)
}

var emptyKinds = []string{"free", "free", "free", "base0", "at-hob", "in-hob", "at-fv", "same", "extend", "raw-data", "top", "misaligned", "empty-cfv", "mixed"}

// tdxLayout rebuilds the TDVF section list of a well-formed spec: its firmware volumes, a TD-HOB,
// 0..2 ordinary TempMem sections and e degenerate sections, arranged as asked.
func tdxLayout(r *rand.Rand, s *Spec) mut {
	var rest []Sec32
	for _, x := range s.Tdx.Secs {
		if x.Type == tdBFV || x.Type == tdCFV {
			rest = append(rest, x)
		}
	}
	fv0 := rest[0]
	page := uint64(0x800 + r.IntN(0x400))
	alloc := func(n int) uint64 {
		b := page << 12
		page += uint64(n + r.IntN(3))
		return b
	}
	hp := 1 + r.IntN(4)
	hob := Sec32{Base: alloc(hp), Size: uint64(hp) << 12, Type: tdHOB}
	for k := r.IntN(3); k > 0; k-- {
		n := 1 + r.IntN(8)
		rest = append(rest, Sec32{Base: alloc(n), Size: uint64(n) << 12, Type: tdTempMem, Attr: uint32(r.IntN(2))})
	}
	r.Shuffle(len(rest), func(i, j int) { rest[i], rest[j] = rest[j], rest[i] })

	e := 1 + r.IntN(4)
	if r.IntN(8) == 0 {
		e = 5 + r.IntN(18)
	}
	kind := emptyKinds[r.IntN(len(emptyKinds))]
	same := alloc(1)
	mk := func(kind string) Sec32 {
		x := Sec32{Type: tdTempMem}
		switch kind {
		case "free":
			x.Base = alloc(1)
		case "base0":
		case "at-hob":
			x.Base = hob.Base
		case "in-hob":
			x.Base = hob.Base + uint64(hp/2)<<12
		case "at-fv":
			x.Base = fv0.Base
		case "same":
			x.Base = same
		case "extend":
			x.Base, x.Attr = alloc(1), 1
		case "raw-data": // raw data declared for a section that occupies no memory
			x.Base, x.DataOff, x.DataSize = alloc(1), uint32(r.IntN(s.Size)), 0x1000
		case "top":
			x.Base = ^uint64(0) - 0xfff
		case "misaligned":
			x.Base = alloc(1) + 1
		case "empty-cfv":
			x.Base, x.Type = alloc(1), tdCFV
		}
		return x
	}
	var empties []Sec32
	for k := 0; k < e; k++ {
		kk := kind
		if kind == "mixed" {
			kk = emptyKinds[r.IntN(len(emptyKinds)-1)]
		}
		empties = append(empties, mk(kk))
	}
	if r.IntN(24) == 0 { // the TD-HOB itself is the degenerate member
		hob.Size = 0
		kind += "+empty-hob"
	}

	hobPos := []string{hobFirst, hobLast, hobLast, hobPenul, hobMid}[r.IntN(5)]
	at := 0
	switch hobPos {
	case hobLast:
		at = len(rest)
	case hobPenul:
		at = max(len(rest)-1, 0)
	case hobMid:
		at = r.IntN(len(rest) + 1)
	}
	list := insertSec32(rest, at, hob)
	where := []string{"before", "before", "just-before", "after", "front", "back", "scattered"}[r.IntN(7)]
	for _, x := range empties {
		h := 0
		for k := range list {
			if list[k].Type == tdHOB {
				h = k
			}
		}
		p := 0
		switch where {
		case "before":
			p = r.IntN(h + 1)
		case "just-before":
			p = h
		case "after":
			p = h + 1 + r.IntN(len(list)-h)
		case "back":
			p = len(list)
		case "scattered":
			p = r.IntN(len(list) + 1)
		}
		list = insertSec32(list, p, x)
	}
	setTdxSecs(s, list)
	return mut{"tdx.layout/hob=" + hobPos + "/empties=" + where, bucket(e) + "x" + kind}
}

// sevLayout adds zero-length sections of every kind around the sections of a well-formed SEV list.
func sevLayout(r *rand.Rand, s *Spec) mut {
	list := append([]Sec12(nil), s.Sev.Secs...)
	e := 1 + r.IntN(4)
	if 16+12*(len(list)+e+4) > 288 {
		e = 1
	}
	kinds := []uint32{secUnmeasured, secUnmeasured, secSecret, secCpuid, secCaa, 0, 7}
	kind := kinds[r.IntN(len(kinds))]
	where := []string{"front", "back", "scattered", "before-secret", "before-cpuid"}[r.IntN(5)]
	for k := 0; k < e; k++ {
		x := Sec12{Addr: uint32(0x100+r.IntN(0x600)) << 12, Kind: kind}
		if r.IntN(4) == 0 {
			x.Addr = list[r.IntN(len(list))].Addr // at the start of another section
		}
		p := 0
		find := func(kind uint32) int {
			for j := range list {
				if list[j].Kind == kind && list[j].Len != 0 {
					return j
				}
			}
			return 0
		}
		switch where {
		case "back":
			p = len(list)
		case "scattered":
			p = r.IntN(len(list) + 1)
		case "before-secret":
			p = find(secSecret)
		case "before-cpuid":
			p = find(secCpuid)
		}
		list = insertSec12(list, p, x)
	}
	s.Sev.Secs, s.Sev.Cnt, s.Sev.Len = list, uint32(len(list)), uint32(16+12*len(list))
	return mut{"sev.layout/empties=" + where, fmt.Sprintf("%sxkind%d", bucket(e), kind)}
}

// tblLayout inserts payload-less GUID-table entries (unknown GUIDs, or a second entry for one of the
// GUIDs the analysis looks up) between the entries of a well-formed table.
func tblLayout(r *rand.Rand, s *Spec) mut {
	e := 1 + r.IntN(6)
	kind := []string{"unknown", "unknown", "sev-offset", "tdx-offset", "reset-block", "footer"}[r.IntN(6)]
	where := []string{"nearest-footer", "farthest", "scattered"}[r.IntN(3)]
	for k := 0; k < e; k++ {
		g := fmt.Sprintf("%08x-1111-4000-8000-%012x", r.Uint32(), k)
		switch kind {
		case "sev-offset":
			g = guidSevOff
		case "tdx-offset":
			g = guidTdxOff
		case "reset-block":
			g = guidSevReset
		case "footer":
			g = guidFooter
		}
		p := 0
		switch where {
		case "farthest":
			p = len(s.Entries)
		case "scattered":
			p = r.IntN(len(s.Entries) + 1)
		}
		s.Entries = append(s.Entries, Entry{})
		copy(s.Entries[p+1:], s.Entries[p:])
		s.Entries[p] = Entry{GUID: g, Size: -1}
	}
	return mut{"tbl.layout/empty-entries=" + where, bucket(e) + "x" + kind}
}

// layoutCase draws one case of the stratum: small images (the lists, not the bytes, are the subject).
func layoutCase(r *rand.Rand) caseT {
	size := 4096 * (1 + r.IntN(8))
	if r.IntN(10) == 0 {
		size = 4096 * (16 + r.IntN(49))
	}
	s := wellFormed(r, size)
	var m []mut
	x := r.IntN(100)
	switch {
	case x < 66:
		m = append(m, tdxLayout(r, s))
	case x < 78:
		m = append(m, sevLayout(r, s))
	case x < 88:
		m = append(m, tblLayout(r, s))
	default: // all three lists of the same image
		m = append(m, tdxLayout(r, s), sevLayout(r, s), tblLayout(r, s))
	}
	o := normalOpts(r)
	if r.IntN(8) == 0 {
		o = hostileOpts(r)
	}
	// cell = the arrangement and the kind of degenerate member, not their number
	cell := m[0].field + "=" + m[0].val[strings.Index(m[0].val, "x")+1:]
	if len(m) > 1 {
		cell += "+sev+tbl"
	}
	return caseT{class: "layout", muts: m, spec: s, opts: o, cell: cell}
}

// arrangements returns every distinct ordering of the letters of set.
func arrangements(set string) []string {
	var out []string
	seen := map[string]bool{}
	var rec func(prefix string, left []byte)
	rec = func(prefix string, left []byte) {
		if len(left) == 0 {
			if !seen[prefix] {
				seen[prefix] = true
				out = append(out, prefix)
			}
			return
		}
		for k := range left {
			rest := append(append([]byte(nil), left[:k]...), left[k+1:]...)
			rec(prefix+string(left[k]), rest)
		}
	}
	rec("", []byte(set))
	return out
}

// layoutDirected enumerates every ordering of small TDVF section lists over a 4 KiB image:
// B = boot firmware volume (the whole image), H = TD-HOB (2 pages), T = TempMem (1 page),
// E = TempMem of size 0 (at a free address / at the TD-HOB's address), Z = TD-HOB of size 0.
func layoutDirected() []caseT {
	var out []caseT
	opts := Opts{Normal: true, Vcpus: 2, Product: 1, SnpVmsas: 1, ImageID: "3e2a9d4c-1b5f-4c7a-9e8d-0f1a2b3c4d5e", Shapes: []string{"c3-standard-4"}, Early: true,
		LegacyShape: "c3-standard-4", Banks: [][2]uint64{{0, 3 << 30}, {4<<30 - 2<<20, 2 << 20}, {4 << 30, 12 << 30}}, BanksAll: true}
	for _, set := range []struct{ letters, emptyAt string }{
		{"BHE", "free"}, {"BHEE", "free"}, {"BHEEE", "free"}, {"BHTE", "free"}, {"BHTEE", "free"},
		{"BHE", "at-hob"}, {"BHEE", "at-hob"}, {"BHTE", "at-hob"}, {"BZ", "free"}, {"BZE", "free"}, {"BZT", "free"},
	} {
		for _, arr := range arrangements(set.letters) {
			s := wellFormed(rand.New(rand.NewPCG(400, 8)), 4096)
			var secs []Sec32
			free := uint64(0x900000)
			for _, ch := range arr {
				switch ch {
				case 'B':
					secs = append(secs, Sec32{DataOff: 0, DataSize: 4096, Base: 1<<32 - 4096, Size: 4096, Type: tdBFV, Attr: 1})
				case 'H':
					secs = append(secs, Sec32{Base: 0x809000, Size: 0x2000, Type: tdHOB})
				case 'Z':
					secs = append(secs, Sec32{Base: 0x809000, Size: 0, Type: tdHOB})
				case 'T':
					secs = append(secs, Sec32{Base: 0x810000, Size: 0x1000, Type: tdTempMem})
				case 'E':
					b := uint64(0x809000)
					if set.emptyAt == "free" {
						b = free
						free += 0x10000
					}
					secs = append(secs, Sec32{Base: b, Size: 0, Type: tdTempMem})
				}
			}
			setTdxSecs(s, secs)
			out = append(out, caseT{class: "directed:tdx-layout", spec: s, opts: opts,
				muts: []mut{{"tdx.layout/order(E=empty-" + set.emptyAt + ")", strings.Join(strings.Split(arr, ""), ",")}}})
		}
	}
	return out
}

func isLayout(class string) bool { return class == "layout" || class == "directed:tdx-layout" }
