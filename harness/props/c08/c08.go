// Package c08: firmware analysis is total and resource-bounded on arbitrary images
// (resource monitor: panic / process death / CPU / allocated bytes per call).
package c08

import (
	"bytes"
	"crypto/sha256"
	"encoding/hex"
	"encoding/json"
	"fmt"
	"math/rand/v2"
	"os"
	"regexp"
	"runtime"
	"runtime/metrics"
	"strings"
	"sync"
	"sync/atomic"
	"testing"
	"time"

	"github.com/google/gce-tcb-verifier/ovmf"
	oabi "github.com/google/gce-tcb-verifier/ovmf/abi"
	"github.com/google/gce-tcb-verifier/sev"
	"github.com/google/gce-tcb-verifier/tdx"
	"github.com/google/gce-tcb-verifier/testing/fakeovmf"
	sgpb "github.com/google/go-sev-guest/proto/sevsnp"

	"verifharness/core"
)

const (
	cpuBase     = 10 * time.Second // + 2 s per MiB of image, per measurement computed by the call
	cpuPerMiB   = 2 * time.Second
	allocBase   = 256 << 20 // + 512 bytes per image byte, per measurement computed by the call
	allocPerB   = 512
	allocStopAt = 1 << 30 // the allocation watchdog stops a call that is this far beyond its budget
)

func init() {
	core.Register(&core.Info{
		ID: "C08", Level: "exploration",
		Rule: "case = (firmware image, launch options). Images are written byte by byte from a spec by the harness' own builder (validated byte for byte against the repository's fakeovmf.CleanExample): " +
			"well-formed images (random size 4 KiB..4 MiB, random metadata positions, table order, section lists), hostile images = a well-formed spec with 1..3 fields replaced from a boundary table " +
			"(0, 1, header sizes +-1, size-1/size/size+1, 16/32-bit edges, counts whose product with the record size wraps 2^32, 2^32..2^64-1 sizes placed at free addresses above every RAM bank, misaligned values), " +
			"blind 1/2/4/8-byte boundary writes and bit flips inside the metadata and the GUID table, truncation/extension, lists of 2..~2000 TD-HOB/TempMem sections of 4 KiB..64 MiB each at disjoint low or high addresses (each legal on its own, the sum not), raw random byte strings of 0..4096 bytes, plus a fixed list of directed cases for every arithmetic class the property names; " +
			"list layouts = otherwise well-formed small images whose TDVF section list / SEV section list / GUID table is re-arranged and salted with 1..22 degenerate members (zero-sized TempMem, TD-HOB or firmware-volume sections at a free address, at address 0, at or inside another section, at the top of the address space, misaligned, with raw data or the extend attribute; zero-length SEV sections of every kind; table entries without payload, unknown or duplicating a looked-up GUID) placed before / just before / after / around the member the analysis singles out (TD-HOB first, in the middle, penultimate or last; secret and CPUID page), plus every ordering of the lists {BFV, TD-HOB[, TempMem], 1..3 empty TempMem} and {BFV, empty TD-HOB[, TempMem | empty TempMem]} over a 4 KiB image; " +
			"TD-HOB fit = 64 KiB images with 2..341 sections whose TD-HOB declares the exact length of the hand-off list the analysis writes into it (56 + 48 per section and per unaccepted range + 8) -9, -8, -4, -1, +0, +1 bytes for 0..8 unaccepted ranges, plus page-sized ranges the list fills exactly / misses by one record; " +
			"concurrent = batches of 8 goroutines making 24 calls each in lock step, one entry point per batch (or a mix), each goroutine on its own small well-formed / list-layout / hostile images (new contents in two calls of three, an exact repeat of an earlier image otherwise, every eighth copied into a buffer that is refilled in place) and its own options, judged for panics (recovered per goroutine), fatal runtime errors, non-termination and the summed budgets; " +
			"refused x options = the complete cross product, in every run, of 13 images the analysis refuses at different depths (empty, one byte, zero bytes, random bytes, size not a page multiple, broken SEV / TDVF signature, no CPUID section, misaligned section, foreign footer, truncated table, no TD-HOB; one valid control) with 12 option shapes that change how much work a request fans out into (all VMSA counts with every product incl. unknown ones, two / an unsold VMSA count, bad family id, no / all / unknown / repeated machine shapes with early accept, no banks, a hostile draw), every entry point; " +
			"sum wrap = 384 KiB..2 MiB images with 1000..16 000 firmware-volume sections that each cover (most of) the whole file at disjoint guest addresses so that the declared sizes add up to w x 2^32 + the image size (every single field in range), with controls (sum off by a page, exactly w x 2^32, a small multiple of the size, the exact size); " +
			"declared extent = 4..64 KiB images whose SEV section list declares 1 GiB..~4 GiB of guest memory below the ROM window in 1..8 disjoint sections (carried by pre-validated sections, the secret section, the CPUID section or SVSM CAA sections; list and address order drawn; vCPUs, product, one / all VMSA counts drawn), each paired with its control: the same image with one page declared per section; " +
			"launch options = vCPU count (incl. 0, negative), product (incl. unknown), endorsement request ids, machine shapes (incl. unknown), early-accept, arbitrary RAM bank lists. " +
			"Every case runs through GetFwGUIDToBlockMap, SevData.ExtractFromFirmware, sev.LaunchDigest, sev.UnsignedSnp, the three ovmf.ExtractMaterialGuestPhysicalRegions*, tdx.MRTD in default / legacy / early-accept / custom-bank modes and tdx.UnsignedTDX in a child process under ulimit -v 6 GiB. " +
			"Every call runs on its own goroutine and thread. A call refutes the property when it panics, kills the process, does not return while the whole process stays idle (less than 160 ms of process CPU time over 32 consecutive samples spanning at least 16 s, with the call's goroutine parked on a channel / lock / wait group and no goroutine able to run: rule non-termination:call-blocked-without-using-cpu; that entry point is then not called with that shape of options again in the process), uses more thread CPU than (10 s + 2 s/MiB of image) or allocates more than (256 MiB + 512 bytes per image byte), each multiplied by the number of measurements the call was asked for; in the declared-extent stratum also when the call on the image with the extent and the call on its control both return a result and the first allocated over 8 MiB more than the second in each of three measurements of the pair (rule allocation-follows-declared-extent-not-image-size). " +
			"non-trivial = a call on an image whose mutated fields belong to what that entry point parses (GUID table and whole-image mutations: every entry point; SEV fields: the SEV entry points; TDVF fields: the TDX entry points), or on a well-formed image; distinct = (first mutated field = value class [+ number of further mutations] | entry point | outcome class) cells (list layouts: arrangement = kind of degenerate member, without their number; directed layouts: the ordering), outcome = ok, PANIC or the error text with numbers stripped",
		Assumptions: []string{
			"the budget is the reading of 'unrelated to its size' that is enforced: CPU <= 10 s + 2 s/MiB, allocated bytes <= 256 MiB + 512*len(image), per measurement requested (UnsignedSnp with 15 vCPU counts gets 15x, UnsignedTDX with k shapes and early-accept 2k+1)",
			"vCPU counts are kept <= 512 and RAM bank lists <= 64 entries: cost that grows with a launch option is related to that option, not to the image, and is not judged",
			"images carry at most ~3000 SEV and ~2000 TDVF sections in random cases (one directed case with ~30 000 sections in 1 MiB): the pairwise overlap check is quadratic in the section count, which is related to the image size, and is reported in maxima, not judged beyond the linear budget",
			"an allocation watchdog inside the worker stops a call once it has allocated 1 GiB more than its budget and reports it the way the runtime reports out-of-memory (so that a defective tree cannot exhaust the machine); a call that stays inside its budget is never stopped",
			"errors are never judged (the property is about totality, not about which images are accepted); acceptance of well-formed images is only a floor",
			"'every byte string and every launch option' does not restrict the process in which the analysis runs: earlier calls in the same process (every shard is one process; counters sequence/*) and calls of other goroutines on other images are part of the quantifier, so state the library would keep process-wide (a cache, a pool, a scratch buffer, a lazily built table) is exercised; under concurrency only panics, fatal runtime errors, non-termination and the summed budget of the batch are judged (per-call CPU and allocation cannot be told apart while calls overlap)",
			"a call that is parked for good is told from one that is slow by what the process consumes, not by a deadline: a live call on a loaded machine keeps receiving CPU time (the samples are taken by the same process, so a process that is not scheduled does not collect them), a goroutine parked on a channel, lock or wait group while nothing else in the process can run never wakes; an idle stretch in which some goroutine is runnable, in a system call, sleeping or waiting for I/O is counted and not judged",
			"the calls of the sum-wrap stratum that would measure an image whose wrapping sum the parse accepted are behind the constant judgeFvSizeSumWrap (wrap.go): while it is false they are not made (counted under sum-wrap/...), because on a tree that adds the volume sizes up in 32 bits each costs 12..50 s of CPU and gigabytes of allocation and refutes the property (reported finding); the parse-only entry points and the cheap measuring mode still run on these images",
			"declared-extent stratum: two images of the same size that differ only in the lengths their SEV sections declare, analysed with the same options in the same process, control first: whatever the second call allocates beyond the first is by construction neither a fixed cost nor related to the size of the image, so it is judged without the constant part of the budget; 8 MiB are tolerated for what the process allocates besides the call (samplers, one goroutine dump of the idle watch; a collection before each call settles the runtime's allocation counter; observed excess on the unchanged tree: under 1 KiB) and the smallest of three measurements decides. CPU time is not compared with the control (the tree hashes one record per declared page, ~0.5 s for 4 GiB, which the absolute budget tolerates). Not applied to the TDX half, where the unchanged tree allocates zero buffers of the declared TD-HOB / TempMem sizes up to its 64 MiB cap, which is what the constant part of the budget is sized for",
			"the -race/checkptr replay of the design is not run: the anchored packages contain no unsafe or cgo code and -race binaries cannot run under ulimit -v",
		},
		ShardsQuick: 16, ShardsThor: 16, TimeoutS: 900, TimeoutThor: 3600, UlimitVKB: 6 << 20, Run: run,
	})
}

// ---- launch options ----

// Opts are the launch options of one case (JSON-logged with the spec).
type Opts struct {
	Vcpus       int         `json:"vcpus"`
	Product     int32       `json:"product"`
	SnpVmsas    uint32      `json:"snp_vmsas"`
	FamilyID    string      `json:"family_id"`
	ImageID     string      `json:"image_id"`
	Shapes      []string    `json:"shapes"`
	Early       bool        `json:"early"`
	LegacyShape string      `json:"legacy_shape"`
	Banks       [][2]uint64 `json:"banks"`
	BanksAll    bool        `json:"banks_measure_all"`
	BanksEarly  bool        `json:"banks_early"`
	Normal      bool        `json:"normal"` // every option is one a well-formed image must be accepted with
}

var shapes = []string{"c3-standard-4", "c3-standard-8", "c3-standard-22", "c3-standard-44", "c3-standard-88", "c3-standard-176"}

func normalOpts(r *rand.Rand) Opts {
	o := Opts{Normal: true}
	o.Vcpus = []int{1, 1, 2, 4, 8, 16, 64, 240}[r.IntN(8)]
	o.Product = int32(1 + r.IntN(2))
	o.SnpVmsas = []uint32{1, 1, 1, 2, 4, 0}[r.IntN(6)]
	o.ImageID = "3e2a9d4c-1b5f-4c7a-9e8d-0f1a2b3c4d5e"
	if r.IntN(2) == 0 {
		o.FamilyID = sev.GCEUefiFamilyID
	}
	for k := r.IntN(3); k > 0; k-- {
		o.Shapes = append(o.Shapes, shapes[r.IntN(len(shapes))])
	}
	o.Early = r.IntN(2) == 0
	o.LegacyShape = shapes[r.IntN(len(shapes))]
	// a plausible bank list: low 3 GiB, the ROM window, some high memory
	o.Banks = [][2]uint64{{0, 3 << 30}, {4<<30 - 2<<20, 2 << 20}, {4 << 30, uint64(1+r.IntN(64)) << 30}}
	o.BanksAll = r.IntN(2) == 0
	o.BanksEarly = r.IntN(2) == 0
	return o
}

func hostileOpts(r *rand.Rand) Opts {
	o := normalOpts(r)
	o.Normal = false
	switch r.IntN(6) {
	case 0:
		o.Vcpus = []int{0, -1, -1 << 31, 3, 255, 512}[r.IntN(6)]
	case 1:
		o.Product = []int32{0, 3, 99, -1}[r.IntN(4)]
	case 2:
		o.FamilyID = []string{"not-a-guid", "00000000-0000-0000-0000-00000000000", "{f73a6949-e8f3-473b-9553-e40e056fa3a2}"}[r.IntN(3)]
	case 3:
		o.ImageID = []string{"", "zz", strings.Repeat("f", 36)}[r.IntN(3)]
	case 4:
		o.Shapes = []string{"", "n2d-standard-2", "c3-standard-4", "c3-standard-4"}
		o.LegacyShape = []string{"", "c3-highmem-4"}[r.IntN(2)]
	case 5:
		var b [][2]uint64
		vals := []uint64{0, 1, 0x1000, 0xfff, 3 << 30, 4 << 30, 4<<30 - 1, 1 << 40, 1 << 63, ^uint64(0), ^uint64(0) - 0xfff, 0x800000, 0x80b000}
		for k := r.IntN(65); k > 0; k-- {
			b = append(b, [2]uint64{vals[r.IntN(len(vals))] + uint64(r.IntN(3))<<12, vals[r.IntN(len(vals))]})
		}
		o.Banks = b
	}
	return o
}

func (o *Opts) banks() []ovmf.GuestPhysicalRegion {
	var out []ovmf.GuestPhysicalRegion
	for _, b := range o.Banks {
		out = append(out, ovmf.GuestPhysicalRegion{Start: oabi.EFIPhysicalAddress(b[0]), Length: b[1]})
	}
	return out
}

// ---- entry points ----

type entry struct {
	name  string
	side  string // tbl | sev | tdx: which half of the image decides acceptance
	nmeas func(o *Opts) int
	call  func(fw []byte, o *Opts) error
}

func one(*Opts) int { return 1 }

func entries() []entry {
	return []entry{
		{"ovmf.GetFwGUIDToBlockMap", "tbl", one, func(fw []byte, o *Opts) error {
			_, err1 := ovmf.GetFwGUIDTable(fw)
			m, err := ovmf.GetFwGUIDToBlockMap(fw)
			if (err1 == nil) != (err == nil) && err1 != nil {
				return fmt.Errorf("table: %v", err1)
			}
			for _, b := range m { // touch every block the map hands out
				if len(b) > 0 {
					_ = b[len(b)-1]
				}
			}
			return err
		}},
		{"ovmf.SevData.ExtractFromFirmware", "sev", one, func(fw []byte, o *Opts) error {
			var last error
			for _, f := range [][2]bool{{false, false}, {false, true}, {true, false}, {true, true}} {
				d := &ovmf.SevData{SevEs: f[0], SevSnp: f[1]}
				last = d.ExtractFromFirmware(fw)
				if last == nil {
					_ = d.ExtractFromFirmware(fw) // "may only call once": must error, not crash
				}
				_, e1 := d.SevEsResetBlock()
				_, e2 := d.SnpMetadataSections()
				if last == nil && f[0] && f[1] {
					if e1 != nil {
						last = e1
					} else if e2 != nil {
						last = e2
					}
				}
			}
			return last
		}},
		{"sev.LaunchDigest", "sev", one, func(fw []byte, o *Opts) error {
			_, err := sev.LaunchDigest(&sev.LaunchOptions{Vcpus: o.Vcpus, Product: sgpb.SevProduct_SevProductName(o.Product)}, fw)
			return err
		}},
		{"sev.UnsignedSnp", "sev", func(o *Opts) int {
			if o.SnpVmsas == 0 {
				return len(sev.AllSupportedVmsaCounts)
			}
			return 1
		}, func(fw []byte, o *Opts) error {
			_, err := sev.UnsignedSnp(fw, &sev.SnpEndorsementRequest{Svn: 1, FamilyID: o.FamilyID, ImageID: o.ImageID, LaunchVmsas: o.SnpVmsas,
				Product: sgpb.SevProduct_SevProductName(o.Product)})
			return err
		}},
		{"ovmf.ExtractMaterialGuestPhysicalRegions", "tdx", one, func(fw []byte, o *Opts) error {
			regs, err := ovmf.ExtractMaterialGuestPhysicalRegions(fw)
			touch(regs)
			return err
		}},
		{"ovmf.ExtractMaterialGuestPhysicalRegionsTDHOBBug", "tdx", one, func(fw []byte, o *Opts) error {
			regs, err := ovmf.ExtractMaterialGuestPhysicalRegionsTDHOBBug(fw, o.banks())
			touch(regs)
			return err
		}},
		{"ovmf.ExtractMaterialGuestPhysicalRegionsNoUnacceptedMemory", "tdx", one, func(fw []byte, o *Opts) error {
			regs, err := ovmf.ExtractMaterialGuestPhysicalRegionsNoUnacceptedMemory(fw, o.banks())
			touch(regs)
			return err
		}},
		{"tdx.MRTD/default", "tdx", one, func(fw []byte, o *Opts) error {
			_, err := tdx.MRTD(tdx.LaunchOptionsDefault(o.LegacyShape), fw)
			return err
		}},
		{"tdx.MRTD/legacy", "tdx", one, func(fw []byte, o *Opts) error {
			_, err := tdx.MRTD(tdx.LaunchOptionsDefaultTDHOBBug(o.LegacyShape), fw)
			return err
		}},
		{"tdx.MRTD/early-accept", "tdx", one, func(fw []byte, o *Opts) error {
			lo := tdx.LaunchOptionsDefaultTDHOBBug(o.LegacyShape)
			lo.DisableUnacceptedMemory = true
			_, err := tdx.MRTD(lo, fw)
			return err
		}},
		{"tdx.MRTD/banks", "tdx", one, func(fw []byte, o *Opts) error {
			_, err := tdx.MRTD(&tdx.LaunchOptions{GuestRAMBanks: o.banks(), MeasureAllRegions: o.BanksAll, DisableUnacceptedMemory: o.BanksEarly}, fw)
			return err
		}},
		{"tdx.UnsignedTDX", "tdx", func(o *Opts) int {
			n := len(o.Shapes) + 1
			if o.Early {
				n += len(o.Shapes)
			}
			return n
		}, func(fw []byte, o *Opts) error {
			_, err := tdx.UnsignedTDX(fw, &tdx.EndorsementRequest{Svn: 1, IncludeEarlyAccept: o.Early, MachineShapes: o.Shapes})
			return err
		}},
	}
}

// touch reads the first and last byte of every host buffer a parse handed out.
func touch(regs []*ovmf.MaterialGuestPhysicalRegion) {
	for _, r := range regs {
		if r != nil && len(r.HostBuffer) > 0 {
			_ = r.HostBuffer[0]
			_ = r.HostBuffer[len(r.HostBuffer)-1]
		}
	}
}

func budget(n, nmeas int) core.Budget {
	if nmeas < 1 {
		nmeas = 1
	}
	cpu := cpuBase + time.Duration(float64(cpuPerMiB)*float64(n)/(1<<20))
	return core.Budget{CPU: cpu * time.Duration(nmeas), Alloc: (allocBase + allocPerB*uint64(n)) * uint64(nmeas)}
}

// ---- allocation watchdog ----

var wd struct {
	start atomic.Uint64 // heap allocation counter at call start; 0 = idle
	limit atomic.Uint64
	bud   atomic.Uint64
	entry atomic.Value
	mu    sync.Mutex    // held by the watchdog from its decision to the exit, and by the call when it disarms
	kick  chan struct{} // wakes the watchdog when a call is armed (it is parked, not polling, while none is)
}

// arm opens the watched window of one call.
func arm(entry string, budget, heapNow uint64) {
	wd.entry.Store(entry)
	wd.bud.Store(budget)
	wd.limit.Store(budget + allocStopAt)
	wd.start.Store(heapNow | 1)
	select {
	case wd.kick <- struct{}{}:
	default:
	}
}

// disarm ends the watched window. If the watchdog has already decided to stop this call, disarm never
// returns (the process exits), so the death is attributed to the call that overran.
func disarm() {
	wd.mu.Lock()
	wd.start.Store(0)
	wd.mu.Unlock()
}

func heapAllocs(s []metrics.Sample) uint64 { metrics.Read(s); return s[0].Value.Uint64() }

// allocWatchdog ends the process when the running call has allocated limit bytes, the way the Go
// runtime ends it when memory runs out (message + goroutine dump on stderr), only earlier than the
// 6 GiB address-space limit would. The supervisor attributes the death to the logged case.
func allocWatchdog() {
	s := []metrics.Sample{{Name: "/gc/heap/allocs:bytes"}}
	var lastSt, lastNow uint64
	quiet := 0 // consecutive polls of the same call during which nothing was allocated
	for {
		// a call that has not allocated for a second (it computes in place, or it is parked) is polled twenty
		// times less often, so that a parked call leaves the process idle (mon.go); the first poll that sees
		// the counter move is back at 5 ms
		if wd.start.Load() == 0 {
			quiet = 0
			<-wd.kick // parked until a call is armed
		}
		if quiet > 200 {
			time.Sleep(100 * time.Millisecond)
		} else {
			time.Sleep(5 * time.Millisecond)
		}
		st := wd.start.Load()
		if st == 0 {
			continue
		}
		now := heapAllocs(s)
		if st == lastSt && now == lastNow {
			quiet++
		} else {
			quiet = 0
		}
		lastSt, lastNow = st, now
		if now <= st {
			continue
		}
		if got := now - st; got > wd.limit.Load() {
			// dump first (the call is still running), then commit under the lock
			buf := make([]byte, 1<<20)
			n := runtime.Stack(buf, true)
			wd.mu.Lock()
			if wd.start.Load() != st {
				wd.mu.Unlock()
				continue
			}
			// the goroutine inside the guarded call first, as in a runtime crash dump
			var head, rest []string
			for _, g := range strings.Split(string(buf[:n]), "\n\n") {
				if strings.Contains(g, "core.(*Ctx).Guard") {
					head = append(head, g)
				} else if !strings.Contains(g, "allocWatchdog") {
					rest = append(rest, g)
				}
			}
			fmt.Fprintf(os.Stderr, "fatal error: out of memory (verif allocation watchdog: %v had allocated %d bytes and was still running; budget %d bytes)\n\n%s\n",
				wd.entry.Load(), got, wd.bud.Load(), strings.Join(append(head, rest...), "\n\n"))
			os.Exit(2)
		}
	}
}

// ---- cases ----

type caseT struct {
	class string // genuine | well-formed | hostile | giant | raw | directed:<name>
	muts  []mut
	spec  *Spec
	opts  Opts
	only  []string // run only these entry points (directed cases that are expected to kill the child)
	cell  string   // cell key when it is coarser than the mutation names (layout cases: without the number of empty members)
}

var numRe = regexp.MustCompile(`0x[0-9a-fA-F]+|[0-9]+|\[[0-9 #]*\]`)

func outcome(err error) string {
	if err == nil {
		return "ok"
	}
	s := numRe.ReplaceAllString(err.Error(), "#")
	if len(s) > 56 {
		s = s[:56]
	}
	return "err:" + s
}

// relevant reports whether a case's mutations touch what an entry point of the given side parses
// (unmutated images are relevant to every entry point). Only such calls count as non-trivial cells:
// a TDVF-only mutation is a plain well-formed image as far as the SEV path is concerned.
func relevant(muts []mut, side string) bool {
	if len(muts) == 0 {
		return true
	}
	for _, m := range muts {
		switch {
		case strings.HasPrefix(m.field, "tbl."), strings.HasPrefix(m.field, "img."):
			return true
		case strings.HasPrefix(m.field, "sev.") && side == "sev", strings.HasPrefix(m.field, "tdx.") && side == "tdx":
			return true
		}
	}
	return false
}

func drawSize(r *rand.Rand) int {
	x := r.IntN(100)
	switch {
	case x < 50:
		return 4096 * (1 + r.IntN(16))
	case x < 80:
		return 4096 * (32 + r.IntN(97))
	case x < 95:
		return 4096 * (256 + r.IntN(257))
	case x < 99:
		return 4 << 20
	default:
		return 4096*(1+r.IntN(64)) + []int{1, 16, 256, 2048, 4095}[r.IntN(5)] // not a page multiple
	}
}

func randomCase(r *rand.Rand, pGiant float64) caseT {
	x := r.Float64()
	switch {
	case x < pGiant:
		// giant values go on small images: the budget is then dominated by its constant part
		s := wellFormed(r, 4096*(1+r.IntN(32)))
		m := mutate(r, s, true)
		return caseT{class: "giant", muts: m, spec: s, opts: normalOpts(r)}
	case x < 0.10:
		return caseT{class: "well-formed", spec: wellFormed(r, drawSize(r)&^4095), opts: normalOpts(r)}
	case x < 0.14:
		return caseT{class: "well-formed+hostile-options", spec: wellFormed(r, drawSize(r)&^4095), opts: hostileOpts(r)}
	case x < 0.185 && x >= 0.17:
		// many mid-size TD-HOB / TempMem sections: each legal on its own, the sum far beyond the image
		s := wellFormed(r, 4096*(4+r.IntN(29)))
		k := []int{2, 4, 8, 16, 64, 500, 1 << 20}[r.IntN(7)]
		var sizes []bval
		if r.IntN(2) == 0 {
			sizes = []bval{scratchSizes[r.IntN(len(scratchSizes))]}
		} else {
			for j := 0; j < min(k, 64); j++ {
				sizes = append(sizes, scratchSizes[r.IntN(len(scratchSizes))])
			}
		}
		_, m := scratchList(r, s, k, sizes, r.IntN(2) == 0)
		if r.IntN(4) == 0 { // the TD-HOB itself takes part
			v := scratchSizes[2+r.IntN(len(scratchSizes)-2)]
			for j := range s.Tdx.Secs {
				if s.Tdx.Secs[j].Type == tdHOB {
					s.Tdx.Secs[j].Base, s.Tdx.Secs[j].Size = highBase(40), v.v
					m = append(m, mut{"tdx.sec.size/tdhob@high", v.name})
					break
				}
			}
		}
		return caseT{class: "scratch-list", muts: m, spec: s, opts: normalOpts(r)}
	case x < 0.17:
		n := []int{0, 1, 17, 18, 0x31, 0x32, 0x33, 0x47, 0x48, 0x49, 0x5d, 0x5e, 100, 4095, 4096}[r.IntN(15)]
		if r.IntN(2) == 0 {
			n = r.IntN(4097)
		}
		return caseT{class: "raw", muts: []mut{{"img.raw-bytes", "len<=4096"}}, spec: &Spec{Raw: true, Size: n, FillSeed: r.Uint64() | 1, Cut: -1}, opts: normalOpts(r)}
	default:
		s := wellFormed(r, drawSize(r))
		m := mutate(r, s, false)
		o := normalOpts(r)
		if r.IntN(8) == 0 {
			o = hostileOpts(r)
		}
		return caseT{class: "hostile", muts: m, spec: s, opts: o}
	}
}

// directed returns the fixed list of cases: genuine baselines, well-formed anchors and one case per
// arithmetic class the property text and anchors name. Cases that are expected to cost a defective
// implementation tens of seconds or gigabytes are restricted to one entry point each.
func directed() []caseT {
	var out []caseT
	base := Opts{Normal: true, Vcpus: 240, Product: 1, SnpVmsas: 0, ImageID: "3e2a9d4c-1b5f-4c7a-9e8d-0f1a2b3c4d5e", Shapes: shapes, Early: true,
		LegacyShape: "c3-standard-176", Banks: [][2]uint64{{0, 3 << 30}, {4<<30 - 2<<20, 2 << 20}, {4 << 30, 700 << 30}}, BanksAll: true}
	small := base
	small.Vcpus, small.SnpVmsas, small.Shapes, small.LegacyShape = 2, 1, []string{"c3-standard-4"}, "c3-standard-4"
	add := func(class string, s *Spec, o Opts, m []mut, only ...string) {
		out = append(out, caseT{class: class, muts: m, spec: s, opts: o, only: only})
	}
	fixed := func(seed uint64, size int) *Spec { return wellFormed(rand.New(rand.NewPCG(seed, 8)), size) }

	add("genuine", cleanExample(2<<20), base, nil)
	g2 := base
	g2.Product, g2.Vcpus = 2, 1
	add("genuine", cleanExample(2<<20), g2, nil)
	for k, sz := range []int{4096, 8192, 64 << 10, 1 << 20, 4 << 20} {
		add("well-formed", fixed(uint64(100+k), sz), base, nil)
	}
	for _, n := range []int{0, 1, 17, 18, 0x31, 0x32, 0x33, 0x48, 0x5e, 4096} {
		add("raw", &Spec{Raw: true, Size: n, FillSeed: uint64(n) + 7, Cut: -1}, small, []mut{{"img.raw-bytes", fmt.Sprint(n)}})
		add("raw", &Spec{Raw: true, Size: n, Cut: -1}, small, []mut{{"img.zero-bytes", fmt.Sprint(n)}})
	}

	// SEV metadata offset below the 16-byte header, and around the image size
	for _, off := range []int64{0, 1, 4, 8, 12, 15, 16, 17, 27, 28, 64<<10 - 1, 64 << 10, 64<<10 + 1, 0xffffffff, 0x80000000} {
		s := fixed(200, 64<<10)
		s.setOff(guidSevOff, uint32(off))
		add("directed:sev-offset", s, small, []mut{{"sev.off", fmt.Sprint(off)}})
	}
	// SEV section count x 12 + 16 wraps to the declared length
	for _, v := range wrapCounts(12) {
		s := fixed(201, 64<<10)
		s.Sev.Cnt = uint32(v.v)
		s.Sev.Len = 16 + 12*s.Sev.Cnt
		add("directed:sev-count-wrap", s, small, []mut{{"sev.cnt+len", v.name}})
	}
	{ // a legitimate, maximal declaration: ~4 GiB of unmeasured pages in three disjoint sections (1 M page records)
		s := fixed(202, 64<<10)
		s.Sev.Secs = []Sec12{{0, 0x1000, secSecret}, {0x1000, 0x1000, secCpuid}, {0x3000, 0xffffc000, secUnmeasured}}
		s.Sev.Cnt, s.Sev.Len = 3, 16+36
		one := small
		one.Vcpus = 1
		add("directed:sev-4GiB-disjoint", s, one, []mut{{"sev.sec.len", "0xffffc000"}}, "sev.LaunchDigest", "sev.UnsignedSnp")
	}
	{ // 96 sections of ~4 GiB each whose 32-bit end wraps below their start: 96 M page records from 1.2 KiB of metadata
		s := fixed(203, 64<<10)
		s.Sev.Pos = 0
		s.setOff(guidSevOff, uint32(s.Size))
		s.Tdx.Pos = 0x2000
		s.setOff(guidTdxOff, uint32(s.Size-0x2000-16))
		secs := []Sec12{{0x1000, 0xfffff000, secSecret}, {0x2000, 0xfffff000, secCpuid}}
		for k := uint32(3); k < 97; k++ {
			secs = append(secs, Sec12{k << 12, 0xfffff000, secUnmeasured})
		}
		s.Sev.Secs, s.Sev.Cnt, s.Sev.Len = secs, uint32(len(secs)), uint32(16+12*len(secs))
		one := small
		one.Vcpus = 1
		add("directed:sev-sections-wrap-sum", s, one, []mut{{"sev.sec.len", "96x0xfffff000"}}, "sev.LaunchDigest")
	}

	// TDVF metadata offset edges
	for _, off := range []int64{0, 15, 16, 17, 64<<10 - 17, 64<<10 - 16, 64<<10 - 15, 64 << 10, 0xffffffff} {
		s := fixed(300, 64<<10)
		s.setOff(guidTdxOff, uint32(off))
		add("directed:tdx-offset", s, small, []mut{{"tdx.off", fmt.Sprint(off)}})
	}
	// TDVF section count x 32 wraps
	for _, v := range wrapCounts(32)[:4] {
		for _, e := range []string{"tdx.MRTD/default", "ovmf.ExtractMaterialGuestPhysicalRegionsTDHOBBug"} {
			s := fixed(301, 64<<10)
			s.Tdx.Cnt = uint32(v.v)
			s.Tdx.Len = 16 + 32*s.Tdx.Cnt
			add("directed:tdx-count-wrap", s, small, []mut{{"tdx.cnt+len", v.name}}, e)
		}
	}
	// TD-HOB / TempMem sizes taken from the metadata, at a free high address
	scratchCase := func(typ uint32, size bval, attr uint32, e string) {
		s := fixed(302, 64<<10)
		for k := range s.Tdx.Secs {
			if s.Tdx.Secs[k].Type == typ {
				s.Tdx.Secs[k].Base, s.Tdx.Secs[k].Size, s.Tdx.Secs[k].Attr = highBase(k), size.v, attr
				break
			}
		}
		name := map[uint32]string{tdHOB: "tdhob", tdTempMem: "tempmem"}[typ]
		add("directed:tdx-"+name+"-size", s, small, []mut{{"tdx.sec.size/" + name + "@high", size.name}}, e)
	}
	tdxEntries := []string{"tdx.MRTD/default", "tdx.MRTD/legacy", "tdx.MRTD/early-accept", "ovmf.ExtractMaterialGuestPhysicalRegions", "tdx.UnsignedTDX"}
	for _, v := range []bval{{1 << 30, "2^30"}, {1 << 32, "2^32"}, {1 << 40, "2^40"}, {1 << 63, "2^63"}, {^uint64(0) - 0xfff, "2^64-4096"}} {
		for _, e := range tdxEntries {
			scratchCase(tdHOB, v, 0, e)
			scratchCase(tdTempMem, v, 0, e)
		}
	}
	// sizes a correct implementation may accept: they must stay inside the budget in every mode
	for _, v := range []bval{{1 << 20, "1MiB"}, {16 << 20, "16MiB"}, {64<<20 - 0x3000, "64MiB-12KiB"}} {
		s := fixed(303, 64<<10)
		m := []mut{}
		for k := range s.Tdx.Secs {
			if s.Tdx.Secs[k].Type == tdTempMem {
				s.Tdx.Secs[k].Base, s.Tdx.Secs[k].Size = highBase(k), v.v
				m = append(m, mut{"tdx.sec.size/tempmem@high", v.name})
				break
			}
		}
		if len(m) == 0 {
			s.Tdx.Secs = append(s.Tdx.Secs, Sec32{Base: highBase(9), Size: v.v, Type: tdTempMem})
			s.Tdx.Cnt++
			s.Tdx.Len += 32
			m = append(m, mut{"tdx.sec.size/tempmem@high", v.name})
		}
		add("directed:tdx-large-but-plausible", s, small, m)
	}
	// lists of k TempMem sections, each legal on its own: the sum of the declared sizes must be bounded too.
	// Lists of at most 32 MiB run through every TDX entry point in one case; longer ones (which a tree that
	// does not bound the sum turns into GiBs of buffers) take one entry point per case.
	allTdx := []string{"ovmf.ExtractMaterialGuestPhysicalRegions", "ovmf.ExtractMaterialGuestPhysicalRegionsTDHOBBug", "ovmf.ExtractMaterialGuestPhysicalRegionsNoUnacceptedMemory",
		"tdx.MRTD/default", "tdx.MRTD/legacy", "tdx.MRTD/early-accept", "tdx.MRTD/banks", "tdx.UnsignedTDX"}
	nlist := 0
	for _, k := range []int{2, 4, 8, 16, 64, 500, 1 << 20} {
		for _, v := range scratchSizes[2:] {
			mk := func() (*Spec, int, []mut) {
				s := fixed(305, 64<<10)
				kk, m := scratchList(rand.New(rand.NewPCG(uint64(k), v.v)), s, k, []bval{v}, nlist%2 == 0)
				return s, kk, m
			}
			s, kk, m := mk()
			nlist++
			if uint64(kk)*v.v <= 32<<20 {
				add("directed:tdx-scratch-list", s, small, m, allTdx...)
				continue
			}
			for _, e := range allTdx {
				s, _, m = mk()
				add("directed:tdx-scratch-list", s, small, m, e)
			}
		}
	}
	// the SEV analogue: many large, individually legal, disjoint sections. Disjointness in a 32-bit address
	// space bounds the sum by ~4 GiB (1 M page records), so this stays far inside the budget on a tree that
	// checks overlap in 64 bits; it is here to show that, and to catch a tree that stops checking.
	for _, n := range []int{15, 254} {
		s := fixed(306, 64<<10)
		s.Sev.Pos = 0
		s.setOff(guidSevOff, uint32(s.Size))
		s.Tdx.Pos = 0x2000
		s.setOff(guidTdxOff, uint32(s.Size-0x2000-16))
		step := uint32(0xfffe0000/uint32(n)) &^ 0xfff
		secs := []Sec12{{0, 0x1000, secSecret}, {0x1000, 0x1000, secCpuid}}
		for j := 0; j < n; j++ {
			secs = append(secs, Sec12{0x2000 + uint32(j)*step, step, secUnmeasured})
		}
		s.Sev.Secs, s.Sev.Cnt, s.Sev.Len = secs, uint32(len(secs)), uint32(16+12*len(secs))
		one := small
		one.Vcpus = 1
		add("directed:sev-many-large-disjoint", s, one, []mut{{"sev.secs", fmt.Sprintf("%dx%#x", n, step)}}, "sev.LaunchDigest", "sev.UnsignedSnp")
	}
	{ // ~30 000 genuine sections in 1 MiB: quadratic overlap check
		s := fixed(304, 1<<20)
		s.Tdx.Pos = 0x1000
		s.setOff(guidTdxOff, uint32(s.Size-0x1000-16))
		s.Sev.Pos = 0
		s.setOff(guidSevOff, uint32(s.Size))
		s.Tdx.Rep, s.Tdx.RepBase, s.Tdx.RepStep, s.Tdx.RepSize = 30000, 0x10000000, 0x1000, 0
		s.Tdx.Cnt += 30000
		s.Tdx.Len += 32 * 30000
		add("directed:tdx-many-sections", s, small, []mut{{"tdx.secs", "30000"}}, "tdx.MRTD/default", "tdx.MRTD/legacy")
	}
	return out
}

func checkBuilder() bool {
	for _, size := range []int{2 << 20, 64 << 10} {
		want := fakeovmf.CleanExample(tb{}, size)
		if !bytes.Equal(cleanExample(size).Build(), want) {
			return false
		}
	}
	return true
}

// tb lets the harness call the repository's test-image helper outside `go test`.
type tb struct{ testing.TB }

func (tb) Helper()                           {}
func (tb) Fatalf(format string, args ...any) { panic(fmt.Sprintf(format, args...)) }

func run(c *core.Ctx) {
	wd.kick = make(chan struct{}, 1)
	go allocWatchdog()
	c.Floor("builder-reproduces-fakeovmf.CleanExample", checkBuilder())

	ents := entries()
	dir := directed()
	n := c.N(5000, 150000)
	pGiant := float64(c.N(40, 240)) / float64(n)
	// the layout stratum has its own index range behind the older cases, so that those keep their PRNG streams
	dirL := layoutDirected()
	nL := c.N(2500, 50000)
	layoutOK := 0
	accepted := map[string]int{}
	rejected := map[string]int{}
	largeOK, listOK, listRefused := 0, 0, 0
	generatorOK := true
	prevFailed := false
	mo := newMonitor(c)

	// A tree on which a layout case ends the process (a hang stopped by the CPU watchdog, the allocation
	// watchdog, a fatal error) is refuted by that case. Every such death costs 3x the CPU budget, and a
	// defect of this class is hit by most cases of the stratum, so after a restart inside the stratum only
	// about four more of this shard's layout cases are run (the others are counted). Never taken on a tree
	// that does not die: SkipTo is 0 then.
	layout0 := len(dir) + n
	keepEvery := max((len(dirL)+nL)/c.NShards/4, 1)
	thinned := c.Only < 0 && c.SkipTo > layout0
	for i := 0; i < layout0+len(dirL)+nL; i++ {
		if !c.Mine(i) {
			continue
		}
		if thinned && i >= layout0 && (i/c.NShards)%keepEvery != 0 {
			c.Count("layout-cases-not-run-after-a-death-inside-the-stratum", 1)
			continue
		}
		var cs caseT
		var fw []byte
		if genErr := func() (e any) {
			// a fault of the generator itself must never look like a fault of the repository
			defer func() { e = recover() }()
			switch {
			case i < len(dir):
				cs = dir[i]
			case i < len(dir)+n:
				cs = randomCase(c.Rand(i), pGiant)
			case i < len(dir)+n+len(dirL):
				cs = dirL[i-len(dir)-n]
			default:
				cs = layoutCase(c.Rand(i))
			}
			fw = cs.spec.Build()
			return nil
		}(); genErr != nil {
			generatorOK = false
			c.Note("generator fault at case %d (case skipped): %v", i, genErr)
			c.Count("generator-faults", 1)
			continue
		}
		sum := sha256.Sum256(fw)
		var mnames []string
		for _, m := range cs.muts {
			mnames = append(mnames, m.field+"="+m.val)
			if isLayout(cs.class) { // the value (an arrangement) is part of the cell, not of the counter name
				c.Count("field/"+m.field, 1)
				continue
			}
			c.Count("field/"+m.field+"="+m.val, 1)
		}
		gname := fmt.Sprintf("%s[%s] len=%d", cs.class, strings.Join(mnames, "; "), len(fw))
		rec := map[string]any{"class": cs.class, "mutations": mnames, "spec": cs.spec, "opts": cs.opts, "len": len(fw), "sha256": hex.EncodeToString(sum[:])}
		if len(fw) <= 4096 {
			rec["image"] = fw // base64 in JSON
		}
		input, _ := json.Marshal(rec)
		c.Count("cases/"+cs.class, 1)
		cellKey := cs.class
		if len(cs.muts) == 1 {
			cellKey = cs.muts[0].field + "=" + cs.muts[0].val
		} else if len(cs.muts) > 1 {
			cellKey = cs.muts[0].field + "+" + fmt.Sprint(len(cs.muts)-1)
		}
		if cs.cell != "" {
			cellKey = cs.cell
		}
		bigScratch := false
		for _, m := range cs.muts {
			if strings.HasSuffix(m.field, "@high") && (m.val == "1MiB" || m.val == "16MiB" || m.val == "64MiB-12KiB" || m.val == "1..8MiB") {
				bigScratch = true
			}
		}
		first := true
		for _, e := range ents {
			if len(cs.only) > 0 {
				skip := true
				for _, o := range cs.only {
					skip = skip && o != e.name
				}
				if skip {
					continue
				}
			}
			shape := optShape(e.name, &cs.opts)
			if why := mo.stoppedWhy(e.name, shape); why != "" {
				// never taken on a tree without such a verdict
				c.Count("not-called-after-"+why+"/"+e.name+"/"+shape, 1)
				continue
			}
			var in []byte
			if first {
				in, first = input, false
			}
			c.Begin(i, gname, e.name, in)
			b := budget(len(fw), e.nmeas(&cs.opts))
			m, err, st := mo.run(i, e.name, gname, b, shape, false, func() error { return e.call(fw, &cs.opts) })
			if st != stReturned {
				c.Cell("%s|%s|NO-RETURN", cellKey, e.name)
				continue
			}
			if m.Panicked {
				c.Cell("%s|%s|PANIC", cellKey, e.name)
				c.Count("panic/"+e.name, 1)
				continue
			}
			oc := outcome(err)
			// what the sequence of calls inside this process looked like (all cases of a shard share the process)
			if prevFailed && err == nil {
				c.Count("sequence/result-directly-after-a-failed-call/"+e.name, 1)
			}
			prevFailed = err != nil
			if relevant(cs.muts, e.side) {
				c.Cell("%s|%s|%s", cellKey, e.name, oc)
			}
			if err == nil {
				c.Count("ok/"+e.name, 1)
				if (cs.class == "well-formed" || cs.class == "genuine") && cs.opts.Normal {
					accepted[e.name]++
				}
				if bigScratch && e.side == "tdx" {
					largeOK++
				}
				if e.side == "tdx" && isLayout(cs.class) && strings.HasPrefix(cs.muts[0].field, "tdx.layout") {
					layoutOK++
				}
				if e.side == "tdx" && len(cs.muts) > 0 && strings.HasPrefix(cs.muts[0].field, "tdx.scratch-list") {
					listOK++
				}
			} else {
				c.Count("error/"+e.name, 1)
				if e.side == "tdx" && len(cs.muts) > 0 && strings.HasPrefix(cs.muts[0].field, "tdx.scratch-list") {
					listRefused++
				}
				if cs.class != "well-formed" && cs.class != "genuine" {
					rejected[e.name]++
				}
				if (cs.class == "well-formed" || cs.class == "genuine") && cs.opts.Normal {
					// not a verdict (C08 does not say which images are accepted) but it would mean the generator is off
					c.Note("well-formed image rejected by %s: %s", e.name, oc)
					c.Count("well-formed-rejected/"+e.name, 1)
				}
			}
			if cs.class == "genuine" {
				c.Max("genuine_cpu_us/"+e.name, int64(m.CPU/time.Microsecond))
				c.Max("genuine_alloc_b/"+e.name, int64(m.Alloc))
				if m.CPU*10 > b.CPU || m.Alloc*10 > b.Alloc {
					c.Note("headroom: genuine 2 MiB image within 10x of the budget at %s (cpu %v of %v, alloc %d of %d)", e.name, m.CPU, b.CPU, m.Alloc, b.Alloc)
				}
			}
			if m.CPU*4 > b.CPU || m.Alloc*4 > b.Alloc {
				c.Count("within-4x-of-budget/"+e.name, 1)
				c.Note("close to budget: %s on %s: cpu %v of %v, alloc %d of %d", e.name, gname, m.CPU.Round(time.Millisecond), b.CPU, m.Alloc, b.Alloc)
			}
		}
		if i%211 == 0 || (cs.class == "giant" && i%7 == 0) {
			c.Sample(map[string]any{"case": i, "gen": gname, "len": len(fw), "sha256": hex.EncodeToString(sum[:8])})
		}
		c.End(i)
	}
	// the strata appended behind the layout stratum (ext.go)
	if !runExt(c, mo, ents, layout0, layout0+len(dirL)+nL) {
		generatorOK = false
	}
	for _, e := range ents {
		c.Floor("accepted-some-valid-image/"+e.name, accepted[e.name] > 0)
		c.Floor("rejected-some-hostile-image/"+e.name, rejected[e.name] > 0)
	}
	c.Floor("large-declared-range-at-free-address-was-measured", largeOK > 0)
	c.Floor("some-list-of-scratch-sections-was-accepted-and-measured", listOK > 0)
	c.Floor("some-section-list-with-empty-sections-was-accepted-and-measured", layoutOK > 0)
	c.Count("layout-tdx-calls-ok", layoutOK)
	c.Count("scratch-list-calls-ok", listOK)
	c.Count("scratch-list-calls-error", listRefused)
	if !generatorOK { // only ever set to false: any shard with a generator fault makes the run inconclusive
		c.Floor(fmt.Sprintf("generator-without-fault/shard-%d", c.Shard), false)
	}
}
