package c08

import (
	"fmt"
	"math/rand/v2"
)

// mut names one applied mutation: the field and the class of the value written to it.
type mut struct{ field, val string }

type bval struct {
	v    uint64
	name string
}

// ordinary boundary values: image-relative, small, header-sized, 16/32-bit edges, alignment edges and
// moderate sizes. None of them makes a correct implementation do more than O(image) work.
func ordinary(r *rand.Rand, size int) bval {
	n := uint64(size)
	t := []bval{
		{0, "0"}, {1, "1"}, {2, "2"}, {3, "3"}, {4, "4"}, {8, "8"}, {12, "12"}, {15, "15"}, {16, "16"}, {17, "17"}, {18, "18"}, {21, "21"}, {22, "22"}, {23, "23"},
		{32, "32"}, {0xfff, "0xfff"}, {0x1000, "0x1000"}, {0x1001, "0x1001"}, {0x2000, "0x2000"},
		{n - 1, "size-1"}, {n, "size"}, {n + 1, "size+1"}, {n - 16, "size-16"}, {n - 15, "size-15"}, {n - 17, "size-17"}, {n / 2, "size/2"}, {n - 0x20, "size-0x20"},
		{0x7fff, "0x7fff"}, {0x8000, "0x8000"}, {0xffff, "0xffff"}, {0x10000, "0x10000"},
		{1 << 20, "1MiB"}, {16 << 20, "16MiB"},
		{0x7fffffff, "0x7fffffff"}, {0x80000000, "0x80000000"}, {0xffffffff, "0xffffffff"}, {0xfffff000, "0xfffff000"}, {0xffe00000, "0xffe00000"},
		{0x100000000 - n, "4GiB-size"}, {1 << 32, "2^32"}, {1<<32 + 0x1000, "2^32+0x1000"},
	}
	k := r.IntN(len(t) + 2)
	if k == len(t) {
		return bval{uint64(r.Uint32()), "rand32"}
	}
	if k == len(t)+1 {
		return bval{uint64(r.IntN(4 * size)), "rand<4*size"}
	}
	return t[k]
}

// wide values for 64-bit address fields (never sizes): cheap for any implementation.
func wideAddr(r *rand.Rand, size int) bval {
	t := []bval{{1 << 33, "2^33"}, {1 << 40, "2^40"}, {1 << 52, "2^52"}, {1 << 62, "2^62"}, {1 << 63, "2^63"},
		{^uint64(0) - 0xfff, "2^64-4096"}, {^uint64(0), "2^64-1"}, {1<<63 - 0x1000, "2^63-4096"}, {0x800001, "misaligned"}}
	if r.IntN(2) == 0 {
		return ordinary(r, size)
	}
	return t[r.IntN(len(t))]
}

// count values whose product with the 12- or 32-byte record size wraps around 2^32 to something small.
func wrapCounts(rec uint64) []bval {
	var out []bval
	for j := uint64(1); j <= 3; j++ {
		base := (j<<32 + rec - 1) / rec
		for k := uint64(0); k < 3; k++ {
			out = append(out, bval{base + k, fmt.Sprintf("ceil(%d*2^32/%d)+%d", j, rec, k)})
		}
	}
	return out
}

var giantSizes = []bval{{1 << 29, "2^29"}, {0x7fffffff, "0x7fffffff"}, {0x80000000, "0x80000000"}, {0xfffff000, "0xfffff000"}, {0xffffffff, "0xffffffff"}, {1 << 30, "2^30"}, {1 << 32, "2^32"}, {1<<32 + 0x1000, "2^32+0x1000"}, {1 << 36, "2^36"}, {1 << 40, "2^40"},
	{1 << 62, "2^62"}, {1 << 63, "2^63"}, {^uint64(0) - 0xfff, "2^64-4096"}, {^uint64(0), "2^64-1"}, {^uint64(0) - 0xffff, "2^64-65536"}}

var giantSevLens = []bval{{0x10000000, "2^28"}, {0x80000000, "2^31"}, {0xfffff000, "0xfffff000"}}

// highBase returns a free, page-aligned address above every RAM bank of every machine shape, distinct
// per slot, so that a large declared range is not rejected by the overlap check before it is used.
func highBase(slot int) uint64 { return uint64(1+slot) << 40 }

// mutate applies 1..3 field mutations to a well-formed spec. With giant set, the first mutation puts
// a value that is huge compared to the image into one of the three fields whose value drives loops or
// allocations in the measurement code (SEV section length, TDVF section count, TDVF memory size).
func mutate(r *rand.Rand, s *Spec, giant bool) []mut {
	var out []mut
	size := s.Size
	sev, tdx := s.Sev, s.Tdx
	tableLen := 18
	for _, e := range s.Entries {
		tableLen += len(e.Data) + 18
	}
	tableStart := size - s.Tail - tableLen

	type op struct {
		w int
		f func() mut
	}
	pickSev := func() *Sec12 { return &sev.Secs[r.IntN(len(sev.Secs))] }
	pickTdx := func() (int, *Sec32) { k := r.IntN(len(tdx.Secs)); return k, &tdx.Secs[k] }
	scratch := func() (int, *Sec32) { // a TD-HOB or TempMem section
		var idx []int
		for k, x := range tdx.Secs {
			if x.Type == tdHOB || x.Type == tdTempMem {
				idx = append(idx, k)
			}
		}
		if len(idx) == 0 { // an earlier mutation of this case retyped them all
			return pickTdx()
		}
		k := idx[r.IntN(len(idx))]
		return k, &tdx.Secs[k]
	}
	setSize := func(k int, x *Sec32, v bval) mut {
		x.Size = v.v
		name := "tdx.sec.size/fv"
		switch x.Type {
		case tdHOB:
			name = "tdx.sec.size/tdhob"
		case tdTempMem:
			name = "tdx.sec.size/tempmem"
		}
		if x.Type == tdHOB || x.Type == tdTempMem {
			if r.IntN(10) < 7 {
				x.Base = highBase(k)
				name += "@high"
			}
			if r.IntN(4) == 0 {
				x.Attr ^= 1
			}
		} else if r.IntN(2) == 0 {
			x.DataSize = uint32(v.v)
		}
		return mut{name, v.name}
	}
	setTdxCnt := func(v bval) mut {
		tdx.Cnt = uint32(v.v)
		name := "tdx.cnt"
		if r.IntN(3) > 0 {
			tdx.Len = 16 + 32*tdx.Cnt
			name += "+len"
		}
		return mut{name, v.name}
	}

	ops := []op{
		// GUID table
		{3, func() mut {
			v := ordinary(r, size)
			s.FooterSz = int(uint16(v.v))
			return mut{"tbl.footer.size", v.name}
		}},
		{1, func() mut {
			s.FooterSz = tableLen + []int{-1, 1, -18, 18, 17, -17}[r.IntN(6)]
			return mut{"tbl.footer.size", "len+-k"}
		}},
		{1, func() mut { s.Footer = guidSevReset; return mut{"tbl.footer.guid", "other"} }},
		{3, func() mut {
			e := &s.Entries[r.IntN(len(s.Entries))]
			v := ordinary(r, size)
			e.Size = int(uint16(v.v))
			return mut{"tbl.entry.size", v.name}
		}},
		{1, func() mut {
			e := &s.Entries[r.IntN(len(s.Entries))]
			e.Size = len(e.Data) + 18 + []int{-1, 1, -4, 4}[r.IntN(4)]
			return mut{"tbl.entry.size", "len+-k"}
		}},
		{1, func() mut {
			e := s.Entries[r.IntN(len(s.Entries))]
			s.Entries = append(s.Entries, e)
			return mut{"tbl.entry", "duplicate-guid"}
		}},
		{1, func() mut {
			if len(s.Entries) < 2 {
				return mut{"tbl.entry", "removed(none left)"}
			}
			k := r.IntN(len(s.Entries))
			s.Entries = append(s.Entries[:k:k], s.Entries[k+1:]...)
			return mut{"tbl.entry", "removed"}
		}},
		{1, func() mut {
			e := &s.Entries[r.IntN(len(s.Entries))]
			e.Data = append(make([]byte, 1+r.IntN(8)), e.Data...)
			return mut{"tbl.entry", "payload-longer"}
		}},
		{1, func() mut {
			e := &s.Entries[r.IntN(len(s.Entries))]
			if len(e.Data) > 0 {
				e.Data = e.Data[1:]
			}
			return mut{"tbl.entry", "payload-shorter"}
		}},
		{1, func() mut { s.Tail = []int{0, 0x1f, 0x21, 0x10, 0x40}[r.IntN(5)]; return mut{"tbl.tail", "moved"} }},
		{1, func() mut {
			n := 100 + r.IntN(3500)
			for k := 0; k < n; k++ {
				s.Entries = append(s.Entries, Entry{GUID: fmt.Sprintf("%08x-0000-4000-8000-000000000000", k), Size: -1})
			}
			return mut{"tbl.entries", "many"}
		}},
		{2, func() mut {
			v := ordinary(r, size)
			s.setOff(guidSevReset, uint32(v.v))
			return mut{"tbl.reset.addr", v.name}
		}},
		// SEV metadata
		{6, func() mut { v := ordinary(r, size); s.setOff(guidSevOff, uint32(v.v)); return mut{"sev.off", v.name} }},
		{2, func() mut {
			k := uint32(r.IntN(40))
			s.setOff(guidSevOff, k)
			return mut{"sev.off", "<40"}
		}},
		{1, func() mut { sev.Sig ^= 1 << r.IntN(32); return mut{"sev.sig", "bitflip"} }},
		{3, func() mut { v := ordinary(r, size); sev.Len = uint32(v.v); return mut{"sev.len", v.name} }},
		{1, func() mut { v := ordinary(r, size); sev.Ver = uint32(v.v); return mut{"sev.ver", v.name} }},
		{4, func() mut {
			v := ordinary(r, size)
			sev.Cnt = uint32(v.v)
			name := "sev.cnt"
			if r.IntN(3) > 0 {
				sev.Len = 16 + 12*sev.Cnt
				name += "+len"
			}
			return mut{name, v.name}
		}},
		{4, func() mut {
			w := wrapCounts(12)
			v := w[r.IntN(len(w))]
			sev.Cnt = uint32(v.v)
			sev.Len = 16 + 12*sev.Cnt
			return mut{"sev.cnt+len", v.name}
		}},
		{1, func() mut { // as many real sections as fit between the metadata and the end of the image
			n := (size - sev.Pos - 16) / 12
			if n > 3000 {
				n = 3000
			}
			if n < 0 {
				n = 0
			}
			sev.Cnt = uint32(n)
			sev.Len = 16 + 12*sev.Cnt
			return mut{"sev.cnt+len", "max-that-fits"}
		}},
		{3, func() mut { v := ordinary(r, size); pickSev().Addr = uint32(v.v); return mut{"sev.sec.addr", v.name} }},
		{3, func() mut {
			v := ordinary(r, size)
			if v.v >= 1<<28 && uint32(v.v)%4096 == 0 { // page-multiple lengths >= 256 MiB belong to the giant stratum
				v = bval{0x8000000, "2^27"}
			}
			pickSev().Len = uint32(v.v)
			return mut{"sev.sec.len", v.name}
		}},
		{2, func() mut { v := ordinary(r, size); pickSev().Kind = uint32(v.v); return mut{"sev.sec.kind", v.name} }},
		{1, func() mut {
			x := pickSev()
			sev.Secs = append(sev.Secs, *x)
			sev.Cnt++
			sev.Len += 12
			return mut{"sev.sec", "duplicate"}
		}},
		{1, func() mut { // two sections whose 32-bit end wraps
			sev.Secs = append(sev.Secs, Sec12{0xfffff000, 0x2000, secUnmeasured})
			sev.Cnt++
			sev.Len += 12
			return mut{"sev.sec", "end-wraps"}
		}},
		// TDVF metadata
		{6, func() mut { v := ordinary(r, size); s.setOff(guidTdxOff, uint32(v.v)); return mut{"tdx.off", v.name} }},
		{1, func() mut { tdx.GUID = guidTdxOff; return mut{"tdx.guid", "other"} }},
		{1, func() mut { tdx.Sig ^= 1 << r.IntN(32); return mut{"tdx.sig", "bitflip"} }},
		{3, func() mut { v := ordinary(r, size); tdx.Len = uint32(v.v); return mut{"tdx.len", v.name} }},
		{1, func() mut { v := ordinary(r, size); tdx.Ver = uint32(v.v); return mut{"tdx.ver", v.name} }},
		{4, func() mut {
			v := ordinary(r, size)
			if v.v*32 > uint64(size) && (v.v*32)&0xffffffff <= uint64(size) { // wrapping counts belong to the giant stratum
				v = bval{uint64(size) / 32, "size/32"}
			}
			return setTdxCnt(v)
		}},
		{1, func() mut { // many genuine zero-size / one-page TempMem sections
			room := (size - 1024 - tdx.Pos - 32 - 32*len(tdx.Secs)) / 32
			n := min(room, 2000)
			if n < 1 {
				return mut{"tdx.secs", "many(no room)"}
			}
			tdx.Rep, tdx.RepBase, tdx.RepStep = n, 0x10000000, 0x2000
			if r.IntN(2) == 0 {
				tdx.RepSize = 0x1000
			}
			tdx.Cnt += uint32(n)
			tdx.Len += uint32(32 * n)
			return mut{"tdx.secs", "many"}
		}},
		{2, func() mut {
			_, x := pickTdx()
			v := ordinary(r, size)
			x.DataOff = uint32(v.v)
			return mut{"tdx.sec.dataoff", v.name}
		}},
		{2, func() mut {
			_, x := pickTdx()
			v := ordinary(r, size)
			x.DataSize = uint32(v.v)
			// memory sizes of 128 MiB and more on TD-HOB / TempMem sections belong to the giant stratum
			if r.IntN(2) == 0 && (x.Type == tdBFV || x.Type == tdCFV || x.DataSize < 1<<27) {
				x.Size = uint64(x.DataSize)
			}
			return mut{"tdx.sec.datasize", v.name}
		}},
		{4, func() mut {
			_, x := pickTdx()
			v := wideAddr(r, size)
			x.Base = v.v
			return mut{"tdx.sec.base", v.name}
		}},
		{6, func() mut {
			k, x := pickTdx()
			v := ordinary(r, size)
			if v.v >= 1<<27 { // declared sizes of 128 MiB and more belong to the giant stratum
				v = bval{uint64(1+r.IntN(8)) << 20, "1..8MiB"}
			}
			return setSize(k, x, v)
		}},
		{2, func() mut {
			_, x := pickTdx()
			v := ordinary(r, size)
			x.Type = uint32(v.v)
			return mut{"tdx.sec.type", v.name}
		}},
		{1, func() mut { _, x := pickTdx(); x.Type = uint32(r.IntN(5)); return mut{"tdx.sec.type", "0..4"} }},
		{1, func() mut { _, x := pickTdx(); x.Attr = r.Uint32(); return mut{"tdx.sec.attr", "rand32"} }},
		{1, func() mut { _, x := pickTdx(); x.Attr ^= 1; return mut{"tdx.sec.attr", "extend-flip"} }},
		{1, func() mut {
			_, x := scratch()
			tdx.Secs = append(tdx.Secs, *x)
			tdx.Cnt++
			tdx.Len += 32
			return mut{"tdx.sec", "duplicate"}
		}},
		// whole image
		{2, func() mut {
			region := [][2]int{{sev.Pos, 16 + 12*len(sev.Secs)}, {tdx.Pos, 32 + 32*len(tdx.Secs)}, {tableStart, tableLen}}[r.IntN(3)]
			s.Patches = append(s.Patches, Patch{Off: region[0] + r.IntN(max(region[1], 1)), W: -1, V: 1 << r.IntN(8)})
			return mut{"img.bitflip", "metadata"}
		}},
		{6, func() mut {
			region := [][2]int{{sev.Pos, 16 + 12*len(sev.Secs)}, {tdx.Pos, 32 + 32*len(tdx.Secs)}, {tableStart, tableLen}}[r.IntN(3)]
			w := []int{1, 2, 4, 8}[r.IntN(4)]
			v := wideAddr(r, size)
			if w == 8 && v.v >= 1<<28 { // blind 8-byte writes of huge values could land on a memory size: giant stratum only
				w = 4
			}
			if w == 4 && uint32(v.v) >= 1<<27 && r.IntN(4) > 0 {
				w = 2
			}
			s.Patches = append(s.Patches, Patch{Off: region[0] + r.IntN(max(region[1]-w+1, 1)), W: w, V: v.v})
			return mut{fmt.Sprintf("img.blind-write/%d", w), v.name}
		}},
		{1, func() mut {
			cuts := []int{0, 1, 0x31, 0x32, 0x33, 0x48, size - 1, size - 0x20, size / 2, size + 1, size + 0x20, size + 4096}
			s.Cut = cuts[r.IntN(len(cuts))]
			return mut{"img.cut", fmt.Sprint(s.Cut - size)}
		}},
	}
	total := 0
	for _, o := range ops {
		total += o.w
	}
	pick := func() mut {
		x := r.IntN(total)
		for _, o := range ops {
			if x < o.w {
				return o.f()
			}
			x -= o.w
		}
		panic("unreachable")
	}

	n := 1
	if giant {
		switch r.IntN(5) {
		case 0:
			v := giantSevLens[r.IntN(len(giantSevLens))]
			x := pickSev()
			x.Len = uint32(v.v)
			if r.IntN(2) == 0 {
				x.Addr = 0x1000 // low, so that address+length stays below 4 GiB
			}
			out = append(out, mut{"sev.sec.len", v.name})
		case 1:
			w := wrapCounts(32)
			out = append(out, setTdxCnt(w[r.IntN(len(w))]))
		default:
			k, x := scratch()
			if r.IntN(5) == 0 {
				k, x = pickTdx()
			}
			out = append(out, setSize(k, x, giantSizes[r.IntN(len(giantSizes))]))
		}
		if r.IntN(3) > 0 {
			return out
		}
	} else {
		n = 1 + r.IntN(3)
		if r.IntN(2) == 0 {
			n = 1
		}
	}
	for k := 0; k < n; k++ {
		out = append(out, pick())
	}
	return out
}

// scratchSizes are per-section sizes at and just below the caps an implementation is likely to put on
// a single TD-HOB / TempMem section; a list of them probes whether the SUM of the declared sizes is
// bounded, not only each section.
var scratchSizes = []bval{{0x1000, "4KiB"}, {0x10000, "64KiB"}, {1 << 20, "1MiB"}, {16 << 20, "16MiB"}, {32 << 20, "32MiB"}, {60 << 20, "60MiB"},
	{64<<20 - 0x1000, "64MiB-4KiB"}, {64 << 20, "64MiB"}}

// scratchList appends k TempMem sections at distinct, non-overlapping, page-aligned addresses to a
// well-formed spec: below 3.5 GiB (from 256 MiB upwards, clear of the sections wellFormed places at
// 8..13 MiB and of the ROM window) when low is set and the list fits there, else above every RAM bank.
// sizes has one element (uniform list) or k elements. The metadata is moved to the front of the image
// so that as many sections fit as the image length allows; k is clipped to that room and returned.
func scratchList(r *rand.Rand, s *Spec, k int, sizes []bval, low bool) (int, []mut) {
	size := s.Size
	s.Sev.Pos = 0
	s.setOff(guidSevOff, uint32(size))
	s.Tdx.Pos = 0x200
	s.setOff(guidTdxOff, uint32(size-0x200-16))
	room := (size-1024-0x200-32)/32 - len(s.Tdx.Secs)
	if k > room {
		k = room
	}
	if k < 1 {
		return 0, []mut{{"tdx.scratch-list", "no room"}}
	}
	gap := uint64(r.IntN(2)) << 12
	var total uint64
	for i := 0; i < k; i++ {
		total += sizes[i%len(sizes)].v + gap
	}
	base, where := uint64(21)<<40, "@high"
	if low && total <= 0xd0000000 {
		base, where = 0x10000000, "@low"
	}
	attr := uint32(0)
	if r.IntN(4) == 0 {
		attr = 1
	}
	if len(sizes) == 1 && k > 64 {
		s.Tdx.Rep, s.Tdx.RepBase, s.Tdx.RepStep, s.Tdx.RepSize = k, base, sizes[0].v+gap, sizes[0].v
	} else {
		a := base
		for i := 0; i < k; i++ {
			v := sizes[i%len(sizes)].v
			s.Tdx.Secs = append(s.Tdx.Secs, Sec32{Base: a, Size: v, Type: tdTempMem, Attr: attr})
			a += v + gap
		}
	}
	s.Tdx.Cnt += uint32(k)
	s.Tdx.Len += uint32(32 * k)
	if k > 100 {
		// the hand-off block must be able to hold one 48-byte descriptor per section (plus RAM fragments),
		// or every mode stops with "TD HOB buffer is overflowing" before anything is measured
		need := (uint64(56+48*(k+len(s.Tdx.Secs)+80)+8) + 0xfff) &^ 0xfff
		for j := range s.Tdx.Secs {
			if s.Tdx.Secs[j].Type == tdHOB && s.Tdx.Secs[j].Size < need {
				s.Tdx.Secs[j].Base, s.Tdx.Secs[j].Size = highBase(41), need
			}
		}
	}
	name := sizes[0].name
	if len(sizes) > 1 {
		name = "mixed"
	}
	kc := fmt.Sprint(k)
	if k == room {
		kc = "max"
	}
	return k, []mut{{"tdx.scratch-list" + where + "/k=" + kc, name}}
}
