package c08

import (
	"fmt"
	"os"
	"regexp"
	"runtime"
	"runtime/debug"
	"runtime/metrics"
	"strconv"
	"strings"
	"sync"
	"sync/atomic"
	"syscall"
	"time"

	"verifharness/core"
)

// The monitored call. Every call of a repository entry point runs on its own goroutine (locked to its
// own thread, whose user CPU time is the CPU figure of the call) while the goroutine of the case waits
// for it inside core.Guard. Guard keeps doing what it did (counts the evaluation, judges the allocated
// bytes, arms the worker's CPU watchdog that ends a call that is still computing at 3x its budget);
// the panic and CPU verdicts are taken here from what the call's own goroutine reports, with the same
// violation signatures as Guard's.
//
// What the separate goroutine adds is the other half of "terminates": a call that never returns and
// does not compute either (a send on a channel nobody reads, a WaitGroup nobody completes, a lock
// that is never released). No amount of CPU time ends such a call, so the CPU watchdog cannot see it.
// It is decided without a deadline on the call: the call is declared blocked only when
//
//	(a) it has not returned,
//	(b) the whole process (user + system, all threads) has consumed less than idleCPUMax of CPU time
//	    over at least idleTicksMin consecutive samples of the waiting goroutine spanning at least
//	    idleWallMin (a call that is merely slow on a loaded machine keeps consuming CPU time; the
//	    samples are taken by this process, so a process that is not being scheduled at all does not
//	    collect them; the harness' own pollers and these samples cost 1..5 ms per second on a machine
//	    with a load of 400),
//	(c) in two goroutine dumps one sample apart, the goroutine of the call is parked on a
//	    synchronisation primitive (channel, select, semaphore, mutex, condition, wait group), and no
//	    other goroutine of the process is running, runnable or in a system call, and none outside
//	    the harness' own pollers is sleeping or waiting for I/O (so nothing is left that could wake it).
//
// The stuck goroutine is abandoned (it holds the image and nothing else), the verdict names the entry
// point and the shape of its options, and that entry point is not called with that shape again in
// this process (counted), so that a tree with such a hang costs a shard one idle stretch.
const (
	fastWait     = 250 * time.Millisecond // calls that return within this time are never sampled
	idleTick     = 500 * time.Millisecond
	idleTicksMin = 32
	idleWallMin  = 16 * time.Second
	idleCPUMax   = 160 * time.Millisecond // 1 % of one core over the shortest stretch
)

var debugIdle = os.Getenv("VERIF_C08_DEBUG_IDLE") != ""

type callStatus int

const (
	stReturned   callStatus = iota
	stBlocked               // never returned and the process was idle: verdict taken, goroutine abandoned
	stOverBudget            // (early-stop calls only) thread CPU or allocated bytes beyond the budget while still running: verdict taken, goroutine abandoned
)

type callRes struct {
	err      error
	panicked bool
	msg      string
	site     string
	cpu      time.Duration
}

type callee struct {
	tid  atomic.Int64 // OS thread of the call
	cpu0 atomic.Int64 // user CPU of that thread when the call started
	done chan callRes
}

type monitor struct {
	c  *core.Ctx
	ms []metrics.Sample

	mu      sync.RWMutex
	stopped map[string]string // entry|shape -> verdict after which it is not called again
}

func newMonitor(c *core.Ctx) *monitor {
	return &monitor{c: c, ms: []metrics.Sample{{Name: "/gc/heap/allocs:bytes"}}, stopped: map[string]string{}}
}

// optShape is the shape of the launch options as far as an entry point reads them: what a verdict of
// non-termination is attached to.
func optShape(entry string, o *Opts) string {
	switch entry {
	case "sev.UnsignedSnp":
		if o.SnpVmsas == 0 {
			return "all-vmsa-counts"
		}
		return "one-vmsa-count"
	case "sev.LaunchDigest":
		if o.Vcpus <= 1 {
			return "vcpus<=1"
		}
		return "vcpus>1"
	case "tdx.UnsignedTDX":
		return fmt.Sprintf("shapes=%d,early=%v", min(len(o.Shapes), 2), o.Early)
	case "tdx.MRTD/banks":
		return fmt.Sprintf("measure-all=%v,early=%v", o.BanksAll, o.BanksEarly)
	}
	return "any"
}

func (mo *monitor) stoppedWhy(entry, shape string) string {
	mo.mu.RLock()
	defer mo.mu.RUnlock()
	return mo.stopped[entry+"|"+shape]
}

func (mo *monitor) stop(entry, shape, why string) {
	mo.mu.Lock()
	mo.stopped[entry+"|"+shape] = why
	mo.mu.Unlock()
}

func threadUserCPU() int64 {
	var ru syscall.Rusage
	const rusageThread = 1
	if syscall.Getrusage(rusageThread, &ru) != nil {
		return 0
	}
	return ru.Utime.Nano() // user time only, as core.Guard (system time under memory pressure is not the call's)
}

// procAllCPU is the CPU time of the whole process, user and system.
func procAllCPU() time.Duration {
	var ru syscall.Rusage
	if syscall.Getrusage(0, &ru) != nil {
		return -1
	}
	return time.Duration(ru.Utime.Nano() + ru.Stime.Nano())
}

// taskUserCPU reads the user CPU time of another thread of this process (10 ms resolution).
func taskUserCPU(tid int64) (time.Duration, bool) {
	b, err := os.ReadFile("/proc/self/task/" + strconv.FormatInt(tid, 10) + "/stat")
	if err != nil {
		return 0, false
	}
	s := string(b)
	k := strings.LastIndexByte(s, ')') // the command name may contain anything
	if k < 0 {
		return 0, false
	}
	f := strings.Fields(s[k+1:])
	if len(f) < 12 {
		return 0, false
	}
	ticks, err := strconv.ParseInt(f[11], 10, 64) // utime: field 14 of the line, 12th after the name
	if err != nil {
		return 0, false
	}
	return time.Duration(ticks) * (time.Second / 100), true
}

// calleeMain is the goroutine of one call (its name is what the goroutine dumps are searched for).
func calleeMain(cl *callee, f func() error) {
	runtime.LockOSThread()
	defer runtime.UnlockOSThread()
	var r callRes
	cl.tid.Store(int64(syscall.Gettid()))
	t0 := threadUserCPU()
	cl.cpu0.Store(t0)
	func() {
		defer func() {
			if p := recover(); p != nil {
				r.panicked, r.msg, r.site = true, fmt.Sprint(p), core.PanicSite(debug.Stack())
			}
		}()
		r.err = f()
	}()
	r.cpu = time.Duration(threadUserCPU() - t0)
	cl.done <- r
}

// idleWatch is the state of condition (b) while one call (or one concurrent batch) is awaited.
type idleWatch struct {
	start time.Time
	cpu   time.Duration
	ticks int
	dumps int // consecutive dumps that satisfied (c)
}

func (w *idleWatch) reset() {
	w.start, w.cpu, w.ticks, w.dumps = time.Now(), procAllCPU(), 0, 0
}

// tick takes one sample; it reports blocked (with the description of where) when (b) and (c) hold.
func (w *idleWatch) tick(c *core.Ctx, marker string) (bool, string) {
	cpu := procAllCPU()
	if debugIdle {
		fmt.Fprintf(os.Stderr, "idle-watch: ticks=%d since=%v cpu-delta=%v\n", w.ticks, time.Since(w.start).Round(time.Millisecond), cpu-w.cpu)
	}
	if cpu < 0 || cpu-w.cpu >= idleCPUMax {
		w.reset()
		return false, ""
	}
	w.ticks++
	if w.ticks < idleTicksMin || time.Since(w.start) < idleWallMin {
		return false, ""
	}
	ok, where := parkedForGood(marker)
	if !ok {
		// idle, but not provably parked: never a verdict (the shard's outer timeout is what is left)
		c.Count("non-termination/idle-stretch-not-judged: "+where, 1)
		w.dumps = 0
		w.ticks = idleTicksMin - 4 // look again in two seconds
		return false, ""
	}
	w.dumps++
	if w.dumps < 2 {
		return false, ""
	}
	return true, fmt.Sprintf("%s; the process used %v of CPU time (user+system, all threads) during the last %v (%d samples)",
		where, (cpu - w.cpu).Round(time.Millisecond), time.Since(w.start).Round(time.Second), w.ticks)
}

var (
	goHeadRe  = regexp.MustCompile(`^goroutine (\d+) \[([^\],]*)`)
	parkState = []string{"chan send", "chan receive", "select", "semacquire", "sync.Mutex.Lock", "sync.RWMutex.RLock", "sync.RWMutex.Lock", "sync.Cond.Wait", "sync.WaitGroup.Wait"}
	// goroutines of the harness that poll: whatever state they are in says nothing about the call
	harnessFns = []string{"props/c08.allocWatchdog", "core.(*Ctx).watchdog", "props/c08.(*barrier).wait"}
)

func isPark(state string) bool {
	for _, p := range parkState {
		if strings.HasPrefix(state, p) {
			return true
		}
	}
	return false
}

// parkedForGood evaluates condition (c) on a goroutine dump. marker is the function name that
// identifies the goroutines of the call(s) being awaited.
func parkedForGood(marker string) (bool, string) {
	buf := make([]byte, 4<<20)
	n := runtime.Stack(buf, true)
	if n == len(buf) {
		return false, "goroutine dump truncated"
	}
	blocks := strings.Split(string(buf[:n]), "\n\n")
	var where []string
	calls := 0
	for k, g := range blocks {
		if k == 0 { // the goroutine that is taking the dump
			continue
		}
		m := goHeadRe.FindStringSubmatch(g)
		if m == nil {
			continue
		}
		state := m[2]
		harness := false
		for _, h := range harnessFns {
			harness = harness || strings.Contains(g, h)
		}
		switch {
		case state == "running" || state == "runnable" || state == "syscall":
			return false, "a goroutine is " + state
		case harness:
			continue
		case state == "sleep" || state == "IO wait":
			return false, "a goroutine outside the harness is in " + state
		}
		if strings.Contains(g, marker) {
			if !isPark(state) {
				return false, "the goroutine of the call is in state " + state
			}
			calls++
			where = append(where, "call parked in ["+state+"] at "+parkFrames(g))
		} else if isPark(state) && strings.Contains(g, "gce-tcb-verifier") && len(where) < 4 {
			where = append(where, "goroutine started by it parked in ["+state+"] at "+parkFrames(g))
		}
	}
	if calls == 0 {
		return false, "the goroutine of the call was not found in the dump"
	}
	return true, strings.Join(where, " | ")
}

// parkFrames names the innermost frames of a parked goroutine down to the first repository frame.
func parkFrames(g string) string {
	var out []string
	for _, l := range strings.Split(g, "\n")[1:] {
		if strings.HasPrefix(l, "\t") || l == "" || strings.HasPrefix(l, "created by ") {
			continue
		}
		fn := l
		if i := strings.LastIndex(fn, "("); i > 0 {
			fn = fn[:i]
		}
		if strings.HasPrefix(fn, "runtime.") && len(out) == 0 {
			continue
		}
		out = append(out, fn)
		if strings.Contains(fn, "gce-tcb-verifier") || len(out) >= 4 {
			break
		}
	}
	return strings.Join(out, " <- ")
}

const ruleBlocked = "non-termination:call-blocked-without-using-cpu"

// run makes one monitored call of entry point `entry` for case i. earlyStop makes the waiting goroutine
// take the CPU / allocation verdict as soon as the call's thread has used more CPU time than the budget or
// the process has allocated more than the budget since the call began, without waiting for the return (the
// call is abandoned then and goes on computing, so the caller must not make another measured call in
// this process; used by the last stratum, where a defective tree turns one call into minutes).
// The caller has written the case record (c.Begin) already.
func (mo *monitor) run(i int, entry, gname string, b core.Budget, shape string, earlyStop bool, f func() error) (core.Measured, error, callStatus) {
	c := mo.c
	a0 := heapAllocs(mo.ms)
	arm(entry, b.Alloc, a0)
	var res callRes
	st := stReturned
	var where string
	var overCPU time.Duration
	m := c.Guard(i, entry, gname, core.Budget{CPU: b.CPU, Alloc: b.Alloc}, func() {
		defer disarm()
		cl := &callee{done: make(chan callRes, 1)}
		go calleeMain(cl, f)
		// the common case: the call returns within a few milliseconds; no ticker is set up for it
		fast := time.NewTimer(fastWait)
		select {
		case res = <-cl.done:
			fast.Stop()
			return
		case <-fast.C:
		}
		tk := time.NewTicker(idleTick)
		defer tk.Stop()
		var w idleWatch
		w.reset()
		for {
			select {
			case res = <-cl.done:
				return
			case <-tk.C:
			}
			if earlyStop && b.Alloc > 0 && heapAllocs(mo.ms)-a0 > b.Alloc+(16<<20) {
				st = stOverBudget // Guard measures the same counter when this function returns and reports budget-alloc
				return
			}
			if earlyStop && b.CPU > 0 {
				if t, ok := taskUserCPU(cl.tid.Load()); ok {
					if used := t - time.Duration(cl.cpu0.Load()); used > b.CPU+200*time.Millisecond {
						st, overCPU = stOverBudget, used
						return
					}
				}
			}
			if blocked, desc := w.tick(c, "props/c08.calleeMain"); blocked {
				st, where = stBlocked, desc
				return
			}
		}
	})
	switch st {
	case stBlocked:
		c.Violate(core.Violation{Kind: "oracle", Entry: entry, Site: ruleBlocked, Gen: gname, Case: i,
			Detail: fmt.Sprintf("the call (options: %s) did not return and does not compute: %s. The goroutine is abandoned; %s is not called with this shape of options again in this process", shape, where, entry)})
		c.Count("non-termination/blocked-calls/"+entry+"/"+shape, 1)
		mo.stop(entry, shape, "a-non-termination-verdict")
		return m, nil, st
	case stOverBudget:
		if overCPU == 0 {
			return m, nil, st
		}
		c.Violate(core.Violation{Kind: "budget-cpu", Entry: entry, Site: entry, Gen: gname, Case: i,
			Detail: fmt.Sprintf("cpu %v > budget %v and the call was still running (not waited for any longer)", overCPU, b.CPU)})
		m.CPU = overCPU
		return m, nil, st
	}
	m.CPU = res.cpu
	c.Max("cpu_us/"+entry, int64(res.cpu/time.Microsecond))
	if res.panicked {
		m.Panicked, m.PanicMsg, m.Site = true, res.msg, res.site
		c.Violate(core.Violation{Kind: "panic", Entry: entry, Site: res.site, Gen: gname, Case: i, Detail: res.msg})
	}
	if b.CPU > 0 && res.cpu > b.CPU {
		c.Violate(core.Violation{Kind: "budget-cpu", Entry: entry, Site: entry, Gen: gname, Case: i,
			Detail: fmt.Sprintf("cpu %v > budget %v", res.cpu, b.CPU)})
	}
	return m, res.err, st
}
