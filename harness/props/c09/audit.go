package c09

// Four more families of histories, appended after the histories of c09.go (case numbers from auditBase, so the older
// cases keep their numbers and PRNG streams). Each adds one dimension the older histories never produced:
//
//	mixed     validators with DIFFERENT options (clock inside / outside the signer certificate's validity, right / wrong /
//	          no roots of trust, expected UEFI digest unset / right / wrong, VMSA counts 0/1/2/4/8, another family id, base
//	          policies with and without overwrite, endorsement in the options AND in the argument) alive in one process and
//	          invoked concurrently and successively: the result of a call must not depend on what OTHER validators checked.
//	reconfig  one SevValidateOptions value kept by the caller and re-configured between bursts of SevValidate calls: every
//	          call gets what a fresh options value with the same field values gets.
//	reused    every goroutine keeps ONE attestation value, ONE measurement buffer and ONE endorsement buffer and refills
//	          them in place for every call.
//	flaky     the bucket answers per object with a scripted sequence of good endorsement / error / garbage / empty body /
//	          endorsement of another build: a call's result depends on the answer ITS download got, not on earlier ones.
//
// All are judged by the rules of c09.go (result-differs-from-isolated-call, unendorsed-report-accepted,
// caller-options-modified-by-validation, validator-calls-never-returned, race reports).

import (
	"bytes"
	"context"
	"crypto/x509"
	"fmt"
	"math/rand/v2"
	"sort"
	"strings"
	"sync"
	"sync/atomic"
	"time"

	"github.com/google/gce-tcb-verifier/extract/extractsev"
	"github.com/google/gce-tcb-verifier/gcetcbendorsement"
	epb "github.com/google/gce-tcb-verifier/proto/endorsement"
	"github.com/google/gce-tcb-verifier/sev"
	"github.com/google/gce-tcb-verifier/timeproto"
	"github.com/google/gce-tcb-verifier/verify"
	cpb "github.com/google/go-sev-guest/proto/check"
	spb "github.com/google/go-sev-guest/proto/sevsnp"
	"github.com/google/go-sev-guest/validate"
	"google.golang.org/protobuf/proto"

	"verifharness/core"
	"verifharness/doubles"
	"verifharness/gen"
)

const auditBase = 1_000_000

// otherFamily is a family id nothing is published under.
const otherFamily = "0f0e0d0c-0b0a-0908-0706-050403020100"

// endo is an endorsement together with what the model needs to know about it.
type endo struct {
	name      string
	msg       *epb.VMLaunchEndorsement
	raw       []byte
	authentic bool
	digest    []byte
	meas      map[uint32][]byte
}

func (e *endo) lists(m []byte, vmsas uint32) bool {
	if e == nil {
		return false
	}
	if vmsas != 0 {
		g, ok := e.meas[vmsas]
		return ok && bytes.Equal(g, m)
	}
	for _, g := range e.meas {
		if bytes.Equal(g, m) {
			return true
		}
	}
	return false
}

type world struct {
	pki     *gen.PKI
	nb, now time.Time
	vcek    []byte
	inputs  []input
	mk      func(byte) []byte
	A, B, F *endo
	roots   *x509.CertPool
	attack  *x509.CertPool
	both    *x509.CertPool
	m4      []byte
	fw      []*fwbuild // round4.go: sixteen more firmware builds, made on first use
}

func (w *world) endoOf(in input) *endo {
	switch {
	case bytes.Equal(in.raw, w.B.raw):
		return w.B
	case bytes.Equal(in.raw, w.F.raw):
		return w.F
	}
	return w.A
}

func (w *world) url(family string, m []byte) string {
	return verify.GCETcbURL(extractsev.GCETcbObjectName(family, m))
}

// bucket answers with endorsement A for every published 48-byte measurement of the fixed inputs (as in c09.go).
func (w *world) bucket() *doubles.Getter {
	a := map[string][]byte{}
	for _, in := range w.inputs {
		if len(in.m) == 48 && in.kind != "unpublished" {
			a[w.url(sev.GCEUefiFamilyID, in.m)] = w.A.raw
		}
	}
	return &doubles.Getter{Answers: a}
}

// vcfg is one way of configuring a validator.
type vcfg struct {
	kind      string // closure, family-closure (another family id), pair (SNPValidateFunc + SNPFamilyValidateFunc on one Options), sevvalidate (one shared SevValidateOptions), guest (round4.go: the closure installed in go-sev-guest's certificate-table options)
	source    string // arg, options, options+arg, getter, arg+getter (round4.go: the endorsement travels with the attestation and a getter is configured as well)
	clock     string // valid, expired, notyet
	trust     string // genuine, both, attacker, nil
	digest    string // unset, right, wrong (closures only)
	vmsas     uint32
	snpNil    bool   // closures with vmsas == 0: Options.SNP left nil
	base      string // sevvalidate: none, empty, meas4
	overwrite bool
	forced    bool // sevvalidate: TestonlyForceGCS (round4.go)
}

func (cf vcfg) String() string {
	s := fmt.Sprintf("%s/%s clock=%s trust=%s vmsas=%d", cf.kind, cf.source, cf.clock, cf.trust, cf.vmsas)
	if cf.kind == "sevvalidate" {
		s += fmt.Sprintf(" base=%s overwrite=%v", cf.base, cf.overwrite)
		if cf.forced {
			s += " TestonlyForceGCS"
		}
	} else {
		s += fmt.Sprintf(" digest=%s snpnil=%v", cf.digest, cf.snpNil)
	}
	return s
}

func (w *world) clock(name string) time.Time {
	switch name {
	case "expired":
		return w.nb.AddDate(6, 0, 0) // the signer certificate ended after 5 years and a day, the root is still valid
	case "notyet":
		return w.nb.AddDate(0, 0, -1)
	}
	return w.now
}

func (w *world) trust(name string) *x509.CertPool {
	switch name {
	case "attacker":
		return w.attack
	case "both":
		return w.both
	case "nil":
		return nil
	}
	return w.roots
}

func (w *world) basePolicy(name string) *cpb.Policy {
	switch name {
	case "empty":
		return &cpb.Policy{MinimumVersion: "0.0", Policy: gen.ProdPolicy()}
	case "meas4":
		return &cpb.Policy{MinimumVersion: "0.0", Policy: gen.ProdPolicy(), Measurement: append([]byte(nil), w.m4...)}
	}
	return nil
}

func (w *world) verifyOpts(cf vcfg) *verify.Options { return w.verifyOptsWith(cf, nil) }

// verifyOptsWith: g, when not nil, is the getter of a configuration that has one (nil: a bucket of its own).
func (w *world) verifyOptsWith(cf vcfg, g verify.HTTPSGetter) *verify.Options {
	o := &verify.Options{RootsOfTrust: w.trust(cf.trust), Now: w.clock(cf.clock)}
	if !(cf.vmsas == 0 && cf.snpNil) {
		o.SNP = &verify.SNPOptions{ExpectedLaunchVMSAs: cf.vmsas}
	}
	switch cf.digest {
	case "right":
		o.ExpectedUefiSha384 = append([]byte(nil), w.A.digest...)
	case "wrong":
		o.ExpectedUefiSha384 = w.mk(0xdd)
	}
	switch cf.source {
	case "options", "options+arg":
		o.Endorsement = proto.Clone(w.A.msg).(*epb.VMLaunchEndorsement)
	case "getter", "arg+getter":
		if g != nil {
			o.Getter = g
		} else {
			o.Getter = w.bucket()
		}
	}
	return o
}

func (w *world) sevOpts(cf vcfg) *gcetcbendorsement.SevValidateOptions { return w.sevOptsWith(cf, nil) }

func (w *world) sevOptsWith(cf vcfg, g verify.HTTPSGetter) *gcetcbendorsement.SevValidateOptions {
	o := &gcetcbendorsement.SevValidateOptions{RootsOfTrust: w.trust(cf.trust), Now: w.clock(cf.clock), ExpectedLaunchVmsas: cf.vmsas,
		BasePolicy: w.basePolicy(cf.base), Overwrite: cf.overwrite, TestonlyForceGCS: cf.forced}
	switch cf.source {
	case "options", "options+arg":
		o.Endorsement = proto.Clone(w.A.msg).(*epb.VMLaunchEndorsement)
	case "getter", "arg+getter":
		if g != nil {
			o.Getter = g
		} else {
			o.Getter = w.bucket()
		}
	}
	return o
}

func (cf vcfg) family() string {
	if cf.kind == "family-closure" {
		return otherFamily
	}
	return sev.GCEUefiFamilyID
}

// inUse is the endorsement a call is decided by (nil: none can be had).
func (w *world) inUse(cf vcfg, in input) *endo {
	switch cf.source {
	case "options", "options+arg":
		return w.A // the caller's endorsement is preferred over the one travelling with the attestation
	case "arg", "arg+getter": // what travels with the attestation is used before anything is downloaded
		return w.endoOf(in)
	}
	if cf.family() != sev.GCEUefiFamilyID || len(in.m) != 48 || in.kind == "unpublished" {
		return nil
	}
	return w.A
}

// model: the conditions every accepted call must meet, from the property's ground truth (authentic endorsement, signer
// certificate valid at the configured time under the configured roots, expected digest, measurement listed). For the
// closures these conditions are also sufficient; SevValidate adds go-sev-guest's policy checks, so there the model only
// ever caps the expectation at "rejected".
func (w *world) model(cf vcfg, in input) (accept bool, why string) {
	if in.kind == "nil-attestation" || in.kind == "nil-report" || len(in.m) != 48 {
		return false, "no 48-byte measurement"
	}
	e := w.inUse(cf, in)
	switch {
	case e == nil:
		return false, "no endorsement can be had"
	case !e.authentic:
		return false, "the endorsement's signature does not cover its payload"
	case cf.clock != "valid":
		return false, "the signer certificate is not valid at the configured time"
	case cf.trust == "attacker" || cf.trust == "nil":
		return false, "the signer certificate does not chain to a configured root of trust"
	case cf.kind != "sevvalidate" && cf.digest == "wrong":
		return false, "the expected UEFI digest differs from the endorsed one"
	case cf.kind != "sevvalidate" && cf.digest == "right" && !bytes.Equal(e.digest, w.A.digest):
		return false, "the expected UEFI digest differs from the endorsed one"
	case !e.lists(in.m, cf.vmsas):
		return false, "the endorsement in use does not list the measurement"
	}
	return true, ""
}

// bufs are the values a caller keeps and refills in place (nil: fresh values for every call).
type bufs struct {
	m   []byte
	e   []byte
	att *spb.Attestation
}

func (w *world) closureAtt(in input, b *bufs) *spb.Attestation {
	switch in.kind {
	case "nil-attestation":
		return nil
	case "nil-report":
		return &spb.Attestation{}
	}
	if b == nil {
		return &spb.Attestation{Report: &spb.Report{Measurement: in.m}}
	}
	if b.att == nil {
		b.att = &spb.Attestation{Report: &spb.Report{}}
		b.m = make([]byte, 64)
	}
	n := copy(b.m, in.m)
	b.att.Report.Measurement = b.m[:n]
	return b.att
}

func (w *world) endorsementBytes(in input, b *bufs) []byte {
	if b == nil {
		return in.raw
	}
	b.e = append(b.e[:0], in.raw...)
	return b.e
}

func (w *world) sevAtt(cf vcfg, in input, b *bufs) *spb.Attestation {
	withEntry := cf.source == "arg" || cf.source == "options+arg" || cf.source == "arg+getter"
	if b == nil {
		at := gen.SnpAttestation(in.m, w.vcek)
		if withEntry {
			at.CertificateChain.Extras = map[string][]byte{sev.GCEFwCertGUID: in.raw}
		}
		return at
	}
	if b.att == nil {
		b.att = gen.SnpAttestation(in.m, w.vcek)
		b.m = make([]byte, 64)
		if withEntry {
			b.att.CertificateChain.Extras = map[string][]byte{}
		}
	}
	n := copy(b.m, in.m)
	b.att.Report.Measurement = b.m[:n]
	if withEntry {
		b.att.CertificateChain.Extras[sev.GCEFwCertGUID] = w.endorsementBytes(in, b)
	}
	return b.att
}

// validator is a set of validation functions over one shared options value, created once.
type validator struct {
	cf    vcfg
	vopts *verify.Options
	sopts *gcetcbendorsement.SevValidateOptions
	fs    []func(*spb.Attestation, []byte) error
	gopts *validate.Options // kind guest
	vsnap verifySnap
	ssnap sevSnap
}

func (w *world) newValidator(cf vcfg) *validator { return w.newValidatorWith(cf, nil) }

func (w *world) newValidatorWith(cf vcfg, g verify.HTTPSGetter) *validator {
	v := &validator{cf: cf}
	if cf.kind == "sevvalidate" {
		v.sopts = w.sevOptsWith(cf, g)
		v.ssnap = snapSev(v.sopts)
		return v
	}
	v.vopts = w.verifyOptsWith(cf, g)
	switch cf.kind {
	case "guest":
		v.fs = append(v.fs, verify.SNPValidateFunc(v.vopts))
		v.gopts = guestOptions(v.fs[0])
	case "family-closure":
		v.fs = append(v.fs, verify.SNPFamilyValidateFunc(otherFamily, v.vopts))
	case "pair":
		v.fs = append(v.fs, verify.SNPValidateFunc(v.vopts), verify.SNPFamilyValidateFunc(sev.GCEUefiFamilyID, v.vopts))
	default:
		v.fs = append(v.fs, verify.SNPValidateFunc(v.vopts))
	}
	v.vsnap = snapVerify(v.vopts) // after creation: creating a validator allocates Options.SNP when nil
	return v
}

// call invokes the validator once; k selects among the functions of a pair.
func (w *world) call(v *validator, in input, k int, b *bufs) error {
	if v.cf.kind == "sevvalidate" {
		return gcetcbendorsement.SevValidate(context.Background(), w.sevAtt(v.cf, in, b), v.sopts)
	}
	if v.cf.kind == "guest" {
		return validate.SnpAttestation(w.sevAtt(v.cf, in, b), v.gopts)
	}
	var arg []byte
	if v.cf.source == "arg" || v.cf.source == "options+arg" || v.cf.source == "arg+getter" {
		arg = w.endorsementBytes(in, b)
	}
	return v.fs[k%len(v.fs)](w.closureAtt(in, b), arg)
}

// expectation: the same call alone on fresh values, capped by the model.
func (w *world) expectation(c *core.Ctx, h int, gname string, cf vcfg, in input) bool {
	got := w.call(w.newValidator(cf), in, 0, nil) == nil
	c.Eval(1)
	want, why := w.model(cf, in)
	if got && !want {
		c.Violate(core.Violation{Kind: "oracle", Entry: "validator/" + cf.kind, Site: "unendorsed-report-accepted", Gen: gname, Case: h,
			Detail: fmt.Sprintf("a fresh validator (%v) accepted input %d (%s, measurement %x) although %s", cf, in.id, in.kind, in.m, why)})
		return false
	}
	if !got && want && cf.kind != "sevvalidate" {
		c.Violate(core.Violation{Kind: "oracle", Entry: "validator/" + cf.kind, Site: "result-differs-from-isolated-call", Gen: gname, Case: h,
			Detail: fmt.Sprintf("a fresh validator (%v) rejected input %d (%s): an authentic endorsement that lists the measurement, a signer certificate valid at the configured time under the configured roots; in a process that has validated nothing else this call is accepted", cf, in.id, in.kind)})
		return true
	}
	return got
}

type verifySnap struct {
	o      verify.Options
	snp    *verify.SNPOptions
	snpVal verify.SNPOptions
	endo   *epb.VMLaunchEndorsement
	digest []byte
}

func snapVerify(o *verify.Options) verifySnap {
	s := verifySnap{o: *o, snp: o.SNP, digest: append([]byte(nil), o.ExpectedUefiSha384...)}
	if o.SNP != nil {
		s.snpVal = *o.SNP
	}
	if o.Endorsement != nil {
		s.endo = proto.Clone(o.Endorsement).(*epb.VMLaunchEndorsement)
	}
	return s
}

func (s verifySnap) diff(o *verify.Options) string {
	switch {
	case o.SNP != s.snp:
		return "Options.SNP points elsewhere"
	case o.SNP != nil && o.SNP.Measurement != nil:
		return fmt.Sprintf("Options.SNP.Measurement is now %x", o.SNP.Measurement)
	case o.SNP != nil && o.SNP.ExpectedLaunchVMSAs != s.snpVal.ExpectedLaunchVMSAs:
		return "Options.SNP.ExpectedLaunchVMSAs changed"
	case o.RootsOfTrust != s.o.RootsOfTrust:
		return "Options.RootsOfTrust changed"
	case !o.Now.Equal(s.o.Now):
		return fmt.Sprintf("Options.Now is %v, was %v", o.Now, s.o.Now)
	case !bytes.Equal(o.ExpectedUefiSha384, s.digest):
		return "Options.ExpectedUefiSha384 changed"
	case o.Endorsement != s.o.Endorsement || (s.endo != nil && !proto.Equal(o.Endorsement, s.endo)):
		return "Options.Endorsement changed"
	case o.Getter != s.o.Getter:
		return "Options.Getter changed"
	}
	return ""
}

type sevSnap struct {
	o    gcetcbendorsement.SevValidateOptions
	base *cpb.Policy
	endo *epb.VMLaunchEndorsement
}

func snapSev(o *gcetcbendorsement.SevValidateOptions) sevSnap {
	s := sevSnap{o: gcetcbendorsement.SevValidateOptions{Endorsement: o.Endorsement, BasePolicy: o.BasePolicy, Overwrite: o.Overwrite, RootsOfTrust: o.RootsOfTrust,
		Now: o.Now, Getter: o.Getter, ExpectedLaunchVmsas: o.ExpectedLaunchVmsas, TestonlyForceGCS: o.TestonlyForceGCS}}
	if o.BasePolicy != nil {
		s.base = proto.Clone(o.BasePolicy).(*cpb.Policy)
	}
	if o.Endorsement != nil {
		s.endo = proto.Clone(o.Endorsement).(*epb.VMLaunchEndorsement)
	}
	return s
}

func (s sevSnap) diff(o *gcetcbendorsement.SevValidateOptions) string {
	switch {
	case o.Endorsement != s.o.Endorsement || (s.endo != nil && !proto.Equal(o.Endorsement, s.endo)):
		return fmt.Sprintf("Endorsement changed (set=%v, was set=%v)", o.Endorsement != nil, s.o.Endorsement != nil)
	case o.BasePolicy != s.o.BasePolicy:
		return "BasePolicy points elsewhere"
	case s.base != nil && !proto.Equal(o.BasePolicy, s.base):
		return fmt.Sprintf("BasePolicy is now %v, was %v", o.BasePolicy, s.base)
	case o.Overwrite != s.o.Overwrite:
		return "Overwrite changed"
	case o.RootsOfTrust != s.o.RootsOfTrust:
		return "RootsOfTrust changed"
	case !o.Now.Equal(s.o.Now):
		return fmt.Sprintf("Now is %v, was %v", o.Now, s.o.Now)
	case o.Getter != s.o.Getter:
		return "Getter changed"
	case o.ExpectedLaunchVmsas != s.o.ExpectedLaunchVmsas:
		return "ExpectedLaunchVmsas changed"
	case o.TestonlyForceGCS != s.o.TestonlyForceGCS:
		return "TestonlyForceGCS changed"
	}
	return ""
}

func (v *validator) optionsDiff() string {
	if v.sopts != nil {
		return v.ssnap.diff(v.sopts)
	}
	return v.vsnap.diff(v.vopts)
}

// parallel runs fn on n goroutines released together; true when they did not all return within two minutes (a watchdog
// for hangs only: every call takes milliseconds).
func parallel(n int, fn func(gi int)) (hung bool) {
	var wg sync.WaitGroup
	start := make(chan struct{})
	for gi := 0; gi < n; gi++ {
		wg.Add(1)
		go func(gi int) {
			defer wg.Done()
			<-start
			fn(gi)
		}(gi)
	}
	close(start)
	done := make(chan struct{})
	go func() { wg.Wait(); close(done) }()
	select {
	case <-done:
		return false
	case <-time.After(2 * time.Minute):
		return true
	}
}

func hungViolation(c *core.Ctx, h int, gname, kind string) {
	c.Violate(core.Violation{Kind: "oracle", Entry: "validator/" + kind, Site: "validator-calls-never-returned", Gen: gname, Case: h,
		Detail: "goroutines were still blocked inside the validator after 2 minutes; in isolation every call returns at once"})
}

func accStr(b bool) string {
	if b {
		return "accepted"
	}
	return "rejected"
}

func pick[T any](r *rand.Rand, xs ...T) T { return xs[r.IntN(len(xs))] }

func runAudit(c *core.Ctx, w *world) {
	w.roots = gen.Pool(w.pki.Root)
	w.attack = gen.Pool(w.pki.Attacker)
	w.both = gen.Pool(w.pki.Attacker, w.pki.Root)
	famMixed(c, w, auditBase, c.N(12, 96))
	famReconfig(c, w, auditBase+100_000, c.N(12, 96))
	famReused(c, w, auditBase+200_000, c.N(18, 144))
	famFlaky(c, w, auditBase+300_000, c.N(12, 96))
	// fourth round (round4.go)
	famKept(c, w, round4Base, c.N(16, 128))
	famInflight(c, w, round4Base+100_000, c.N(18, 144))
	famFamilies(c, w, round4Base+200_000, c.N(12, 96))
	// fifth round (round5.go)
	famChain(c, w, round5Base, c.N(24, 192))
}

// ---------------------------------------------------------------------------------------------------------------------
// mixed: validators with different options in one process

type mrec struct {
	v, in     int
	call, ret int64
	accepted  bool
}

func (w *world) randomCfg(r *rand.Rand) vcfg {
	// a configuration that validates something, then up to two deviations (most random combinations reject everything)
	cf := vcfg{kind: pick(r, "closure", "closure", "pair", "family-closure", "sevvalidate", "sevvalidate"),
		source: pick(r, "arg", "arg", "options", "options+arg", "getter"),
		clock:  "valid", trust: pick(r, "genuine", "genuine", "both"),
		vmsas: pick(r, uint32(0), 0, 4, 4, 8), digest: "unset", base: "none"}
	if cf.kind == "sevvalidate" {
		cf.base = pick(r, "none", "empty", "meas4")
		cf.overwrite = r.IntN(3) == 0
	} else {
		cf.digest = pick(r, "unset", "unset", "right")
		cf.snpNil = r.IntN(2) == 0
	}
	for d := pick(r, 0, 0, 1, 1, 2); d > 0; d-- {
		switch r.IntN(4) {
		case 0:
			cf.clock = pick(r, "expired", "notyet")
		case 1:
			cf.trust = pick(r, "attacker", "nil")
		case 2:
			cf.vmsas = pick(r, uint32(1), 2)
		default:
			if cf.kind != "sevvalidate" {
				cf.digest = "wrong"
			}
		}
	}
	return cf
}

func famMixed(c *core.Ctx, w *world, base, n int) {
	extra := []input{{100, "nil-attestation", nil, w.A.raw}, {101, "nil-report", nil, w.A.raw}, {102, "empty", []byte{}, w.A.raw}, {103, "long49", append(w.mk(4), 0), w.A.raw}}
	contrasts := 0
	for k := 0; k < n; k++ {
		h := base + k
		if !c.Mine(h) {
			continue
		}
		r := c.Rand(h)
		// configuration 0 validates; configuration 1 is the same one with the clock, the roots or the expected digest
		// moved so that it must reject what 0 accepts; the others are drawn freely.
		good := vcfg{kind: pick(r, "closure", "pair", "sevvalidate"), source: pick(r, "arg", "options", "getter"), clock: "valid", trust: pick(r, "genuine", "both"),
			digest: "unset", vmsas: pick(r, uint32(0), 4), base: "none"}
		bad := good
		var moved string
		switch r.IntN(5) {
		case 0:
			bad.clock, moved = "expired", "clock"
		case 1:
			bad.clock, moved = "notyet", "clock"
		case 2:
			bad.trust, moved = "attacker", "roots"
		case 3:
			bad.trust, moved = "nil", "roots"
		default:
			if good.kind == "sevvalidate" {
				bad.clock, moved = "expired", "clock"
			} else {
				bad.digest, moved = "wrong", "digest"
				if r.IntN(2) == 0 {
					good.digest = "right"
				}
			}
		}
		cfgs := []vcfg{good, bad}
		for len(cfgs) < 8 {
			cfgs = append(cfgs, w.randomCfg(r))
		}
		gor := pick(r, 4, 8, 16)
		gname := fmt.Sprintf("mixed#%d %d validators with different options, %d goroutines; [0]=%v; [1]=[0] with the %s moved", h, len(cfgs), gor, good, moved)
		c.Begin(h, gname, "validator", nil)
		ins := func(cf vcfg) []input {
			if cf.kind == "sevvalidate" {
				return w.inputs
			}
			return append(append([]input(nil), w.inputs...), extra...)
		}
		expect := make([]map[int]bool, len(cfgs))
		byID := map[int]input{}
		for vi, cf := range cfgs {
			expect[vi] = map[int]bool{}
			for _, in := range ins(cf) {
				byID[in.id] = in
				expect[vi][in.id] = w.expectation(c, h, gname, cf, in)
			}
		}
		vals := make([]*validator, len(cfgs))
		for vi, cf := range cfgs {
			vals[vi] = w.newValidator(cf)
		}
		per := 384 / gor
		type planned struct{ v, in int }
		plans := make([][]planned, gor)
		for gi := range plans {
			for j := 0; j < per; j++ {
				vi := r.IntN(len(cfgs))
				if r.IntN(3) == 0 {
					vi = r.IntN(2) // the contrast pair is busy
				}
				is := ins(cfgs[vi])
				in := is[r.IntN(len(is))]
				if r.IntN(2) == 0 {
					in = w.inputs[pick(r, 0, 1, 6)]
				}
				plans[gi] = append(plans[gi], planned{vi, in.id})
			}
		}
		var seq atomic.Int64
		recs := make([][]mrec, gor)
		if parallel(gor, func(gi int) {
			for j, p := range plans[gi] {
				cs := seq.Add(1)
				err := w.call(vals[p.v], byID[p.in], gi+j, nil)
				rs := seq.Add(1)
				recs[gi] = append(recs[gi], mrec{p.v, p.in, cs, rs, err == nil})
			}
		}) {
			hungViolation(c, h, gname, "mixed")
			c.End(h)
			continue
		}
		var all []mrec
		for _, rr := range recs {
			all = append(all, rr...)
		}
		// successive phase: every validator on every one of its inputs, in an order that alternates between validators
		var succ []mrec
		for j := 0; j < 14; j++ {
			for vi := range vals {
				is := ins(cfgs[vi])
				in := is[(j*5+vi+h)%len(is)]
				err := w.call(vals[vi], in, j, nil)
				s := seq.Add(2)
				succ = append(succ, mrec{vi, in.id, s - 1, s, err == nil})
			}
		}
		c.Eval(len(all) + len(succ))
		c.Count("mixed:calls", len(all)+len(succ))
		for vi, v := range vals {
			if d := v.optionsDiff(); d != "" {
				c.Violate(core.Violation{Kind: "oracle", Entry: "validator/" + cfgs[vi].kind, Site: "caller-options-modified-by-validation", Gen: gname, Case: h,
					Detail: fmt.Sprintf("the options value of validator %d (%v) changed while it was used: %s", vi, cfgs[vi], d)})
			}
		}
		diverged, first := 0, ""
		accBy := make([]int, len(cfgs))
		rejBy := make([]int, len(cfgs))
		for _, cr := range append(append([]mrec(nil), all...), succ...) {
			if cr.accepted {
				accBy[cr.v]++
			} else {
				rejBy[cr.v]++
			}
			if cr.accepted != expect[cr.v][cr.in] {
				diverged++
				if first == "" {
					first = fmt.Sprintf("call seq %d..%d of validator %d (%v) on input %d (%s): %s, in isolation %s", cr.call, cr.ret, cr.v, cfgs[cr.v], cr.in, byID[cr.in].kind, accStr(cr.accepted), accStr(expect[cr.v][cr.in]))
				}
			}
		}
		if diverged > 0 {
			c.Violate(core.Violation{Kind: "oracle", Entry: "validator/mixed", Site: "result-differs-from-isolated-call", Gen: gname, Case: h,
				Detail: fmt.Sprintf("%d of %d calls returned a different result than the same call in isolation; first: %s", diverged, len(all)+len(succ), first)})
		}
		// overlaps between calls of different validators whose verdicts differ
		sort.Slice(all, func(i, j int) bool { return all[i].call < all[j].call })
		cross, pairOverlap := 0, 0
		for i := range all {
			for j := i + 1; j < len(all) && all[j].call < all[i].ret; j++ {
				a, b := all[i], all[j]
				if a.v != b.v && expect[a.v][a.in] != expect[b.v][b.in] {
					cross++
					if a.v+b.v == 1 && a.in == b.in {
						pairOverlap++
					}
				}
			}
		}
		c.Count("mixed:overlapping-call-pairs(different options, different verdicts)", cross)
		c.Count("mixed:overlapping-call-pairs(same input, options differing only in "+moved+", one accepted one rejected)", pairOverlap)
		if accBy[0] > 0 && rejBy[1] > 0 && accBy[1] == 0 && cross > 0 {
			contrasts++
			c.Count("mixed:histories-with-contrast-pair-exercised", 1)
			c.Cell("mixed|contrast|%s|%s|vmsas=%d|moved=%s|clock=%s|trust=%s|digest=%s|g=%d", good.kind, good.source, good.vmsas, moved, bad.clock, bad.trust, bad.digest, gor)
		}
		for vi, cf := range cfgs[2:] {
			if accBy[vi+2]+rejBy[vi+2] > 0 && cross > 0 {
				oc := "rejects-only"
				if accBy[vi+2] > 0 {
					oc = "accepts-and-rejects"
				}
				c.Cell("mixed|%v|%s", cf, oc)
			}
		}
		if k%5 == 0 {
			c.Sample(map[string]any{"history": gname, "calls": len(all) + len(succ), "overlapping_pairs_cross": cross, "diverged": diverged, "accepted_by_validator": fmt.Sprint(accBy), "rejected_by_validator": fmt.Sprint(rejBy)})
		}
		c.End(h)
	}
	c.Floor("mixed:some-history-accepted-under-one-options-value-and-rejected-under-its-sibling-with-overlap", contrasts > 0)
}

// ---------------------------------------------------------------------------------------------------------------------
// reconfig: one SevValidateOptions value re-configured by its owner between bursts

func famReconfig(c *core.Ctx, w *world, base, n int) {
	flipsAR, flipsRA := 0, 0
	for k := 0; k < n; k++ {
		h := base + k
		if !c.Mine(h) {
			continue
		}
		r := c.Rand(h)
		burst := pick(r, 1, 2, 4)
		gname := fmt.Sprintf("reconfig#%d one SevValidateOptions value, one field re-configured before each burst of %d concurrent SevValidate calls", h, burst)
		c.Begin(h, gname, "SevValidate", nil)
		cf := vcfg{kind: "sevvalidate", source: pick(r, "arg", "options", "getter"), clock: "valid", trust: "genuine", vmsas: pick(r, uint32(0), 4), base: pick(r, "none", "empty"), digest: "unset"}
		endoName := "" // "", A, B: the caller's Endorsement field
		if cf.source == "options" {
			endoName = "A"
		}
		hasGetter := cf.source == "getter"
		shared := w.sevOpts(cf)
		bucket := w.bucket()
		if hasGetter {
			shared.Getter = bucket
		}
		// fresh: a new options value with the field values the caller configured just now
		fresh := func() *gcetcbendorsement.SevValidateOptions {
			o := &gcetcbendorsement.SevValidateOptions{RootsOfTrust: w.trust(cf.trust), Now: w.clock(cf.clock), ExpectedLaunchVmsas: cf.vmsas, BasePolicy: w.basePolicy(cf.base), Overwrite: cf.overwrite}
			switch endoName {
			case "A":
				o.Endorsement = proto.Clone(w.A.msg).(*epb.VMLaunchEndorsement)
			case "B":
				o.Endorsement = proto.Clone(w.B.msg).(*epb.VMLaunchEndorsement)
			}
			if hasGetter {
				o.Getter = w.bucket()
			}
			return o
		}
		// the model's view of the current configuration
		truth := func(in input, entry bool) (bool, string) {
			m := cf
			var e *endo
			switch {
			case endoName == "A":
				e = w.A
			case endoName == "B":
				e = w.B
			case entry:
				e = w.endoOf(in)
			case hasGetter && len(in.m) == 48 && in.kind != "unpublished":
				e = w.A
			}
			if len(in.m) != 48 {
				return false, "no 48-byte measurement"
			}
			switch {
			case e == nil:
				return false, "no endorsement can be had"
			case !e.authentic:
				return false, "the endorsement's signature does not cover its payload"
			case m.clock != "valid":
				return false, "the signer certificate is not valid at the configured time"
			case m.trust == "attacker" || m.trust == "nil":
				return false, "the signer certificate does not chain to a configured root of trust"
			case !e.lists(in.m, m.vmsas):
				return false, "the endorsement in use does not list the measurement"
			}
			return true, ""
		}
		att := func(in input, entry bool) *spb.Attestation {
			at := gen.SnpAttestation(in.m, w.vcek)
			if entry {
				at.CertificateChain.Extras = map[string][]byte{sev.GCEFwCertGUID: in.raw}
			}
			return at
		}
		type key struct {
			in    int
			entry bool
		}
		last := map[key]bool{}
		seen := map[key]bool{}
		changedSince := map[key]string{}
		calls, diverged, first := 0, 0, ""
		hung := false
		for step := 0; step < 60 && !hung; step++ {
			// the owner re-configures one field (nothing runs meanwhile)
			var changed string
			if step > 0 {
				f := r.IntN(8)
				// a clock or a trust store under which nothing validates is mostly put right at the next step
				if cf.clock != "valid" && r.IntN(2) == 0 {
					f = 2
				} else if (cf.trust == "attacker" || cf.trust == "nil") && r.IntN(2) == 0 {
					f = 6
				}
				switch {
				case f == 0 || f == 1:
					old := cf.vmsas
					for cf.vmsas == old {
						cf.vmsas = pick(r, uint32(0), 4, 8, 2)
					}
					shared.ExpectedLaunchVmsas = cf.vmsas
					changed = fmt.Sprintf("ExpectedLaunchVmsas:%d->%d", old, cf.vmsas)
				case f == 2:
					if cf.clock != "valid" {
						cf.clock = "valid"
					} else {
						cf.clock = pick(r, "expired", "notyet")
					}
					shared.Now = w.clock(cf.clock)
					changed = "Now->" + cf.clock
				case f == 3:
					old := endoName
					for endoName == old {
						endoName = pick(r, "", "A", "B")
					}
					switch endoName {
					case "A":
						shared.Endorsement = proto.Clone(w.A.msg).(*epb.VMLaunchEndorsement)
					case "B":
						shared.Endorsement = proto.Clone(w.B.msg).(*epb.VMLaunchEndorsement)
					default:
						shared.Endorsement = nil
					}
					changed = fmt.Sprintf("Endorsement:%q->%q", old, endoName)
				case f == 4:
					old := cf.base
					for cf.base == old {
						cf.base = pick(r, "none", "empty", "meas4")
					}
					shared.BasePolicy = w.basePolicy(cf.base)
					changed = "BasePolicy:" + old + "->" + cf.base
				case f == 5:
					cf.overwrite = !cf.overwrite
					shared.Overwrite = cf.overwrite
					changed = fmt.Sprintf("Overwrite->%v", cf.overwrite)
				case f == 6:
					if cf.trust != "genuine" {
						cf.trust = "genuine"
					} else {
						cf.trust = pick(r, "attacker", "nil", "both")
					}
					shared.RootsOfTrust = w.trust(cf.trust)
					changed = "RootsOfTrust->" + cf.trust
				default:
					hasGetter = !hasGetter
					if hasGetter {
						shared.Getter = bucket
					} else {
						shared.Getter = nil
					}
					changed = fmt.Sprintf("Getter set->%v", hasGetter)
				}
				for kk := range seen {
					changedSince[kk] = changed // the last change before the next call on kk
				}
			}
			snap := snapSev(shared)
			// the calls of this burst and what each gets in isolation
			type bcall struct {
				in     input
				entry  bool
				expect bool
			}
			bc := make([]bcall, burst)
			for i := range bc {
				in := w.inputs[pick(r, 0, 0, 1, 1, 6, 6, 2, 4, 7, 8, 9)]
				entry := r.IntN(3) != 0
				got := gcetcbendorsement.SevValidate(context.Background(), att(in, entry), fresh()) == nil
				c.Eval(1)
				if want, why := truth(in, entry); got && !want {
					c.Violate(core.Violation{Kind: "oracle", Entry: "SevValidate", Site: "unendorsed-report-accepted", Gen: gname, Case: h,
						Detail: fmt.Sprintf("SevValidate with a fresh options value (%v, endorsement field %q, getter %v) accepted input %d (%s, certificate-table entry %v) although %s", cf, endoName, hasGetter, in.id, in.kind, entry, why)})
					got = false
				}
				bc[i] = bcall{in, entry, got}
			}
			res := make([]bool, burst)
			hung = parallel(burst, func(gi int) {
				res[gi] = gcetcbendorsement.SevValidate(context.Background(), att(bc[gi].in, bc[gi].entry), shared) == nil
			})
			if hung {
				hungViolation(c, h, gname, "sevvalidate-reconfigured-options")
				break
			}
			c.Eval(burst)
			calls += burst
			if d := snap.diff(shared); d != "" {
				c.Violate(core.Violation{Kind: "oracle", Entry: "validator/sevvalidate-reconfigured-options", Site: "caller-options-modified-by-validation", Gen: gname, Case: h,
					Detail: fmt.Sprintf("step %d: the caller's options value changed during SevValidate: %s", step, d)})
			}
			for i, b := range bc {
				kk := key{b.in.id, b.entry}
				if res[i] != b.expect {
					diverged++
					if first == "" {
						first = fmt.Sprintf("step %d (after %s; now %v, endorsement field %q, getter %v): input %d (%s, certificate-table entry %v) %s, with a fresh options value of the same field values %s",
							step, changed, cf, endoName, hasGetter, b.in.id, b.in.kind, b.entry, accStr(res[i]), accStr(b.expect))
					}
				}
				if seen[kk] && last[kk] != b.expect && changedSince[kk] != "" {
					field := strings.SplitN(changedSince[kk], ":", 2)[0]
					field = strings.SplitN(field, "->", 2)[0]
					c.Cell("reconfig|%s|%s|%s->%s", field, b.in.kind, accStr(last[kk]), accStr(b.expect))
					if last[kk] {
						flipsAR++
						c.Count("reconfig:same-input-accepted-then-rejected-after-a-field-change", 1)
					} else {
						flipsRA++
						c.Count("reconfig:same-input-rejected-then-accepted-after-a-field-change", 1)
					}
				}
				seen[kk], last[kk] = true, b.expect
				changedSince[kk] = ""
			}
		}
		c.Count("reconfig:calls", calls)
		if diverged > 0 {
			c.Violate(core.Violation{Kind: "oracle", Entry: "validator/sevvalidate-reconfigured-options", Site: "result-differs-from-isolated-call", Gen: gname, Case: h,
				Detail: fmt.Sprintf("%d of %d SevValidate calls on the caller's re-configured options value returned a different result than with a fresh options value; first: %s", diverged, calls, first)})
		}
		if k%5 == 0 {
			c.Sample(map[string]any{"history": gname, "calls": calls, "diverged": diverged, "final_configuration": fmt.Sprintf("%v endorsement=%q getter=%v", cf, endoName, hasGetter)})
		}
		c.End(h)
	}
	c.Floor("reconfig:some-input-changed-verdict-in-both-directions-after-a-field-change", flipsAR > 0 && flipsRA > 0)
}

// ---------------------------------------------------------------------------------------------------------------------
// reused: the caller's attestation value and buffers are refilled in place

func famReused(c *core.Ctx, w *world, base, n int) {
	var kinds []vcfg
	for _, vm := range []uint32{4, 0} {
		for _, s := range []string{"arg", "getter", "options"} {
			for _, kd := range []string{"closure", "pair", "sevvalidate"} {
				kinds = append(kinds, vcfg{kind: kd, source: s, clock: "valid", trust: "genuine", digest: "unset", vmsas: vm, base: "none", snpNil: vm == 0})
			}
		}
	}
	ae, ea := 0, 0
	for k := 0; k < n; k++ {
		h := base + k
		if !c.Mine(h) {
			continue
		}
		r := c.Rand(h)
		cf := kinds[k%len(kinds)]
		gor := pick(r, 1, 2, 4, 8)
		gname := fmt.Sprintf("reused#%d %v; each of %d goroutines keeps one attestation value, one measurement buffer and one endorsement buffer and refills them in place", h, cf, gor)
		c.Begin(h, gname, "validator", nil)
		expect := map[int]bool{}
		for _, in := range w.inputs {
			expect[in.id] = w.expectation(c, h, gname, cf, in)
		}
		v := w.newValidator(cf)
		per := 240 / gor
		plans := make([][]int, gor)
		for gi := range plans {
			for j := 0; j < per; j++ {
				// runs of the same class are short, so that most refills replace an endorsed measurement by an unendorsed one or back
				if r.IntN(2) == 0 {
					plans[gi] = append(plans[gi], pick(r, 0, 1, 6))
				} else {
					plans[gi] = append(plans[gi], pick(r, 2, 3, 4, 5, 7, 8, 9))
				}
			}
		}
		res := make([][]bool, gor)
		if parallel(gor, func(gi int) {
			b := &bufs{}
			for j, id := range plans[gi] {
				res[gi] = append(res[gi], w.call(v, w.inputs[id], gi+j, b) == nil)
			}
		}) {
			hungViolation(c, h, gname, cf.kind)
			c.End(h)
			continue
		}
		if d := v.optionsDiff(); d != "" {
			c.Violate(core.Violation{Kind: "oracle", Entry: "validator/" + cf.kind, Site: "caller-options-modified-by-validation", Gen: gname, Case: h,
				Detail: fmt.Sprintf("the options value (%v) changed while it was used: %s", cf, d)})
		}
		calls, diverged, first := 0, 0, ""
		for gi := range plans {
			for j, id := range plans[gi] {
				calls++
				if res[gi][j] != expect[id] {
					diverged++
					if first == "" {
						prev := "nothing"
						if j > 0 {
							prev = fmt.Sprintf("input %d (%s)", plans[gi][j-1], w.inputs[plans[gi][j-1]].kind)
						}
						first = fmt.Sprintf("goroutine %d call %d on input %d (%s), its buffers refilled in place after %s: %s, in isolation %s", gi, j, id, w.inputs[id].kind, prev, accStr(res[gi][j]), accStr(expect[id]))
					}
				}
				if j > 0 {
					p := plans[gi][j-1]
					if expect[p] != expect[id] {
						c.Cell("reused|%s|%s|vmsas=%d|%s-after-%s", cf.kind, cf.source, cf.vmsas, accStr(expect[id]), accStr(expect[p]))
						if expect[p] {
							ae++
							c.Count("reused:refills(rejected input over an accepted one)", 1)
						} else {
							ea++
							c.Count("reused:refills(accepted input over a rejected one)", 1)
						}
					}
				}
			}
		}
		c.Eval(calls)
		c.Count("reused:calls", calls)
		if diverged > 0 {
			c.Violate(core.Violation{Kind: "oracle", Entry: "validator/" + cf.kind, Site: "result-differs-from-isolated-call", Gen: gname, Case: h,
				Detail: fmt.Sprintf("%d of %d calls returned a different result than the same call in isolation; first: %s", diverged, calls, first)})
		}
		if k%7 == 0 {
			c.Sample(map[string]any{"history": gname, "calls": calls, "diverged": diverged})
		}
		c.End(h)
	}
	c.Floor("reused:refilled-in-place-both-ways(accepted-over-rejected,rejected-over-accepted)", ae > 0 && ea > 0)
}

// ---------------------------------------------------------------------------------------------------------------------
// flaky: a bucket whose answers change from one download to the next

type flakyGetter struct {
	mu     sync.Mutex
	script map[string][]string // url -> answer kinds, consumed one per download
	n      map[string]int
	blobs  map[string][]byte // answer kind -> body
}

func (g *flakyGetter) Get(url string) ([]byte, error) {
	g.mu.Lock()
	defer g.mu.Unlock()
	s, ok := g.script[url]
	if !ok {
		return nil, fmt.Errorf("flaky getter: 404 %s", url)
	}
	k := g.n[url]
	g.n[url]++
	kind := "error"
	if k < len(s) {
		kind = s[k]
	}
	if kind == "error" {
		return nil, fmt.Errorf("flaky getter: 503 %s (download %d)", url, k)
	}
	return append([]byte(nil), g.blobs[kind]...), nil
}

func (g *flakyGetter) count(url string) int {
	g.mu.Lock()
	defer g.mu.Unlock()
	return g.n[url]
}

func famFlaky(c *core.Ctx, w *world, base, n int) {
	// endorsement G lists 32 measurements, so that every goroutine can own objects nobody else downloads
	gm := &epb.VMGoldenMeasurement{Timestamp: timeproto.To(w.nb.Add(time.Hour)), ClSpec: 5, Digest: w.mk(3), SevSnp: &epb.VMSevSnp{Policy: gen.ProdPolicy(), Measurements: map[uint32][]byte{}}}
	for i := uint32(1); i <= 32; i++ {
		gm.SevSnp.Measurements[i] = w.mk(0x60 + byte(i))
	}
	eG := gen.Endorse(w.pki.Signer, gm)
	rawG, _ := proto.Marshal(eG)
	blobs := map[string][]byte{"ok": rawG, "other-build": w.B.raw, "garbage": []byte("<html><body>502 Bad Gateway</body></html>"), "empty": {}}
	okAfterFail, failAfterOk := 0, 0
	kinds := []string{"closure", "pair", "sevvalidate", "sevvalidate-fresh-options"}
	for k := 0; k < n; k++ {
		h := base + k
		if !c.Mine(h) {
			continue
		}
		r := c.Rand(h)
		kind := kinds[k%len(kinds)]
		gor := pick(r, 1, 2, 4, 8)
		per := 240 / gor
		gname := fmt.Sprintf("flaky#%d %s with endorsements downloaded from a bucket whose answer per object follows a script (good / error / garbage / empty / other build), %d goroutines each owning 3 objects", h, kind, gor)
		c.Begin(h, gname, "validator", nil)
		g := &flakyGetter{script: map[string][]string{}, n: map[string]int{}, blobs: blobs}
		type obj struct {
			m      []byte
			url    string
			listed bool
		}
		objs := make([][]obj, gor)
		for gi := range objs {
			for j := 0; j < 3; j++ {
				m := gm.SevSnp.Measurements[uint32(gi*2+j+1)]
				listed := j < 2
				if !listed {
					m = w.mk(0xa0 + byte(gi)) // published under its name, but the endorsement served for it does not list it
				}
				u := w.url(sev.GCEUefiFamilyID, m)
				objs[gi] = append(objs[gi], obj{m, u, listed})
				var s []string
				for len(s) < per+2 {
					s = append(s, pick(r, "ok", "ok", "ok", "ok", "error", "error", "error", "garbage", "other-build", "empty"))
				}
				g.script[u] = s
			}
		}
		cf := vcfg{kind: kind, source: "getter", clock: "valid", trust: "genuine", digest: "unset", base: "none"}
		var v *validator
		mkSev := func() *gcetcbendorsement.SevValidateOptions {
			return &gcetcbendorsement.SevValidateOptions{RootsOfTrust: w.roots, Now: w.now, Getter: g}
		}
		switch kind {
		case "sevvalidate":
			v = &validator{cf: vcfg{kind: "sevvalidate", source: "getter"}, sopts: mkSev()}
			v.ssnap = snapSev(v.sopts)
		case "sevvalidate-fresh-options":
		default:
			o := &verify.Options{RootsOfTrust: w.roots, Now: w.now, Getter: g}
			v = &validator{cf: cf, vopts: o, fs: []func(*spb.Attestation, []byte) error{verify.SNPValidateFunc(o)}}
			if kind == "pair" {
				v.fs = append(v.fs, verify.SNPFamilyValidateFunc(sev.GCEUefiFamilyID, o))
			}
			v.vsnap = snapVerify(o)
		}
		type frec struct {
			obj            int
			answer         string // the answer this call's download got (or would have got, had it downloaded)
			downloads      int
			accepted, want bool
		}
		recs := make([][]frec, gor)
		plans := make([][]int, gor)
		for gi := range plans {
			for j := 0; j < per; j++ {
				plans[gi] = append(plans[gi], pick(r, 0, 0, 1, 1, 2))
			}
		}
		if parallel(gor, func(gi int) {
			for j, oi := range plans[gi] {
				o := objs[gi][oi]
				before := g.count(o.url)
				var err error
				switch kind {
				case "sevvalidate":
					err = gcetcbendorsement.SevValidate(context.Background(), gen.SnpAttestation(o.m, w.vcek), v.sopts)
				case "sevvalidate-fresh-options":
					err = gcetcbendorsement.SevValidate(context.Background(), gen.SnpAttestation(o.m, w.vcek), mkSev())
				default:
					err = v.fs[(gi+j)%len(v.fs)](&spb.Attestation{Report: &spb.Report{Measurement: o.m}}, nil)
				}
				after := g.count(o.url)
				idx := before // no download: what a download would have been answered
				if after > before {
					idx = after - 1
				}
				ans := "error"
				if idx < len(g.script[o.url]) {
					ans = g.script[o.url][idx]
				}
				recs[gi] = append(recs[gi], frec{oi, ans, after - before, err == nil, ans == "ok" && o.listed})
			}
		}) {
			hungViolation(c, h, gname, kind)
			c.End(h)
			continue
		}
		if v != nil {
			if d := v.optionsDiff(); d != "" {
				c.Violate(core.Violation{Kind: "oracle", Entry: "validator/" + kind, Site: "caller-options-modified-by-validation", Gen: gname, Case: h,
					Detail: "the options value changed while it was used: " + d})
			}
		}
		calls, diverged, first := 0, 0, ""
		for gi := range recs {
			lastAns := map[int]string{}
			for j, fr := range recs[gi] {
				calls++
				o := objs[gi][fr.obj]
				if fr.accepted != fr.want {
					diverged++
					if first == "" {
						why := fmt.Sprintf("its download was answered with %q", fr.answer)
						if fr.downloads == 0 {
							why = fmt.Sprintf("it downloaded nothing; a download would have been answered with %q", fr.answer)
						}
						first = fmt.Sprintf("goroutine %d call %d on measurement %x (listed by the published endorsement: %v; previous answer for this object %q): %s although %s, so alone it is %s",
							gi, j, o.m, o.listed, lastAns[fr.obj], accStr(fr.accepted), why, accStr(fr.want))
					}
				}
				if p, ok := lastAns[fr.obj]; ok && o.listed && p != fr.answer {
					c.Cell("flaky|%s|%s-after-%s|%s", kind, fr.answer, p, accStr(fr.want))
					if fr.answer == "ok" {
						okAfterFail++
						c.Count("flaky:good-answer-after-a-failed-one(same object)", 1)
					} else if p == "ok" {
						failAfterOk++
						c.Count("flaky:failed-answer-after-a-good-one(same object)", 1)
					}
				}
				lastAns[fr.obj] = fr.answer
			}
		}
		c.Eval(calls)
		c.Count("flaky:calls", calls)
		if diverged > 0 {
			c.Violate(core.Violation{Kind: "oracle", Entry: "validator/" + kind, Site: "result-differs-from-isolated-call", Gen: gname, Case: h,
				Detail: fmt.Sprintf("%d of %d calls returned a different result than the answer to their own download gives them; first: %s", diverged, calls, first)})
		}
		if k%5 == 0 {
			c.Sample(map[string]any{"history": gname, "calls": calls, "diverged": diverged, "first_script": fmt.Sprint(g.script[objs[0][0].url][:min(8, per)])})
		}
		c.End(h)
	}
	c.Floor("flaky:same-object-answered-good-after-failed-and-failed-after-good", okAfterFail > 0 && failAfterOk > 0)
}
