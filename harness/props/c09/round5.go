package c09

// One more family of histories (fifth round), appended after the families of round4.go (case numbers from round5Base, so
// all older cases keep their numbers and PRNG streams).
//
//	chain     endorsements that differ in what they DELIVER BESIDE the signed measurements: the signer certificate, a
//	          ca_bundle (PEM: root, intermediates, another chain's certificates, garbage), over a PKI that is three levels
//	          deep (root -> intermediate -> signing key) next to signing keys certified by the root directly and an
//	          attacker's chain, under trust anchors {root}, {root, intermediate}, {intermediate}, {root, other
//	          intermediate}. Some endorsements are COMPLETE (they carry every certificate between a trust anchor and the
//	          signing key), others are INCOMPLETE (a link is missing: no bundle, only the root, garbage, the wrong
//	          intermediate, no signer certificate at all). Every older history used endorsements that are all complete in
//	          the same way, so nothing one call was handed could ever be missing from another call. Here one validator (a
//	          closure, a pair of closures over one *verify.Options, a closure over a struct copy of the options of another,
//	          the closure behind go-sev-guest, SevValidate with one kept options value) is first given the incomplete
//	          endorsements, then each complete one (also with a rewritten payload, also for a measurement it does not list:
//	          it need not validate) directly followed by every incomplete one, then all of them concurrently, then all
//	          successively. What a call was handed must not be available to another call: every call gets what the same
//	          (measurement, endorsement) gets from a fresh validator over an options value of its own.
//
// The PKI is minted per history with fresh CA keys and names, and the isolated evaluations of the incomplete endorsements
// are made BEFORE this process has handed any certificate of that PKI to the repository, so they are isolated also with
// respect to anything process-wide. The property does not say whether a ca_bundle may complete a chain: whatever the
// repository decides for a call alone is the expectation (only a measurement the endorsement does not list is capped at
// "rejected"). Rules: result-differs-from-isolated-call, unendorsed-report-accepted, caller-options-modified-by-validation
// (here also the CONTENT of the caller's pool of trust anchors), validator-calls-never-returned, race reports.

import (
	"context"
	"crypto"
	"crypto/ecdsa"
	"crypto/elliptic"
	crand "crypto/rand"
	"crypto/rsa"
	"crypto/x509"
	"crypto/x509/pkix"
	"encoding/pem"
	"fmt"
	"math/big"
	"strings"
	"time"

	"github.com/google/gce-tcb-verifier/gcetcbendorsement"
	epb "github.com/google/gce-tcb-verifier/proto/endorsement"
	"github.com/google/gce-tcb-verifier/sev"
	"github.com/google/gce-tcb-verifier/timeproto"
	"github.com/google/gce-tcb-verifier/verify"
	spb "github.com/google/go-sev-guest/proto/sevsnp"
	"github.com/google/go-sev-guest/validate"
	"google.golang.org/protobuf/proto"

	"verifharness/core"
	"verifharness/doubles"
	"verifharness/gen"
)

const round5Base = round4Base + 300_000

// chainCA is a certificate authority with a fresh ECDSA key (cheap to make, so every history has its own).
type chainCA struct {
	key  *ecdsa.PrivateKey
	cert *x509.Certificate
}

func chainMint(cn string, serial int64, nb, na time.Time, isCA bool, pub crypto.PublicKey, self crypto.Signer, issuer *chainCA) *x509.Certificate {
	t := &x509.Certificate{SerialNumber: big.NewInt(serial), Subject: pkix.Name{CommonName: cn}, NotBefore: nb, NotAfter: na,
		IsCA: isCA, BasicConstraintsValid: true, KeyUsage: x509.KeyUsageDigitalSignature}
	if isCA {
		t.KeyUsage = x509.KeyUsageCertSign
	}
	parent, key := t, self
	if issuer != nil {
		parent, key = issuer.cert, issuer.key
	}
	der, err := x509.CreateCertificate(crand.Reader, t, parent, pub, key)
	if err != nil {
		panic(err)
	}
	c, err := x509.ParseCertificate(der)
	if err != nil {
		panic(err)
	}
	return c
}

func chainNewCA(cn string, serial int64, nb time.Time, issuer *chainCA) *chainCA {
	k, err := ecdsa.GenerateKey(elliptic.P256(), crand.Reader)
	if err != nil {
		panic(err)
	}
	return &chainCA{key: k, cert: chainMint(cn, serial, nb, nb.AddDate(20, 0, 0), true, &k.PublicKey, k, issuer)}
}

func pemOf(certs ...*x509.Certificate) []byte {
	var out []byte
	for _, c := range certs {
		out = append(out, pem.EncodeToMemory(&pem.Block{Type: "CERTIFICATE", Bytes: c.Raw})...)
	}
	return out
}

// chainShape is one way an endorsement is signed and what it delivers beside the signed measurements.
type chainShape struct {
	name    string
	role    string // complete (delivers certificates), incomplete (a link to a trust anchor may be missing), plain
	signer  string // SR: certified by the root; SI: by the intermediate; SI2: by the second intermediate; SX: by the attacker's intermediate
	bundle  string
	noCert  bool // the signer certificate is left out of the payload
	rewrite bool // the payload is rewritten after signing (the delivered certificates stay)
}

var chainShapes = []chainShape{
	{"root-certified-key,bundle=root+intermediate", "complete", "SR", "R+I", false, false},
	{"intermediate-certified-key,bundle=root+intermediate", "complete", "SI", "R+I", false, false},
	{"intermediate-certified-key,bundle=intermediate", "complete", "SI", "I", false, false},
	{"intermediate-certified-key,bundle=root+intermediate,payload-rewritten", "complete", "SI", "R+I", false, true},
	{"intermediate2-certified-key,bundle=intermediate+intermediate2", "complete", "SI2", "I+I2", false, false},
	{"attacker-chain,bundle=attacker-root+attacker-intermediate", "complete", "SX", "X+XI", false, false},
	{"intermediate-certified-key,no-bundle", "incomplete", "SI", "", false, false},
	{"intermediate-certified-key,bundle=root", "incomplete", "SI", "R", false, false},
	{"intermediate-certified-key,bundle=garbage", "incomplete", "SI", "garbage", false, false},
	{"intermediate-certified-key,bundle=intermediate2", "incomplete", "SI", "I2", false, false},
	{"intermediate2-certified-key,no-bundle", "incomplete", "SI2", "", false, false},
	{"attacker-chain,no-bundle", "incomplete", "SX", "", false, false},
	{"root-certified-key,no-signer-certificate", "incomplete", "SR", "", true, false},
	{"root-certified-key,no-bundle", "plain", "SR", "", false, false},
}

// deliversIntermediate: the bundle carries the certificate of the first intermediate.
func (s chainShape) deliversIntermediate() bool { return hasName(s.bundle, "I") }

// hasName: the "+"-separated list names n.
func hasName(list, n string) bool {
	for _, x := range strings.Split(list, "+") {
		if x == n {
			return true
		}
	}
	return false
}

type chainInput struct {
	shape  int
	listed bool // the measurement is one the endorsement lists (for 4 VMSAs)
	m      []byte
	raw    []byte
}

type chainCfg struct{ kind, source string }

var chainCfgs = []chainCfg{{"closure", "arg"}, {"pair", "arg"}, {"copy", "arg"}, {"closure", "getter"}, {"guest", "arg"}, {"pair", "getter"},
	{"sevvalidate", "arg"}, {"copy", "getter"}, {"closure", "arg+getter"}, {"sevvalidate", "getter"}, {"pair", "arg+getter"}, {"guest", "arg+getter"}}

var chainTrusts = []string{"R", "R+I", "R", "I", "R", "R+I2"}

func famChain(c *core.Ctx, w *world, base, n int) {
	rsaKey := map[string]*rsa.PrivateKey{"SR": w.pki.Signer.Key, "SI": w.pki.InterLeaf.Key, "SI2": w.pki.Signer2.Key, "SX": w.pki.AttackerSign.Key}
	taughtThenAsked, accN, rejN := 0, 0, 0
	for k := 0; k < n; k++ {
		h := base + k
		if !c.Mine(h) {
			continue
		}
		r := c.Rand(h)
		cf := chainCfgs[k%len(chainCfgs)]
		trust := chainTrusts[(k/2)%len(chainTrusts)]
		vm := pick(r, uint32(0), 0, 4)
		snpNil := vm == 0 && r.IntN(2) == 0
		gor := pick(r, 2, 4, 8)
		gname := fmt.Sprintf("chain#%d %s/%s trust anchors=%s vmsas=%d SNP nil=%v: endorsements over a three-level PKI made for this history, incomplete ones first, then each complete one directly followed by every incomplete one, then %d goroutines, then successively",
			h, cf.kind, cf.source, trust, vm, snpNil, gor)
		c.Begin(h, gname, "validator", nil)
		// the PKI of this history: fresh CA keys and names
		tag := fmt.Sprintf("history %d/%x", h, r.Uint64())
		root := chainNewCA("chain root "+tag, 1, w.nb, nil)
		inter := chainNewCA("chain intermediate "+tag, 2, w.nb, root)
		inter2 := chainNewCA("chain intermediate2 "+tag, 3, w.nb, root)
		xroot := chainNewCA("chain attacker root "+tag, 1, w.nb, nil)
		xinter := chainNewCA("chain attacker intermediate "+tag, 2, w.nb, xroot)
		issuer := map[string]*chainCA{"SR": root, "SI": inter, "SI2": inter2, "SX": xinter}
		leaf := map[string]*x509.Certificate{}
		for i, s := range []string{"SR", "SI", "SI2", "SX"} {
			leaf[s] = chainMint("chain signing key "+s+" "+tag, int64(10+i), w.nb, w.nb.AddDate(5, 0, 1), false, &rsaKey[s].PublicKey, nil, issuer[s])
		}
		caCert := map[string]*x509.Certificate{"R": root.cert, "I": inter.cert, "I2": inter2.cert, "X": xroot.cert, "XI": xinter.cert}
		bundleOf := func(spec string) []byte {
			switch spec {
			case "":
				return nil
			case "garbage":
				return []byte("-----BEGIN CERTIFICATE-----\nbm90IGEgY2VydGlmaWNhdGU=\n-----END CERTIFICATE-----\n")
			}
			var cs []*x509.Certificate
			for _, n := range strings.Split(spec, "+") {
				cs = append(cs, caCert[n])
			}
			return pemOf(cs...)
		}
		mkPool := func() *x509.CertPool {
			p := x509.NewCertPool()
			for _, n := range strings.Split(trust, "+") {
				p.AddCert(caCert[n])
			}
			return p
		}
		// the endorsements and inputs of this history
		var ins []chainInput
		for si, s := range chainShapes {
			m4, m8, mU := uniq(0x51, k&0xff, si), uniq(0x52, k&0xff, si), uniq(0x53, k&0xff, si)
			g := &epb.VMGoldenMeasurement{Timestamp: timeproto.To(w.nb.Add(time.Hour)), ClSpec: uint64(500 + si), Digest: uniq(0xd5, k&0xff, si),
				CaBundle: bundleOf(s.bundle), SevSnp: &epb.VMSevSnp{Policy: gen.ProdPolicy(), Measurements: map[uint32][]byte{4: m4, 8: m8}}}
			if !s.noCert {
				g.Cert = leaf[s.signer].Raw
			}
			payload, err := proto.MarshalOptions{Deterministic: true}.Marshal(g)
			if err != nil {
				panic(err)
			}
			sig := gen.SignPSS(rsaKey[s.signer], payload, rsa.PSSSaltLengthEqualsHash)
			if s.rewrite {
				g.ClSpec += 1000
				payload, _ = proto.MarshalOptions{Deterministic: true}.Marshal(g)
			}
			raw, _ := proto.Marshal(&epb.VMLaunchEndorsement{SerializedUefiGolden: payload, Signature: sig})
			ins = append(ins, chainInput{si, true, m4, raw})
			if s.role == "complete" || si%3 == 0 {
				ins = append(ins, chainInput{si, false, mU, raw})
			}
		}
		withArg := cf.source != "getter"
		withGetter := cf.source != "arg"
		bucket := func() verify.HTTPSGetter {
			if !withGetter {
				return nil
			}
			a := map[string][]byte{}
			for _, in := range ins {
				a[w.url(sev.GCEUefiFamilyID, in.m)] = in.raw
			}
			return &doubles.Getter{Answers: a}
		}
		mkVerify := func() *verify.Options {
			o := &verify.Options{RootsOfTrust: mkPool(), Now: w.now}
			if g := bucket(); g != nil {
				o.Getter = g
			}
			if !snpNil {
				o.SNP = &verify.SNPOptions{ExpectedLaunchVMSAs: vm}
			}
			return o
		}
		mkSev := func() *gcetcbendorsement.SevValidateOptions {
			o := &gcetcbendorsement.SevValidateOptions{RootsOfTrust: mkPool(), Now: w.now, ExpectedLaunchVmsas: vm}
			if g := bucket(); g != nil {
				o.Getter = g
			}
			return o
		}
		fullAtt := func(in chainInput) *spb.Attestation {
			at := gen.SnpAttestation(in.m, w.vcek)
			if withArg {
				at.CertificateChain.Extras = map[string][]byte{sev.GCEFwCertGUID: in.raw}
			}
			return at
		}
		// chainV: the validation functions of one caller
		type chainV struct {
			fs     []func(*spb.Attestation, []byte) error
			gopts  *validate.Options
			sopts  *gcetcbendorsement.SevValidateOptions
			vopts  []*verify.Options
			vsnaps []verifySnap
			ssnap  sevSnap
			pools  []*x509.CertPool // the caller's pools of trust anchors and a copy of their content made before the first call
			clones []*x509.CertPool
		}
		mkV := func(kind string) *chainV {
			v := &chainV{}
			if kind == "sevvalidate" {
				v.sopts = mkSev()
				v.ssnap = snapSev(v.sopts)
				v.pools = []*x509.CertPool{v.sopts.RootsOfTrust}
			} else {
				o := mkVerify()
				v.vopts = []*verify.Options{o}
				v.fs = append(v.fs, verify.SNPValidateFunc(o))
				switch kind {
				case "pair":
					v.fs = append(v.fs, verify.SNPFamilyValidateFunc(sev.GCEUefiFamilyID, o))
				case "copy":
					cp := *o // the caller copies its options value after it made the first validator
					v.vopts = append(v.vopts, &cp)
					v.fs = append(v.fs, verify.SNPValidateFunc(&cp))
				case "guest":
					v.gopts = guestOptions(v.fs[0])
				}
				for _, o := range v.vopts {
					v.vsnaps = append(v.vsnaps, snapVerify(o))
					v.pools = append(v.pools, o.RootsOfTrust)
				}
			}
			for _, p := range v.pools {
				v.clones = append(v.clones, p.Clone())
			}
			return v
		}
		callV := func(v *chainV, in chainInput, which int) bool {
			switch {
			case v.sopts != nil:
				return gcetcbendorsement.SevValidate(context.Background(), fullAtt(in), v.sopts) == nil
			case v.gopts != nil:
				return validate.SnpAttestation(fullAtt(in), v.gopts) == nil
			}
			var arg []byte
			if withArg {
				arg = in.raw
			}
			return v.fs[which%len(v.fs)](&spb.Attestation{Report: &spb.Report{Measurement: in.m}}, arg) == nil
		}
		isoKind := cf.kind
		if isoKind == "pair" || isoKind == "copy" {
			isoKind = "closure"
		}
		// isolated expectations: incomplete and plain endorsements first, before the repository was handed any
		// certificate of this history's PKI beside the trust anchors
		expect := make([]bool, len(ins))
		for pass := 0; pass < 2; pass++ {
			for ii, in := range ins {
				if (chainShapes[in.shape].role == "complete") != (pass == 1) {
					continue
				}
				got := callV(mkV(isoKind), in, 0)
				c.Eval(1)
				if got && !in.listed {
					c.Violate(core.Violation{Kind: "oracle", Entry: "validator/" + cf.kind, Site: "unendorsed-report-accepted", Gen: gname, Case: h,
						Detail: fmt.Sprintf("a fresh validator accepted measurement %x with endorsement %q, which does not list it", in.m, chainShapes[in.shape].name)})
					got = false
				}
				expect[ii] = got
			}
		}
		var complete, incomplete, others []int
		for ii, in := range ins {
			switch {
			case chainShapes[in.shape].role == "complete":
				complete = append(complete, ii)
			case in.listed:
				incomplete = append(incomplete, ii) // plain ones ride along
			default:
				others = append(others, ii)
			}
		}
		type crec struct {
			in       int
			pos      string
			after    int // index of the complete input validated directly before (-1: none)
			accepted bool
		}
		v := mkV(cf.kind)
		var all []crec
		// phase A: the incomplete ones before anything else
		for _, ii := range incomplete {
			all = append(all, crec{ii, "before-any-complete-one", -1, callV(v, ins[ii], r.IntN(2))})
		}
		// phase B: each complete one, directly followed by every incomplete one
		r.Shuffle(len(complete), func(i, j int) { complete[i], complete[j] = complete[j], complete[i] })
		for _, ti := range complete {
			tw := r.IntN(2)
			all = append(all, crec{ti, "complete-one", -1, callV(v, ins[ti], tw)})
			order := append([]int(nil), incomplete...)
			r.Shuffle(len(order), func(i, j int) { order[i], order[j] = order[j], order[i] })
			for j, ii := range order {
				which := 1 - tw // pair, copy: through the other function than the complete one went through ...
				if j%2 == 1 {
					which = tw // ... and through the same
				}
				all = append(all, crec{ii, "directly-after-a-complete-one", ti, callV(v, ins[ii], which)})
			}
		}
		// phase C: all of them concurrently
		per := 96 / gor
		type pl struct{ in, which int }
		plans := make([][]pl, gor)
		for gi := range plans {
			for j := 0; j < per; j++ {
				plans[gi] = append(plans[gi], pl{r.IntN(len(ins)), r.IntN(2)})
			}
		}
		recs := make([][]crec, gor)
		if parallel(gor, func(gi int) {
			for _, p := range plans[gi] {
				recs[gi] = append(recs[gi], crec{p.in, "concurrently", -1, callV(v, ins[p.in], p.which)})
			}
		}) {
			hungViolation(c, h, gname, cf.kind)
			c.End(h)
			continue
		}
		for _, rr := range recs {
			all = append(all, rr...)
		}
		// phase D: all of them successively
		for _, ii := range append(append(append([]int(nil), others...), incomplete...), complete...) {
			all = append(all, crec{ii, "at-the-end", -1, callV(v, ins[ii], r.IntN(2))})
		}
		c.Eval(len(all))
		c.Count("chain:calls", len(all))
		// the caller's values
		if v.sopts != nil {
			if d := v.ssnap.diff(v.sopts); d != "" {
				c.Violate(core.Violation{Kind: "oracle", Entry: "validator/" + cf.kind, Site: "caller-options-modified-by-validation", Gen: gname, Case: h,
					Detail: "the options value kept by the caller changed while it was used: " + d})
			}
		}
		for i, o := range v.vopts {
			if d := v.vsnaps[i].diff(o); d != "" {
				c.Violate(core.Violation{Kind: "oracle", Entry: "validator/" + cf.kind, Site: "caller-options-modified-by-validation", Gen: gname, Case: h,
					Detail: fmt.Sprintf("options value %d of the caller changed while it was used: %s", i, d)})
			}
		}
		for i, p := range v.pools {
			if !p.Equal(v.clones[i]) {
				c.Violate(core.Violation{Kind: "oracle", Entry: "validator/" + cf.kind, Site: "caller-options-modified-by-validation", Gen: gname, Case: h,
					Detail: fmt.Sprintf("the content of the caller's pool of trust anchors (%s) changed while validations used it", trust)})
			}
		}
		// every call against the same call alone
		diverged, first := 0, ""
		for _, cr := range all {
			in := ins[cr.in]
			s := chainShapes[in.shape]
			want := expect[cr.in]
			if want {
				accN++
			} else {
				rejN++
			}
			if cr.accepted != want {
				diverged++
				if first == "" {
					first = fmt.Sprintf("measurement %x (listed by its endorsement: %v) with endorsement %q, %s", in.m, in.listed, s.name, cr.pos)
					if cr.after >= 0 {
						first += fmt.Sprintf(" (%q)", chainShapes[ins[cr.after].shape].name)
					}
					first += fmt.Sprintf(": %s, alone on a fresh validator over options of its own %s", accStr(cr.accepted), accStr(want))
				}
			}
			if cr.after >= 0 && !want && s.signer == "SI" && chainShapes[ins[cr.after].shape].deliversIntermediate() && !hasName(trust, "I") {
				taughtThenAsked++
				c.Count("chain:incomplete-endorsement(rejected alone)-validated-directly-after-one-that-delivers-its-missing-certificate", 1)
			}
			c.Cell("chain|%s/%s|trust=%s|%s|listed=%v|%s|%s", cf.kind, cf.source, trust, s.name, in.listed, cr.pos, accStr(want))
		}
		if diverged > 0 {
			c.Violate(core.Violation{Kind: "oracle", Entry: "validator/" + cf.kind, Site: "result-differs-from-isolated-call", Gen: gname, Case: h,
				Detail: fmt.Sprintf("%d of %d calls returned a different result than the same call alone on a fresh validator over an options value of its own; first: %s", diverged, len(all), first)})
		}
		acc := 0
		for _, e := range expect {
			if e {
				acc++
			}
		}
		c.Count("chain:inputs-accepted-alone("+cf.kind+",trust="+trust+")", acc)
		c.Count("chain:inputs("+cf.kind+",trust="+trust+")", len(expect))
		if k%4 == 0 {
			c.Sample(map[string]any{"history": gname, "calls": len(all), "inputs": len(ins), "inputs_accepted_alone": acc, "diverged": diverged})
		}
		c.End(h)
	}
	c.Floor("chain:incomplete-endorsement-rejected-alone-was-validated-directly-after-one-delivering-its-missing-certificate", taughtThenAsked > 0)
	c.Floor("chain:some-calls-accepted-alone-and-some-rejected-alone", accN > 0 && rejN > 0)
}
