// Package c09: validation functions are re-entrant (race detector + isolation oracle).
package c09

import (
	"context"
	"fmt"
	"runtime"
	"sort"
	"strings"
	"sync"
	"sync/atomic"
	"time"

	"github.com/google/gce-tcb-verifier/extract/extractsev"
	"github.com/google/gce-tcb-verifier/gcetcbendorsement"
	epb "github.com/google/gce-tcb-verifier/proto/endorsement"
	"github.com/google/gce-tcb-verifier/sev"
	"github.com/google/gce-tcb-verifier/timeproto"
	"github.com/google/gce-tcb-verifier/verify"
	cpb "github.com/google/go-sev-guest/proto/check"
	spb "github.com/google/go-sev-guest/proto/sevsnp"
	"google.golang.org/protobuf/proto"

	"verifharness/core"
	"verifharness/doubles"
	"verifharness/gen"
)

func init() {
	core.Register(&core.Info{
		ID: "C09", Level: "exploration", Race: true,
		Rule: "history = one validator (or two validators sharing one *verify.Options) created first and then invoked from 2..16 goroutines (and successively) on attestations with endorsed, unendorsed and wrong-length measurements, endorsement by argument / options / getter, ExpectedLaunchVMSAs 0 or k, GOMAXPROCS in {2,4,16}; runs on the -race build. " +
			"Oracle (i): no race-detector report with a repository frame. Oracle (ii): every call returns what the same (attestation, endorsement, configured options) returns alone on a private options value. " +
			"non-trivial = histories in which calls on different measurements actually overlapped in time (call/return sequence numbers from one atomic counter); distinct = (validators, source, vmsas, goroutines, GOMAXPROCS, overlap class) cells. " +
			"Further families (audit.go, same oracles): mixed = 8 validators with different options (clock in/outside the signer certificate's validity, right/wrong/no roots, expected digest, VMSA counts, base policy/overwrite, other family id) alive and invoked together, a sibling pair differing in one option must accept resp. reject the same input; " +
			"reconfig = one SevValidateOptions value whose owner changes one field before each burst of SevValidate calls, each call compared with a fresh options value of the same field values; " +
			"reused = each goroutine keeps one attestation value, measurement buffer and endorsement buffer refilled in place; " +
			"flaky = endorsements downloaded from a bucket whose answer per object follows a script (good/error/garbage/empty/other build), each call judged by the answer its own download got. " +
			"Fourth-round families (round4.go): kept = the caller keeps its attestation values, the reports of one machine share one certificate-chain message (also read by several goroutines), attestations are validated again after failed downloads, the closure is reached through go-sev-guest's certificate-table options (validate.SnpAttestation), directly with the table entry, and through SevValidate; each call is compared with a fresh copy of the attestation as its owner built it, and the owner's attestations must be unchanged afterwards (caller-attestation-modified-by-validation); " +
			"inflight = 1..3 validations (SevValidate with and without TestonlyForceGCS, closures, closures behind go-sev-guest) are parked inside their download by the bucket double while complete calls of 8 other configurations (TestonlyForceGCS set/unset, endorsement carried with and without a getter, in the options, downloaded) run, then released in a PRNG-chosen, also non-LIFO, order with complete calls in between and after (overlap arranged by channels, not by the scheduler); " +
			"families = validators for different firmware families (and the GCE family through both entry points) created over one *verify.Options, some between two phases of calls, plus a sibling options value made by struct copy with an expired clock, against a bucket whose two folders publish different things per measurement; each validator is compared with itself alone over an options value of its own. " +
			"Fifth-round family (round5.go): chain = a three-level PKI minted per history (root -> intermediate -> signing key, keys certified by the root directly, a second intermediate, an attacker's chain; trust anchors root / root+intermediate / intermediate / root+other intermediate) and endorsements that differ in what they deliver beside the measurements (signer certificate present or not, ca_bundle none / root+intermediate / intermediate / root / other intermediate / attacker's / garbage, payload rewritten after signing); one validator (closure, pair, closure over a struct copy of the options, behind go-sev-guest, SevValidate) gets the incomplete ones first, then each complete one directly followed by every incomplete one, then all concurrently and successively; each call is compared with the same call alone on a fresh validator (evaluated before the process was handed the certificates another endorsement delivers), and the content of the caller's pool of trust anchors must be unchanged",
		Assumptions: []string{"interleavings are whatever the Go scheduler produces; the race detector needs only two unordered accesses, the behavioural oracle needs the bad interleaving",
			"validators are created before the goroutines start (C09 quantifies over invocations, not creation); the families histories also create validators between two phases of calls, while nothing is running",
			"TestonlyForceGCS: the property does not say what the flag does to a carried endorsement, so a call with the flag is only compared with the same call alone"},
		ShardsQuick: 6, ShardsThor: 12, TimeoutS: 1800, TimeoutThor: 5400, Run: run,
	})
}

type input struct {
	id   int
	kind string // endorsed4, endorsed8, unendorsed, short, endorsedB4 (second firmware build with its own endorsement)
	m    []byte
	raw  []byte // the endorsement that travels with this attestation (argument / certificate-table entry)
}

type callRec struct {
	in        int
	call, ret int64
	accepted  bool
}

func run(c *core.Ctx) {
	nb := time.Date(2025, 1, 1, 0, 0, 0, 0, time.UTC)
	now := nb.AddDate(0, 2, 0)
	pki := gen.NewPKI(nb)
	roots := gen.Pool(pki.Root)
	mk := func(b byte) []byte {
		m := make([]byte, 48)
		for i := range m {
			m[i] = b ^ byte(i*7)
		}
		return m
	}
	m4, m8 := mk(4), mk(8)
	g := &epb.VMGoldenMeasurement{Timestamp: timeproto.To(nb.Add(time.Hour)), ClSpec: 3, Digest: mk(1),
		SevSnp: &epb.VMSevSnp{Policy: gen.ProdPolicy(), Measurements: map[uint32][]byte{4: m4, 8: m8}}}
	e := gen.Endorse(pki.Signer, g)
	raw, _ := proto.Marshal(e)
	vcek := gen.Vcek(now)
	// a second firmware build B with its own endorsement
	mB4 := mk(0xb4)
	gB := proto.Clone(g).(*epb.VMGoldenMeasurement)
	gB.Digest = mk(2)
	gB.SevSnp.Measurements = map[uint32][]byte{4: mB4, 8: mk(0xb8)}
	eB := gen.Endorse(pki.Signer, gB)
	rawB, _ := proto.Marshal(eB)
	// a forgery that re-uses a genuine signature: the payload is rewritten to list another measurement, the
	// certificate and the signature of the genuine endorsement are kept. In isolation it is rejected (bad signature);
	// anything remembered from an earlier genuine validation must not change that.
	mF := mk(0xf4)
	gF := &epb.VMGoldenMeasurement{}
	proto.Unmarshal(e.SerializedUefiGolden, gF)
	gF.SevSnp.Measurements = map[uint32][]byte{4: mF, 8: mF}
	plF, _ := proto.MarshalOptions{Deterministic: true}.Marshal(gF)
	rawF, _ := proto.Marshal(&epb.VMLaunchEndorsement{SerializedUefiGolden: plF, Signature: e.Signature})
	inputs := []input{{0, "endorsed4", m4, raw}, {1, "endorsed8", m8, raw}, {2, "unendorsed", mk(0x55), raw}, {3, "unendorsed", make([]byte, 48), raw}, {4, "short", m4[:47], raw},
		{5, "unendorsed", mk(0x56), raw}, {6, "endorsedB4", mB4, rawB}, {7, "unendorsed", mB4, raw}, {8, "forged-reusing-genuine-signature", mF, rawF}, {9, "unpublished", mk(0x99), raw}}
	url := func(m []byte) string { return verify.GCETcbURL(extractsev.GCETcbObjectName(sev.GCEUefiFamilyID, m)) }
	getter := func() *doubles.Getter {
		a := map[string][]byte{}
		for _, in := range inputs {
			if len(in.m) == 48 && in.kind != "unpublished" { // the bucket has no object for an unpublished measurement: Get fails
				a[url(in.m)] = raw // the bucket answers with the same (genuine) endorsement for every name
			}
		}
		return &doubles.Getter{Answers: a}
	}
	type config struct {
		validators string // one, shared-pair, sevvalidate
		source     string // arg, options, getter
		vmsas      uint32
		gor        int
		procs      int
	}
	var configs []config
	// validators vary fastest so that even a short run meets every kind
	for _, gp := range [][2]int{{16, 16}, {4, 4}, {8, 4}, {2, 2}, {16, 2}} {
		for _, k := range []uint32{4, 0} {
			for _, s := range []string{"arg", "options", "getter"} {
				for _, v := range []string{"one", "shared-pair", "sevvalidate-shared-options", "sevvalidate"} {
					configs = append(configs, config{v, s, k, gp[0], gp[1]})
				}
			}
		}
	}
	mkOpts := func(cf config) *verify.Options {
		o := &verify.Options{RootsOfTrust: roots, Now: now}
		if cf.vmsas != 0 {
			o.SNP = &verify.SNPOptions{ExpectedLaunchVMSAs: cf.vmsas}
		}
		switch cf.source {
		case "options":
			o.Endorsement = proto.Clone(e).(*epb.VMLaunchEndorsement)
		case "getter":
			o.Getter = getter()
		}
		return o
	}
	arg := func(cf config, in input) []byte {
		if cf.source == "arg" {
			return in.raw
		}
		return nil
	}
	ctx := context.Background()
	zeroNow := false
	mkSevOpts := func(cf config) *gcetcbendorsement.SevValidateOptions {
		o := &gcetcbendorsement.SevValidateOptions{RootsOfTrust: roots, Now: now, ExpectedLaunchVmsas: cf.vmsas}
		switch cf.source {
		case "options":
			o.Endorsement = e // shared, read-only
		case "getter":
			o.Getter = getter()
		}
		if cf.validators == "sevvalidate-shared-options" {
			o.BasePolicy = &cpb.Policy{MinimumVersion: "0.0", Policy: gen.ProdPolicy()}
			if zeroNow {
				o.Now = time.Time{} // "the time of the call": the caller never set it and it must stay unset
			}
		}
		return o
	}
	// shared: the caller keeps ONE options value (and one base policy) for all its validations
	var sharedSev *gcetcbendorsement.SevValidateOptions
	sevCall := func(cf config, in input, shared bool) error {
		o := sharedSev
		if !shared || o == nil {
			o = mkSevOpts(cf)
		}
		at := gen.SnpAttestation(in.m, vcek)
		if cf.source == "arg" {
			at.CertificateChain.Extras = map[string][]byte{sev.GCEFwCertGUID: in.raw}
		}
		return gcetcbendorsement.SevValidate(ctx, at, o)
	}
	// isolated expectation: fresh options, fresh validator, one call
	isolated := func(cf config, in input) bool {
		if strings.HasPrefix(cf.validators, "sevvalidate") {
			return sevCall(cf, in, false) == nil
		}
		f := verify.SNPValidateFunc(mkOpts(cf))
		return f(&spb.Attestation{Report: &spb.Report{Measurement: in.m}}, arg(cf, in)) == nil
	}
	nh := c.N(72, 600)
	callsPer := 400
	overlapHist := 0
	for h := 0; h < nh; h++ {
		if !c.Mine(h) {
			continue
		}
		cf := configs[h%len(configs)]
		r := c.Rand(h)
		gname := fmt.Sprintf("history#%d validators=%s source=%s vmsas=%d goroutines=%d GOMAXPROCS=%d", h, cf.validators, cf.source, cf.vmsas, cf.gor, cf.procs)
		if cf.validators == "sevvalidate-shared-options" && (h/len(configs)+h)%3 == 0 {
			gname += " now=unset"
		}
		c.Begin(h, gname, "validator", nil)
		old := runtime.GOMAXPROCS(cf.procs)
		expect := map[int]bool{}
		for _, in := range inputs {
			expect[in.id] = isolated(cf, in)
			// ground truth caps the expectation: an endorsement whose payload was rewritten under a re-used signature is
			// not authentic, so wherever it is the endorsement in use the call must be rejected, whatever this process has
			// validated before (the "isolated" evaluation above runs in a process that may already hold such state)
			// likewise a report whose measurement no endorsement in use lists is rejected under every configuration
			// (with or without a named VMSA count, whichever way the endorsement arrives)
			if in.kind == "unendorsed" || in.kind == "short" || in.kind == "unpublished" {
				if expect[in.id] {
					c.Violate(core.Violation{Kind: "oracle", Entry: "validator/" + cf.validators, Site: "unendorsed-report-accepted", Gen: gname, Case: h,
						Detail: fmt.Sprintf("a fresh validator accepted a report with %s measurement %x, which the endorsement in use does not list", in.kind, in.m)})
				}
				expect[in.id] = false
			}
			if in.kind == "forged-reusing-genuine-signature" && cf.source == "arg" {
				if expect[in.id] {
					c.Violate(core.Violation{Kind: "oracle", Entry: "validator/" + cf.validators, Site: "forged-endorsement-accepted-after-earlier-validations", Gen: gname, Case: h,
						Detail: "an endorsement with a rewritten payload and a re-used genuine signature was accepted by a fresh validator in a process that had validated the genuine endorsement before"})
				}
				expect[in.id] = false
			}
		}
		// validators are created before the goroutines start
		var fs []func(*spb.Attestation, []byte) error
		sharedSev = nil
		zeroNow = cf.validators == "sevvalidate-shared-options" && (h/len(configs)+h)%3 == 0
		var sharedSnap *gcetcbendorsement.SevValidateOptions
		var sharedBaseSnap *cpb.Policy
		if cf.validators == "sevvalidate-shared-options" {
			sharedSev = mkSevOpts(cf)
			cp := *sharedSev
			sharedSnap = &cp
			sharedBaseSnap = proto.Clone(sharedSev.BasePolicy).(*cpb.Policy)
		}
		if !strings.HasPrefix(cf.validators, "sevvalidate") {
			shared := mkOpts(cf)
			fs = append(fs, verify.SNPValidateFunc(shared))
			if cf.validators == "shared-pair" {
				fs = append(fs, verify.SNPFamilyValidateFunc(sev.GCEUefiFamilyID, shared))
			}
		}
		var seq atomic.Int64
		recs := make([][]callRec, cf.gor)
		var wg sync.WaitGroup
		per := callsPer / cf.gor
		plans := make([][]int, cf.gor)
		for gi := range plans {
			for j := 0; j < per; j++ {
				// half of the goroutines mostly send endorsed, the other half mostly unendorsed
				if (gi%2 == 0) == (r.IntN(8) != 0) {
					plans[gi] = append(plans[gi], []int{0, 1, 6}[r.IntN(3)])
				} else {
					plans[gi] = append(plans[gi], []int{2, 3, 4, 5, 7, 8, 9}[r.IntN(7)])
				}
			}
		}
		start := make(chan struct{})
		for gi := 0; gi < cf.gor; gi++ {
			wg.Add(1)
			go func(gi int) {
				defer wg.Done()
				<-start
				for j, id := range plans[gi] {
					in := inputs[id]
					cs := seq.Add(1)
					var err error
					if strings.HasPrefix(cf.validators, "sevvalidate") {
						err = sevCall(cf, in, true)
					} else {
						f := fs[(gi+j)%len(fs)]
						err = f(&spb.Attestation{Report: &spb.Report{Measurement: in.m}}, arg(cf, in))
					}
					rs := seq.Add(1)
					recs[gi] = append(recs[gi], callRec{in: id, call: cs, ret: rs, accepted: err == nil})
				}
			}(gi)
		}
		close(start)
		// every call takes milliseconds; a history that makes no progress for minutes is stuck (e.g. a lock left held
		// after a failed download). The wait is a watchdog for hangs only, generous enough for any machine load.
		done := make(chan struct{})
		go func() { wg.Wait(); close(done) }()
		hung := false
		select {
		case <-done:
		case <-time.After(2 * time.Minute):
			hung = true
		}
		if hung {
			runtime.GOMAXPROCS(old)
			returned := seq.Load()
			c.Violate(core.Violation{Kind: "oracle", Entry: "validator/" + cf.validators, Site: "validator-calls-never-returned", Gen: gname, Case: h,
				Detail: fmt.Sprintf("%d goroutines were still blocked inside the validator after 2 minutes (sequence counter stopped at %d); in isolation every call returns at once", cf.gor, returned)})
			c.End(h)
			continue // the blocked goroutines are abandoned; the shared state of this history is not touched again
		}
		// successive phase on the same validators
		var succ []callRec
		for j := 0; j < 24; j++ {
			in := inputs[(j*5+h)%len(inputs)]
			var err error
			if strings.HasPrefix(cf.validators, "sevvalidate") {
				err = sevCall(cf, in, true)
			} else {
				err = fs[j%len(fs)](&spb.Attestation{Report: &spb.Report{Measurement: in.m}}, arg(cf, in))
			}
			s := seq.Add(2)
			succ = append(succ, callRec{in: in.id, call: s - 1, ret: s, accepted: err == nil})
		}
		runtime.GOMAXPROCS(old)
		if sharedSev != nil {
			if sharedSev.Endorsement != sharedSnap.Endorsement || sharedSev.ExpectedLaunchVmsas != sharedSnap.ExpectedLaunchVmsas || sharedSev.BasePolicy == nil || !sharedSev.Now.Equal(sharedSnap.Now) ||
				sharedSev.Getter != sharedSnap.Getter || sharedSev.RootsOfTrust != sharedSnap.RootsOfTrust || sharedSev.TestonlyForceGCS != sharedSnap.TestonlyForceGCS ||
				sharedSev.Overwrite != sharedSnap.Overwrite || !proto.Equal(sharedSev.BasePolicy, sharedBaseSnap) {
				c.Violate(core.Violation{Kind: "oracle", Entry: "validator/" + cf.validators, Site: "caller-options-modified-by-validation", Gen: gname, Case: h,
					Detail: fmt.Sprintf("the options value shared by the calls changed: endorsement set=%v now=%v (was %v) base policy now %v, was %v", sharedSev.Endorsement != nil, sharedSev.Now, sharedSnap.Now, sharedSev.BasePolicy, sharedBaseSnap)})
			}
		}
		// offline check of the recorded history
		var all []callRec
		for _, rr := range recs {
			all = append(all, rr...)
		}
		c.Eval(len(all) + len(succ) + len(inputs))
		diverged := 0
		var firstDiv string
		for _, cr := range append(append([]callRec(nil), all...), succ...) {
			if cr.accepted != expect[cr.in] {
				diverged++
				if firstDiv == "" {
					firstDiv = fmt.Sprintf("call seq %d..%d on input %d (%s): accepted=%v, in isolation accepted=%v", cr.call, cr.ret, cr.in, inputs[cr.in].kind, cr.accepted, expect[cr.in])
				}
			}
		}
		// overlaps between calls on different inputs
		sort.Slice(all, func(i, j int) bool { return all[i].call < all[j].call })
		overlaps, mixed := 0, 0
		for i := range all {
			for j := i + 1; j < len(all) && all[j].call < all[i].ret; j++ {
				if all[i].in != all[j].in {
					overlaps++
					if expect[all[i].in] != expect[all[j].in] {
						mixed++
					}
				}
			}
		}
		c.Count("calls", len(all)+len(succ))
		c.Count("overlapping-call-pairs(different inputs)", overlaps)
		c.Count("overlapping-call-pairs(endorsed x unendorsed)", mixed)
		oc := "none"
		if mixed > 0 {
			oc = "endorsed-x-unendorsed"
			overlapHist++
			c.Count("histories-with-endorsed-x-unendorsed-overlap", 1)
		} else if overlaps > 0 {
			oc = "different-inputs"
		}
		if oc != "none" {
			c.Cell("%s|%s|vmsas=%d|g=%d|p=%d|overlap=%s", cf.validators, cf.source, cf.vmsas, cf.gor, cf.procs, oc)
		}
		if diverged > 0 {
			c.Violate(core.Violation{Kind: "oracle", Entry: "validator/" + cf.validators, Site: "result-differs-from-isolated-call", Gen: gname, Case: h,
				Detail: fmt.Sprintf("%d of %d calls returned a different result than the same call in isolation; first: %s", diverged, len(all)+len(succ), firstDiv)})
		}
		if h%13 == 0 {
			c.Sample(map[string]any{"history": gname, "calls": len(all), "overlapping_pairs_mixed": mixed, "diverged": diverged,
				"first_calls": fmt.Sprintf("%v", all[:min(6, len(all))])})
		}
		c.End(h)
	}
	c.Floor("some-history-had-endorsed-x-unendorsed-overlap", overlapHist > 0)
	// further families of histories (audit.go), numbered after the ones above
	eF := &epb.VMLaunchEndorsement{}
	proto.Unmarshal(rawF, eF)
	runAudit(c, &world{pki: pki, nb: nb, now: now, vcek: vcek, inputs: inputs, mk: mk, m4: m4,
		A: &endo{"A", e, raw, true, g.Digest, g.SevSnp.Measurements},
		B: &endo{"B", eB, rawB, true, gB.Digest, gB.SevSnp.Measurements},
		F: &endo{"F", eF, rawF, false, gF.Digest, gF.SevSnp.Measurements}})
}
