package c09

// Three more families of histories (fourth round), appended after the families of audit.go (case numbers from round4Base,
// so all older cases keep their numbers and PRNG streams). Each adds a dimension no older history produced:
//
//	kept      the caller KEEPS its attestation values: the reports of one machine share ONE certificate-chain message (the
//	          chain is fetched once per chip and attached to every report of that chip), an attestation is validated again
//	          after its download failed, and one chain message is read by several goroutines. The validator is used the way
//	          a verifier uses it: installed in go-sev-guest's certificate-table options and reached through
//	          validate.SnpAttestation (and called directly with the table entry, and through SevValidate). What a call
//	          downloaded or decided must not travel to the next call through the attestation: every call gets what a fresh
//	          copy of the attestation as its owner built it gets, and the owner's attestations are unchanged afterwards.
//	inflight  one to three validations are HELD inside their download (the bucket double parks them) while other validations
//	          with other options - TestonlyForceGCS set and unset, endorsement carried / in the options / downloaded, with
//	          and without a getter, closures, closures behind go-sev-guest, SevValidate - run from start to end; the held
//	          ones are then released in a PRNG-chosen (also non-LIFO) order with more complete calls in between and after.
//	          Overlap is arranged by channels, not left to the scheduler: whatever a call installs "for its duration" is
//	          seen by a complete call with certainty.
//	families  validators for DIFFERENT firmware families created over one *verify.Options (some before the first call, some
//	          between phases of calls, and a sibling options value made by struct copy with an expired clock), with a bucket
//	          whose family folders publish different things: an object only in another family's folder, an object present
//	          in two folders with different content, an object in every folder, an object nowhere.
//
// All are judged by the rules of c09.go (result-differs-from-isolated-call, unendorsed-report-accepted,
// caller-options-modified-by-validation, validator-calls-never-returned, race reports) plus one more state rule,
// caller-attestation-modified-by-validation: like the options, the attestation is an input that correct code only reads;
// a validator that edits it changes what the next validation of that attestation (or of any attestation sharing a
// sub-message with it) is given.

import (
	"bytes"
	"context"
	"fmt"
	"sort"
	"strings"
	"sync"
	"time"

	"github.com/google/gce-tcb-verifier/gcetcbendorsement"
	epb "github.com/google/gce-tcb-verifier/proto/endorsement"
	"github.com/google/gce-tcb-verifier/sev"
	"github.com/google/gce-tcb-verifier/timeproto"
	"github.com/google/gce-tcb-verifier/verify"
	cpb "github.com/google/go-sev-guest/proto/check"
	spb "github.com/google/go-sev-guest/proto/sevsnp"
	"github.com/google/go-sev-guest/validate"
	"google.golang.org/protobuf/proto"

	"verifharness/core"
	"verifharness/gen"
)

const (
	round4Base    = auditBase + 400_000
	famX          = "5a5b5c5d-0001-4002-8003-a0a1a2a3a4a5"
	famY          = "6a6b6c6d-0001-4002-8003-b0b1b2b3b4b5"
	unrelatedGUID = "11111111-2222-4333-8444-555555555555"
)

// fwbuild is one more firmware build with its own authentic endorsement, listing m[0], m[1], m[2] for 4, 8 and 2 VMSAs.
type fwbuild struct {
	e *endo
	m [3][]byte
}

// uniq is a 48-byte measurement determined by (tag, j, k) and different from every other measurement of the workload.
func uniq(tag byte, j, k int) []byte {
	m := make([]byte, 48)
	for i := range m {
		m[i] = tag + byte(i*11)
	}
	m[0], m[1], m[2], m[3] = 0xfb, tag, byte(j), byte(k)
	return m
}

func (w *world) fwbuilds() []*fwbuild {
	if w.fw != nil {
		return w.fw
	}
	for j := 0; j < 16; j++ {
		b := &fwbuild{m: [3][]byte{uniq(0x31, j, 0), uniq(0x31, j, 1), uniq(0x31, j, 2)}}
		g := &epb.VMGoldenMeasurement{Timestamp: timeproto.To(w.nb.Add(time.Hour)), ClSpec: uint64(100 + j), Digest: uniq(0xd1, j, 0),
			SevSnp: &epb.VMSevSnp{Policy: gen.ProdPolicy(), Measurements: map[uint32][]byte{4: b.m[0], 8: b.m[1], 2: b.m[2]}}}
		msg := gen.Endorse(w.pki.Signer, g)
		raw, _ := proto.Marshal(msg)
		b.e = &endo{fmt.Sprintf("fw%d", j), msg, raw, true, g.Digest, g.SevSnp.Measurements}
		w.fw = append(w.fw, b)
	}
	return w.fw
}

// guestOptions installs a validator closure where a verifier installs it: in go-sev-guest's certificate-table options,
// required for the GCE firmware entry, next to the policy SevValidate derives for a production guest.
func guestOptions(f func(*spb.Attestation, []byte) error) *validate.Options {
	vo, err := validate.PolicyToOptions(&cpb.Policy{MinimumVersion: "0.0", Policy: gen.ProdPolicy()})
	if err != nil {
		panic(err)
	}
	vo.CertTableOptions = map[string]*validate.CertEntryOption{sev.GCEFwCertGUID: {Kind: validate.CertEntryRequire, Validate: f}}
	return vo
}

// scriptGetter answers each object with a scripted sequence of answer kinds; the body of a kind is per object.
type scriptGetter struct {
	mu     sync.Mutex
	script map[string][]string
	n      map[string]int
	bodies map[string]map[string][]byte
}

func (g *scriptGetter) Get(url string) ([]byte, error) {
	g.mu.Lock()
	defer g.mu.Unlock()
	s, ok := g.script[url]
	if !ok {
		return nil, fmt.Errorf("script getter: 404 %s", url)
	}
	k := g.n[url]
	g.n[url]++
	kind := "error"
	if k < len(s) {
		kind = s[k]
	}
	if kind == "error" {
		return nil, fmt.Errorf("script getter: 503 %s (download %d)", url, k)
	}
	return append([]byte(nil), g.bodies[url][kind]...), nil
}

func (g *scriptGetter) count(url string) int {
	g.mu.Lock()
	defer g.mu.Unlock()
	return g.n[url]
}

// constGetter answers one object always the same way (the isolated evaluation of one call).
type constGetter struct {
	url  string
	body []byte
	fail bool
}

func (g *constGetter) Get(url string) ([]byte, error) {
	if url != g.url {
		return nil, fmt.Errorf("const getter: 404 %s", url)
	}
	if g.fail {
		return nil, fmt.Errorf("const getter: 503 %s", url)
	}
	return append([]byte(nil), g.body...), nil
}

// ---------------------------------------------------------------------------------------------------------------------
// kept: attestation values the caller keeps; reports of one machine share one certificate-chain message

type keptValidator struct {
	kind  string
	w     *world
	g     verify.HTTPSGetter
	f     func(*spb.Attestation, []byte) error
	vopts *verify.Options
	gopts *validate.Options
	sopts *gcetcbendorsement.SevValidateOptions
	vsnap verifySnap
	ssnap sevSnap
}

func (w *world) newKept(kind string, g verify.HTTPSGetter) *keptValidator {
	v := &keptValidator{kind: kind, w: w, g: g}
	switch kind {
	case "sevvalidate":
		v.sopts = v.freshSev()
		v.ssnap = snapSev(v.sopts)
	case "sevvalidate-fresh-options":
	default:
		v.vopts = &verify.Options{RootsOfTrust: w.roots, Now: w.now, Getter: g}
		v.f = verify.SNPValidateFunc(v.vopts)
		v.gopts = guestOptions(v.f)
		v.vsnap = snapVerify(v.vopts)
	}
	return v
}

func (v *keptValidator) freshSev() *gcetcbendorsement.SevValidateOptions {
	return &gcetcbendorsement.SevValidateOptions{RootsOfTrust: v.w.roots, Now: v.w.now, Getter: v.g}
}

func (v *keptValidator) call(at *spb.Attestation) error {
	switch v.kind {
	case "guest-validate":
		return validate.SnpAttestation(at, v.gopts)
	case "closure-direct": // what go-sev-guest does with the entry, without its other checks
		return v.f(at, at.GetCertificateChain().GetExtras()[sev.GCEFwCertGUID])
	case "sevvalidate":
		return gcetcbendorsement.SevValidate(context.Background(), at, v.sopts)
	}
	return gcetcbendorsement.SevValidate(context.Background(), at, v.freshSev())
}

func (v *keptValidator) optionsDiff() string {
	switch {
	case v.sopts != nil:
		return v.ssnap.diff(v.sopts)
	case v.vopts != nil:
		return v.vsnap.diff(v.vopts)
	}
	return ""
}

func famKept(c *core.Ctx, w *world, base, n int) {
	fw := w.fwbuilds()
	kinds := []string{"guest-validate", "closure-direct", "sevvalidate", "sevvalidate-fresh-options"}
	answers := []string{"ok", "other-build", "garbage", "empty", "error"}
	otherBuildAfterDownload, okAfterBad := 0, 0
	for k := 0; k < n; k++ {
		h := base + k
		if !c.Mine(h) {
			continue
		}
		r := c.Rand(h)
		kind := kinds[k%len(kinds)]
		gor := pick(r, 1, 2, 4)
		per := 192 / gor
		across := gor > 1 && r.IntN(3) == 0 // machine 0 of every goroutine is the same chip: one chain message read by all
		gname := fmt.Sprintf("kept#%d %s; %d goroutines, each keeps the attestations of two machines (three reports per machine sharing one certificate-chain message) and validates them again and again; bucket answers follow a script; one chain shared by all goroutines: %v", h, kind, gor, across)
		c.Begin(h, gname, "validator", nil)
		g := &scriptGetter{script: map[string][]string{}, n: map[string]int{}, bodies: map[string]map[string][]byte{}}
		type report struct {
			m       []byte
			url     string
			machine int
			class   string // build-X, build-Y, unendorsed
			listed  *fwbuild
			att     *spb.Attestation
			orig    *spb.Attestation
		}
		reps := make([][]*report, gor)
		extrasOf := make([][2]string, gor)
		carried := make([][2]*fwbuild, gor)
		var acrossChain *spb.CertificateChain
		for gi := 0; gi < gor; gi++ {
			X, Y := fw[2*gi], fw[2*gi+1]
			u := uniq(0xee, k%200, gi)
			reps[gi] = []*report{
				{m: X.m[0], machine: 0, class: "build-X", listed: X}, {m: Y.m[0], machine: 0, class: "build-Y", listed: Y}, {m: u, machine: 0, class: "unendorsed"},
				{m: X.m[1], machine: 1, class: "build-X", listed: X}, {m: Y.m[1], machine: 1, class: "build-Y", listed: Y}, {m: Y.m[2], machine: 1, class: "build-Y", listed: Y}}
			var chains [2]*spb.CertificateChain
			for mi := 0; mi < 2; mi++ {
				ch := &spb.CertificateChain{VcekCert: w.vcek}
				ek := pick(r, "nil", "nil", "nil", "empty", "unrelated", "carried")
				switch ek {
				case "empty":
					ch.Extras = map[string][]byte{}
				case "unrelated":
					ch.Extras = map[string][]byte{unrelatedGUID: []byte("something else the host delivers")}
				case "carried": // the host delivered the endorsement of the firmware the machine booted first
					carried[gi][mi] = []*fwbuild{X, Y}[mi]
					ch.Extras = map[string][]byte{sev.GCEFwCertGUID: append([]byte(nil), carried[gi][mi].e.raw...)}
				}
				extrasOf[gi][mi] = ek
				if across && mi == 0 {
					if acrossChain == nil {
						acrossChain = ch
					} else {
						ch, extrasOf[gi][mi], carried[gi][mi] = acrossChain, extrasOf[0][0], carried[0][0]
					}
				}
				chains[mi] = ch
			}
			for _, rp := range reps[gi] {
				rp.url = w.url(sev.GCEUefiFamilyID, rp.m)
				rp.att = gen.SnpAttestation(rp.m, w.vcek)
				rp.att.CertificateChain = chains[rp.machine]
				rp.orig = proto.Clone(rp.att).(*spb.Attestation)
				ok, other := X, Y
				if rp.listed == Y {
					ok, other = Y, X
				}
				g.bodies[rp.url] = map[string][]byte{"ok": ok.e.raw, "other-build": other.e.raw, "garbage": []byte("<html><body>502 Bad Gateway</body></html>"), "empty": {}}
				var s []string
				for len(s) < per+2 {
					s = append(s, pick(r, "ok", "ok", "ok", "ok", "error", "error", "garbage", "garbage", "other-build", "empty"))
				}
				g.script[rp.url] = s
			}
		}
		// what every (report, answer) gets in isolation: a fresh copy of the attestation as its owner built it, fresh
		// options, a fresh validator, a bucket that gives this answer
		type ikey struct {
			gi, j int
			ans   string
		}
		iso := map[ikey]bool{}
		for gi := range reps {
			for j, rp := range reps[gi] {
				for _, ans := range answers {
					cg := &constGetter{url: rp.url, body: g.bodies[rp.url][ans], fail: ans == "error"}
					got := w.newKept(kind, cg).call(proto.Clone(rp.orig).(*spb.Attestation)) == nil
					c.Eval(1)
					inUse, src := rp.listed, "downloaded"
					if ans != "ok" {
						inUse = nil
					}
					if cb := carried[gi][rp.machine]; cb != nil {
						inUse, src = cb, "carried in the certificate table"
					}
					want := inUse != nil && rp.listed == inUse
					if got && !want {
						c.Violate(core.Violation{Kind: "oracle", Entry: "validator/" + kind, Site: "unendorsed-report-accepted", Gen: gname, Case: h,
							Detail: fmt.Sprintf("a fresh validator accepted a report with measurement %x (%s) although the endorsement in use (%s, bucket answer %q) does not list it", rp.m, rp.class, src, ans)})
						got = false
					}
					if !got && want && kind == "closure-direct" {
						c.Violate(core.Violation{Kind: "oracle", Entry: "validator/" + kind, Site: "result-differs-from-isolated-call", Gen: gname, Case: h,
							Detail: fmt.Sprintf("a fresh validator rejected a report with measurement %x (%s) although an authentic endorsement that lists it was %s; in a process that has validated nothing else this call is accepted", rp.m, rp.class, src)})
						got = true
					}
					iso[ikey{gi, j, ans}] = got
				}
			}
		}
		v := w.newKept(kind, g)
		plans := make([][]int, gor)
		for gi := range plans {
			for j := 0; j < per; j++ {
				switch {
				case j > 0 && r.IntN(3) == 0:
					plans[gi] = append(plans[gi], plans[gi][j-1]) // the same attestation again (a retry)
				case j > 0 && r.IntN(2) == 0:
					p := plans[gi][j-1] // another report of the same machine
					plans[gi] = append(plans[gi], p/3*3+(p%3+1+r.IntN(2))%3)
				default:
					plans[gi] = append(plans[gi], r.IntN(6))
				}
			}
		}
		type krec struct {
			j         int
			answer    string
			downloads int
			accepted  bool
		}
		recs := make([][]krec, gor)
		if parallel(gor, func(gi int) {
			for _, j := range plans[gi] {
				rp := reps[gi][j]
				before := g.count(rp.url)
				err := v.call(rp.att)
				after := g.count(rp.url)
				idx := before // no download: what a download would have been answered
				if after > before {
					idx = after - 1
				}
				ans := "error"
				if idx < len(g.script[rp.url]) {
					ans = g.script[rp.url][idx]
				}
				recs[gi] = append(recs[gi], krec{j, ans, after - before, err == nil})
			}
		}) {
			hungViolation(c, h, gname, kind)
			c.End(h)
			continue
		}
		if d := v.optionsDiff(); d != "" {
			c.Violate(core.Violation{Kind: "oracle", Entry: "validator/" + kind, Site: "caller-options-modified-by-validation", Gen: gname, Case: h,
				Detail: "the options value changed while it was used: " + d})
		}
		for gi := range reps {
			for j, rp := range reps[gi] {
				if !proto.Equal(rp.att, rp.orig) {
					c.Violate(core.Violation{Kind: "oracle", Entry: "validator/" + kind, Site: "caller-attestation-modified-by-validation", Gen: gname, Case: h,
						Detail: fmt.Sprintf("the attestation of goroutine %d report %d (%s, chain extras %q) is not what its owner built any more: certificate-table entries now %v, were %v; report equal: %v",
							gi, j, rp.class, extrasOf[gi][rp.machine], extraKeys(rp.att), extraKeys(rp.orig), proto.Equal(rp.att.GetReport(), rp.orig.GetReport()))})
					gi = len(reps) - 1 // one report per history is enough
					break
				}
			}
		}
		calls, diverged, first := 0, 0, ""
		for gi := range recs {
			for i, kr := range recs[gi] {
				calls++
				rp := reps[gi][kr.j]
				want := iso[ikey{gi, kr.j, kr.answer}]
				var prev *krec
				if i > 0 {
					prev = &recs[gi][i-1]
				}
				if kr.accepted != want {
					diverged++
					if first == "" {
						why := fmt.Sprintf("its download was answered with %q", kr.answer)
						if kr.downloads == 0 {
							why = fmt.Sprintf("it downloaded nothing; a download would have been answered with %q", kr.answer)
						}
						before := "nothing"
						if prev != nil {
							p := reps[gi][prev.j]
							before = fmt.Sprintf("report %d (%s, machine %d, answer %q, %s)", prev.j, p.class, p.machine, prev.answer, accStr(prev.accepted))
						}
						first = fmt.Sprintf("goroutine %d call %d on report %d (%s, machine %d, chain extras %q), validated right after %s: %s although %s, so a fresh copy of this attestation is %s alone",
							gi, i, kr.j, rp.class, rp.machine, extrasOf[gi][rp.machine], before, accStr(kr.accepted), why, accStr(want))
					}
				}
				if prev == nil {
					continue
				}
				p := reps[gi][prev.j]
				switch {
				case prev.j == kr.j && prev.answer != kr.answer:
					c.Cell("kept|%s|endorsement-carried=%v|same-attestation-again|%s-answer-after-%s-answer|%s", kind, carried[gi][rp.machine] != nil, goodBad(kr.answer), goodBad(prev.answer), accStr(want))
					if want && prev.answer != "ok" && carried[gi][rp.machine] == nil {
						okAfterBad++
						c.Count("kept:same-attestation-accepted-on-a-retry-after-a-failed-download", 1)
					}
				case prev.j != kr.j && p.machine == rp.machine:
					tr := "report-of-the-same-build"
					switch {
					case rp.listed == nil:
						tr = "unendorsed-report"
					case p.listed == nil:
						tr = "endorsed-report-after-an-unendorsed-one"
					case p.listed != rp.listed:
						tr = "report-of-another-build"
					}
					c.Cell("kept|%s|endorsement-carried=%v|chain-read-by-all-goroutines=%v|next-on-one-chain=%s|%s", kind, carried[gi][rp.machine] != nil, across && rp.machine == 0, tr, accStr(want))
					if want && p.listed != rp.listed && prev.answer != "error" && carried[gi][rp.machine] == nil {
						otherBuildAfterDownload++
						c.Count("kept:report-accepted-right-after-a-report-of-another-build-sharing-its-chain-downloaded-something", 1)
					}
				}
			}
		}
		c.Eval(calls)
		c.Count("kept:calls", calls)
		if diverged > 0 {
			c.Violate(core.Violation{Kind: "oracle", Entry: "validator/" + kind, Site: "result-differs-from-isolated-call", Gen: gname, Case: h,
				Detail: fmt.Sprintf("%d of %d calls returned a different result than a fresh copy of their attestation gets alone; first: %s", diverged, calls, first)})
		}
		if k%5 == 0 {
			c.Sample(map[string]any{"history": gname, "calls": calls, "diverged": diverged, "chain_extras": fmt.Sprint(extrasOf), "first_plan": fmt.Sprint(plans[0][:min(12, per)])})
		}
		c.End(h)
	}
	c.Floor("kept:accepted-right-after-another-build's-report-on-the-same-chain-and-on-a-retry-after-a-failed-download", otherBuildAfterDownload > 0 && okAfterBad > 0)
}

func goodBad(answer string) string {
	if answer == "ok" {
		return "good"
	}
	return "bad"
}

func extraKeys(at *spb.Attestation) []string {
	var ks []string
	for k, v := range at.GetCertificateChain().GetExtras() {
		ks = append(ks, fmt.Sprintf("%s(%d bytes)", k, len(v)))
	}
	sort.Strings(ks)
	return ks
}

// ---------------------------------------------------------------------------------------------------------------------
// inflight: validations held inside their download while others run from start to end

// gateGetter is a bucket that parks the download of a gated object until it is released (once per gate).
type gateGetter struct {
	mu      sync.Mutex
	answers map[string][]byte
	gates   map[string]*gate
}

type gate struct {
	entered chan struct{}
	release chan struct{}
}

func (g *gateGetter) Get(url string) ([]byte, error) {
	g.mu.Lock()
	gt := g.gates[url]
	delete(g.gates, url)
	b, ok := g.answers[url]
	g.mu.Unlock()
	if gt != nil {
		close(gt.entered)
		<-gt.release
	}
	if !ok {
		return nil, fmt.Errorf("gate getter: 404 %s", url)
	}
	return append([]byte(nil), b...), nil
}

func famInflight(c *core.Ctx, w *world, base, n int) {
	fw := w.fwbuilds()
	parkKinds := []vcfg{
		{kind: "sevvalidate", forced: true}, {kind: "closure"}, {kind: "sevvalidate"}, {kind: "guest"}, {kind: "sevvalidate", forced: true, base: "empty"}, {kind: "pair"}}
	for i := range parkKinds {
		p := &parkKinds[i]
		p.source, p.clock, p.trust, p.digest = "getter", "valid", "genuine", "unset"
		if p.base == "" {
			p.base = "none"
		}
	}
	probeInputs := []int{0, 1, 6, 2, 7, 4, 9}
	carriedWhileForced, nonLIFO := 0, 0
	for k := 0; k < n; k++ {
		h := base + k
		if !c.Mine(h) {
			continue
		}
		r := c.Rand(h)
		np := pick(r, 1, 2, 2, 3)
		if k < 6 {
			np = 1 + k%3
		}
		// the held calls: the first one's kind goes round, the others are drawn
		var parked []vcfg
		for i := 0; i < np; i++ {
			p := parkKinds[r.IntN(len(parkKinds))]
			if i == 0 {
				p = parkKinds[k%len(parkKinds)]
			} else if i == 1 && parked[0].forced && r.IntN(2) == 0 {
				p = parkKinds[0] // two forced ones held together
			}
			p.vmsas = pick(r, uint32(0), 4)
			parked = append(parked, p)
		}
		order := r.Perm(np) // release order
		if k%6 == 1 {
			sort.Ints(order) // first held, first released
		}
		lifo := true
		for i, o := range order {
			if o != np-1-i {
				lifo = false
			}
		}
		// the bucket of the whole history: endorsement A for the published fixed inputs, its own endorsement for every held call
		g := &gateGetter{answers: map[string][]byte{}, gates: map[string]*gate{}}
		ungated := &gateGetter{answers: g.answers}
		for _, in := range w.inputs {
			if len(in.m) == 48 && in.kind != "unpublished" {
				g.answers[w.url(sev.GCEUefiFamilyID, in.m)] = w.A.raw
			}
		}
		pin := make([]input, np)
		gates := make([]*gate, np)
		for i := range parked {
			b := fw[(k+i)%len(fw)]
			pin[i] = input{id: 200 + i, kind: "endorsed-by-its-own-build", m: b.m[0], raw: b.e.raw}
			g.answers[w.url(sev.GCEUefiFamilyID, pin[i].m)] = b.e.raw
		}
		// the complete calls: eight configurations, each with a validator made once
		var probes []vcfg
		for len(probes) < 8 {
			cf := vcfg{kind: pick(r, "sevvalidate", "sevvalidate", "sevvalidate", "closure", "pair", "guest"), source: pick(r, "arg", "arg", "arg+getter", "getter", "options"),
				clock: "valid", trust: pick(r, "genuine", "genuine", "both"), digest: "unset", base: "none", vmsas: pick(r, uint32(0), 0, 4)}
			switch len(probes) {
			case 0: // the plain production call: endorsement carried by the attestation, no getter at all
				cf.kind, cf.source = "sevvalidate", "arg"
			case 1:
				cf.kind, cf.source, cf.forced = "sevvalidate", pick(r, "arg", "arg+getter"), true
			case 2:
				cf.kind, cf.source = pick(r, "closure", "guest"), pick(r, "arg", "getter")
			}
			if cf.kind == "sevvalidate" {
				if len(probes) > 1 {
					cf.forced = r.IntN(3) == 0
				}
				cf.base = pick(r, "none", "none", "empty")
			} else {
				cf.snpNil = r.IntN(2) == 0
			}
			probes = append(probes, cf)
		}
		var names []string
		for _, p := range parked {
			names = append(names, strings.TrimSpace(p.kind+" "+map[bool]string{true: "TestonlyForceGCS"}[p.forced]))
		}
		gname := fmt.Sprintf("inflight#%d %d validations held inside their download (%s), released in order %v; complete calls of 8 other configurations run meanwhile, between the releases and afterwards",
			h, np, strings.Join(names, ", "), order)
		c.Begin(h, gname, "validator", nil)
		// what every call gets alone (nothing is in flight now)
		alone := func(cf vcfg, in input) bool {
			got := w.call(w.newValidatorWith(cf, ungated), in, 0, nil) == nil
			c.Eval(1)
			want, why := w.model(cf, in)
			if in.id >= 200 { // a held call: its object is published with the endorsement of its own build
				want, why = cf.clock == "valid" && cf.vmsas != 8, "its build's endorsement lists the measurement for 4 VMSAs"
			}
			if got && !want {
				c.Violate(core.Violation{Kind: "oracle", Entry: "validator/" + cf.kind, Site: "unendorsed-report-accepted", Gen: gname, Case: h,
					Detail: fmt.Sprintf("a fresh validator (%v) accepted input %d (%s, measurement %x) although %s", cf, in.id, in.kind, in.m, why)})
				return false
			}
			// with no base policy demands of their own these configurations accept exactly what the model accepts (SevValidate
			// and go-sev-guest add nothing the synthetic attestation does not meet), so a rejection here is left over from
			// earlier calls of this process. (What TestonlyForceGCS is to do with a carried endorsement the property does not
			// say, so a call with the flag is only ever compared with itself alone.)
			if !got && want && !cf.forced {
				c.Violate(core.Violation{Kind: "oracle", Entry: "validator/" + cf.kind, Site: "result-differs-from-isolated-call", Gen: gname, Case: h,
					Detail: fmt.Sprintf("a fresh validator (%v) with nothing in flight rejected input %d (%s): an authentic endorsement that lists the measurement, a signer certificate valid at the configured time under the configured roots; in a process that has validated nothing else this call is accepted", cf, in.id, in.kind)})
				return true
			}
			return got
		}
		expect := make([]map[int]bool, len(probes))
		for pi, cf := range probes {
			expect[pi] = map[int]bool{}
			for _, id := range probeInputs {
				expect[pi][id] = alone(cf, w.inputs[id])
			}
		}
		pexpect := make([]bool, np)
		for i, cf := range parked {
			pexpect[i] = alone(cf, pin[i])
		}
		vals := make([]*validator, len(probes))
		for pi, cf := range probes {
			vals[pi] = w.newValidatorWith(cf, g)
		}
		diverged, first, calls := 0, "", 0
		state := func(held []int) string {
			if len(held) == 0 {
				return "nothing in flight"
			}
			var s []string
			for _, i := range held {
				s = append(s, names[i])
			}
			return "held in their download: " + strings.Join(s, ", ")
		}
		var held []int
		everHeld := false
		burst := func(phase string) bool {
			b := pick(r, 1, 2, 3)
			type bc struct{ pi, id int }
			bcs := make([]bc, b)
			for i := range bcs {
				pi := r.IntN(len(probes))
				if r.IntN(3) == 0 {
					pi = r.IntN(3)
				}
				id := probeInputs[r.IntN(len(probeInputs))]
				if r.IntN(2) == 0 {
					id = pick(r, 0, 1, 6)
				}
				if i == 0 && len(held) > 0 { // the plain production call runs in every burst while something is held
					pi, id = 0, pick(r, 0, 0, 6)
				}
				bcs[i] = bc{pi, id}
			}
			res := make([]bool, b)
			if parallel(b, func(gi int) { res[gi] = w.call(vals[bcs[gi].pi], w.inputs[bcs[gi].id], gi, nil) == nil }) {
				return false
			}
			c.Eval(b)
			calls += b
			forcedHeld := false
			for _, i := range held {
				forcedHeld = forcedHeld || parked[i].forced
			}
			for i, x := range bcs {
				cf, want := probes[x.pi], expect[x.pi][x.id]
				if res[i] != want {
					diverged++
					if first == "" {
						first = fmt.Sprintf("%s, %s: a complete call of validator %d (%v) on input %d (%s): %s, alone %s", phase, state(held), x.pi, cf, x.id, w.inputs[x.id].kind, accStr(res[i]), accStr(want))
					}
				}
				ph := "nothing-held-yet"
				if len(held) > 0 {
					ph = "while-held"
				} else if everHeld {
					ph = "after-all-returned"
				}
				c.Cell("inflight|forced-held=%v|%s|probe=%s/%s forced=%v|%s", forcedHeld, ph, cf.kind, cf.source, cf.forced, accStr(want))
				if want && forcedHeld && cf.kind == "sevvalidate" && !cf.forced && cf.source == "arg" {
					carriedWhileForced++
					c.Count("inflight:carried-endorsement-call-without-getter-accepted-while-a-TestonlyForceGCS-call-was-held", 1)
				}
			}
			return true
		}
		done := make([]chan bool, np)
		hung := false
		wait := func(a, b <-chan struct{}) bool { // true: a
			select {
			case <-a:
				return true
			case <-b:
				return false
			case <-time.After(2 * time.Minute): // a watchdog for hangs only
				hung = true
				return false
			}
		}
		returned := make([]bool, np)
		results := make([]bool, np)
		finish := func(i int) {
			if returned[i] {
				return
			}
			select {
			case results[i] = <-done[i]:
				returned[i] = true
			case <-time.After(2 * time.Minute):
				hung = true
			}
		}
		if !burst("before anything is held") {
			hung = true
		}
		notParked := 0
		for i := 0; i < np && !hung; i++ {
			gates[i] = &gate{entered: make(chan struct{}), release: make(chan struct{})}
			g.mu.Lock()
			g.gates[w.url(sev.GCEUefiFamilyID, pin[i].m)] = gates[i]
			g.mu.Unlock()
			done[i] = make(chan bool, 1)
			ended := make(chan struct{})
			pv := w.newValidatorWith(parked[i], g)
			go func(i int) {
				ok := w.call(pv, pin[i], 0, nil) == nil
				done[i] <- ok
				close(ended)
			}(i)
			if wait(gates[i].entered, ended) {
				held = append(held, i)
				everHeld = true
			} else if !hung {
				notParked++ // it returned without asking the bucket; judged like every other call
				finish(i)
				g.mu.Lock()
				delete(g.gates, w.url(sev.GCEUefiFamilyID, pin[i].m))
				g.mu.Unlock()
			}
			if !hung && !burst(fmt.Sprintf("after held call %d started", i)) {
				hung = true
			}
		}
		for _, i := range order {
			if hung {
				break
			}
			if !returned[i] {
				close(gates[i].release)
				finish(i)
				for x, hi := range held {
					if hi == i {
						held = append(held[:x:x], held[x+1:]...)
						break
					}
				}
			}
			if !hung && !burst(fmt.Sprintf("after held call %d was released and returned", i)) {
				hung = true
			}
		}
		if hung {
			for i := range gates { // let whatever still waits in the bucket go
				if gates[i] != nil && !returned[i] {
					select {
					case <-gates[i].release:
					default:
						close(gates[i].release)
					}
				}
			}
			hungViolation(c, h, gname, "inflight")
			c.End(h)
			continue
		}
		for j := 0; j < 3; j++ {
			burst("after every held call returned")
		}
		c.Eval(np)
		calls += np
		for i := range parked {
			if results[i] != pexpect[i] {
				diverged++
				if first == "" {
					first = fmt.Sprintf("held call %d (%v) on its own measurement %x: %s, alone %s", i, parked[i], pin[i].m, accStr(results[i]), accStr(pexpect[i]))
				}
			}
		}
		for pi, v := range vals {
			if d := v.optionsDiff(); d != "" {
				c.Violate(core.Violation{Kind: "oracle", Entry: "validator/" + probes[pi].kind, Site: "caller-options-modified-by-validation", Gen: gname, Case: h,
					Detail: fmt.Sprintf("the options value of validator %d (%v) changed while it was used: %s", pi, probes[pi], d)})
			}
		}
		c.Count("inflight:calls", calls)
		c.Count("inflight:held-calls", np-notParked)
		if !lifo && np-notParked > 1 {
			nonLIFO++
			c.Count("inflight:histories-with-held-calls-released-in-non-LIFO-order", 1)
		}
		if diverged > 0 {
			c.Violate(core.Violation{Kind: "oracle", Entry: "validator/inflight", Site: "result-differs-from-isolated-call", Gen: gname, Case: h,
				Detail: fmt.Sprintf("%d of %d calls returned a different result than the same call alone; first: %s", diverged, calls, first)})
		}
		if k%5 == 0 {
			c.Sample(map[string]any{"history": gname, "calls": calls, "diverged": diverged, "held": np - notParked, "probe0": probes[0].String(), "probe1": probes[1].String()})
		}
		c.End(h)
	}
	c.Floor("inflight:carried-endorsement-call-accepted-while-a-TestonlyForceGCS-call-was-held", carriedWhileForced > 0)
	c.Floor("inflight:held-calls-released-in-non-LIFO-order", nonLIFO > 0)
}

// ---------------------------------------------------------------------------------------------------------------------
// families: validators for different firmware families over one options value

func famFamilies(c *core.Ctx, w *world, base, n int) {
	fw := w.fwbuilds()
	type meas struct {
		name string
		m    []byte
		in   map[string]*fwbuild // family -> what its folder serves for this measurement
	}
	// the bucket has the folder of the GCE family and the folder objects of family X are named into (the repository names
	// the objects; which families share a folder is its business: the model below looks up what is published under the
	// name the repository gives an object of the validator's own family, nothing else)
	ms := []meas{
		{"only-in-GCE-folder", fw[0].m[0], map[string]*fwbuild{"GCE": fw[0]}},
		{"only-in-other-folder", fw[1].m[0], map[string]*fwbuild{"X": fw[1]}},
		{"in-GCE-folder-and-another-build's-endorsement-in-other-folder", fw[2].m[0], map[string]*fwbuild{"GCE": fw[2], "X": fw[0]}},
		{"nowhere", fw[4].m[0], map[string]*fwbuild{}},
		{"in-both-folders", fw[5].m[0], map[string]*fwbuild{"GCE": fw[5], "X": fw[5]}},
		{"in-other-folder-and-another-build's-endorsement-in-GCE-folder", fw[6].m[0], map[string]*fwbuild{"X": fw[6], "GCE": fw[1]}},
	}
	famID := map[string]string{"GCE": sev.GCEUefiFamilyID, "X": famX, "Y": famY}
	published := map[string]*fwbuild{} // object URL -> the build whose endorsement is served
	for _, m := range ms {
		for _, f := range []string{"GCE", "X"} {
			if b := m.in[f]; b != nil {
				published[w.url(famID[f], m.m)] = b
			}
		}
	}
	bucket := func() *gateGetter {
		g := &gateGetter{answers: map[string][]byte{}, gates: map[string]*gate{}}
		for u, b := range published {
			g.answers[u] = b.e.raw
		}
		return g
	}
	orders := [][]string{{"GCE", "X"}, {"X", "GCE"}, {"GCE", "X", "Y"}, {"Y", "GCE*", "X"}, {"GCE", "GCE*", "X", "Y"}, {"X", "Y", "GCE"}}
	split := 0
	for k := 0; k < n; k++ {
		h := base + k
		if !c.Mine(h) {
			continue
		}
		r := c.Rand(h)
		order := orders[k%len(orders)]
		before := 1 + r.IntN(len(order)) // validators made before the first call; the others are made between the two phases
		if k%2 == 0 {
			before = len(order)
		}
		vm := pick(r, uint32(0), 0, 4)
		snpNil := vm == 0 && r.IntN(2) == 0
		sibling := r.IntN(2) == 0
		gor := pick(r, 2, 4, 8)
		gname := fmt.Sprintf("families#%d validators for families %v over one *verify.Options (vmsas=%d, SNP nil=%v), the first %d made before the first call, the others between two phases of calls; sibling options value (struct copy, clock expired): %v; %d goroutines",
			h, order, vm, snpNil, before, sibling, gor)
		c.Begin(h, gname, "validator", nil)
		mkOpts := func(expired bool) *verify.Options {
			o := &verify.Options{RootsOfTrust: w.roots, Now: w.now, Getter: bucket()}
			if !snpNil {
				o.SNP = &verify.SNPOptions{ExpectedLaunchVMSAs: vm}
			}
			if expired {
				o.Now = w.clock("expired")
			}
			return o
		}
		mkFunc := func(f string, o *verify.Options) func(*spb.Attestation, []byte) error {
			if f == "GCE" {
				return verify.SNPValidateFunc(o)
			}
			return verify.SNPFamilyValidateFunc(famID[strings.TrimSuffix(f, "*")], o) // GCE*: the GCE family through the family entry point
		}
		att := func(m []byte) *spb.Attestation { return &spb.Attestation{Report: &spb.Report{Measurement: m}} }
		// every validator alone over an options value of its own
		type vspec struct {
			fam     string
			expired bool
		}
		specs := []vspec{}
		for _, f := range order {
			specs = append(specs, vspec{f, false})
		}
		if sibling {
			specs = append(specs, vspec{pick(r, "GCE", "X"), true})
		}
		expect := make([][]bool, len(specs))
		for vi, sp := range specs {
			fam := strings.TrimSuffix(sp.fam, "*")
			for _, m := range ms {
				got := mkFunc(sp.fam, mkOpts(sp.expired))(att(m.m), nil) == nil
				c.Eval(1)
				b := published[w.url(famID[fam], m.m)]
				want := !sp.expired && b != nil && bytes.Equal(b.m[0], m.m)
				if got && !want {
					c.Violate(core.Violation{Kind: "oracle", Entry: "validator/family-closure", Site: "unendorsed-report-accepted", Gen: gname, Case: h,
						Detail: fmt.Sprintf("a fresh validator for family %s (clock expired: %v) over options of its own accepted measurement %x (%s), which nothing published under the name of that family's object lists", sp.fam, sp.expired, m.m, m.name)})
					got = false
				}
				if !got && want {
					c.Violate(core.Violation{Kind: "oracle", Entry: "validator/family-closure", Site: "result-differs-from-isolated-call", Gen: gname, Case: h,
						Detail: fmt.Sprintf("a fresh validator for family %s over options of its own rejected measurement %x (%s) although an authentic endorsement that lists it is published under the name of that family's object; in a process that has validated nothing else this call is accepted", sp.fam, m.m, m.name)})
					got = true
				}
				expect[vi] = append(expect[vi], got)
			}
		}
		shared := mkOpts(false)
		var sib *verify.Options
		fs := make([]func(*spb.Attestation, []byte) error, len(specs))
		var snap, sibSnap verifySnap
		create := func(vi int) {
			sp := specs[vi]
			o := shared
			if sp.expired {
				if sib == nil {
					cp := *shared // the caller copies its options value and moves the clock
					cp.Now = w.clock("expired")
					sib = &cp
					sibSnap = snapVerify(sib)
				}
				o = sib
			}
			fs[vi] = mkFunc(sp.fam, o)
			if vi == 0 {
				snap = snapVerify(shared) // after the first creation, which allocates Options.SNP when nil
			}
		}
		type frec struct {
			v, m     int
			accepted bool
		}
		var all []frec
		hung := false
		phase := func(avail []int) {
			per := 168 / gor
			type pl struct{ v, m int }
			plans := make([][]pl, gor)
			for gi := range plans {
				for j := 0; j < per; j++ {
					plans[gi] = append(plans[gi], pl{avail[r.IntN(len(avail))], r.IntN(len(ms))})
				}
			}
			recs := make([][]frec, gor)
			if parallel(gor, func(gi int) {
				for _, p := range plans[gi] {
					recs[gi] = append(recs[gi], frec{p.v, p.m, fs[p.v](att(ms[p.m].m), nil) == nil})
				}
			}) {
				hung = true
				return
			}
			for _, rr := range recs {
				all = append(all, rr...)
			}
			for _, vi := range avail { // successively: every validator on every measurement
				for mi := range ms {
					all = append(all, frec{vi, mi, fs[vi](att(ms[mi].m), nil) == nil})
				}
			}
		}
		var avail []int
		for vi := range specs {
			if vi < before || (sibling && vi == len(specs)-1 && before == len(order)) {
				create(vi)
				avail = append(avail, vi)
			}
		}
		phase(avail)
		if !hung && len(avail) < len(specs) {
			for vi := range specs {
				if fs[vi] == nil {
					create(vi) // nothing is running now
					avail = append(avail, vi)
				}
			}
			phase(avail)
		}
		if hung {
			hungViolation(c, h, gname, "family-closure")
			c.End(h)
			continue
		}
		c.Eval(len(all))
		c.Count("families:calls", len(all))
		if d := snap.diff(shared); d != "" {
			c.Violate(core.Violation{Kind: "oracle", Entry: "validator/family-closure", Site: "caller-options-modified-by-validation", Gen: gname, Case: h,
				Detail: "the options value shared by the validators changed while it was used: " + d})
		}
		if sib != nil {
			if d := sibSnap.diff(sib); d != "" {
				c.Violate(core.Violation{Kind: "oracle", Entry: "validator/family-closure", Site: "caller-options-modified-by-validation", Gen: gname, Case: h,
					Detail: "the sibling options value changed while it was used: " + d})
			}
		}
		diverged, first := 0, ""
		accBy := map[int]map[int]bool{}
		for _, fr := range all {
			want := expect[fr.v][fr.m]
			if fr.accepted != want {
				diverged++
				if first == "" {
					first = fmt.Sprintf("validator %d (family %s, clock expired: %v) on measurement %x (%s): %s, alone over options of its own %s",
						fr.v, specs[fr.v].fam, specs[fr.v].expired, ms[fr.m].m, ms[fr.m].name, accStr(fr.accepted), accStr(want))
				}
			}
			if accBy[fr.m] == nil {
				accBy[fr.m] = map[int]bool{}
			}
			accBy[fr.m][fr.v] = want
			pos := "made-in-between"
			switch {
			case fr.v == 0:
				pos = "made-first"
			case fr.v == len(specs)-1:
				pos = "made-last"
			}
			c.Cell("families|validator=%s expired=%v|%s|%s|%s", specs[fr.v].fam, specs[fr.v].expired, pos, ms[fr.m].name, accStr(want))
		}
		for _, by := range accBy {
			acc, rej := false, false
			for vi, a := range by {
				if !specs[vi].expired {
					acc, rej = acc || a, rej || !a
				}
			}
			if acc && rej {
				split++
				c.Count("families:measurements-accepted-by-one-family's-validator-and-rejected-by-another-over-the-same-options", 1)
			}
		}
		if diverged > 0 {
			c.Violate(core.Violation{Kind: "oracle", Entry: "validator/family-closure", Site: "result-differs-from-isolated-call", Gen: gname, Case: h,
				Detail: fmt.Sprintf("%d of %d calls returned a different result than the same validator alone over an options value of its own; first: %s", diverged, len(all), first)})
		}
		if k%4 == 0 {
			c.Sample(map[string]any{"history": gname, "calls": len(all), "diverged": diverged})
		}
		c.End(h)
	}
	c.Floor("families:some-measurement-accepted-by-one-family's-validator-and-rejected-by-another-over-the-same-options", split > 0)
}
