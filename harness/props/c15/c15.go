// Package c15: dry-run and measurement-only endorse runs have no side effects.
package c15

import (
	crand "crypto/rand"
	"crypto/sha256"
	"encoding/hex"
	"fmt"
	"io"
	"os"
	"path/filepath"
	"sort"
	"strings"
	"time"

	"github.com/google/gce-tcb-verifier/endorse"
	epb "github.com/google/gce-tcb-verifier/proto/endorsement"
	"github.com/google/gce-tcb-verifier/sev"
	"github.com/google/gce-tcb-verifier/tdx"
	"github.com/google/gce-tcb-verifier/testing/nonprod/localnonvcs"
	"google.golang.org/protobuf/proto"

	"verifharness/authority"
	"verifharness/core"
	"verifharness/doubles"
	"verifharness/gen/endreq"
)

func init() {
	core.Register(&core.Info{
		ID: "C15", Level: "exploration",
		Rule: "for each generated image, all 2^8 combinations of {dry-run, measurement-only, SNP, TDX, snapshot directory, candidate name, overwrite, explicit VMSA count} are run through endorse.VirtualFirmware with every component behind the recording doubles (version control with workspaces, key manager, signer, certificate authority, storage). " +
			"Oracle over the recorded call log: with dry-run no workspace is obtained and nothing is written, mode-changed or committed and the run returns (no panic); with measurement-only additionally no signer / certificate-authority / key-manager / storage call happens; " +
			"the measurements printed on stdout by a measurement-only run equal, value for value, the tables a real run over the same image and request signs. non-trivial = distinct (flag combination, outcome class) cells. " +
			"Added by the class audit and judged by the same rules (audit.go): sequences of runs in changing modes on ONE kept endorse.Context edited in place (and one kept command context) and on fresh values in one process, with failed real runs before dry ones and every double of the sequence watched; goroutines running mixed modes at the same time; options the matrix keeps fixed (no keys context, several back ends in VCSs, retries, output writer, keep-going, SVSM, directories, VMSA counts up to 1000, shape lists) on the recording doubles and on the file back end in prepared directories; the endorse command line through cmd.MakeApp with every spelling of --dry_run / --measurement_only, with recording components and with the shipped nonprod composition (directory trees compared); dry runs under failure bursts; the stored state of keys and authority (key directory of the file key manager, bucket of the file-backed authority) laid out in every form the readers accept besides the one the writers produce, in refused forms and with parts missing, under dry / measurement-only runs at library level and through the shipped command line, the whole directory compared entry by entry and the storage call log judged (aud_state.go); the call trace of a dry run taken without faults and then every call of it (authority, signer, storage, version control) failing in turn once, twice in a row or from there on in a fresh run, on the recording doubles (library and command line) and on the file-backed authority with its bucket present or absent: completion is not judged there, calls that create / change / destroy stored state of the authority or the keys, the object store and the directory tree are (aud_fault.go)",
		Assumptions: []string{"a dry run without measurement-only prints no measurements through the API, so only its side-effect clause is observable",
			"stdout is captured by swapping os.Stdout for a pipe around the call (the worker is single-threaded around it)"},
		ShardsQuick: 8, ShardsThor: 16, TimeoutS: 600, TimeoutThor: 3000, Run: run,
	})
}

// flakyReader fails its first read and then delegates to crypto/rand.
type flakyReader struct{ n int }

func (f *flakyReader) Read(p []byte) (int, error) {
	f.n++
	if f.n == 1 {
		return 0, fmt.Errorf("transient entropy failure")
	}
	return crand.Read(p)
}

var explicitCounts = []uint32{4, 3, 1, 6, 240, 7, 2, 255}

func captureStdout(f func()) string {
	old := os.Stdout
	r, w, err := os.Pipe()
	if err != nil {
		panic(err)
	}
	os.Stdout = w
	done := make(chan string)
	go func() { b, _ := io.ReadAll(r); done <- string(b) }()
	func() {
		defer func() { os.Stdout = old; w.Close() }()
		f()
	}()
	return <-done
}

func cloneReq(ec *endorse.Context) *endorse.Context {
	c := *ec
	if ec.SevSnp != nil {
		s := *ec.SevSnp
		c.SevSnp = &s
	}
	if ec.Tdx != nil {
		t := *ec.Tdx
		t.MachineShapes = append([]string(nil), ec.Tdx.MachineShapes...)
		c.Tdx = &t
	}
	c.VCSs = nil
	return &c
}

// printed parses the measurement-only output.
func printed(out string) (snp []string, tdxRows []string) {
	for _, l := range strings.Split(strings.TrimSpace(out), "\n") {
		l = strings.TrimSpace(l)
		if l == "" {
			continue
		}
		if strings.HasPrefix(l, "RAM:") {
			tdxRows = append(tdxRows, l)
		} else {
			snp = append(snp, l)
		}
	}
	sort.Strings(snp)
	sort.Strings(tdxRows)
	return
}

func expected(g *epb.VMGoldenMeasurement, vmsas uint32) (snp []string, tdxRows []string) {
	if g.SevSnp != nil {
		if vmsas != 0 {
			snp = append(snp, hex.EncodeToString(g.SevSnp.Measurements[vmsas]))
		} else {
			for k, m := range g.SevSnp.Measurements {
				snp = append(snp, fmt.Sprintf("%d %s", k, hex.EncodeToString(m)))
			}
		}
	}
	if g.Tdx != nil {
		for _, m := range g.Tdx.Measurements {
			tdxRows = append(tdxRows, fmt.Sprintf("RAM:%d UnacceptedMemory:%t MRTD:%s", m.RamGib, !m.EarlyAccept, hex.EncodeToString(m.Mrtd)))
		}
	}
	sort.Strings(snp)
	sort.Strings(tdxRows)
	return
}

func run(c *core.Ctx) {
	t0 := time.Date(2025, 1, 1, 0, 0, 0, 0, time.UTC)
	dir, _ := os.MkdirTemp("", "verif-c15-")
	defer os.RemoveAll(dir)
	a := authority.New(authority.MemKM, authority.GcscaMem, dir)
	if err := a.Bootstrap(&doubles.FCtl{}, authority.Opts{}, authority.DefaultBootstrap(t0)); err != nil {
		panic(err)
	}
	nimg := c.N(6, 60)
	dryOK, measOK, realOK := 0, 0, 0
	for im := 0; im < nimg; im++ {
		ri := c.Rand(1_000_000 + im)
		base := endreq.Random(ri, endreq.Opts{MaxImage: 128 << 10, CheapTDX: true}, im)
		if base.SevSnp == nil {
			base.SevSnp = &sev.SnpEndorsementRequest{}
		}
		if base.Tdx == nil {
			base.Tdx = &tdx.EndorsementRequest{}
		}
		// real runs (per technology subset and VMSA choice) are computed lazily and cached
		realTables := map[string]*epb.VMGoldenMeasurement{}
		for combo := 0; combo < 256; combo++ {
			idx := im*256 + combo
			if !c.Mine(idx) {
				continue
			}
			bit := func(n int) bool { return combo&(1<<n) != 0 }
			dry, mo, snp, tdxOn, snapshot, cand, overwrite, explicit := bit(0), bit(1), bit(2), bit(3), bit(4), bit(5), bit(6), bit(7)
			ec := cloneReq(base)
			ec.DryRun, ec.MeasurementOnly = dry, mo
			if !snp {
				ec.SevSnp = nil
			} else if explicit {
				// explicit counts include ones GCE does not sell (a real run signs whatever count is asked for)
				ec.SevSnp.LaunchVmsas = explicitCounts[(im+combo/128)%len(explicitCounts)]
			} else {
				ec.SevSnp.LaunchVmsas = 0
			}
			if !tdxOn {
				ec.Tdx = nil
			}
			if snapshot {
				ec.SnapshotDir = "snap"
			}
			if !cand {
				ec.CandidateName = ""
			}
			ec.OutDir = "out"
			gname := fmt.Sprintf("image#%d dry_run=%v measurement_only=%v snp=%v tdx=%v snapshot=%v candidate=%v overwrite=%v explicit_vmsas=%v", im, dry, mo, snp, tdxOn, snapshot, cand, overwrite, explicit)
			c.Begin(idx, gname, "endorse.VirtualFirmware", nil)
			f := &doubles.FCtl{}
			vcs := doubles.NewMemVCS(f)
			// pre-populate the head so that overwrite matters
			vcs.Head["out/"+base.CandidateName+".binarypb"] = []byte("old")
			ec.VCS = vcs
			before := len(vcs.Head)
			var err error
			var out string
			m := c.Guard(idx, "endorse.VirtualFirmware", gname, core.Budget{}, func() {
				out = captureStdout(func() { err = a.Endorse(f, authority.Opts{Overwrite: overwrite}, ec) })
			})
			if m.Panicked {
				c.End(idx)
				continue
			}
			noTech := !snp && !tdxOn
			cls := "error"
			if err == nil {
				cls = "ok"
			}
			var side, keyca []string
			for _, call := range f.Log {
				switch {
				case strings.HasPrefix(call.Name, "vcs.GetChangeOps"), strings.HasPrefix(call.Name, "vcs.Write"), strings.HasPrefix(call.Name, "vcs.SetBinaryWritable"), strings.HasPrefix(call.Name, "vcs.TryCommit"):
					side = append(side, call.Name)
				case strings.HasPrefix(call.Name, "signer."), strings.HasPrefix(call.Name, "ca."), strings.HasPrefix(call.Name, "manager."), strings.HasPrefix(call.Name, "storage."):
					keyca = append(keyca, call.Name)
				}
			}
			if dry || mo {
				if len(side) > 0 || vcs.Commits > 0 || len(vcs.Head) != before {
					c.Violate(core.Violation{Kind: "oracle", Entry: "endorse.VirtualFirmware", Site: "side-effect-in-dry-run-or-measurement-only", Gen: gname, Case: idx,
						Detail: fmt.Sprintf("calls with side effects: %v commits=%d", side, vcs.Commits), Witness: map[string]any{"log": f.Log}})
					cls = "SIDE-EFFECT"
				}
				if err != nil && !noTech {
					// the property says the run completes; a request with no technology is refused in every mode
					c.Violate(core.Violation{Kind: "oracle", Entry: "endorse.VirtualFirmware", Site: "dry-run-or-measurement-only-failed", Gen: gname, Case: idx, Detail: err.Error()})
					cls = "FAILED"
				}
			}
			if mo && len(keyca) > 0 {
				c.Violate(core.Violation{Kind: "oracle", Entry: "endorse.VirtualFirmware", Site: "measurement-only-touched-keys-or-ca", Gen: gname, Case: idx,
					Detail: fmt.Sprintf("calls: %v", keyca), Witness: map[string]any{"log": f.Log}})
				cls = "TOUCHED-KEYS"
			}
			if mo && err == nil && !noTech {
				// compare with what a real run signs
				key := fmt.Sprintf("%v/%v/%v/%d", snp, tdxOn, explicit, func() uint32 {
					if ec.SevSnp != nil {
						return ec.SevSnp.LaunchVmsas
					}
					return 0
				}())
				g, ok := realTables[key]
				if !ok {
					rc := cloneReq(ec)
					rc.DryRun, rc.MeasurementOnly, rc.SnapshotDir, rc.CandidateName = false, false, "", "real"
					rv := doubles.NewMemVCS(nil)
					rc.VCS = rv
					if rerr := a.Endorse(&doubles.FCtl{}, authority.Opts{Overwrite: true}, rc); rerr != nil {
						c.Oracle(idx, "endorse.VirtualFirmware", "real-run-failed", gname, "%v", rerr)
					} else {
						realOK++
						e := &epb.VMLaunchEndorsement{}
						proto.Unmarshal(rv.Head["out/real.binarypb"], e)
						g = &epb.VMGoldenMeasurement{}
						proto.Unmarshal(e.SerializedUefiGolden, g)
					}
					realTables[key] = g
					c.Eval(1)
				}
				if g != nil {
					var vm uint32
					if ec.SevSnp != nil {
						vm = ec.SevSnp.LaunchVmsas
					}
					ps, pt := printed(out)
					es, et := expected(g, vm)
					if strings.Join(ps, "\n") != strings.Join(es, "\n") || strings.Join(pt, "\n") != strings.Join(et, "\n") {
						c.Violate(core.Violation{Kind: "oracle", Entry: "endorse.VirtualFirmware", Site: "printed-measurements-differ-from-signed", Gen: gname, Case: idx,
							Detail: fmt.Sprintf("printed SNP %v TDX %v; a real run signs SNP %v TDX %v", ps, pt, es, et)})
						cls = "PRINT-MISMATCH"
					} else {
						measOK++
						c.Count("measurement-values-compared", len(es)+len(et))
					}
				}
			}
			if dry && err == nil {
				dryOK++
			}
			// the same run when its first attempt fails transiently (the random source errors once) and the back end calls
			// every error retriable: the retry of a dry run must be as free of side effects as its first attempt
			if dry && !mo && !noTech {
				f2 := &doubles.FCtl{}
				vcs2 := doubles.NewMemVCS(f2)
				vcs2.Retriable = true
				ec2 := cloneReq(ec)
				ec2.VCS, ec2.CommitRetries = vcs2, 2
				var err2 error
				c.Guard(idx, "endorse.VirtualFirmware", gname+" flaky-random", core.Budget{}, func() {
					captureStdout(func() { err2 = a.Endorse(f2, authority.Opts{Overwrite: overwrite, Random: &flakyReader{}}, ec2) })
				})
				var side2 []string
				for _, call := range f2.Log {
					if strings.HasPrefix(call.Name, "vcs.GetChangeOps") || strings.HasPrefix(call.Name, "vcs.Write") || strings.HasPrefix(call.Name, "vcs.SetBinaryWritable") || strings.HasPrefix(call.Name, "vcs.TryCommit") {
						side2 = append(side2, call.Name)
					}
				}
				if len(side2) > 0 || vcs2.Commits > 0 {
					c.Violate(core.Violation{Kind: "oracle", Entry: "endorse.VirtualFirmware", Site: "side-effect-in-dry-run-or-measurement-only", Gen: gname + " flaky-random", Case: idx,
						Detail: fmt.Sprintf("dry run whose first attempt failed transiently (err of the run: %v): calls with side effects %v commits=%d", err2, side2, vcs2.Commits)})
				}
				c.Cell("dry-retry|snapshot=%v|err=%v|side-effects=%v", snapshot, err2 != nil, len(side2) > 0)
			}
			// the same request against the shipped file back end (testing/nonprod/localnonvcs, what the command line
			// composes): the directory tree under its root is compared before and after. The output directory does not
			// exist yet in half of the cases (a first release into a new directory), otherwise it holds an older candidate.
			if (dry || mo) && !noTech {
				root, _ := os.MkdirTemp("", "verif-c15-root-")
				fresh := (combo/2+im)%2 == 0
				if !fresh {
					os.MkdirAll(filepath.Join(root, "out"), 0o755)
					os.WriteFile(filepath.Join(root, "out", base.CandidateName+".binarypb"), []byte("old"), 0o644)
					os.WriteFile(filepath.Join(root, "out", "manifest.textproto"), []byte("# old\n"), 0o644)
				}
				treeBefore := tree(root)
				ec3 := cloneReq(ec)
				ec3.VCS = &localnonvcs.T{Root: root}
				var err3 error
				c.Guard(idx, "endorse.VirtualFirmware", gname+" file-back-end", core.Budget{}, func() {
					captureStdout(func() { err3 = a.Endorse(&doubles.FCtl{}, authority.Opts{Overwrite: overwrite}, ec3) })
				})
				treeAfter := tree(root)
				if d := treeDiff(treeBefore, treeAfter); d != "" {
					c.Violate(core.Violation{Kind: "oracle", Entry: "endorse.VirtualFirmware", Site: "file-tree-changed-in-dry-run-or-measurement-only", Gen: gname + " file-back-end", Case: idx,
						Detail: fmt.Sprintf("output root (out directory %s before the run; run returned %v): %s", map[bool]string{true: "absent", false: "present"}[fresh], err3, d)})
					cls = "FILE-TREE-CHANGED"
				}
				c.Cell("file-back-end|dry=%v|mo=%v|snapshot=%v|out-dir-existed=%v|err=%v", dry, mo, snapshot, !fresh, err3 != nil)
				c.Count("runs-against-the-file-back-end-with-tree-compared", 1)
				os.RemoveAll(root)
			}
			c.Cell("dry=%v|mo=%v|snp=%v|tdx=%v|snapshot=%v|cand=%v|overwrite=%v|explicit=%v|%s", dry, mo, snp, tdxOn, snapshot, cand, overwrite, explicit, cls)
			if combo%61 == 0 {
				c.Sample(map[string]any{"case": gname, "error": fmt.Sprint(err), "calls_logged": len(f.Log), "stdout_lines": len(strings.Split(strings.TrimSpace(out), "\n"))})
			}
			c.End(idx)
		}
	}
	c.Count("dry-runs-completed", dryOK)
	c.Count("measurement-only-runs-compared-with-real-run", measOK)
	c.Floor("dry-runs-completed", dryOK > 0)
	c.Floor("measurement-only-compared", measOK > 0)
	// the dimensions added by the class audit (audit.go): case numbers from auditBase on
	runAudit(c, a)
	cleanupNonprod()
}

// tree lists every entry under root with its kind, mode and contents.
func tree(root string) map[string]string {
	out := map[string]string{}
	filepath.Walk(root, func(p string, info os.FileInfo, err error) error {
		if err != nil {
			return nil
		}
		rel, _ := filepath.Rel(root, p)
		if info.IsDir() {
			out[rel] = "dir " + info.Mode().String()
			return nil
		}
		b, _ := os.ReadFile(p)
		out[rel] = fmt.Sprintf("file %s %d bytes %x", info.Mode(), len(b), sha256.Sum256(b))
		return nil
	})
	return out
}

func treeDiff(a, b map[string]string) string {
	var d []string
	for k, v := range b {
		if av, ok := a[k]; !ok {
			d = append(d, "created "+k+" ("+strings.SplitN(v, " ", 2)[0]+")")
		} else if av != v {
			d = append(d, "changed "+k)
		}
	}
	for k := range a {
		if _, ok := b[k]; !ok {
			d = append(d, "removed "+k)
		}
	}
	sort.Strings(d)
	return strings.Join(d, "; ")
}
