package c15

// Faults at every point of a dry run (added after the fifth review round).
//
// The earlier families inject faults into a dry run at a handful of places only (the random source of the snapshot's
// event GUID, one named authority / signer call in a tenth of the failure bursts) and, outside the stored-state family,
// judge nothing but version control when they do: what a dry run does to its AUTHORITY, KEY MANAGER and their STORAGE
// while it handles an error was not looked at. This family enumerates the points:
//
//   probe            the dry run without any fault: its call trace (authority, signer, key manager, storage, version
//                    control, in the order made) gives the positions
//   fault positions  EVERY position of that trace (the first primary-key lookup, the manifest read behind it, the
//                    certificate and bundle lookups and their object reads, the signature, ...), one fresh run per
//                    position and schedule
//   schedules        the call at the position fails once (transient: a second attempt would succeed) | that call and
//                    the next one fail | every call from there on fails (persistent)
//   backing          the shared bootstrapped authority (gcsca over the in-memory store) behind the recording doubles,
//                    through endorse.VirtualFirmware and through the command line (cmd.MakeApp); and the file-backed
//                    authority + file key manager (gcsca over storage/local, localkm) in a prepared directory with the
//                    bucket present, the bucket directory absent, or the authority's root directory absent
//   options          snapshot / manifest mode, one or two back ends, retriable errors or not, 0..2 commit retries
//
// Oracle (rule names of the other families): whether a faulted dry run completes is NOT judged (the property promises
// completion, not fault tolerance). That it has no side effect is: no workspace / write / mode change / commit on any
// version-control double and no changed head; no call that creates, changes or destroys stored state of the authority or
// the keys (authority Finalize / Wipeout / PrepareResources, storage write / wipe-out / bucket creation, key-manager
// create / destroy) that took effect — a call that itself was answered by the injected fault had no effect and is not
// counted; the object store unchanged object by object (side-effect-in-dry-run-or-measurement-only); and, on the file
// backing, the whole case directory unchanged entry by entry (file-tree-changed-in-dry-run-or-measurement-only).

import (
	"crypto/sha256"
	"fmt"
	"os"
	"math/rand/v2"
	"path/filepath"
	"strings"

	"github.com/google/gce-tcb-verifier/endorse"
	"github.com/google/gce-tcb-verifier/testing/nonprod/localnonvcs"

	"verifharness/authority"
	"verifharness/core"
	"verifharness/doubles"
	"verifharness/gen/endreq"
)

const maxFaultPositions = 16

var faultSchedules = []string{"once", "twice-in-a-row", "from-there-on"}

// storeState describes every object of the in-memory store.
func storeState(s *doubles.MemStore) map[string]string {
	out := map[string]string{}
	if s == nil {
		return out
	}
	for _, k := range s.Keys() {
		out[k] = fmt.Sprintf("file %d bytes %x", len(s.Objs[k]), sha256.Sum256(s.Objs[k]))
	}
	return out
}

// tookEffect drops the calls that were answered by an injected fault (they did nothing).
func tookEffect(calls []doubles.Call) []doubles.Call {
	var out []doubles.Call
	for _, c := range calls {
		if c.Result == "injected-error" || c.Result == "crash-before" {
			continue
		}
		out = append(out, c)
	}
	return out
}

// callKind strips the argument of a logged call, keeping which object of the authority a storage read is for.
func callKind(name string) string {
	head, arg, ok := strings.Cut(name, ":")
	if !ok || !strings.HasPrefix(head, "storage.") {
		return head
	}
	switch {
	case strings.HasSuffix(arg, "keyManifest.textproto"):
		return head + ":manifest"
	case arg == authority.RootPath:
		return head + ":root certificate"
	case strings.HasSuffix(arg, ".crt"):
		return head + ":signing certificate"
	}
	return head + ":other"
}

type faultRun struct {
	err      error
	calls    []doubles.Call // the run's calls on every double, in order
	changed  string         // changed committed state / object store ("" = none)
	treeDiff string         // file backing: difference of the case directory
	panicked bool
}

func (au *aud) faultCase(i, k int) {
	c := au.c
	r := c.Rand(i)
	req := endreq.Random(r, endreq.Opts{MaxImage: 64 << 10, AllowNoTDX: true, CheapTDX: true}, k)
	req.OutDir, req.DryRun, req.MeasurementOnly = "out", true, false
	if r.IntN(2) == 0 {
		req.SnapshotDir = "snap"
	}
	req.CommitRetries = r.IntN(3)
	retriable := r.IntN(2) == 0
	two := r.IntN(3) == 0
	overwrite := r.IntN(2) == 0
	backing := []string{"recording doubles", "file-backed authority", "recording doubles through the command line"}[k%3]
	layout := ""
	if backing == "file-backed authority" {
		layout = []string{"bucket present", "bucket directory absent", "bucket present", "authority root directory absent"}[(k/3)%4]
	}
	if backing == "recording doubles through the command line" {
		// what the command line cannot express or needs side files for
		req.SvsmSnpMeasurement = nil
		if req.SevSnp != nil {
			req.SevSnp.Svn = 0
		}
		if req.Tdx != nil {
			req.Tdx.Svn = 0
		}
		two = false
	}
	// the second schedule of every position, drawn before anything runs (the case's stream does not depend on outcomes)
	var second [maxFaultPositions]int
	for p := range second {
		second[p] = r.IntN(3) // 0 = none, 1 = twice-in-a-row, 2 = from-there-on
	}
	flagOrder := r.Uint64()

	dir, _ := os.MkdirTemp("", "verif-c15-fault-")
	defer os.RemoveAll(dir)
	img := filepath.Join(dir, "work", req.ImageName)
	os.MkdirAll(filepath.Join(dir, "work"), 0o755)
	os.WriteFile(img, req.Image, 0o644)
	root := filepath.Join(dir, "holder", "root")
	os.MkdirAll(filepath.Join(root, "out"), 0o755)
	os.WriteFile(filepath.Join(root, "out", req.CandidateName+".binarypb"), []byte("older"), 0o644)

	// the file backing: the process's bootstrapped and once-rotated state, as its writers left it
	var st *stState
	var disk *authority.Assembly
	if backing == "file-backed authority" {
		t := au.stateTemplate()
		st = &stState{files: map[string]stFile{}, layout: "as-is"}
		for n, b := range t.files {
			st.files[n] = stFile{b, 0o644}
		}
		switch layout {
		case "bucket directory absent":
			for n := range st.files {
				if strings.HasPrefix(n, "ca/") {
					delete(st.files, n)
				}
			}
			st.dirs = append(st.dirs, "ca")
		case "authority root directory absent":
			for n := range st.files {
				if strings.HasPrefix(n, "ca/") {
					delete(st.files, n)
				}
			}
		}
		st.lay(dir)
		disk = assemblyAt(dir)
	}

	gbase := fmt.Sprintf("fault positions#%d dry run on %s%s, snapshot=%v, back ends=%d, errors retriable=%v, commit_retries=%d, overwrite=%v, tech %s", k, backing,
		map[bool]string{true: " (" + layout + ")", false: ""}[layout != ""], req.SnapshotDir != "", map[bool]int{false: 1, true: 2}[two], retriable, req.CommitRetries, overwrite, techName(req))
	c.Begin(i, gbase, entryVF, nil)
	defer c.End(i)
	entry := entryVF
	if backing == "recording doubles through the command line" {
		entry = entryCLI
	}

	// one run with the given faults (positions counted from the first call of the run)
	runOnce := func(gname string, faultAt []int) faultRun {
		var fr faultRun
		w := &world{}
		f := w.newF()
		mk := func() *doubles.MemVCS {
			v := w.newVCS(f, "out/"+req.CandidateName+".binarypb")
			v.Retriable = retriable
			return v
		}
		ec := deepClone(req)
		var cliVCS endorse.VersionControl
		switch {
		case backing == "file-backed authority":
			ec.VCS = &localnonvcs.T{Root: root}
		case two:
			ec.VCSs = []endorse.VersionControl{mk(), mk()}
		default:
			v := mk()
			ec.VCS, cliVCS = v, v
		}
		arm := func(from int) {
			if len(faultAt) == 0 {
				return
			}
			f.Faults = map[int]string{}
			for _, p := range faultAt {
				f.Faults[from+p+1] = doubles.FaultError
			}
		}
		m := w.mark()
		from := 0
		var before map[string]string
		var g core.Measured
		switch backing {
		case "file-backed authority":
			st.relay(dir)
			ctx, cerr := disk.Context(f, authority.Opts{Overwrite: overwrite}) // loads the key directory: set-up, not part of the run
			if cerr != nil {
				panic(fmt.Sprintf("fault positions: the key directory as written does not load: %v", cerr))
			}
			from = len(f.Log)
			arm(from)
			before = tree(dir)
			g = c.Guard(i, entry, gname, core.Budget{}, func() {
				captureStdout(func() { fr.err = endorse.VirtualFirmware(endorse.NewContext(ctx, ec)) })
			})
			fr.treeDiff = treeDiff(before, tree(dir))
		case "recording doubles":
			before = storeState(au.a.MemStore)
			arm(0)
			g = c.Guard(i, entry, gname, core.Budget{}, func() {
				captureStdout(func() { fr.err = au.a.Endorse(f, authority.Opts{Overwrite: overwrite}, ec) })
			})
			fr.changed = treeDiff(before, storeState(au.a.MemStore))
		default:
			before = storeState(au.a.MemStore)
			arm(0)
			groups := append(requestFlags(ec, img), []string{"--dry_run"}, []string{"--quiet"})
			if overwrite {
				groups = append(groups, []string{"--overwrite"})
			}
			args := append([]string{"endorse"}, flatten(rand.New(rand.NewPCG(flagOrder, 15)), groups)...)
			g = c.Guard(i, entry, gname, core.Budget{}, func() {
				captureStdout(func() { fr.err = au.runCLI(f, cliVCS, args) })
			})
			fr.changed = treeDiff(before, storeState(au.a.MemStore))
		}
		fr.panicked = g.Panicked
		calls, headChanged := w.since(m)
		if from > 0 && from <= len(calls) {
			calls = calls[from:]
		}
		fr.calls = calls
		if fr.changed != "" {
			fr.changed = "object store of the authority: " + fr.changed
		}
		if headChanged != "" {
			fr.changed = strings.TrimPrefix(fr.changed+"; "+headChanged, "; ")
		}
		return fr
	}

	// judgeRun applies the no-side-effect clause to one run; completion is not judged in this family.
	judgeRun := func(gname string, fr faultRun) string {
		eff := tookEffect(fr.calls)
		changed := fr.changed
		if w := stateWrites(eff); len(w) > 0 {
			changed = strings.TrimPrefix(changed+"; stored state of keys / authority touched by "+fmt.Sprint(w), "; ")
		}
		cls := au.judge(i, gname, seen{entry: entry, dry: true, excused: true, err: fr.err, calls: eff, changed: changed})
		if fr.treeDiff != "" {
			c.Violate(core.Violation{Kind: "oracle", Entry: entry, Site: "file-tree-changed-in-dry-run-or-measurement-only", Gen: gname, Case: i,
				Detail: fmt.Sprintf("case directory with key directory, authority bucket and output root (run returned %v): %s", fr.err, fr.treeDiff), Witness: map[string]any{"calls": fr.calls}})
			cls = "FILE-TREE-CHANGED"
		}
		if backing == "file-backed authority" {
			c.Count("runs-against-the-file-back-end-with-tree-compared", 1)
		}
		return cls
	}

	// ---- the probe: no fault
	probe := runOnce(gbase+" | no fault", nil)
	if probe.panicked {
		return
	}
	pcls := judgeRun(gbase+" | no fault", probe)
	au.nFaultProbe++
	if probe.err == nil {
		au.nFaultProbeCompleted++
	}
	c.Cell("fault positions|%s|%s|no fault|trace of %d calls|completed=%v|%s", backing, layout, len(probe.calls), probe.err == nil, pcls)
	c.Max("audit/fault-positions-longest-dry-run-trace", int64(len(probe.calls)))

	// ---- every position of the probe's trace
	n := len(probe.calls)
	if n > maxFaultPositions {
		n = maxFaultPositions
		c.Count("audit/fault-positions-trace-longer-than-enumerated", 1)
	}
	for p := 0; p < n; p++ {
		at := probe.calls[p].Name
		scheds := []int{0}
		if second[p] != 0 {
			scheds = append(scheds, second[p])
		}
		for _, sc := range scheds {
			var faultAt []int
			switch sc {
			case 0:
				faultAt = []int{p}
			case 1:
				faultAt = []int{p, p + 1}
			default:
				for q := p; q < p+64; q++ {
					faultAt = append(faultAt, q)
				}
			}
			gname := fmt.Sprintf("%s | call #%d of the run (%s) fails %s", gbase, p+1, at, faultSchedules[sc])
			fr := runOnce(gname, faultAt)
			if fr.panicked {
				continue
			}
			cls := judgeRun(gname, fr)
			au.nFault++
			reached := p < len(fr.calls) && fr.calls[p].Result == "injected-error" && fr.calls[p].Name == at
			if reached {
				au.nFaultReached++
				if p == 0 {
					au.nFaultFirstLookup++
				}
			} else {
				c.Count("audit/fault-positions-runs-whose-trace-differed-from-the-probe", 1)
			}
			outcome := "failed"
			if fr.err == nil {
				outcome = "completed"
			}
			c.Cell("fault positions|%s|%s|%s fails %s|%s|%s", backing, layout, callKind(at), faultSchedules[sc], outcome, cls)
		}
	}
}
