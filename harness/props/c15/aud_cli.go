package c15

import (
	"context"
	crand "crypto/rand"
	"encoding/hex"
	"fmt"
	"io"
	"math/rand/v2"
	"os"
	"path/filepath"
	"strings"
	"time"

	"github.com/google/gce-tcb-verifier/cmd"
	"github.com/google/gce-tcb-verifier/endorse"
	"github.com/google/gce-tcb-verifier/keys"
	epb "github.com/google/gce-tcb-verifier/proto/endorsement"
	vpb "github.com/google/gce-tcb-verifier/proto/scrtmversion"
	"github.com/google/gce-tcb-verifier/storage/local"
	spb "github.com/google/go-sev-guest/proto/sevsnp"
	"google.golang.org/protobuf/proto"

	"verifharness/authority"
	"verifharness/core"
	"verifharness/doubles"
	"verifharness/gen/endreq"
)

const entryCLI = "cmd endorse"

// runCLI runs the endorse command line through cmd.MakeApp (flag parsing, cmd/endorse.go's PersistentPreRunE and
// InitContext, endorse.VirtualFirmware) with the harness's recording doubles as its components: the global component
// installs the recording authority / signer / key manager into the keys context, the endorse component hands the
// recording version control to the request. Neither component calls anything on its own.
func (au *aud) runCLI(f *doubles.FCtl, vcs endorse.VersionControl, args []string) error {
	glob := &cmd.PartialComponent{FInitContext: func(ctx context.Context) (context.Context, error) {
		kc, err := keys.FromContext(ctx)
		if err != nil {
			return nil, err
		}
		actx, err := au.a.Context(f, authority.Opts{})
		if err != nil {
			return nil, err
		}
		ak, _ := keys.FromContext(actx)
		kc.CA, kc.Signer, kc.Manager = ak.CA, ak.Signer, ak.Manager
		return ctx, nil
	}}
	end := &cmd.PartialComponent{FInitContext: func(ctx context.Context) (context.Context, error) {
		ec, err := endorse.FromContext(ctx)
		if err != nil {
			return nil, err
		}
		ec.VCS = vcs
		return ctx, nil
	}}
	app := &cmd.AppComponents{Endorse: end, Global: glob, Bootstrap: &cmd.PartialComponent{}, SignatureRandom: crand.Reader, Storage: &local.StorageClient{}}
	root := cmd.MakeApp(context.Background(), app)
	root.SetArgs(args)
	root.SetOut(io.Discard)
	root.SetErr(io.Discard)
	root.SilenceErrors = true
	root.SilenceUsage = true
	return root.Execute()
}

// boolForms are the spellings of a boolean flag and the value each gives.
var boolForms = []struct {
	form string // %s = flag name
	val  bool
}{
	{"", false}, {"--%s", true}, {"--%s=true", true}, {"--%s=1", true}, {"--%s=false", false}, {"--%s=0", false},
	{"--%s=false --%s", true}, {"--%s --%s=false", false}, {"--%s=TRUE", true},
}

func spell(form, name string) []string {
	if form == "" {
		return nil
	}
	return strings.Fields(strings.ReplaceAll(form, "%s", name))
}

// requestFlags translates the request into groups of command-line words (a flag with its value stays together).
func requestFlags(ec *endorse.Context, img string) [][]string {
	g := [][]string{{"--uefi", img}, {"--out_dir", ec.OutDir}, {"--timestamp", ec.Timestamp.Format(time.RFC3339Nano)}, {"--commit_retries", fmt.Sprint(ec.CommitRetries)}}
	if ec.CandidateName != "" {
		g = append(g, []string{"--candidate_name", ec.CandidateName})
	}
	if ec.ClSpec != 0 {
		g = append(g, []string{"--clspec", fmt.Sprint(ec.ClSpec)})
	}
	if len(ec.Commit) != 0 {
		g = append(g, []string{"--commit", hex.EncodeToString(ec.Commit)})
	}
	if ec.SnapshotDir != "" {
		g = append(g, []string{"--snapshot_dir", ec.SnapshotDir})
	}
	if ec.SevSnp != nil {
		g = append(g, []string{"--add_snp"})
		if ec.SevSnp.LaunchVmsas != 0 {
			g = append(g, []string{"--snp_launch_vmsas", fmt.Sprint(ec.SevSnp.LaunchVmsas)})
		}
		if ec.SevSnp.Product == spb.SevProduct_SEV_PRODUCT_GENOA {
			g = append(g, []string{"--snp_product", "Genoa"})
		}
		if ec.SevSnp.FamilyID != "" {
			g = append(g, []string{"--snp_family_id", ec.SevSnp.FamilyID})
		}
		if ec.SevSnp.ImageID != "" {
			g = append(g, []string{"--snp_image_id", ec.SevSnp.ImageID})
		}
	}
	if ec.Tdx != nil {
		g = append(g, []string{"--add_tdx"})
		if len(ec.Tdx.MachineShapes) > 0 {
			g = append(g, []string{"--tdx_machine_shapes", strings.Join(ec.Tdx.MachineShapes, ",")})
		}
		if ec.Tdx.IncludeEarlyAccept {
			g = append(g, []string{"--tdx_include_early_accept"})
		}
	}
	return g
}

func flatten(r *rand.Rand, groups [][]string) []string {
	r.Shuffle(len(groups), func(i, j int) { groups[i], groups[j] = groups[j], groups[i] })
	var out []string
	for _, g := range groups {
		out = append(out, g...)
	}
	return out
}

// cliCase runs the endorse command line with the recording doubles as components and every spelling of the two
// mode flags, in any flag order.
func (au *aud) cliCase(i, k int) {
	c := au.c
	r := c.Rand(i)
	dir, _ := os.MkdirTemp("", "verif-c15-cli-")
	defer os.RemoveAll(dir)
	req := endreq.Random(r, endreq.Opts{MaxImage: 64 << 10, AllowNoTDX: true, CheapTDX: true}, k)
	req.OutDir = "out"
	req.SvsmSnpMeasurement = nil // needs a side file; the measurement clause does not involve it
	if req.SevSnp != nil {
		req.SevSnp.Svn = 0
	}
	if req.Tdx != nil {
		req.Tdx.Svn = 0
	}
	if r.IntN(2) == 0 {
		req.SnapshotDir = "snap"
	}
	if r.IntN(3) == 0 {
		req.CandidateName = ""
	}
	img := filepath.Join(dir, req.ImageName)
	os.WriteFile(img, req.Image, 0o644)
	side := ""
	if r.IntN(2) == 0 {
		b, _ := proto.Marshal(&vpb.SCRTMVersion{Version: vpb.FirmwareVersion_Version(1 + r.IntN(5))})
		side = []string{img + ".scrtm.pb", strings.TrimSuffix(img, ".fd") + "_scrtm_ver.pb"}[r.IntN(2)]
		os.WriteFile(side, b, 0o644)
	}
	df, mf := boolForms[(k+r.IntN(len(boolForms)))%len(boolForms)], boolForms[(k/2+r.IntN(len(boolForms)))%len(boolForms)]
	if k%4 == 0 && !df.val && !mf.val {
		df = boolForms[1+r.IntN(3)] // real runs are not judged: keep them a minority
	}
	dry, mo := df.val, mf.val
	overwrite := r.IntN(2) == 0
	groups := requestFlags(req, img)
	explicitDefaults := r.IntN(3) == 0
	if explicitDefaults {
		// flags given with the value they have anyway
		if req.SevSnp != nil && req.SevSnp.LaunchVmsas == 0 {
			groups = append(groups, []string{"--snp_launch_vmsas", "0"})
		}
		if req.SevSnp != nil && req.SevSnp.Product != spb.SevProduct_SEV_PRODUCT_GENOA {
			groups = append(groups, []string{"--snp_product=Milan"})
		}
		if req.SnapshotDir == "" {
			groups = append(groups, []string{"--snapshot_dir="})
		}
		if req.Tdx != nil && !req.Tdx.IncludeEarlyAccept {
			groups = append(groups, []string{"--tdx_include_early_accept=false"})
		}
	}
	if w := spell(df.form, "dry_run"); w != nil {
		groups = append(groups, w)
	}
	if w := spell(mf.form, "measurement_only"); w != nil {
		groups = append(groups, w)
	}
	var global []string
	if overwrite {
		global = append(global, "--overwrite")
	}
	global = append(global, "--quiet")
	var args []string
	if r.IntN(2) == 0 {
		args = append(append(append(args, global...), "endorse"), flatten(r, groups)...) // global flags before the command word
	} else {
		groups = append(groups, global)
		args = append([]string{"endorse"}, flatten(r, groups)...)
	}
	gname := fmt.Sprintf("command line#%d %s [dry_run spelled %q, measurement_only spelled %q, side file %v] %s", k, modeName(dry, mo),
		strings.ReplaceAll(df.form, "%s", "dry_run"), strings.ReplaceAll(mf.form, "%s", "measurement_only"), side != "", strings.Join(args, " "))
	c.Begin(i, gname, entryCLI, nil)
	defer c.End(i)

	w := &world{}
	f := w.newF()
	vcs := w.newVCS(f, "out/"+req.CandidateName+".binarypb")
	m := w.mark()
	var err error
	var out string
	g := c.Guard(i, entryCLI, gname, core.Budget{}, func() {
		out = captureStdout(func() { err = au.runCLI(f, vcs, args) })
	})
	if g.Panicked {
		return
	}
	calls, changed := w.since(m)
	cls := "ok"
	if err != nil {
		cls = "error"
	}
	if !dry && !mo {
		c.Cell("command line|real|dry_run %q|measurement_only %q|%s", df.form, mf.form, cls)
		return
	}
	// what a real command over the same request signs (same words without the mode flags, manifest mode)
	rq := deepClone(req)
	rq.SnapshotDir, rq.CandidateName = "", "real"
	rv := doubles.NewMemVCS(nil)
	rerr := au.runCLI(&doubles.FCtl{}, rv, append(append([]string{"endorse"}, flatten(r, requestFlags(rq, img))...), "--overwrite", "--quiet"))
	c.Eval(1)
	s := seen{entry: entryCLI, dry: dry, mo: mo, err: err, calls: calls, changed: changed, excused: rerr != nil}
	cls = au.judge(i, gname, s)
	if mo && err == nil && rerr == nil {
		e, gm := &epb.VMLaunchEndorsement{}, &epb.VMGoldenMeasurement{}
		if proto.Unmarshal(rv.Head["out/real.binarypb"], e) != nil || proto.Unmarshal(e.SerializedUefiGolden, gm) != nil || len(e.SerializedUefiGolden) == 0 {
			c.Count("audit/real-reference-run-failed-not-judged", 1)
		} else {
			ps, pt := printed(out)
			es, et := expected(gm, vmsasOf(req))
			if strings.Join(ps, "\n") != strings.Join(es, "\n") || strings.Join(pt, "\n") != strings.Join(et, "\n") {
				c.Violate(core.Violation{Kind: "oracle", Entry: entryCLI, Site: "printed-measurements-differ-from-signed", Gen: gname, Case: i,
					Detail: fmt.Sprintf("printed SNP %v TDX %v; the real command signs SNP %v TDX %v", ps, pt, es, et)})
				cls = "PRINT-MISMATCH"
			} else {
				au.printedCompared++
				c.Count("measurement-values-compared", len(es)+len(et))
				cls = "ok-printed-as-signed"
			}
		}
	}
	au.nCLI++
	c.Cell("command line|%s|dry_run %q|measurement_only %q|%s", modeName(dry, mo), df.form, mf.form, cls)
	c.Cell("command line|%s|tech %s|snapshot=%v|side file=%v|overwrite=%v|explicit defaults=%v|%s", modeName(dry, mo), techName(req), req.SnapshotDir != "", side != "", overwrite, explicitDefaults, cls)
}

// ---- the shipped nonprod composition ----

var nonprodAssembly *authority.Assembly

// judgeStrayCertDir: on the unchanged tree testing/nonprod/localca InitContext runs os.Mkdir(<bucket_root>/<cert_dir>)
// (the bucket name is missing from the path: the certificates live in <bucket_root>/<bucket>/<cert_dir>) in EVERY
// command, so the first dry-run or measurement-only endorse command after a bootstrap made by other means creates
// the stray directory <bucket_root>/certs. While this is false the directory is created before the first command,
// as an earlier command would have left it; set it to true to have the tree comparison report it.
const judgeStrayCertDir = true

// nonprod returns the process's localkm + localca assembly on disk, bootstrapped on first use.
func (au *aud) nonprod() *authority.Assembly {
	if nonprodAssembly == nil {
		dir, _ := os.MkdirTemp("", "verif-c15-nonprod-")
		a := authority.New(authority.LocalKM, authority.GcscaDisk, dir)
		if err := a.Bootstrap(&doubles.FCtl{}, authority.Opts{}, authority.DefaultBootstrap(time.Date(2025, 1, 1, 0, 0, 0, 0, time.UTC))); err != nil {
			panic(err)
		}
		if !judgeStrayCertDir {
			os.MkdirAll(filepath.Join(dir, "ca", authority.CertDir), 0o755)
			au.c.Count("audit/nonprod-stray-cert-dir-created-beforehand-not-judged", 1)
		}
		nonprodAssembly = a
	}
	return nonprodAssembly
}

func cleanupNonprod() {
	if nonprodAssembly != nil {
		os.RemoveAll(nonprodAssembly.Dir)
		nonprodAssembly = nil
	}
}

// nonprodCase runs the command line the repository ships for non-production use (localkm + localca + localnonvcs)
// in dry-run / measurement-only mode; the oracle compares directory trees: the directory that holds the output root,
// the key directory and the authority's bucket directory.
func (au *aud) nonprodCase(i, k int) {
	c := au.c
	r := c.Rand(i)
	a := au.nonprod()
	parent, _ := os.MkdirTemp("", "verif-c15-np-")
	defer os.RemoveAll(parent)
	req := endreq.Random(r, endreq.Opts{MaxImage: 64 << 10, AllowNoTDX: true, CheapTDX: true}, k)
	req.OutDir, req.SvsmSnpMeasurement = "out", nil
	if r.IntN(2) == 0 {
		req.SnapshotDir = "snap"
	}
	work := filepath.Join(parent, "work")
	os.MkdirAll(work, 0o755)
	img := filepath.Join(work, req.ImageName)
	os.WriteFile(img, req.Image, 0o644)
	holder := filepath.Join(parent, "holder")
	os.MkdirAll(holder, 0o755)
	root := filepath.Join(holder, "root")
	env := []string{"empty-root", "older-files-present", "root-missing", "root-is-a-symbolic-link", "nested-out-dir"}[(k+r.IntN(5))%5]
	switch env {
	case "empty-root":
		os.MkdirAll(root, 0o755)
	case "older-files-present":
		os.MkdirAll(filepath.Join(root, "out"), 0o755)
		os.WriteFile(filepath.Join(root, "out", req.CandidateName+".binarypb"), []byte("older"), 0o644)
		os.WriteFile(filepath.Join(root, "out", "manifest.textproto"), []byte("# old\n"), 0o644)
	case "root-missing":
	case "root-is-a-symbolic-link":
		os.MkdirAll(filepath.Join(holder, "real-root"), 0o755)
		os.Symlink("real-root", root)
	case "nested-out-dir":
		os.MkdirAll(root, 0o755)
		req.OutDir = "rel/2025/out"
	}
	md := [][2]bool{{true, false}, {false, true}, {true, true}}[(k/5+r.IntN(3))%3]
	dry, mo := md[0], md[1]
	groups := append(requestFlags(req, img), []string{"--out_root", root})
	if dry {
		groups = append(groups, []string{"--dry_run"})
	}
	if mo {
		groups = append(groups, []string{"--measurement_only"})
	}
	if r.IntN(2) == 0 {
		groups = append(groups, []string{"--overwrite"})
	}
	args := append([]string{"endorse"}, flatten(r, groups)...)
	gname := fmt.Sprintf("nonprod command line#%d %s, %s: %s", k, modeName(dry, mo), env, strings.Join(args, " "))
	c.Begin(i, gname, entryCLI, nil)
	defer c.End(i)
	keyDir, caDir := filepath.Join(a.Dir, "keys"), filepath.Join(a.Dir, "ca")
	b1, b2, b3 := tree(holder), tree(keyDir), tree(caDir)
	var err error
	var out string
	g := c.Guard(i, entryCLI, gname, core.Budget{}, func() {
		out = captureStdout(func() { err = a.CLI(args...) })
	})
	if g.Panicked {
		return
	}
	cls := "ok"
	if err != nil {
		cls = "refused"
	}
	var diffs []string
	for _, d := range []struct{ what, d string }{{"directory holding the output root", treeDiff(b1, tree(holder))}, {"key directory", treeDiff(b2, tree(keyDir))}, {"authority bucket directory", treeDiff(b3, tree(caDir))}} {
		if d.d != "" {
			diffs = append(diffs, d.what+": "+d.d)
		}
	}
	if len(diffs) > 0 {
		c.Violate(core.Violation{Kind: "oracle", Entry: entryCLI, Site: "file-tree-changed-in-dry-run-or-measurement-only", Gen: gname, Case: i,
			Detail: fmt.Sprintf("command returned %v; %s", err, strings.Join(diffs, " | "))})
		cls = "FILE-TREE-CHANGED"
	}
	if mo && err == nil {
		// the real command over the same request into another root
		root2 := filepath.Join(parent, "root2")
		os.MkdirAll(root2, 0o755)
		rq := deepClone(req)
		rq.SnapshotDir, rq.CandidateName, rq.OutDir = "", "real", "out"
		rerr := a.CLI(append(append([]string{"endorse"}, flatten(r, requestFlags(rq, img))...), "--out_root", root2, "--overwrite")...)
		c.Eval(1)
		raw, _ := os.ReadFile(filepath.Join(root2, "out", "real.binarypb"))
		e, gm := &epb.VMLaunchEndorsement{}, &epb.VMGoldenMeasurement{}
		if rerr != nil || len(raw) == 0 || proto.Unmarshal(raw, e) != nil || proto.Unmarshal(e.SerializedUefiGolden, gm) != nil {
			c.Count("audit/real-reference-run-failed-not-judged", 1)
		} else {
			ps, pt := printed(out)
			es, et := expected(gm, vmsasOf(req))
			if strings.Join(ps, "\n") != strings.Join(es, "\n") || strings.Join(pt, "\n") != strings.Join(et, "\n") {
				c.Violate(core.Violation{Kind: "oracle", Entry: entryCLI, Site: "printed-measurements-differ-from-signed", Gen: gname, Case: i,
					Detail: fmt.Sprintf("printed SNP %v TDX %v; the real command signs SNP %v TDX %v", ps, pt, es, et)})
				cls = "PRINT-MISMATCH"
			} else {
				au.printedCompared++
				c.Count("measurement-values-compared", len(es)+len(et))
				cls = "ok-printed-as-signed"
			}
		}
	}
	au.nNonprod++
	c.Cell("nonprod command line|%s|%s|snapshot=%v|%s", modeName(dry, mo), env, req.SnapshotDir != "", cls)
}
