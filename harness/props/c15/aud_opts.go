package c15

import (
	"bytes"
	"context"
	crand "crypto/rand"
	"fmt"
	"io"
	"os"
	"path/filepath"
	"strings"

	"github.com/google/gce-tcb-verifier/cmd/output"
	"github.com/google/gce-tcb-verifier/endorse"
	"github.com/google/gce-tcb-verifier/keys"
	"github.com/google/gce-tcb-verifier/testing/nonprod/localnonvcs"

	"verifharness/authority"
	"verifharness/core"
	"verifharness/doubles"
	"verifharness/gen/endreq"
)

type optKnobs struct {
	keysKind             string // full | no-keys-context | keys-context-without-authority (measurement-only runs)
	multi                int    // 0: VCS only; 1: VCSs = two back ends, VCS nil; 2: VCSs = two back ends, VCS a third
	retries              int
	quiet                bool
	keepGoing, overwrite bool
	prefix               string
	notes                []string
}

// commandContext builds the context of one command for the given kind of keys.
func (au *aud) commandContext(f *doubles.FCtl, kn *optKnobs, keysKind string, sink io.Writer) context.Context {
	var out io.Writer
	if !kn.quiet {
		out = sink
	}
	if keysKind == "full" {
		ctx, err := au.a.Context(f, authority.Opts{Overwrite: kn.overwrite, KeepGoing: kn.keepGoing, Out: out})
		if err != nil {
			panic(err)
		}
		return ctx
	}
	ctx := context.Background()
	if keysKind == "keys-context-without-authority" {
		ctx = keys.NewContext(ctx, &keys.Context{Random: crand.Reader})
	}
	return output.NewContext(ctx, &output.Options{Quiet: out == nil, Overwrite: kn.overwrite, KeepGoing: kn.keepGoing, Out: out})
}

// realAlsoFails runs the request as a REAL run with the very same options (fresh doubles): a request that a real run
// refuses too is not one whose dry run has to complete.
func (au *aud) realAlsoFails(req *endorse.Context, kn *optKnobs) bool {
	rc := deepClone(req)
	rc.DryRun, rc.MeasurementOnly = false, false
	f := &doubles.FCtl{}
	v := doubles.NewMemVCS(f)
	v.Prefix = kn.prefix
	rc.VCS = v
	if kn.multi > 0 {
		v2 := doubles.NewMemVCS(f)
		v2.Prefix = kn.prefix
		rc.VCS, rc.VCSs = nil, []endorse.VersionControl{v, v2}
	}
	k2 := *kn
	k2.overwrite = true
	var err error
	captureStdout(func() { err = endorse.VirtualFirmware(endorse.NewContext(au.commandContext(f, &k2, "full", io.Discard), rc)) })
	au.c.Eval(1)
	return err != nil
}

var optVmsas = []uint32{1, 255, 256, 257, 1000}

// optionCase runs one request with options the flag matrix keeps fixed, in the three silent modes, against the
// recording doubles and against the file back end in a prepared directory.
func (au *aud) optionCase(i, k int) {
	c := au.c
	r := c.Rand(i)
	req := endreq.Random(r, endreq.Opts{MaxImage: 64 << 10, AllowNoTDX: true, CheapTDX: true}, k)
	kn := &optKnobs{keysKind: []string{"full", "no-keys-context", "keys-context-without-authority"}[r.IntN(3)], multi: r.IntN(3), retries: []int{-1, 0, 1, 5}[r.IntN(4)],
		quiet: r.IntN(2) == 0, keepGoing: r.IntN(2) == 0, overwrite: r.IntN(2) == 0, prefix: []string{"", "", "/abs/root/", "rel/"}[r.IntN(4)]}
	note := func(format string, a ...any) { kn.notes = append(kn.notes, fmt.Sprintf(format, a...)) }
	req.CommitRetries = kn.retries
	req.OutDir = []string{"out", "out", "", "a/b/c", "out/"}[r.IntN(5)]
	if r.IntN(2) == 0 {
		req.SnapshotDir = []string{"snap", "s/n/a/p", "snap/"}[r.IntN(3)]
	}
	if r.IntN(3) == 0 {
		req.ImageName = "sub/" + req.ImageName
	}
	if r.IntN(3) == 0 {
		req.SvsmImage = make([]byte, 1+r.IntN(4096))
		for j := range req.SvsmImage {
			req.SvsmImage[j] = byte(r.IntN(256))
		}
		note("svsm-image")
	}
	if r.IntN(2) == 0 {
		svn := uint32(1 + r.IntN(40))
		if req.SevSnp != nil {
			req.SevSnp.Svn = svn
		}
		if req.Tdx != nil {
			req.Tdx.Svn = svn
		}
		note("svn")
	}
	if r.IntN(3) == 0 {
		req.ReleaseBranch = "release-1"
	}
	if req.SevSnp != nil {
		if r.IntN(2) == 0 {
			req.SevSnp.LaunchVmsas = optVmsas[r.IntN(len(optVmsas))]
			note("vmsas=%d", req.SevSnp.LaunchVmsas)
		}
		if r.IntN(6) == 0 {
			req.SevSnp.Product = 0
			note("zero-value-product")
		}
	}
	if req.Tdx != nil {
		switch r.IntN(4) {
		case 0:
			req.Tdx.MachineShapes = nil
			note("shapes=nil")
		case 1:
			req.Tdx.MachineShapes = []string{}
			note("shapes=empty")
		case 2:
			s := endreq.Shapes[r.IntN(3)]
			req.Tdx.MachineShapes = []string{s, s}
			note("shapes=duplicate")
		}
	}
	switch r.IntN(4) {
	case 0:
		req.CandidateName = ""
	case 1:
		req.CandidateName = "rc 1 (ü)"
	}
	gbase := fmt.Sprintf("option variant#%d tech %s keys(measurement-only)=%s back-ends=%d retries=%d quiet=%v keep-going=%v overwrite=%v prefix=%q out_dir=%q snapshot_dir=%q image=%q candidate=%q %v",
		k, techName(req), kn.keysKind, []int{1, 2, 3}[kn.multi], kn.retries, kn.quiet, kn.keepGoing, kn.overwrite, kn.prefix, req.OutDir, req.SnapshotDir, req.ImageName, req.CandidateName, kn.notes)
	c.Begin(i, gbase, entryVF, nil)
	defer c.End(i)
	rf := refs{}
	refFails := -1 // unknown
	excuse := func() bool {
		if refFails < 0 {
			refFails = 0
			if au.realAlsoFails(req, kn) {
				refFails = 1
			}
		}
		return refFails == 1
	}

	for _, md := range [][2]bool{{true, false}, {false, true}, {true, true}} {
		dry, mo := md[0], md[1]
		keysKind := "full"
		if mo {
			keysKind = kn.keysKind
		}
		// --- recording doubles
		{
			w := &world{}
			f := w.newF()
			ec := deepClone(req)
			ec.DryRun, ec.MeasurementOnly = dry, mo
			mk := func() *doubles.MemVCS {
				v := w.newVCS(f, kn.prefix+filepath.Join(req.OutDir, req.CandidateName+".binarypb"))
				v.Prefix = kn.prefix
				return v
			}
			switch kn.multi {
			case 0:
				ec.VCS = mk()
			case 1:
				ec.VCSs = []endorse.VersionControl{mk(), mk()}
			case 2:
				ec.VCSs = []endorse.VersionControl{mk(), mk()}
				ec.VCS = mk()
			}
			var sink bytes.Buffer
			ctx := au.commandContext(f, kn, keysKind, &sink)
			gname := gbase + " | " + modeName(dry, mo) + " on recording doubles"
			m := w.mark()
			var err error
			var out string
			g := c.Guard(i, entryVF, gname, core.Budget{}, func() {
				out = captureStdout(func() { err = endorse.VirtualFirmware(endorse.NewContext(ctx, ec)) })
			})
			if g.Panicked {
				return
			}
			calls, changed := w.since(m)
			s := seen{dry: dry, mo: mo, err: err, calls: calls, changed: changed}
			if err != nil {
				s.excused = excuse()
			}
			cls := au.judge(i, gname, s)
			if mo && err == nil {
				if au.comparePrinted(i, gname, rf, ec, out) {
					cls = "ok-printed-as-signed"
				} else {
					cls = "PRINT-MISMATCH-OR-NO-REFERENCE"
				}
			}
			au.nOpts++
			c.Cell("options|%s|keys=%s|back-ends=%d|%s", modeName(dry, mo), keysKind, []int{1, 2, 3}[kn.multi], cls)
			c.Cell("options|%s|retries=%d|quiet=%v|keep-going=%v|%s", modeName(dry, mo), kn.retries, kn.quiet, kn.keepGoing, cls)
			c.Cell("options|%s|out_dir=%q|snapshot_dir=%q|prefix=%q|%s", modeName(dry, mo), req.OutDir, req.SnapshotDir, kn.prefix, cls)
			for _, n := range kn.notes {
				c.Cell("options|%s|%s|snapshot=%v|%s", modeName(dry, mo), n, req.SnapshotDir != "", cls)
			}
			if !kn.quiet && dry && !mo && err == nil {
				c.Count("audit/dry-runs-with-output-writer-lines", strings.Count(sink.String(), "\n"))
			}
		}
		// --- the file back end in a prepared directory
		{
			parent, _ := os.MkdirTemp("", "verif-c15-env-")
			root := filepath.Join(parent, "root")
			env := []string{"empty-root", "older-files-present", "out-dir-is-a-symbolic-link", "snapshot-left-overs", "root-is-a-symbolic-link"}[(k+r.IntN(5))%5]
			outTop := strings.SplitN(strings.Trim(req.OutDir, "/"), "/", 2)[0]
			older := func(dir string) {
				os.MkdirAll(dir, 0o755)
				os.WriteFile(filepath.Join(dir, req.CandidateName+".binarypb"), []byte("an older and much longer endorsement file than the one a run writes .........."), 0o644)
				os.WriteFile(filepath.Join(dir, "manifest.textproto"), []byte("# old\n"), 0o644)
			}
			switch env {
			case "empty-root":
				os.MkdirAll(root, 0o755)
			case "older-files-present":
				older(filepath.Join(root, req.OutDir))
			case "out-dir-is-a-symbolic-link":
				if outTop == "" {
					env = "empty-root"
					os.MkdirAll(root, 0o755)
					break
				}
				older(filepath.Join(root, "real-"+outTop, strings.TrimPrefix(strings.Trim(req.OutDir, "/"), outTop)))
				os.Symlink("real-"+outTop, filepath.Join(root, outTop))
			case "snapshot-left-overs":
				os.MkdirAll(root, 0o755)
				if req.SnapshotDir != "" {
					p := filepath.Join(root, req.SnapshotDir, req.ImageName)
					os.MkdirAll(filepath.Dir(p), 0o755)
					for _, ext := range []string{"", ".signed", ".evts.pb", ".scrtm.pb"} {
						os.WriteFile(p+ext, []byte("left over from an earlier snapshot"+ext), 0o444)
					}
				}
			case "root-is-a-symbolic-link":
				os.MkdirAll(filepath.Join(parent, "real-root"), 0o755)
				os.Symlink("real-root", root)
			}
			before := tree(parent)
			ec := deepClone(req)
			ec.DryRun, ec.MeasurementOnly = dry, mo
			ec.VCS = &localnonvcs.T{Root: root}
			if kn.multi > 0 {
				ec.VCS, ec.VCSs = nil, []endorse.VersionControl{&localnonvcs.T{Root: root}, &localnonvcs.T{Root: root}}
			}
			f := &doubles.FCtl{}
			ctx := au.commandContext(f, kn, keysKind, io.Discard)
			gname := gbase + " | " + modeName(dry, mo) + " on the file back end, " + env
			var err error
			g := c.Guard(i, entryVF, gname, core.Budget{}, func() {
				captureStdout(func() { err = endorse.VirtualFirmware(endorse.NewContext(ctx, ec)) })
			})
			if g.Panicked {
				os.RemoveAll(parent)
				return
			}
			cls := "ok"
			if err != nil {
				cls = "error"
			}
			if d := treeDiff(before, tree(parent)); d != "" {
				c.Violate(core.Violation{Kind: "oracle", Entry: entryVF, Site: "file-tree-changed-in-dry-run-or-measurement-only", Gen: gname, Case: i,
					Detail: fmt.Sprintf("directory holding the output root (run returned %v): %s", err, d)})
				cls = "FILE-TREE-CHANGED"
			}
			_, keyca := classify(f.Log)
			if mo && len(keyca) > 0 {
				c.Violate(core.Violation{Kind: "oracle", Entry: entryVF, Site: "measurement-only-touched-keys-or-ca", Gen: gname, Case: i, Detail: fmt.Sprintf("calls: %v", keyca)})
				cls = "TOUCHED-KEYS"
			}
			au.nFile++
			c.Count("runs-against-the-file-back-end-with-tree-compared", 1)
			c.Cell("options|file back end|%s|%s|snapshot=%v|back-ends=%d|%s", modeName(dry, mo), env, req.SnapshotDir != "", []int{1, 2, 2}[kn.multi], cls)
			os.RemoveAll(parent)
		}
	}
}
