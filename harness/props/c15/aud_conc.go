package c15

import (
	"context"
	"fmt"
	"sort"
	"strings"
	"sync"

	"github.com/google/gce-tcb-verifier/endorse"

	"verifharness/authority"
	"verifharness/core"
	"verifharness/doubles"
	"verifharness/gen/endreq"
)

// concurrentCase runs 4..8 goroutines with three endorse runs each (real, dry, measurement-only, both; two base
// requests with varied VMSA counts and snapshot mode) at the same time. Every run has its own request, command context,
// call log and version-control double, so the side-effect and key clauses are judged per run exactly; standard output
// is process-wide, so the printed measurements are judged as the multiset of all lines of the batch.
func (au *aud) concurrentCase(i, k int) {
	c := au.c
	r := c.Rand(i)
	workers, per := 4+r.IntN(5), 3
	bases := []*endorse.Context{
		endreq.Random(r, endreq.Opts{MaxImage: 64 << 10, AllowNoTDX: true, CheapTDX: true}, 2*k),
		endreq.Random(r, endreq.Opts{MaxImage: 64 << 10, AllowNoTDX: true, CheapTDX: true}, 2*k+1),
	}
	type job struct {
		ec      *endorse.Context
		ctx     context.Context
		f       *doubles.FCtl
		vcs     *doubles.MemVCS
		dry, mo bool
		before  string
		err     error
		pan     any
	}
	gname := fmt.Sprintf("runs at the same time#%d: %d goroutines x %d runs", k, workers, per)
	c.Begin(i, gname, entryVF, nil)
	defer c.End(i)
	jobs := make([][]*job, workers)
	modes := map[string]int{}
	for g := 0; g < workers; g++ {
		for j := 0; j < per; j++ {
			ec := deepClone(bases[r.IntN(2)])
			ec.OutDir = "out"
			if ec.SevSnp != nil && r.IntN(2) == 0 {
				ec.SevSnp.LaunchVmsas = seqVmsas[r.IntN(len(seqVmsas))]
			}
			if r.IntN(2) == 0 {
				ec.SnapshotDir = "snap"
			}
			jb := &job{ec: ec, f: &doubles.FCtl{}}
			switch x := r.IntN(100); {
			case x < 30:
			case x < 55:
				jb.dry = true
			case x < 85:
				jb.mo = true
			default:
				jb.dry, jb.mo = true, true
			}
			ec.DryRun, ec.MeasurementOnly = jb.dry, jb.mo
			jb.vcs = doubles.NewMemVCS(jb.f)
			jb.vcs.Head["out/"+ec.CandidateName+".binarypb"] = []byte("old")
			ec.VCS = jb.vcs
			jb.before = headState(jb.vcs)
			var err error
			if jb.ctx, err = au.a.Context(jb.f, authority.Opts{Overwrite: r.IntN(2) == 0}); err != nil {
				panic(err)
			}
			jobs[g] = append(jobs[g], jb)
			modes[modeName(jb.dry, jb.mo)]++
		}
	}
	var out string
	gd := c.Guard(i, entryVF, gname, core.Budget{}, func() {
		out = captureStdout(func() {
			var wg sync.WaitGroup
			start := make(chan struct{})
			for g := range jobs {
				wg.Add(1)
				go func(g int) {
					defer wg.Done()
					<-start
					for _, jb := range jobs[g] {
						func() {
							defer func() { jb.pan = recover() }()
							jb.err = endorse.VirtualFirmware(endorse.NewContext(jb.ctx, jb.ec))
						}()
					}
				}(g)
			}
			close(start)
			wg.Wait()
		})
	})
	c.Eval(workers*per - 1)
	if gd.Panicked {
		return
	}
	rf := refs{}
	var want []string
	judgeOutput := true
	for g := range jobs {
		for j, jb := range jobs[g] {
			desc := fmt.Sprintf("%s; goroutine %d run %d: %s tech %s vmsas %d snapshot=%v", gname, g, j, modeName(jb.dry, jb.mo), techName(jb.ec), vmsasOf(jb.ec), jb.ec.SnapshotDir != "")
			if jb.pan != nil {
				c.Violate(core.Violation{Kind: "panic", Entry: entryVF, Site: "concurrent-endorse-run-panicked", Gen: desc, Case: i, Detail: fmt.Sprint(jb.pan)})
				judgeOutput = false
				continue
			}
			changed := ""
			if s := headState(jb.vcs); s != jb.before {
				changed = jb.before + " -> " + s
			}
			cls := "ok"
			if jb.err != nil {
				cls = "error"
			}
			if jb.dry || jb.mo {
				cls = au.judge(i, desc, seen{dry: jb.dry, mo: jb.mo, err: jb.err, calls: jb.f.Log, changed: changed})
				au.nConc++
			}
			if jb.mo && jb.err == nil {
				gm := au.signed(rf, jb.ec)
				if gm == nil {
					judgeOutput = false
					c.Count("audit/real-reference-run-failed-not-judged", 1)
				} else {
					es, et := expected(gm, vmsasOf(jb.ec))
					want = append(append(want, es...), et...)
				}
			} else if jb.mo {
				judgeOutput = false // a failed measurement-only run may have printed part of its lines (already a violation above)
			}
			c.Cell("at the same time|%s|%s", modeName(jb.dry, jb.mo), cls)
		}
	}
	if judgeOutput {
		ps, pt := printed(out)
		got := append(ps, pt...)
		sort.Strings(got)
		sort.Strings(want)
		if strings.Join(got, "\n") != strings.Join(want, "\n") {
			c.Violate(core.Violation{Kind: "oracle", Entry: entryVF, Site: "printed-measurements-differ-from-signed", Gen: gname + " (all lines of the batch)", Case: i,
				Detail: fmt.Sprintf("the measurement-only runs of the batch printed %d lines %v; real runs over the same requests sign %d values %v", len(got), got, len(want), want)})
		} else if len(want) > 0 {
			au.printedCompared++
			c.Count("measurement-values-compared", len(want))
			c.Count("audit/concurrent-batches-with-output-compared", 1)
		}
	}
	var ms []string
	for m := range modes {
		ms = append(ms, m)
	}
	sort.Strings(ms)
	c.Cell("at the same time|modes in one batch: %s", strings.Join(ms, ","))
}
