package c15

import (
	"context"
	"fmt"
	"math/rand/v2"
	"strings"

	"github.com/google/gce-tcb-verifier/endorse"
	spb "github.com/google/go-sev-guest/proto/sevsnp"

	"verifharness/authority"
	"verifharness/core"
	"verifharness/doubles"
	"verifharness/gen/endreq"
	"verifharness/gen/fw"
)

var seqVmsas = []uint32{0, 0, 1, 2, 4, 16, 240, 3, 5, 6, 7, 12, 255}

// realFaults are the call-name prefixes at which a real run of a sequence is made to fail.
var realFaults = []string{"vcs.TryCommit", "vcs.Write", "vcs.SetBinaryWritable", "vcs.GetChangeOps", "signer.Sign", "ca.Certificate", "ca.PrimarySigningKeyVersion"}

func otherShape(r *rand.Rand, not string) string {
	for {
		s := endreq.Shapes[r.IntN(3)] // the three small shapes keep the legacy TDX mode cheap
		if s != not {
			return s
		}
	}
}

// sequenceCase runs eight endorse runs in changing modes in one process. kept: one endorse.Context value edited in
// place serves all of them (and in half of the cases one command context); otherwise every value of every run is fresh.
func (au *aud) sequenceCase(i, k int, kept bool) {
	c := au.c
	r := c.Rand(i)
	kind := "fresh-value sequence"
	if kept {
		kind = "kept-request sequence"
	}
	images := [][]byte{fw.Image(r, 64<<10), fw.Image(r, 64<<10)}
	which := 0
	cur := endreq.Random(r, endreq.Opts{MaxImage: 64 << 10, CheapTDX: true}, k)
	buf := append([]byte(nil), images[0]...)
	cur.Image, cur.OutDir = buf, "out"
	if len(cur.Tdx.MachineShapes) > 1 {
		cur.Tdx.MachineShapes = cur.Tdx.MachineShapes[:1]
	}
	spareSnp, spareTdx := cur.SevSnp, cur.Tdx
	keptCtx := kept && r.IntN(2) == 0
	w := &world{}
	rf := refs{}
	var kctx context.Context
	var kf *doubles.FCtl
	if keptCtx {
		kf = w.newF()
		var err error
		if kctx, err = au.a.Context(kf, authority.Opts{Overwrite: r.IntN(2) == 0}); err != nil {
			panic(err)
		}
	}
	if kept {
		cur.VCS = w.newVCS(nil, "out/"+cur.CandidateName+".binarypb")
	}
	gname := fmt.Sprintf("%s#%d (command context kept=%v)", kind, k, keptCtx)
	c.Begin(i, gname, entryVF, nil)
	defer c.End(i)

	edit := func(s int) string {
		switch r.IntN(12) {
		case 0:
			if cur.SevSnp != nil {
				cur.SevSnp.LaunchVmsas = seqVmsas[r.IntN(len(seqVmsas))]
				return fmt.Sprintf("vmsas=%d", cur.SevSnp.LaunchVmsas)
			}
		case 1:
			if cur.SevSnp != nil {
				if cur.SevSnp.Product == spb.SevProduct_SEV_PRODUCT_MILAN {
					cur.SevSnp.Product = spb.SevProduct_SEV_PRODUCT_GENOA
				} else {
					cur.SevSnp.Product = spb.SevProduct_SEV_PRODUCT_MILAN
				}
				return "product"
			}
		case 2:
			if cur.Tdx != nil {
				if len(cur.Tdx.MachineShapes) > 0 {
					cur.Tdx.MachineShapes[0] = otherShape(r, cur.Tdx.MachineShapes[0]) // same backing array
					return "shape-edited-in-place"
				}
				cur.Tdx.MachineShapes = append(cur.Tdx.MachineShapes, otherShape(r, ""))
				return "shape-appended"
			}
		case 3:
			if cur.Tdx != nil {
				if len(cur.Tdx.MachineShapes) > 0 && r.IntN(2) == 0 {
					cur.Tdx.MachineShapes = nil
					return "shapes-dropped"
				}
				cur.Tdx.MachineShapes = []string{otherShape(r, "")}
				return "shapes-replaced"
			}
		case 4:
			if cur.Tdx != nil {
				cur.Tdx.IncludeEarlyAccept = !cur.Tdx.IncludeEarlyAccept
				return "early-accept"
			}
		case 5:
			if cur.SevSnp == nil {
				cur.SevSnp = spareSnp
				return "snp-restored"
			} else if cur.Tdx != nil {
				cur.SevSnp = nil
				return "snp-dropped"
			}
		case 6:
			if cur.Tdx == nil {
				cur.Tdx = spareTdx
				return "tdx-restored"
			} else if cur.SevSnp != nil {
				cur.Tdx = nil
				return "tdx-dropped"
			}
		case 7:
			which ^= 1
			copy(buf, images[which])
			cur.Image = buf
			return "image-refilled-in-place"
		case 8:
			which ^= 1
			buf = append([]byte(nil), images[which]...)
			cur.Image = buf
			return "image-replaced"
		case 9:
			if cur.SnapshotDir == "" {
				cur.SnapshotDir = "snap"
			} else {
				cur.SnapshotDir = ""
			}
			return "snapshot-toggled"
		case 10:
			cur.CandidateName = fmt.Sprintf("cand-%d-%d", k, s)
			return "candidate"
		case 11:
			if kept {
				cur.VCS = w.newVCS(nil, "out/"+cur.CandidateName+".binarypb")
				if r.IntN(2) == 0 {
					cur.VCSs = nil
					return "back-end-replaced"
				}
				return "back-end-replaced-VCSs-kept"
			}
		}
		return ""
	}

	prev := "start"
	silentNext := false
	for s := 0; s < 8; s++ {
		var edits []string
		if s > 0 {
			for e := 1 + r.IntN(2); e > 0; e-- {
				if d := edit(s); d != "" {
					edits = append(edits, d)
				}
			}
		}
		x := r.IntN(100)
		if silentNext {
			x = 35 + r.IntN(65) // a failed real run is retried as a dry or measurement-only run
		}
		if s == 0 && r.IntN(2) == 0 {
			x = 0
		}
		dry, mo := false, false
		switch {
		case x < 35:
		case x < 60:
			dry = true
		case x < 85:
			mo = true
		default:
			dry, mo = true, true
		}
		// the values of this run
		f := kf
		ctx := kctx
		if !keptCtx {
			f = w.newF()
			var err error
			if ctx, err = au.a.Context(f, authority.Opts{Overwrite: r.IntN(2) == 0}); err != nil {
				panic(err)
			}
		}
		run := cur
		if !kept {
			run = deepClone(cur)
			run.VCS = w.newVCS(f, "out/"+cur.CandidateName+".binarypb")
		}
		run.DryRun, run.MeasurementOnly = dry, mo
		for _, v := range w.vs {
			v.F = f
			v.Retriable = false
		}
		fault := ""
		if !keptCtx {
			switch {
			case !dry && !mo && r.IntN(100) < 35:
				fault = realFaults[r.IntN(len(realFaults))]
				if r.IntN(2) == 0 {
					for _, v := range w.vs {
						v.Retriable = true // the failed attempt is repeated inside the run
					}
				}
			case dry && !mo && r.IntN(100) < 15:
				fault = []string{"signer.Sign", "ca.Certificate", "ca.CABundle"}[r.IntN(3)]
			}
			f.Match, f.MatchKind = fault, doubles.FaultError
		}
		step := fmt.Sprintf("%s, run %d: %s after %s; edits %v; tech %s vmsas %d snapshot=%v", gname, s, modeName(dry, mo), prev, edits, techName(run), vmsasOf(run), run.SnapshotDir != "")
		if fault != "" {
			step += "; injected error at " + fault
		}
		m := w.mark()
		var err error
		var out string
		g := c.Guard(i, entryVF, step, core.Budget{}, func() {
			out = captureStdout(func() { err = endorse.VirtualFirmware(endorse.NewContext(ctx, run)) })
		})
		if g.Panicked {
			return
		}
		calls, changed := w.since(m)
		cls := "ok"
		if err != nil {
			cls = "error"
		}
		if dry || mo {
			cls = au.judge(i, step, seen{dry: dry, mo: mo, excused: fault != "", err: err, calls: calls, changed: changed})
			if mo && err == nil && au.comparePrinted(i, step, rf, run, out) {
				cls = "ok-printed-as-signed"
			} else if mo && err == nil {
				cls = "PRINT-MISMATCH-OR-NO-REFERENCE"
			}
			if kept {
				au.nSeqKept++
			} else {
				au.nSeqFresh++
			}
		}
		c.Cell("%s|%s -> %s|%s", kind, prev, modeName(dry, mo), cls)
		for _, e := range edits {
			c.Cell("%s|edit %s then %s|%s", kind, strings.SplitN(e, "=", 2)[0], modeName(dry, mo), cls)
		}
		prev = modeName(dry, mo)
		if err != nil {
			prev += "/failed"
		}
		silentNext = !dry && !mo && err != nil
	}
}
