package c15

import (
	crand "crypto/rand"
	"fmt"

	"github.com/google/gce-tcb-verifier/endorse"

	"verifharness/authority"
	"verifharness/core"
	"verifharness/doubles"
	"verifharness/gen/endreq"
)

// burstReader fails its first `fail` reads (every read when fail < 0) and then delegates to crypto/rand.
type burstReader struct{ fail, n int }

func (b *burstReader) Read(p []byte) (int, error) {
	b.n++
	if b.fail < 0 || b.n <= b.fail {
		return 0, fmt.Errorf("entropy source failure %d", b.n)
	}
	return crand.Read(p)
}

// burstCase: a dry run (not measurement-only) whose attempts fail 1, 2, 3 times in a row or always (the random source
// of the snapshot's event GUID errors), with 0..3 commit retries, on one or two back ends that call every error
// retriable or none; or whose authority / signer fails once. Whether such a run completes is not judged (the property
// does not promise it); that no attempt of it has a side effect is.
func (au *aud) burstCase(i, k int) {
	c := au.c
	r := c.Rand(i)
	req := endreq.Random(r, endreq.Opts{MaxImage: 64 << 10, AllowNoTDX: true, CheapTDX: true}, k)
	req.OutDir = "out"
	snapshot := r.IntN(6) != 0 // the random source is read only in snapshot mode
	if snapshot {
		req.SnapshotDir = "snap"
	}
	burst := []int{1, 2, 3, -1}[k%4]
	req.CommitRetries = (k / 4) % 4
	retriable := r.IntN(5) != 0
	two := r.IntN(3) == 0
	component := ""
	if r.IntN(5) == 0 {
		component = []string{"ca.PrimarySigningKeyVersion", "ca.Certificate", "ca.CABundle", "signer.Sign"}[r.IntN(4)]
	}
	req.DryRun = true
	w := &world{}
	f := w.newF()
	mk := func() *doubles.MemVCS {
		v := w.newVCS(f, "out/"+req.CandidateName+".binarypb")
		v.Retriable = retriable
		return v
	}
	if two {
		req.VCSs = []endorse.VersionControl{mk(), mk()}
	} else {
		req.VCS = mk()
	}
	overwrite := r.IntN(2) == 0
	what := fmt.Sprintf("random source fails %d reads in a row", burst)
	if burst < 0 {
		what = "random source always fails"
	}
	if component != "" {
		what = "injected error at " + component
		f.Match, f.MatchKind = component, doubles.FaultError
		burst = 0
	}
	gname := fmt.Sprintf("failure burst#%d dry run, %s, commit_retries=%d, errors retriable=%v, back ends=%d, snapshot=%v, overwrite=%v, tech %s", k, what, req.CommitRetries, retriable, map[bool]int{false: 1, true: 2}[two], snapshot, overwrite, techName(req))
	c.Begin(i, gname, entryVF, nil)
	defer c.End(i)
	m := w.mark()
	var err error
	g := c.Guard(i, entryVF, gname, core.Budget{}, func() {
		captureStdout(func() { err = au.a.Endorse(f, authority.Opts{Overwrite: overwrite, Random: &burstReader{fail: burst}}, req) })
	})
	if g.Panicked {
		return
	}
	calls, changed := w.since(m)
	cls := au.judge(i, gname, seen{dry: true, excused: true, err: err, calls: calls, changed: changed})
	au.nBurst++
	outcome := "completed"
	if err != nil {
		outcome = "failed"
	}
	if component != "" {
		c.Cell("burst|%s|%s|%s", component, outcome, cls)
	} else {
		c.Cell("burst|fails=%d|retries=%d|retriable=%v|snapshot=%v|%s|%s", burst, req.CommitRetries, retriable, snapshot, outcome, cls)
	}
}
