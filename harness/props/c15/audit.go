package c15

// Workload dimensions added by the class audit of the check. The oracle rules are the ones of the flag matrix in
// c15.go (same rule names); what is new is WHAT is produced:
//
//   kept-request sequences    ONE endorse.Context value (and, in half of them, one command context with its
//                             authority value) serves a sequence of runs in changing modes: real, dry, measurement-only,
//                             both. Between the runs fields are edited in place (VMSA count, product, shape list edited
//                             in its backing array, technologies dropped and restored, the image buffer refilled, the
//                             version-control value replaced, snapshot / candidate toggled). Real runs in the sequence
//                             may fail on an injected error; the next run is then a dry or measurement-only retry.
//   fresh-value sequences     the same sequences with every value of every run fresh: the process is the only carrier
//                             (the flag matrix keeps dry-run / measurement-only constant per worker process).
//                             In both kinds EVERY double of the sequence is watched during a dry / measurement-only run.
//   runs at the same time     several goroutines run mixed real / dry / measurement-only requests at once, each run
//                             with its own doubles (call logs are exact per run); standard output is judged as the
//                             multiset of all lines of the batch.
//   option variants           what the 2^8 matrix keeps fixed: no keys context at all / one without authority, signer
//                             and manager (measurement-only), several version-control back ends in VCSs, commit
//                             retries -1/0/1/5, a non-quiet output writer, keep-going, SVSM image and SVN in snapshot
//                             mode, empty / nested / slash-terminated output and snapshot directories, a path prefix,
//                             VMSA counts 1, 255, 256, 257, 1000, the zero-value product, nil / empty / duplicate shape
//                             lists; and the file back end with the output directory absent, present, nested, a
//                             symbolic link, and with left-overs of an earlier snapshot.
//   command line              the endorse command through cmd.MakeApp (flag parsing and cmd/endorse.go included) with
//                             recording doubles as its components: every spelling of --dry_run / --measurement_only
//                             (absent, bare, =true, =1, =false, =0), flags in any order; and the shipped nonprod
//                             composition (localkm + localca + localnonvcs) with the trees of the output root's parent,
//                             the key directory and the authority's bucket compared before and after.
//   failure bursts            dry runs whose random source fails 1, 2, 3 times or always, with 0..3 commit retries, on
//                             back ends that call errors retriable or not; dry runs whose authority or signer fails.
//   stored-state forms        the key directory and the authority's bucket laid out in the forms the readers accept besides
//                             the one the writers produce (PKCS #1 key files, PEM details, modes, PEM-armoured certificate
//                             objects, re-formatted manifest), in forms they refuse, with parts missing, behind symbolic
//                             links and with stray files; dry / measurement-only runs at library level (file key manager +
//                             bucket authority, storage behind the recording double) and through the shipped command line,
//                             the whole directory compared entry by entry (aud_state.go).
//   fault positions           a dry run's call trace (authority, signer, key manager, storage, version control) is taken
//                             without faults, then EVERY call of it fails in turn (once, twice in a row, from there on) in a
//                             fresh run, on the recording doubles (library and command line) and on the file-backed
//                             authority with the bucket present or absent; calls that change stored state of the authority
//                             or the keys, the object store and the directory tree are judged (aud_fault.go).

import (
	"crypto/sha256"
	"fmt"
	"sort"
	"strings"

	"github.com/google/gce-tcb-verifier/endorse"
	epb "github.com/google/gce-tcb-verifier/proto/endorsement"
	"google.golang.org/protobuf/proto"

	"verifharness/authority"
	"verifharness/core"
	"verifharness/doubles"
)

// auditBase is the first case number of the added families (the flag matrix uses 0 .. images*256-1 and the PRNG
// streams 1_000_000+image).
const auditBase = 2_000_000

const entryVF = "endorse.VirtualFirmware"

// aud carries what the added families share.
type aud struct {
	c *core.Ctx
	a *authority.Assembly
	// judged runs per family (floors)
	nSeqKept, nSeqFresh, nConc, nOpts, nFile, nCLI, nNonprod, nBurst int
	printedCompared                                                   int
	// stored-state forms (aud_state.go)
	nState, nStateCompleted, nStateLegacyKeyCompleted, nStateArmouredCert int
	// faults at every position of a dry run (aud_fault.go)
	nFaultProbe, nFaultProbeCompleted, nFault, nFaultReached, nFaultFirstLookup int
}

func runAudit(c *core.Ctx, a *authority.Assembly) {
	au := &aud{c: c, a: a}
	i := auditBase
	each := func(n int, f func(i, k int)) {
		for k := 0; k < n; k, i = k+1, i+1 {
			if c.Mine(i) {
				f(i, k)
			}
		}
	}
	each(c.N(40, 320), func(i, k int) { au.sequenceCase(i, k, true) })
	each(c.N(40, 320), func(i, k int) { au.sequenceCase(i, k, false) })
	each(c.N(24, 160), au.concurrentCase)
	each(c.N(64, 512), au.optionCase)
	each(c.N(48, 384), au.cliCase)
	each(c.N(24, 160), au.nonprodCase)
	each(c.N(48, 320), au.burstCase)
	each(c.N(48, 288), au.stateCase)
	each(c.N(36, 240), au.faultCase)
	c.Count("audit/fault-positions-probe-dry-runs-judged", au.nFaultProbe)
	c.Count("audit/fault-positions-probe-dry-runs-completed", au.nFaultProbeCompleted)
	c.Count("audit/fault-positions-faulted-dry-runs-judged", au.nFault)
	c.Count("audit/fault-positions-faulted-dry-runs-whose-fault-was-reached", au.nFaultReached)
	c.Count("audit/fault-positions-dry-runs-whose-first-authority-call-failed", au.nFaultFirstLookup)
	c.Floor("audit-fault-positions-probe-dry-runs-completed", au.nFaultProbeCompleted > 0)
	c.Floor("audit-fault-positions-faulted-dry-runs-judged", au.nFaultReached > 0 && au.nFaultFirstLookup > 0)
	c.Count("audit/kept-request-sequence-runs-judged", au.nSeqKept)
	c.Count("audit/fresh-value-sequence-runs-judged", au.nSeqFresh)
	c.Count("audit/concurrent-runs-judged", au.nConc)
	c.Count("audit/option-variant-runs-judged", au.nOpts)
	c.Count("audit/option-variant-file-back-end-runs-judged", au.nFile)
	c.Count("audit/command-line-runs-judged", au.nCLI)
	c.Count("audit/nonprod-command-line-runs-judged", au.nNonprod)
	c.Count("audit/failure-burst-runs-judged", au.nBurst)
	c.Count("audit/measurement-only-outputs-compared-with-real-run", au.printedCompared)
	c.Count("audit/stored-state-runs-judged", au.nState)
	c.Count("audit/stored-state-runs-completed", au.nStateCompleted)
	c.Count("audit/stored-state-command-line-runs-completed-with-a-pkcs1-key-file", au.nStateLegacyKeyCompleted)
	c.Count("audit/stored-state-command-line-runs-with-pem-armoured-primary-certificate", au.nStateArmouredCert)
	c.Floor("audit-stored-state-runs-judged", au.nState > 0 && au.nStateCompleted > 0)
	c.Floor("audit-stored-state-legacy-key-file-runs-completed", au.nStateLegacyKeyCompleted > 0)
	c.Floor("audit-stored-state-armoured-certificate-runs-judged", au.nStateArmouredCert > 0)
	c.Floor("audit-kept-request-sequences-judged", au.nSeqKept > 0)
	c.Floor("audit-fresh-value-sequences-judged", au.nSeqFresh > 0)
	c.Floor("audit-concurrent-runs-judged", au.nConc > 0)
	c.Floor("audit-option-variants-judged", au.nOpts > 0 && au.nFile > 0)
	c.Floor("audit-command-line-runs-judged", au.nCLI > 0)
	c.Floor("audit-nonprod-command-line-runs-judged", au.nNonprod > 0)
	c.Floor("audit-failure-bursts-judged", au.nBurst > 0)
	c.Floor("audit-measurement-only-outputs-compared", au.printedCompared > 0)
}

// ---- watching every double of a case ----

// world holds every call log and version-control double of one case, so that a dry run is judged against all of
// them (a side effect that lands in the doubles of an EARLIER run is still a side effect of the dry run).
type world struct {
	fs []*doubles.FCtl
	vs []*doubles.MemVCS
}

func (w *world) newF() *doubles.FCtl {
	f := &doubles.FCtl{}
	w.fs = append(w.fs, f)
	return f
}

// newVCS returns a back end whose head already holds the given paths (so that overwrite matters).
func (w *world) newVCS(f *doubles.FCtl, old ...string) *doubles.MemVCS {
	v := doubles.NewMemVCS(f)
	for _, p := range old {
		v.Head[p] = []byte("old")
	}
	w.vs = append(w.vs, v)
	return v
}

type mark struct {
	n     []int
	heads []string
}

// headState describes the committed state of a back end. Results are left out: the repository reports the (empty)
// result of a dry run to VersionControl.Result on the unchanged tree, and the property does not speak about it.
func headState(v *doubles.MemVCS) string {
	var ks []string
	for k := range v.Head {
		ks = append(ks, k)
	}
	sort.Strings(ks)
	h := sha256.New()
	for _, k := range ks {
		fmt.Fprintf(h, "%s\x00%d\x00", k, len(v.Head[k]))
		h.Write(v.Head[k])
	}
	return fmt.Sprintf("%d commits, %d files %x", v.Commits, len(ks), h.Sum(nil)[:8])
}

func (w *world) mark() mark {
	m := mark{}
	for _, f := range w.fs {
		m.n = append(m.n, len(f.Log))
	}
	for _, v := range w.vs {
		m.heads = append(m.heads, headState(v))
	}
	return m
}

// since returns the calls logged on any double after the mark and a description of changed heads ("" = none).
func (w *world) since(m mark) (calls []doubles.Call, changed string) {
	for j, f := range w.fs {
		from := 0
		if j < len(m.n) {
			from = m.n[j]
		}
		calls = append(calls, f.Log[from:]...)
	}
	var ch []string
	for j, v := range w.vs {
		if j < len(m.heads) && headState(v) != m.heads[j] {
			ch = append(ch, fmt.Sprintf("back end #%d: %s -> %s", j, m.heads[j], headState(v)))
		}
	}
	return calls, strings.Join(ch, "; ")
}

func classify(calls []doubles.Call) (side, keyca []string) {
	for _, call := range calls {
		switch {
		case strings.HasPrefix(call.Name, "vcs.GetChangeOps"), strings.HasPrefix(call.Name, "vcs.Write"), strings.HasPrefix(call.Name, "vcs.SetBinaryWritable"), strings.HasPrefix(call.Name, "vcs.TryCommit"):
			side = append(side, call.Name)
		case strings.HasPrefix(call.Name, "signer."), strings.HasPrefix(call.Name, "ca."), strings.HasPrefix(call.Name, "manager."), strings.HasPrefix(call.Name, "storage."):
			keyca = append(keyca, call.Name)
		}
	}
	return
}

// seen is what one run showed.
type seen struct {
	entry   string // entry point the run went through ("" = endorse.VirtualFirmware)
	dry, mo bool
	noTech  bool // the request names no technology: refused in every mode
	excused bool // the run was given a fault (or lacks keys it needs): its completion is not judged
	err     error
	calls   []doubles.Call
	changed string
}

// judge applies the side-effect, key/authority and completion clauses to one run; it returns the outcome class.
func (au *aud) judge(idx int, gname string, s seen) string {
	cls := "ok"
	if s.err != nil {
		cls = "error"
	}
	entry := s.entry
	if entry == "" {
		entry = entryVF
	}
	side, keyca := classify(s.calls)
	if s.dry || s.mo {
		if len(side) > 0 || s.changed != "" {
			au.c.Violate(core.Violation{Kind: "oracle", Entry: entry, Site: "side-effect-in-dry-run-or-measurement-only", Gen: gname, Case: idx,
				Detail: fmt.Sprintf("calls with side effects: %v; committed state: %s (run returned %v)", side, orNone(s.changed), s.err), Witness: map[string]any{"calls": s.calls}})
			cls = "SIDE-EFFECT"
		}
		if s.err != nil && !s.noTech && !s.excused {
			au.c.Violate(core.Violation{Kind: "oracle", Entry: entry, Site: "dry-run-or-measurement-only-failed", Gen: gname, Case: idx, Detail: s.err.Error()})
			cls = "FAILED"
		}
	}
	if s.mo && len(keyca) > 0 {
		au.c.Violate(core.Violation{Kind: "oracle", Entry: entry, Site: "measurement-only-touched-keys-or-ca", Gen: gname, Case: idx,
			Detail: fmt.Sprintf("calls: %v", keyca), Witness: map[string]any{"calls": s.calls}})
		cls = "TOUCHED-KEYS"
	}
	return cls
}

func orNone(s string) string {
	if s == "" {
		return "unchanged"
	}
	return s
}

// ---- what a real run signs ----

// deepClone copies the request with every buffer and sub-request (no version control attached).
func deepClone(ec *endorse.Context) *endorse.Context {
	c := cloneReq(ec)
	c.Image = append([]byte(nil), ec.Image...)
	c.Commit = append([]byte(nil), ec.Commit...)
	c.SvsmImage = append([]byte(nil), ec.SvsmImage...)
	c.SvsmSnpMeasurement = append([]byte(nil), ec.SvsmSnpMeasurement...)
	if len(ec.SvsmImage) == 0 {
		c.SvsmImage = nil
	}
	if len(ec.SvsmSnpMeasurement) == 0 {
		c.SvsmSnpMeasurement = nil
	}
	if len(ec.Commit) == 0 {
		c.Commit = nil
	}
	c.VCS, c.VCSs = nil, nil
	return c
}

func fingerprint(ec *endorse.Context) string {
	s := fmt.Sprintf("%x", sha256.Sum256(ec.Image))
	if ec.SevSnp != nil {
		s += fmt.Sprintf("|snp %+v", *ec.SevSnp)
	}
	if ec.Tdx != nil {
		s += fmt.Sprintf("|tdx %+v", *ec.Tdx)
	}
	return s + fmt.Sprintf("|%x|%x|%d|%x", ec.SvsmSnpMeasurement, sha256.Sum256(ec.SvsmImage), ec.ClSpec, ec.Commit)
}

// refs caches, per case, the tables real runs sign.
type refs map[string]*epb.VMGoldenMeasurement

// signed runs a REAL endorse run over a fresh copy of the request (fresh doubles, manifest mode) and returns the
// golden measurement it signed, nil when the real run fails.
func (au *aud) signed(rf refs, ec *endorse.Context) *epb.VMGoldenMeasurement {
	key := fingerprint(ec)
	if g, ok := rf[key]; ok {
		return g
	}
	rc := deepClone(ec)
	rc.DryRun, rc.MeasurementOnly, rc.SnapshotDir, rc.CandidateName, rc.OutDir, rc.CommitRetries = false, false, "", "real", "out", 0
	rv := doubles.NewMemVCS(nil)
	rc.VCS = rv
	var g *epb.VMGoldenMeasurement
	if err := au.a.Endorse(&doubles.FCtl{}, authority.Opts{Overwrite: true}, rc); err == nil {
		e := &epb.VMLaunchEndorsement{}
		if raw := rv.Head["out/real.binarypb"]; len(raw) > 0 && proto.Unmarshal(raw, e) == nil && len(e.SerializedUefiGolden) > 0 {
			g = &epb.VMGoldenMeasurement{}
			if proto.Unmarshal(e.SerializedUefiGolden, g) != nil {
				g = nil
			}
		}
	}
	au.c.Eval(1)
	rf[key] = g
	return g
}

func vmsasOf(ec *endorse.Context) uint32 {
	if ec.SevSnp != nil {
		return ec.SevSnp.LaunchVmsas
	}
	return 0
}

// comparePrinted judges the output of a successful measurement-only run against what a real run over the same
// request signs. It reports whether the comparison took place and agreed.
func (au *aud) comparePrinted(idx int, gname string, rf refs, ec *endorse.Context, out string) bool {
	g := au.signed(rf, ec)
	if g == nil {
		au.c.Count("audit/real-reference-run-failed-not-judged", 1)
		return false
	}
	ps, pt := printed(out)
	es, et := expected(g, vmsasOf(ec))
	if strings.Join(ps, "\n") != strings.Join(es, "\n") || strings.Join(pt, "\n") != strings.Join(et, "\n") {
		au.c.Violate(core.Violation{Kind: "oracle", Entry: entryVF, Site: "printed-measurements-differ-from-signed", Gen: gname, Case: idx,
			Detail: fmt.Sprintf("printed SNP %v TDX %v; a real run signs SNP %v TDX %v", ps, pt, es, et)})
		return false
	}
	au.printedCompared++
	au.c.Count("measurement-values-compared", len(es)+len(et))
	return true
}

func modeName(dry, mo bool) string {
	switch {
	case dry && mo:
		return "dry+measurement-only"
	case dry:
		return "dry"
	case mo:
		return "measurement-only"
	}
	return "real"
}

func techName(ec *endorse.Context) string {
	switch {
	case ec.SevSnp != nil && ec.Tdx != nil:
		return "snp+tdx"
	case ec.SevSnp != nil:
		return "snp"
	case ec.Tdx != nil:
		return "tdx"
	}
	return "none"
}
