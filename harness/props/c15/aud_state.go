package c15

// Stored-state forms (added after the fourth review round).
//
// Every earlier family runs against key material and an authority exactly as THIS code base's own bootstrap wrote them
// a moment ago, and (outside the nonprod command line) behind in-memory doubles. What a dry run / measurement-only run
// READS is therefore always in the one form the writers of the same tree produce. This family varies the stored state
// itself: the key directory of the file key manager (testing/nonprod/localkm) and the bucket of the file/bucket-backed
// certificate authority (sign/gcsca over storage/local — what the shipped command line composes) are laid out, per
// case, in the forms the readers accept besides the one the writers produce, in forms they refuse, and with parts
// missing:
//
//   key files         PKCS #8 as written | PKCS #1 ("RSA PRIVATE KEY") | PEM headers | CR LF line ends | text before the
//                     armour | no final newline | (refused:) a blank line after the armour; modes 0644 / 0600 / 0400 / 0640;
//                     an older signing key version next to the primary one (the state after a rotation); an unrelated
//                     PKCS #1 key, a backup copy, notes and a sub-directory next to the keys
//   certificates      the signing certificates DER as written | PEM-armoured | PEM-armoured with CR LF | (refused:) DER with
//                     trailing bytes; the root certificate PEM as written | text before the armour | CR LF | no final
//                     newline | (refused by the command line:) DER, a blank line after the armour
//   manifest          as written | one line | with comments | entries reordered and re-indented | absent
//   layout            as is | key directory / bucket root a symbolic link | key directory empty / absent | bucket absent;
//                     stray objects in the bucket
//
// Each laid-out state serves dry, measurement-only and dry+measurement-only runs at two levels: endorse.VirtualFirmware
// with the key manager loaded from the directory and the authority's storage behind the recording double (call log AND
// files observed), and the shipped command line (cmd.MakeApp with localkm + localca + localnonvcs), where loading the
// keys and checking the certificates are part of the command. The state is laid out afresh before every run.
//
// Oracle (the rules of the other families): the whole case directory — keys, bucket, output root's parent, work files —
// is compared entry by entry (kind, mode, contents) before and after the run: any difference is
// file-tree-changed-in-dry-run-or-measurement-only, whether or not the run completed; a storage write / wipe-out /
// bucket creation, an authority Finalize / Wipeout / PrepareResources or a key-manager create / destroy in the call log
// is side-effect-in-dry-run-or-measurement-only; measurement-only runs at library level may not call signer, authority,
// key manager or storage at all. Completion is judged only when a REAL run over an identical copy of the state
// completes (a state the real run refuses too is not one a dry run has to accept); the measurements a completed
// measurement-only run prints are compared with what that real run signed.

import (
	"bytes"
	crand "crypto/rand"
	"crypto/rsa"
	"crypto/x509"
	"encoding/pem"
	"fmt"
	"math/rand/v2"
	"os"
	"path/filepath"
	"sort"
	"strings"
	"time"

	"github.com/google/gce-tcb-verifier/endorse"
	cpb "github.com/google/gce-tcb-verifier/proto/certificates"
	epb "github.com/google/gce-tcb-verifier/proto/endorsement"
	"github.com/google/gce-tcb-verifier/rotate"
	"github.com/google/gce-tcb-verifier/testing/nonprod/localnonvcs"
	"google.golang.org/protobuf/encoding/prototext"
	"google.golang.org/protobuf/proto"

	"verifharness/authority"
	"verifharness/core"
	"verifharness/doubles"
	"verifharness/gen/endreq"
)

// stTemplate is the process's bootstrapped and once-rotated localkm + gcsca-on-disk state (relative path -> content),
// plus an unrelated key in the PKCS #1 form.
type stTemplate struct {
	files      map[string][]byte
	manifest   *cpb.GCECertificateManifest
	primaryCrt string // path of the primary signing key's certificate object, relative to the case directory
	unrelated  []byte
}

var stTpl *stTemplate

func (au *aud) stateTemplate() *stTemplate {
	if stTpl != nil {
		return stTpl
	}
	dir, _ := os.MkdirTemp("", "verif-c15-sttpl-")
	defer os.RemoveAll(dir)
	t0 := time.Date(2025, 1, 1, 0, 0, 0, 0, time.UTC)
	a := authority.New(authority.LocalKM, authority.GcscaDisk, dir)
	if err := a.Bootstrap(&doubles.FCtl{}, authority.Opts{}, authority.DefaultBootstrap(t0)); err != nil {
		panic(err)
	}
	if _, err := a.Rotate(&doubles.FCtl{}, authority.Opts{}, &rotate.SigningKeyContext{SigningKeyCommonName: "signingKeyCn", Now: t0.Add(24 * time.Hour)}); err != nil {
		panic(err)
	}
	t := &stTemplate{files: map[string][]byte{}, manifest: &cpb.GCECertificateManifest{}}
	filepath.Walk(dir, func(p string, info os.FileInfo, err error) error {
		if err != nil || info.IsDir() {
			return nil
		}
		rel, _ := filepath.Rel(dir, p)
		b, _ := os.ReadFile(p)
		t.files[filepath.ToSlash(rel)] = b
		return nil
	})
	mpath := "ca/" + authority.Bucket + "/keyManifest.textproto"
	if err := prototext.Unmarshal(t.files[mpath], t.manifest); err != nil {
		panic(fmt.Sprintf("state template: manifest: %v", err))
	}
	for _, e := range t.manifest.Entries {
		if e.KeyVersionName == t.manifest.PrimarySigningKeyVersionName {
			t.primaryCrt = "ca/" + authority.Bucket + "/" + e.ObjectPath
		}
	}
	if _, ok := t.files[t.primaryCrt]; !ok {
		panic("state template: the primary signing key's certificate object was not found")
	}
	key, err := rsa.GenerateKey(crand.Reader, 2048)
	if err != nil {
		panic(err)
	}
	t.unrelated = pem.EncodeToMemory(&pem.Block{Type: "RSA PRIVATE KEY", Bytes: x509.MarshalPKCS1PrivateKey(key)})
	stTpl = t
	return t
}

// ---- forms ----

type stForm struct {
	name    string
	weight  int
	refused bool // the unchanged readers refuse it (kept a minority: a refused object hides the ones read after it)
}

var keyForms = []stForm{{"pkcs8-as-written", 3, false}, {"pkcs1", 3, false}, {"pkcs8-pem-headers", 1, false}, {"pkcs8-crlf", 1, false},
	{"pkcs8-text-before-armour", 1, false}, {"pkcs1-no-final-newline", 1, false}, {"pkcs8-blank-line-after-armour", 1, true}}

var certForms = []stForm{{"der-as-written", 4, false}, {"pem-armoured", 3, true}, {"pem-armoured-crlf", 1, true}, {"der-with-trailing-bytes", 1, true}}

var rootForms = []stForm{{"pem-as-written", 4, false}, {"pem-text-before-armour", 1, false}, {"pem-crlf", 1, false}, {"pem-no-final-newline", 1, false},
	{"der", 1, true}, {"pem-blank-line-after-armour", 1, true}}

var manifestForms = []stForm{{"as-written", 4, false}, {"one-line", 2, false}, {"with-comments", 2, false}, {"entries-reordered-tab-indented", 2, false}, {"absent", 1, true}}

var layoutForms = []stForm{{"as-is", 8, false}, {"key-dir-is-a-symbolic-link", 2, false}, {"bucket-root-is-a-symbolic-link", 2, false},
	{"key-dir-empty", 1, true}, {"key-dir-absent", 1, true}, {"bucket-absent", 1, true}}

var fileModes = []os.FileMode{0o644, 0o644, 0o600, 0o400, 0o640}

// pick draws a form by weight; refused forms are drawn only while *allowRefused is true, and clear it (at most one
// refused object per state).
func pick(r *rand.Rand, forms []stForm, allowRefused *bool) stForm {
	total := 0
	for _, f := range forms {
		if !f.refused || *allowRefused {
			total += f.weight
		}
	}
	n := r.IntN(total)
	for _, f := range forms {
		if f.refused && !*allowRefused {
			continue
		}
		if n < f.weight {
			if f.refused {
				*allowRefused = false
			}
			return f
		}
		n -= f.weight
	}
	return forms[0]
}

func crlf(b []byte) []byte { return bytes.ReplaceAll(b, []byte("\n"), []byte("\r\n")) }

func keyInForm(orig []byte, form string) []byte {
	blk, _ := pem.Decode(orig)
	if blk == nil {
		panic("state template: key file is not PEM")
	}
	pkcs1 := func() []byte {
		k, err := x509.ParsePKCS8PrivateKey(blk.Bytes)
		if err != nil {
			panic(err)
		}
		return pem.EncodeToMemory(&pem.Block{Type: "RSA PRIVATE KEY", Bytes: x509.MarshalPKCS1PrivateKey(k.(*rsa.PrivateKey))})
	}
	switch form {
	case "pkcs1":
		return pkcs1()
	case "pkcs1-no-final-newline":
		return bytes.TrimRight(pkcs1(), "\n")
	case "pkcs8-pem-headers":
		return pem.EncodeToMemory(&pem.Block{Type: "PRIVATE KEY", Headers: map[string]string{"Comment": "imported 2024-11-02"}, Bytes: blk.Bytes})
	case "pkcs8-crlf":
		return crlf(orig)
	case "pkcs8-text-before-armour":
		return append([]byte("signing key material, keep private\n"), orig...)
	case "pkcs8-blank-line-after-armour":
		return append(append([]byte(nil), orig...), '\n')
	}
	return orig
}

func certInForm(der []byte, form string) []byte {
	armoured := pem.EncodeToMemory(&pem.Block{Type: "CERTIFICATE", Bytes: der})
	switch form {
	case "pem-armoured":
		return armoured
	case "pem-armoured-crlf":
		return crlf(armoured)
	case "der-with-trailing-bytes":
		return append(append([]byte(nil), der...), 0, 0)
	}
	return der
}

func rootInForm(orig []byte, form string) []byte {
	switch form {
	case "pem-text-before-armour":
		return append([]byte("root certificate of the signing authority\n"), orig...)
	case "pem-crlf":
		return crlf(orig)
	case "pem-no-final-newline":
		return bytes.TrimRight(orig, "\n")
	case "pem-blank-line-after-armour":
		return append(append([]byte(nil), orig...), '\n')
	case "der":
		if blk, _ := pem.Decode(orig); blk != nil {
			return blk.Bytes
		}
	}
	return orig
}

func manifestInForm(orig []byte, m *cpb.GCECertificateManifest, form string) []byte {
	switch form {
	case "one-line":
		if b, err := (prototext.MarshalOptions{Multiline: false}).Marshal(m); err == nil {
			return b
		}
	case "with-comments":
		return []byte("# key manifest -- edited by hand\n\n" + string(orig) + "\n# end of manifest\n")
	case "entries-reordered-tab-indented":
		c := proto.Clone(m).(*cpb.GCECertificateManifest)
		for a, b := 0, len(c.Entries)-1; a < b; a, b = a+1, b-1 {
			c.Entries[a], c.Entries[b] = c.Entries[b], c.Entries[a]
		}
		if b, err := (prototext.MarshalOptions{Multiline: true, Indent: "\t"}).Marshal(c); err == nil {
			return b
		}
	}
	return orig
}

// ---- one laid-out state ----

type stFile struct {
	data []byte
	mode os.FileMode
}

type stState struct {
	files  map[string]stFile // path relative to the case directory
	dirs   []string          // empty directories to create
	layout string
	// what was chosen (for names and cells)
	primaryCert, root, manifest string
	keyFormsUsed                []string
	refusedObject               string
	extras                      bool
}

func (au *aud) drawState(r *rand.Rand, k int) *stState {
	t := au.stateTemplate()
	st := &stState{files: map[string]stFile{}}
	allowRefused := r.IntN(5) == 0
	mode := func() os.FileMode { return fileModes[r.IntN(len(fileModes))] }
	var names []string
	for n := range t.files {
		names = append(names, n)
	}
	sort.Strings(names)
	bucket := "ca/" + authority.Bucket + "/"
	for _, n := range names {
		b := t.files[n]
		switch {
		case strings.HasPrefix(n, "keys/"):
			f := pick(r, keyForms, &allowRefused)
			st.files[n] = stFile{keyInForm(b, f.name), mode()}
			st.keyFormsUsed = append(st.keyFormsUsed, f.name)
			if f.refused {
				st.refusedObject = "key file " + f.name
			}
		case n == bucket+authority.RootPath:
			f := pick(r, rootForms, &allowRefused)
			st.files[n] = stFile{rootInForm(b, f.name), mode()}
			st.root = f.name
			if f.refused {
				st.refusedObject = "root certificate " + f.name
			}
		case n == bucket+"keyManifest.textproto":
			f := pick(r, manifestForms, &allowRefused)
			st.manifest = f.name
			if f.name == "absent" {
				st.refusedObject = "manifest absent"
				continue
			}
			st.files[n] = stFile{manifestInForm(b, t.manifest, f.name), mode()}
		case strings.HasSuffix(n, ".crt"):
			var f stForm
			if n == t.primaryCrt {
				// armoured in every third case at least: it is the only certificate object an endorse run reads
				if k%3 == 1 {
					f = certForms[1+r.IntN(2)]
				} else {
					f = pick(r, certForms, &allowRefused)
				}
				st.primaryCert = f.name
				if f.refused {
					st.refusedObject = "primary signing certificate " + f.name
				}
			} else {
				always := true
				f = pick(r, certForms, &always)
			}
			st.files[n] = stFile{certInForm(b, f.name), mode()}
		default:
			st.files[n] = stFile{b, 0o644}
		}
	}
	if r.IntN(2) == 0 {
		st.extras = true
		st.files["keys/unrelated.pem"] = stFile{t.unrelated, mode()}
		st.files["keys/notes.txt"] = stFile{[]byte("rotate before 2026-01-01\n"), 0o644}
		for _, n := range names {
			if strings.HasPrefix(n, "keys/") {
				st.files[n+".bak"] = stFile{t.files[n], 0o600}
				break
			}
		}
		st.files["keys/archive/retired.pem"] = stFile{[]byte("not a key\n"), 0o600}
		st.files[bucket+"README"] = stFile{[]byte("certificates of the signing authority\n"), 0o644}
		st.files[bucket+authority.CertDir+"/retired.crt"] = stFile{[]byte{0x30, 0x03, 0x02, 0x01, 0x00}, 0o444}
	}
	lay := pick(r, layoutForms, &allowRefused)
	st.layout = lay.name
	if lay.refused {
		st.refusedObject = "layout " + lay.name
	}
	switch st.layout {
	case "key-dir-empty", "key-dir-absent":
		for n := range st.files {
			if strings.HasPrefix(n, "keys/") {
				delete(st.files, n)
			}
		}
		if st.layout == "key-dir-empty" {
			st.dirs = append(st.dirs, "keys")
		}
	case "bucket-absent":
		for n := range st.files {
			if strings.HasPrefix(n, "ca/") {
				delete(st.files, n)
			}
		}
		st.dirs = append(st.dirs, "ca")
	}
	return st
}

// lay writes the state under dir (which must not hold an earlier lay-out of it).
func (st *stState) lay(dir string) {
	real := func(rel string) string {
		switch {
		case st.layout == "key-dir-is-a-symbolic-link" && strings.HasPrefix(rel, "keys/"):
			return "keys-elsewhere/" + strings.TrimPrefix(rel, "keys/")
		case st.layout == "bucket-root-is-a-symbolic-link" && strings.HasPrefix(rel, "ca/"):
			return "ca-elsewhere/" + strings.TrimPrefix(rel, "ca/")
		}
		return rel
	}
	for _, d := range st.dirs {
		os.MkdirAll(filepath.Join(dir, d), 0o755)
	}
	var names []string
	for n := range st.files {
		names = append(names, n)
	}
	sort.Strings(names)
	for _, n := range names {
		p := filepath.Join(dir, real(n))
		os.MkdirAll(filepath.Dir(p), 0o755)
		if err := os.WriteFile(p, st.files[n].data, 0o644); err != nil {
			panic(err)
		}
		os.Chmod(p, st.files[n].mode)
	}
	switch st.layout {
	case "key-dir-is-a-symbolic-link":
		os.Symlink("keys-elsewhere", filepath.Join(dir, "keys"))
	case "bucket-root-is-a-symbolic-link":
		os.Symlink("ca-elsewhere", filepath.Join(dir, "ca"))
	}
}

// relay removes the laid-out state (not the work files or the output root) and lays it out again.
func (st *stState) relay(dir string) {
	for _, d := range []string{"keys", "ca", "keys-elsewhere", "ca-elsewhere"} {
		p := filepath.Join(dir, d)
		filepath.Walk(p, func(q string, info os.FileInfo, err error) error {
			if err == nil && info.IsDir() {
				os.Chmod(q, 0o755)
			}
			return nil
		})
		os.RemoveAll(p)
	}
	st.lay(dir)
}

func (st *stState) String() string {
	ref := ""
	if st.refusedObject != "" {
		ref = " (" + st.refusedObject + ")"
	}
	return fmt.Sprintf("layout %s, key files %v, primary signing certificate %s, root certificate %s, manifest %s, stray files %v%s",
		st.layout, st.keyFormsUsed, st.primaryCert, st.root, st.manifest, st.extras, ref)
}

// stateWrites lists the logged calls that change stored state of keys or authority.
func stateWrites(calls []doubles.Call) []string {
	var out []string
	for _, c := range calls {
		switch {
		case strings.HasPrefix(c.Name, "storage.Write:"), strings.HasPrefix(c.Name, "storage.Wipeout"), strings.HasPrefix(c.Name, "storage.EnsureBucketExists"),
			strings.HasPrefix(c.Name, "ca.Finalize"), strings.HasPrefix(c.Name, "ca.Wipeout"), strings.HasPrefix(c.Name, "ca.PrepareResources"),
			strings.HasPrefix(c.Name, "manager.Create"), strings.HasPrefix(c.Name, "manager.Destroy"), strings.HasPrefix(c.Name, "manager.Wipeout"):
			out = append(out, c.Name)
		}
	}
	return out
}

func assemblyAt(dir string) *authority.Assembly {
	return &authority.Assembly{KM: authority.LocalKM, CA: authority.GcscaDisk, Dir: dir}
}

// stRef is the real command over an identical copy of the state (made on first use).
type stRef struct {
	done   bool
	libErr error
	cliErr error
	golden *epb.VMGoldenMeasurement
}

func (au *aud) stateCase(i, k int) {
	c := au.c
	r := c.Rand(i)
	req := endreq.Random(r, endreq.Opts{MaxImage: 64 << 10, AllowNoTDX: true, CheapTDX: true}, k)
	req.OutDir, req.SvsmSnpMeasurement = "out", nil
	if r.IntN(2) == 0 {
		req.SnapshotDir = "snap"
	}
	st := au.drawState(r, k)
	overwrite := r.IntN(2) == 0
	env := []string{"empty-root", "older-files-present", "empty-root", "older-files-present", "empty-root", "root-missing"}[r.IntN(6)] // the command line refuses a missing output root in every mode
	orders := [][][2]bool{{{true, false}, {false, true}, {true, true}}, {{false, true}, {true, true}, {true, false}}, {{true, true}, {true, false}, {false, true}}}
	modes := orders[k%3]

	dir, _ := os.MkdirTemp("", "verif-c15-state-")
	dir2, _ := os.MkdirTemp("", "verif-c15-state-ref-")
	defer func() {
		for _, d := range []string{dir, dir2} {
			filepath.Walk(d, func(q string, info os.FileInfo, err error) error {
				if err == nil && info.IsDir() {
					os.Chmod(q, 0o755)
				}
				return nil
			})
			os.RemoveAll(d)
		}
	}()
	for _, d := range []string{dir, dir2} {
		os.MkdirAll(filepath.Join(d, "work"), 0o755)
		os.WriteFile(filepath.Join(d, "work", req.ImageName), req.Image, 0o644)
		os.MkdirAll(filepath.Join(d, "holder"), 0o755)
	}
	root := filepath.Join(dir, "holder", "root")
	switch env {
	case "empty-root":
		os.MkdirAll(root, 0o755)
	case "older-files-present":
		os.MkdirAll(filepath.Join(root, "out"), 0o755)
		os.WriteFile(filepath.Join(root, "out", req.CandidateName+".binarypb"), []byte("older"), 0o644)
		os.WriteFile(filepath.Join(root, "out", "manifest.textproto"), []byte("# old\n"), 0o644)
	}
	img := filepath.Join(dir, "work", req.ImageName)
	st.lay(dir)
	a := assemblyAt(dir)

	gbase := fmt.Sprintf("stored state#%d [%s] output root %s, tech %s, snapshot=%v, overwrite=%v", k, st, env, techName(req), req.SnapshotDir != "", overwrite)
	c.Begin(i, gbase, entryVF, nil)
	defer c.End(i)

	// the real command over an identical copy of the state: whether it completes, and what it signs
	ref := &stRef{}
	rr := rand.New(rand.NewPCG(uint64(i), 15)) // flag order of the reference command: not drawn from the case's stream, which must not depend on outcomes
	reference := func() *stRef {
		if ref.done {
			return ref
		}
		ref.done = true
		st.lay(dir2)
		a2 := assemblyAt(dir2)
		rc := deepClone(req)
		rc.DryRun, rc.MeasurementOnly = false, false
		rc.VCS = doubles.NewMemVCS(nil)
		captureStdout(func() { ref.libErr = a2.Endorse(&doubles.FCtl{}, authority.Opts{Overwrite: true}, rc) })
		st.relay(dir2)
		root2 := filepath.Join(dir2, "holder", "root")
		if env != "root-missing" {
			os.MkdirAll(root2, 0o755) // the command line refuses an output root that does not exist, in every mode
		}
		rq := deepClone(req)
		rq.SnapshotDir, rq.CandidateName, rq.OutDir = "", "real", "out"
		img2 := filepath.Join(dir2, "work", req.ImageName)
		captureStdout(func() {
			ref.cliErr = a2.CLI(append(append([]string{"endorse"}, flatten(rr, requestFlags(rq, img2))...), "--out_root", root2, "--overwrite")...)
		})
		c.Eval(2)
		if ref.cliErr == nil {
			raw, _ := os.ReadFile(filepath.Join(root2, "out", "real.binarypb"))
			e, gm := &epb.VMLaunchEndorsement{}, &epb.VMGoldenMeasurement{}
			if len(raw) > 0 && proto.Unmarshal(raw, e) == nil && len(e.SerializedUefiGolden) > 0 && proto.Unmarshal(e.SerializedUefiGolden, gm) == nil {
				ref.golden = gm
			}
		}
		return ref
	}
	rf := refs{}

	cells := func(level, mode, cls string) {
		c.Cell("stored state|%s|%s|layout=%s|primary certificate=%s|%s", level, mode, st.layout, st.primaryCert, cls)
		c.Cell("stored state|%s|%s|root certificate=%s|manifest=%s|%s", level, mode, st.root, st.manifest, cls)
		for _, kf := range st.keyFormsUsed {
			c.Cell("stored state|%s|%s|key file=%s|stray files=%v|%s", level, mode, kf, st.extras, cls)
		}
	}

	for _, md := range modes {
		dry, mo := md[0], md[1]
		// ---- library level: key manager loaded from the directory, authority storage behind the recording double
		func() {
			st.relay(dir)
			gname := gbase + " | " + modeName(dry, mo) + " through endorse.VirtualFirmware"
			f := &doubles.FCtl{}
			ctx, cerr := a.Context(f, authority.Opts{Overwrite: overwrite}) // loads the key directory: set-up, not part of the run
			if cerr != nil {
				c.Count("audit/stored-state-library-runs-not-possible-keys-do-not-load", 1)
				return
			}
			ec := deepClone(req)
			ec.DryRun, ec.MeasurementOnly = dry, mo
			ec.VCS = &localnonvcs.T{Root: root}
			from := len(f.Log)
			before := tree(dir)
			var err error
			var out string
			g := c.Guard(i, entryVF, gname, core.Budget{}, func() {
				out = captureStdout(func() { err = endorse.VirtualFirmware(endorse.NewContext(ctx, ec)) })
			})
			if g.Panicked {
				return
			}
			diff := treeDiff(before, tree(dir))
			calls := append([]doubles.Call(nil), f.Log[from:]...)
			changed := ""
			if w := stateWrites(calls); len(w) > 0 {
				changed = fmt.Sprintf("stored state of keys / authority written by %v", w)
			}
			s := seen{dry: dry, mo: mo, err: err, calls: calls, changed: changed}
			if err != nil {
				s.excused = reference().libErr != nil
			}
			cls := au.judge(i, gname, s)
			if diff != "" {
				c.Violate(core.Violation{Kind: "oracle", Entry: entryVF, Site: "file-tree-changed-in-dry-run-or-measurement-only", Gen: gname, Case: i,
					Detail: fmt.Sprintf("case directory with key directory, authority bucket and output root (run returned %v): %s", err, diff)})
				cls = "FILE-TREE-CHANGED"
			}
			if mo && err == nil && cls == "ok" {
				if au.comparePrinted(i, gname, rf, ec, out) {
					cls = "ok-printed-as-signed"
				} else {
					cls = "PRINT-MISMATCH-OR-NO-REFERENCE"
				}
			}
			au.nState++
			if err == nil {
				au.nStateCompleted++
			}
			c.Count("runs-against-the-file-back-end-with-tree-compared", 1)
			cells("library", modeName(dry, mo), cls)
		}()
		// ---- the shipped command line: loading the keys and checking the certificates are part of the command
		func() {
			st.relay(dir)
			groups := append(requestFlags(req, img), []string{"--out_root", root})
			if dry {
				groups = append(groups, []string{"--dry_run"})
			}
			if mo {
				groups = append(groups, []string{"--measurement_only"})
			}
			if overwrite {
				groups = append(groups, []string{"--overwrite"})
			}
			args := append([]string{"endorse"}, flatten(r, groups)...)
			gname := gbase + " | " + modeName(dry, mo) + " through the nonprod command line: " + strings.Join(args, " ")
			before := tree(dir)
			var err error
			var out string
			g := c.Guard(i, entryCLI, gname, core.Budget{}, func() {
				out = captureStdout(func() { err = a.CLI(args...) })
			})
			if g.Panicked {
				return
			}
			diff := treeDiff(before, tree(dir))
			cls := "ok"
			if err != nil {
				cls = "refused"
				if reference().cliErr == nil {
					c.Violate(core.Violation{Kind: "oracle", Entry: entryCLI, Site: "dry-run-or-measurement-only-failed", Gen: gname, Case: i,
						Detail: fmt.Sprintf("%v (the real command over an identical copy of the stored state completes)", err)})
					cls = "FAILED"
				}
			}
			if diff != "" {
				c.Violate(core.Violation{Kind: "oracle", Entry: entryCLI, Site: "file-tree-changed-in-dry-run-or-measurement-only", Gen: gname, Case: i,
					Detail: fmt.Sprintf("case directory with key directory, authority bucket and output root (command returned %v): %s", err, diff)})
				cls = "FILE-TREE-CHANGED"
			}
			if mo && err == nil && cls == "ok" {
				if gm := reference().golden; gm == nil {
					c.Count("audit/real-reference-run-failed-not-judged", 1)
				} else {
					ps, pt := printed(out)
					es, et := expected(gm, vmsasOf(req))
					if strings.Join(ps, "\n") != strings.Join(es, "\n") || strings.Join(pt, "\n") != strings.Join(et, "\n") {
						c.Violate(core.Violation{Kind: "oracle", Entry: entryCLI, Site: "printed-measurements-differ-from-signed", Gen: gname, Case: i,
							Detail: fmt.Sprintf("printed SNP %v TDX %v; the real command signs SNP %v TDX %v", ps, pt, es, et)})
						cls = "PRINT-MISMATCH"
					} else {
						au.printedCompared++
						c.Count("measurement-values-compared", len(es)+len(et))
						cls = "ok-printed-as-signed"
					}
				}
			}
			au.nState++
			if err == nil {
				au.nStateCompleted++
				for _, kf := range st.keyFormsUsed {
					if strings.HasPrefix(kf, "pkcs1") {
						au.nStateLegacyKeyCompleted++
						break
					}
				}
			}
			if strings.HasPrefix(st.primaryCert, "pem-armoured") {
				au.nStateArmouredCert++
			}
			// per form: how often a command over a state holding it completed (a form that never completes is only
			// ever judged by the no-write clause)
			oc := "refused"
			if err == nil {
				oc = "completed"
			}
			forms := map[string]bool{"layout=" + st.layout: true, "primary certificate=" + st.primaryCert: true, "root certificate=" + st.root: true, "manifest=" + st.manifest: true}
			for _, kf := range st.keyFormsUsed {
				forms["key file="+kf] = true
			}
			for fm := range forms {
				c.Count("audit/stored-state-command-line-runs-"+oc+"/"+fm, 1)
			}
			c.Count("runs-against-the-file-back-end-with-tree-compared", 1)
			cells("command line", modeName(dry, mo), cls)
		}()
	}
}
