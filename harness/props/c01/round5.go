package c01

// round5.go: three families appended after the fourth-round families (their case numbers follow the live cases, so
// every earlier case keeps its number and its PRNG stream). All are judged by the one rule of C01 (accept =>
// authentic); only acceptances are judged.
//
//   cert     the CONTENTS of the embedded signer certificate are drawn, not only who issued it: private extensions
//            (critical and not), extended key usages, CA flag, missing key usage — the things that make the
//            certificate library complain for a reason of its own, possibly BEFORE it has looked at the validity
//            period or built a chain — crossed with who issued the certificate (the caller's root, a foreign root,
//            nobody, an intermediate), with its validity period (current, run out, not yet begun), with the caller's
//            root set and time. The document is signed correctly with the certificate's key, so chain and time are
//            the only things that can be wrong. Every case goes through every entry point; authref (which does not
//            look at extensions at all) decides.
//   content  the contents of the (as yet unauthenticated) payload are drawn: timestamp on either side of the
//            release-process change, provenance fields (changelist, commit) present or not, technology sections
//            present, absent or empty — the things a verifier branches on before or while it authenticates — crossed
//            with the state of the authentication: signed by the genuine signer, re-signed by a foreign or
//            self-signed key, garbage signature, neither signature nor certificate, fields edited after signing.
//            Every case goes through every entry point; authref (which does not look at these fields) decides.
//   sources  ONE call that can get the endorsement from SEVERAL places whose contents DIFFER: a bucket that answers
//            successive requests differently, a certificate-table entry and a bucket that disagree, an explicit
//            endorsement beside a table entry, with and without testonly_force_gcs. A is a forged endorsement, B a
//            genuine one; in half of the cases the attestation is one that only A's contents admit (a debuggable
//            guest, another measurement). The oracle is existential over the sources of the call, as everywhere
//            else, but an endorsement counts only if the acceptance can rest on it: the same entry point, same
//            attestation, same options, given that endorsement ALONE and explicitly, accepts it. A call that accepts
//            although no source is both authentic and sufficient alone has relied on (accepted) a non-authentic one.

import (
	"context"
	"crypto"
	"crypto/ecdsa"
	"crypto/ed25519"
	"crypto/elliptic"
	crand "crypto/rand"
	"crypto/rsa"
	"crypto/sha256"
	"crypto/x509"
	"crypto/x509/pkix"
	"encoding/asn1"
	"fmt"
	"math/big"
	"math/rand/v2"
	"strings"
	"sync"
	"time"

	"github.com/google/gce-tcb-verifier/extract/extractsev"
	"github.com/google/gce-tcb-verifier/gcetcbendorsement"
	epb "github.com/google/gce-tcb-verifier/proto/endorsement"
	"github.com/google/gce-tcb-verifier/sev"
	"github.com/google/gce-tcb-verifier/timeproto"
	"github.com/google/gce-tcb-verifier/verify"
	sgabi "github.com/google/go-sev-guest/abi"
	cpb "github.com/google/go-sev-guest/proto/check"
	spb "github.com/google/go-sev-guest/proto/sevsnp"
	tpmpb "github.com/google/go-tpm-tools/proto/attest"
	"google.golang.org/protobuf/proto"

	"verifharness/core"
	"verifharness/doubles"
	"verifharness/gen"
	"verifharness/ref/authref"
)

func (w *world) runRound5(c *core.Ctx, base int) int {
	a := &audit{c: c, w: w, accept: map[string]int{}, reject: map[string]int{}}
	ents := entries()
	cs := w.certCases(c)
	for k, cc := range cs {
		i := base + k
		if !c.Mine(i) {
			continue
		}
		r := c.Rand(i)
		c.Begin(i, fmt.Sprintf("cert#%d %+v", k, cc), "all(certificate contents)", nil)
		a.runCert(i, k, cc, r, ents)
		c.End(i)
	}
	base += len(cs)
	ps := w.contentCases(c)
	for k, pc := range ps {
		i := base + k
		if !c.Mine(i) {
			continue
		}
		r := c.Rand(i)
		c.Begin(i, fmt.Sprintf("content#%d %+v", k, pc), "all(payload contents)", nil)
		a.runContent(i, k, pc, r, ents)
		c.End(i)
	}
	base += len(ps)
	ss := w.sourceCases(c)
	for k, sc := range ss {
		i := base + k
		if !c.Mine(i) {
			continue
		}
		r := c.Rand(i)
		c.Begin(i, fmt.Sprintf("sources#%d %+v", k, sc), "SevValidate, sev validate, validator closure (several differing sources)", nil)
		a.runSources(i, k, sc, r)
		c.End(i)
	}
	a.round5Floors(ents)
	return base + len(ss)
}

// everyEntry pushes one (endorsement, roots, time) through every entry point of c01.go and judges each acceptance.
func (a *audit) everyEntry(i int, fam, gname, opTag string, dims []string, ents []entry, raw []byte, rootsName string, now time.Time) {
	w := a.w
	ids := w.rootSets[rootsName]
	v := authref.Bytes(raw, x509Certs(ids), now)
	var e *epb.VMLaunchEndorsement
	if pe := (&epb.VMLaunchEndorsement{}); proto.Unmarshal(raw, pe) == nil {
		e = pe
	}
	for _, en := range ents {
		ran := false
		acc, ok := a.guard(i, fam+":"+en.name, gname, func() error {
			var err error
			ran, err = en.call(w, raw, e, ids, rootsName == "nil", now)
			return err
		})
		if !ok || !ran {
			continue
		}
		a.judge(i, fam, fam+":"+en.name, gname, opTag, dims, acc, v, raw, ids, now)
	}
	if v.Authentic {
		a.c.Count(fam+": cases authentic", 1)
	} else {
		a.c.Count(fam+": cases non-authentic", 1)
	}
}

// ---------------------------------------------------------------------------------------------------
// family "cert"

type certCase struct {
	feat, issuer, validity, roots, now, sig string
}

var certFeats = []string{"plain", "unknown-critical-ext", "two-unknown-critical-ext", "unknown-noncritical-ext", "eku-client-auth-only",
	"unknown-critical-ext+eku-client-auth-only", "unknown-eku-oid", "ca-flag-on-leaf", "no-key-usage", "unknown-critical-ext+no-key-usage"}

// certKeyFeats: the signer certificate carries a key that is not an RSA key (round 7, C01-r7m1: a hand-written PSS check that
// type-switches on the key and has no default branch accepts such a certificate with any signature). The certificate is issued
// like any other; the signature is a GENUINE signature of the payload under that key (ECDSA over SHA-256 in ASN.1, Ed25519),
// the most an attacker holding such a certificate can offer. No RSA-PSS signature exists for a non-RSA key: never authentic.
var certKeyFeats = []string{"key-ecdsa-p256", "key-ecdsa-p384", "key-ed25519"}
var certIssuers = []string{"callers-root", "foreign-root", "self-signed", "intermediate"}
var certValidity = []string{"current", "run-out", "not-begun"}

func (w *world) certCases(c *core.Ctx) []certCase {
	var out []certCase
	for _, f := range certFeats {
		for _, is := range certIssuers[:3] {
			for _, v := range certValidity {
				out = append(out, certCase{f, is, v, "genuine", "mid", "good"})
			}
		}
	}
	for _, f := range certKeyFeats { // not drawn below: the drawn cases stay what they were
		for _, is := range []string{"callers-root", "intermediate", "foreign-root"} {
			for _, v := range certValidity {
				for _, roots := range []string{"genuine", "genuine+inter"} {
					out = append(out, certCase{f, is, v, roots, "mid", "good"})
				}
			}
		}
	}
	r := c.RandNamed("round5-cert")
	n := c.N(40, 1500)
	for k := 0; k < n; k++ {
		cc := certCase{feat: pick(r, certFeats...), issuer: pick(r, certIssuers...), validity: pick(r, "current", "current", "run-out", "not-begun"),
			roots: pick(r, "genuine", "genuine", "genuine+foreign", "genuine+inter", "foreign", "nil", "empty", "leaf-in-pool"),
			now:   pick(r, "mid", "mid", "mid", "before-1s", "notBefore", "after+1s", "far-future"), sig: pick(r, "good", "good", "good", "good", "good", "flipped")}
		out = append(out, cc)
	}
	return out
}

var privateOID = asn1.ObjectIdentifier{1, 3, 6, 1, 4, 1, 11129, 2, 99}

// mintFeatured makes a signer certificate with the drawn contents. Keys are the run's keys; only the certificate is new.
func (w *world) mintFeatured(cc certCase, serial int64) (*gen.Identity, crypto.Signer) {
	p := w.pki
	nb, na := w.nb, w.nb.AddDate(5, 0, 1)
	switch cc.validity {
	case "run-out":
		na = w.nb.AddDate(0, 1, 0) // before "mid"
	case "not-begun":
		nb = w.nb.AddDate(2, 0, 0) // after "mid"
	}
	t := &x509.Certificate{SerialNumber: big.NewInt(serial), Subject: pkix.Name{CommonName: "genuine signer 1"}, NotBefore: nb, NotAfter: na,
		BasicConstraintsValid: true, KeyUsage: x509.KeyUsageDigitalSignature, SignatureAlgorithm: x509.SHA256WithRSAPSS}
	ext := func(n int, critical bool) pkix.Extension {
		return pkix.Extension{Id: append(append(asn1.ObjectIdentifier(nil), privateOID...), n), Critical: critical, Value: []byte{0x05, 0x00}}
	}
	for _, f := range strings.Split(cc.feat, "+") {
		switch f {
		case "unknown-critical-ext":
			t.ExtraExtensions = append(t.ExtraExtensions, ext(1, true))
		case "two-unknown-critical-ext":
			t.ExtraExtensions = append(t.ExtraExtensions, ext(1, true), ext(2, true))
		case "unknown-noncritical-ext":
			t.ExtraExtensions = append(t.ExtraExtensions, ext(3, false))
		case "eku-client-auth-only":
			t.ExtKeyUsage = []x509.ExtKeyUsage{x509.ExtKeyUsageClientAuth}
		case "unknown-eku-oid":
			t.UnknownExtKeyUsage = []asn1.ObjectIdentifier{append(append(asn1.ObjectIdentifier(nil), privateOID...), 7)}
		case "ca-flag-on-leaf":
			t.IsCA, t.KeyUsage = true, x509.KeyUsageDigitalSignature|x509.KeyUsageCertSign
		case "no-key-usage":
			t.KeyUsage = 0
		}
	}
	key := p.Signer2.Key
	var pub any = &key.PublicKey
	var other crypto.Signer // the non-RSA key of a key-* case
	switch cc.feat {
	case "key-ecdsa-p256", "key-ecdsa-p384":
		curve := elliptic.P256()
		if cc.feat == "key-ecdsa-p384" {
			curve = elliptic.P384()
		}
		k, err := ecdsa.GenerateKey(curve, crand.Reader)
		if err != nil {
			panic(err)
		}
		other, pub = k, &k.PublicKey
	case "key-ed25519":
		pk, k, err := ed25519.GenerateKey(crand.Reader)
		if err != nil {
			panic(err)
		}
		other, pub = k, pk
	}
	var parent *x509.Certificate
	var signKey *rsa.PrivateKey
	switch cc.issuer {
	case "callers-root":
		parent, signKey = p.Root.Cert, p.Root.Key
	case "foreign-root":
		parent, signKey = p.Attacker.Cert, p.Attacker.Key
	case "intermediate":
		parent, signKey = p.Inter.Cert, p.Inter.Key
	default:
		parent, signKey = t, key
	}
	der, err := x509.CreateCertificate(crand.Reader, t, parent, pub, signKey)
	if err != nil {
		panic(err)
	}
	crt, err := x509.ParseCertificate(der)
	if err != nil {
		panic(err)
	}
	return &gen.Identity{Key: key, Cert: crt}, other
}

func (a *audit) runCert(i, k int, cc certCase, r *rand.Rand, ents []entry) {
	w, c := a.w, a.c
	id, other := w.mintFeatured(cc, 1000+int64(k))
	e := gen.Endorse(id, w.g0)
	if other != nil { // genuinely signed with the certificate's own, non-RSA key
		var opt crypto.SignerOpts = crypto.SHA256
		msg := e.SerializedUefiGolden
		if _, isEd := other.(ed25519.PrivateKey); isEd {
			opt = crypto.Hash(0)
		} else {
			d := sha256.Sum256(msg)
			msg = d[:]
		}
		sig, err := other.Sign(crand.Reader, msg, opt)
		if err != nil {
			panic(err)
		}
		e.Signature = sig
		c.Count("cert: cases with a non-RSA signer key, signed with that key", 1)
	}
	if cc.sig == "flipped" {
		e.Signature = flipBit(e.Signature, r.IntN(len(e.Signature)), uint(r.IntN(8)))
	}
	raw := marshalE(e)
	now := w.times[cc.now]
	gname := fmt.Sprintf("cert#%d:cert=%s issuer=%s validity=%s sig=%s roots=%s now=%s", k, cc.feat, cc.issuer, cc.validity, cc.sig, cc.roots, cc.now)
	dims := []string{"cert=" + cc.feat, "issuer=" + cc.issuer, "validity=" + cc.validity}
	a.everyEntry(i, "cert", gname, cc.sig+"|"+cc.roots+"|"+cc.now, dims, ents, raw, cc.roots, now)
	c.Count("cert: cases", 1)
	if k%53 == 0 {
		c.Sample(map[string]any{"cert-case": k, "gen": gname, "unhandled_critical_extensions_seen_by_crypto_x509": len(id.Cert.UnhandledCriticalExtensions)})
	}
}

// ---------------------------------------------------------------------------------------------------
// family "content"

type contentCase struct {
	auth, ts, prov, sections, roots, now string
}

var contentAuth = []string{"signed-by-genuine-signer", "resigned-foreign-chain", "resigned-self-signed", "garbage-signature", "no-signature-no-certificate", "edited-after-signing"}
var contentTS = []string{"ts=after-release-change", "ts=before-2024", "ts=2024-gap", "ts=absent", "ts=far-future"}
var contentProv = []string{"prov=none", "prov=changelist", "prov=commit", "prov=both"}
var contentSections = []string{"sec=sev+tdx", "sec=sev+tdx", "sec=sev+tdx", "sec=sev+tdx", "sec=no-sev", "sec=no-tdx", "sec=empty-measurements", "sec=no-digest"}

func (w *world) contentCases(c *core.Ctx) []contentCase {
	var out []contentCase
	for _, au := range contentAuth {
		for _, pv := range contentProv {
			for _, ts := range []string{"ts=after-release-change", "ts=before-2024"} {
				out = append(out, contentCase{au, ts, pv, "sec=sev+tdx", "genuine", "mid"})
			}
		}
	}
	r := c.RandNamed("round5-content")
	n := c.N(40, 1500)
	for k := 0; k < n; k++ {
		out = append(out, contentCase{pick(r, contentAuth...), pick(r, contentTS...), pick(r, contentProv...), pick(r, contentSections...),
			pick(r, "genuine", "genuine", "genuine", "genuine+foreign", "foreign", "nil", "empty", "leaf-in-pool"),
			pick(r, "mid", "mid", "mid", "notBefore", "notAfter", "before-1s", "after+1s")})
	}
	return out
}

func (w *world) contentGolden(pc contentCase) *epb.VMGoldenMeasurement {
	g := proto.Clone(w.g0).(*epb.VMGoldenMeasurement)
	switch pc.ts {
	case "ts=before-2024":
		g.Timestamp = timeproto.To(time.Date(2023, 6, 1, 0, 0, 0, 0, time.UTC))
	case "ts=2024-gap":
		g.Timestamp = timeproto.To(time.Date(2024, 3, 1, 0, 0, 0, 0, time.UTC))
	case "ts=absent":
		g.Timestamp = nil
	case "ts=far-future":
		g.Timestamp = timeproto.To(time.Date(2090, 1, 1, 0, 0, 0, 0, time.UTC))
	}
	g.ClSpec, g.Commit = 0, nil
	if pc.prov == "prov=changelist" || pc.prov == "prov=both" {
		g.ClSpec = 7
	}
	if pc.prov == "prov=commit" || pc.prov == "prov=both" {
		g.Commit = []byte("0123456789abcdef0123")
	}
	switch pc.sections {
	case "sec=no-sev":
		g.SevSnp = nil
	case "sec=no-tdx":
		g.Tdx = nil
	case "sec=empty-measurements":
		g.SevSnp.Measurements, g.Tdx.Measurements = nil, nil
	case "sec=no-digest":
		g.Digest = nil
	}
	return g
}

func (a *audit) runContent(i, k int, pc contentCase, r *rand.Rand, ents []entry) {
	w, c := a.w, a.c
	p := w.pki
	g := w.contentGolden(pc)
	var e *epb.VMLaunchEndorsement
	switch pc.auth {
	case "signed-by-genuine-signer":
		e = gen.Endorse(p.Signer, g)
	case "resigned-foreign-chain":
		e = gen.Endorse(p.AttackerSign, g)
	case "resigned-self-signed":
		e = gen.Endorse(p.SelfLeaf, g)
	case "garbage-signature":
		e = &epb.VMLaunchEndorsement{SerializedUefiGolden: withCert(g, p.Signer.Cert.Raw), Signature: []byte("garbage")}
	case "no-signature-no-certificate":
		e = &epb.VMLaunchEndorsement{SerializedUefiGolden: withCert(g, nil)}
	case "edited-after-signing": // the genuine endorsement's signature over what the payload said before it was edited
		e = &epb.VMLaunchEndorsement{SerializedUefiGolden: withCert(g, p.Signer.Cert.Raw), Signature: append([]byte(nil), w.e0.Signature...)}
	default:
		panic("unknown authentication state " + pc.auth)
	}
	raw := marshalE(e)
	now := w.times[pc.now]
	gname := fmt.Sprintf("content#%d:%s %s %s %s roots=%s now=%s", k, pc.auth, pc.ts, pc.prov, pc.sections, pc.roots, pc.now)
	dims := []string{pc.ts, pc.prov, pc.sections}
	a.everyEntry(i, "content", gname, pc.auth+"|"+pc.roots+"|"+pc.now, dims, ents, raw, pc.roots, now)
	c.Count("content: cases", 1)
	if k%47 == 0 {
		c.Sample(map[string]any{"content-case": k, "gen": gname})
	}
}

// ---------------------------------------------------------------------------------------------------
// family "sources"

// seqGetter answers the n-th request for a URL with the n-th body of that URL's list; the last body is repeated.
type seqGetter struct {
	mu      sync.Mutex
	answers map[string][][]byte
	asked   map[string]int
}

func (g *seqGetter) Get(url string) ([]byte, error) {
	g.mu.Lock()
	defer g.mu.Unlock()
	bodies := g.answers[url]
	if len(bodies) == 0 {
		return nil, fmt.Errorf("getter: 404 %s", url)
	}
	if g.asked == nil {
		g.asked = map[string]int{}
	}
	n := g.asked[url]
	g.asked[url]++
	if n >= len(bodies) {
		n = len(bodies) - 1
	}
	return append([]byte(nil), bodies[n]...), nil
}

func (g *seqGetter) requests() int {
	g.mu.Lock()
	defer g.mu.Unlock()
	t := 0
	for _, n := range g.asked {
		t += n
	}
	return t
}

var _ verify.HTTPSGetter = (*seqGetter)(nil)

type sourceCase struct {
	diff  string // how A's contents differ from B's
	auth  string // why A is not authentic under the genuine root
	suits string // the attestation is one that "A-only" or "both" contents admit
	roots string
	vmsas uint32
	base  string // the caller's base policy: none, or one that leaves the guest policy to the endorsement
}

func (w *world) sourceCases(c *core.Ctx) []sourceCase {
	var out []sourceCase
	auths := []string{"resigned-self-signed", "resigned-foreign-chain", "edited-after-signing"}
	for _, au := range auths {
		out = append(out, sourceCase{"guest-policy-allows-debug", au, "A-only", "genuine", 0, baseOpen})
		out = append(out, sourceCase{"guest-policy-allows-debug", au, "both", "genuine", 4, baseOpen})
		out = append(out, sourceCase{"other-measurement", au, "A-only", "genuine", 4, "base=nil"})
		out = append(out, sourceCase{"same-contents", au, "both", "genuine", 0, "base=nil"})
	}
	out = append(out, sourceCase{"guest-policy-allows-debug", "resigned-foreign-chain", "A-only", "genuine+foreign", 0, baseOpen}) // A is authentic too
	out = append(out, sourceCase{"other-measurement", "resigned-foreign-chain", "A-only", "genuine+foreign", 4, "base=nil"})
	r := c.RandNamed("round5-sources")
	n := c.N(10, 500)
	for k := 0; k < n; k++ {
		sc := sourceCase{diff: pick(r, "guest-policy-allows-debug", "guest-policy-allows-debug", "other-measurement", "same-contents"), auth: pick(r, auths...),
			suits: pick(r, "A-only", "A-only", "both"), roots: pick(r, "genuine", "genuine", "genuine", "genuine+foreign", "genuine+inter", "foreign"), vmsas: pick(r, uint32(0), 4),
			base: pick(r, "base=nil", baseOpen)}
		if sc.diff == "guest-policy-allows-debug" {
			sc.base = baseOpen // with no base policy the command's own default guest policy stands and the endorsement's may not differ from it
		}
		if sc.diff == "other-measurement" {
			sc.suits = "A-only"
		}
		if sc.diff == "same-contents" {
			sc.suits = "both"
		}
		out = append(out, sc)
	}
	return out
}

const baseOpen = "base=guest-policy-left-to-the-endorsement"

func srcBase(kind string) *cpb.Policy {
	if kind == baseOpen {
		return &cpb.Policy{MinimumVersion: "0.0"}
	}
	return nil
}

type srcDoc struct {
	name string
	raw  []byte
	e    *epb.VMLaunchEndorsement
	v    authref.Result
}

func (a *audit) runSources(i, k int, sc sourceCase, r *rand.Rand) {
	w, c := a.w, a.c
	const fam = "sources"
	p := w.pki
	ids := w.rootSets[sc.roots]
	certs := x509Certs(ids)
	pool := w.pool(ids, false)
	now := w.times["mid"]
	gname := fmt.Sprintf("sources#%d:A=%s,%s attestation-suits=%s roots=%s vmsas=%d %s", k, sc.diff, sc.auth, sc.suits, sc.roots, sc.vmsas, sc.base)

	// --- B: the genuine endorsement. A: other contents (or the same), not made by the genuine signer.
	gA := proto.Clone(w.g0).(*epb.VMGoldenMeasurement)
	meas := w.m4
	debugGuest := false
	switch sc.diff {
	case "guest-policy-allows-debug":
		gA.SevSnp.Policy = sgabi.SnpPolicyToBytes(sgabi.SnpPolicy{SMT: true, MigrateMA: true, Debug: true})
		debugGuest = sc.suits == "A-only"
	case "other-measurement":
		mx := make([]byte, 48)
		for x := range mx {
			mx[x] = 0x55 ^ byte(x)
		}
		gA.SevSnp.Measurements[4] = mx
		meas = mx
	}
	var eA *epb.VMLaunchEndorsement
	switch sc.auth {
	case "resigned-self-signed":
		eA = gen.Endorse(p.SelfLeaf, gA)
	case "resigned-foreign-chain":
		eA = gen.Endorse(p.AttackerSign, gA)
	default: // edited after signing: the genuine certificate and the genuine signature, over other contents (or, with the same contents, a damaged signature)
		eA = &epb.VMLaunchEndorsement{SerializedUefiGolden: withCert(gA, p.Signer.Cert.Raw), Signature: append([]byte(nil), w.e0.Signature...)}
		if sc.diff == "same-contents" {
			eA.Signature = flipBit(eA.Signature, r.IntN(len(eA.Signature)), uint(r.IntN(8)))
		}
	}
	mk := func(name string, e *epb.VMLaunchEndorsement) *srcDoc {
		raw := marshalE(e)
		return &srcDoc{name, raw, e, authref.Bytes(raw, certs, now)}
	}
	A, B := mk("A", eA), mk("B", w.e0)
	docs := []*srcDoc{A, B}
	url := verify.GCETcbURL(extractsev.GCETcbObjectName(sev.GCEUefiFamilyID, meas))
	mkAt := func(table []byte) *spb.Attestation {
		at := gen.SnpAttestation(meas, w.vcek(now))
		if debugGuest {
			at.Report.Policy = sgabi.SnpPolicyToBytes(sgabi.SnpPolicy{SMT: true, MigrateMA: true, Debug: true})
		}
		if table != nil {
			at.CertificateChain.Extras = map[string][]byte{sev.GCEFwCertGUID: table}
		}
		return at
	}
	bucket := func(bodies ...*srcDoc) *seqGetter {
		if len(bodies) == 0 {
			return &seqGetter{}
		}
		var bs [][]byte
		for _, d := range bodies {
			bs = append(bs, d.raw)
		}
		return &seqGetter{answers: map[string][][]byte{url: bs}}
	}
	bg := context.Background()
	opTag := sc.diff + "," + sc.auth + "|" + sc.roots + "|suits=" + sc.suits

	// decide applies the rule: the acceptance must be able to rest on a source that is authentic and that, given
	// alone to the same entry point with the same attestation and options, is accepted.
	decide := func(alone map[string]bool) authref.Result {
		var why []string
		for _, d := range docs {
			switch {
			case d.v.Authentic && alone[d.name]:
				return authref.Result{Authentic: true}
			case d.v.Authentic:
				why = append(why, d.name+" is authentic but is refused for this attestation when it is the only endorsement given")
			default:
				why = append(why, d.name+" is not authentic ("+d.v.Why+")")
			}
		}
		return authref.Result{Authentic: false, Why: "no source of this call can carry the acceptance: " + strings.Join(why, "; ")}
	}
	witness := func(v authref.Result) []byte {
		if v.Authentic && !A.v.Authentic {
			return B.raw
		}
		return A.raw
	}

	// --- library: SevValidate
	type layout struct {
		name    string
		options *srcDoc
		table   []byte
		bucket  []*srcDoc
	}
	layouts := []layout{
		{"bucket[A,B]", nil, nil, []*srcDoc{A, B}},
		{"bucket[B,A]", nil, nil, []*srcDoc{B, A}},
		{"bucket[A,A,B]", nil, nil, []*srcDoc{A, A, B}},
		{"table=A,bucket[B]", nil, A.raw, []*srcDoc{B}},
		{"table=B,bucket[A]", nil, B.raw, []*srcDoc{A}},
		{"table=garbage,bucket[A,B]", nil, garbageBlob, []*srcDoc{A, B}},
		{"options=A,table=B,bucket[B]", A, B.raw, []*srcDoc{B}},
		{"options=B,table=A,bucket[A]", B, A.raw, []*srcDoc{A}},
	}
	for _, force := range []bool{false, true} {
		const entry = "src:SevValidate"
		mkOpts := func() *gcetcbendorsement.SevValidateOptions {
			return &gcetcbendorsement.SevValidateOptions{RootsOfTrust: pool, Now: now, ExpectedLaunchVmsas: sc.vmsas, TestonlyForceGCS: force, BasePolicy: srcBase(sc.base)}
		}
		alone, refOK := map[string]bool{}, true
		for _, d := range docs {
			acc, ok := a.guard(i, entry+"(reference: one endorsement, given explicitly)", gname, func() error {
				o := mkOpts()
				o.Endorsement = d.e
				return gcetcbendorsement.SevValidate(bg, mkAt(nil), o)
			})
			refOK = refOK && ok
			alone[d.name] = acc
			c.Count(fmt.Sprintf("sources: reference %s suits=%s authentic=%v accepted-alone=%v", d.name, sc.suits, d.v.Authentic, acc), 1)
		}
		if !refOK {
			continue
		}
		v := decide(alone)
		for _, l := range layouts {
			g := bucket(l.bucket...)
			acc, ok := a.guard(i, entry, gname, func() error {
				o := mkOpts()
				o.Getter = g
				if l.options != nil {
					o.Endorsement = l.options.e
				}
				return gcetcbendorsement.SevValidate(bg, mkAt(l.table), o)
			})
			if !ok {
				continue
			}
			dims := []string{"layout=" + l.name, onoff("force_gcs", force), "suits=" + sc.suits, fmt.Sprintf("vmsas=%d", sc.vmsas), sc.base}
			a.judge(i, fam, entry, gname+" layout="+l.name, opTag, dims, acc, v, witness(v), ids, now)
			c.Max("sources: most bucket requests in one SevValidate call", int64(g.requests()))
		}
	}

	// --- command line: sev validate (go-tpm-tools container, so that the report is the case's own)
	if len(ids) > 0 {
		const entry = "src:cli:sev validate"
		type cliLayout struct {
			name   string
			file   *srcDoc
			table  []byte
			bucket []*srcDoc
		}
		cls := []cliLayout{
			{"bucket[A,B]", nil, nil, []*srcDoc{A, B}},
			{"bucket[B,A]", nil, nil, []*srcDoc{B, A}},
			{"table=A,bucket[B]", nil, A.raw, []*srcDoc{B}},
			{"table=B,bucket[A]", nil, B.raw, []*srcDoc{A}},
			{"file=A,table=B,bucket[B]", A, B.raw, []*srcDoc{B}},
			{"file=B,table=A,bucket[A]", B, A.raw, []*srcDoc{A}},
		}
		runCLI := func(file *srcDoc, table []byte, g *seqGetter, force bool) error {
			io := doubles.NewMemIO()
			io.Files["root.pem"] = pemOf(ids)
			b, err := proto.Marshal(&tpmpb.Attestation{TeeAttestation: &tpmpb.Attestation_SevSnpAttestation{SevSnpAttestation: mkAt(table)}})
			if err != nil {
				panic(err)
			}
			io.Files["at.bin"] = b
			args := []string{"sev"}
			if bp := srcBase(sc.base); bp != nil {
				pb, err := proto.Marshal(bp)
				if err != nil {
					panic(err)
				}
				io.Files["base.binarypb"] = pb
				args = append(args, "--base", "base.binarypb")
			}
			args = append(args, "validate", "at.bin", "--root_cert", "root.pem", fmt.Sprintf("--launch_vmsas=%d", sc.vmsas))
			if file != nil {
				io.Files["e.binarypb"] = file.raw
				args = append(args, "--endorsement", "e.binarypb")
			}
			if force {
				args = append(args, "--testonly_force_gcs")
			}
			return (&doubles.CLI{IO: io, Now: now, Getter: g}).Run(args...)
		}
		force := r.IntN(2) == 0
		alone, refOK := map[string]bool{}, true
		for _, d := range docs {
			acc, ok := a.guard(i, entry+"(reference: one endorsement, given explicitly)", gname, func() error { return runCLI(d, nil, bucket(), force) })
			refOK = refOK && ok
			alone[d.name] = acc
		}
		if refOK {
			v := decide(alone)
			for _, l := range cls {
				g := bucket(l.bucket...)
				acc, ok := a.guard(i, entry, gname, func() error { return runCLI(l.file, l.table, g, force) })
				if !ok {
					continue
				}
				dims := []string{"layout=" + l.name, onoff("force_gcs", force), "suits=" + sc.suits}
				a.judge(i, fam, entry, gname+" layout="+l.name, opTag, dims, acc, v, witness(v), ids, now)
			}
		}
	}

	// --- validator closure: table entry (argument), options, bucket
	{
		const entry = "src:SNPFamilyValidateFunc"
		rep := func() *spb.Attestation { return &spb.Attestation{Report: &spb.Report{Measurement: meas}} }
		mkOpts := func() *verify.Options {
			return &verify.Options{RootsOfTrust: pool, Now: now, SNP: &verify.SNPOptions{ExpectedLaunchVMSAs: sc.vmsas}}
		}
		alone, refOK := map[string]bool{}, true
		for _, d := range docs {
			acc, ok := a.guard(i, entry+"(reference: one endorsement, given explicitly)", gname, func() error {
				o := mkOpts()
				o.Endorsement = d.e
				return verify.SNPFamilyValidateFunc(sev.GCEUefiFamilyID, o)(rep(), nil)
			})
			refOK = refOK && ok
			alone[d.name] = acc
		}
		if refOK {
			v := decide(alone)
			for _, l := range []struct {
				name    string
				arg     []byte
				options *srcDoc
				bucket  []*srcDoc
			}{
				{"arg=A,bucket[B]", A.raw, nil, []*srcDoc{B}},
				{"arg=B,bucket[A]", B.raw, nil, []*srcDoc{A}},
				{"arg=A,options=B", A.raw, B, nil},
				{"arg=B,options=A", B.raw, A, nil},
				{"bucket[A,B]", nil, nil, []*srcDoc{A, B}},
				{"bucket[B,A]", nil, nil, []*srcDoc{B, A}},
			} {
				g := bucket(l.bucket...)
				acc, ok := a.guard(i, entry, gname, func() error {
					o := mkOpts()
					o.Getter = g
					if l.options != nil {
						o.Endorsement = l.options.e
					}
					return verify.SNPFamilyValidateFunc(sev.GCEUefiFamilyID, o)(rep(), l.arg)
				})
				if !ok {
					continue
				}
				a.judge(i, fam, entry, gname+" layout="+l.name, opTag, []string{"layout=" + l.name, "suits=" + sc.suits}, acc, v, witness(v), ids, now)
			}
		}
	}
	c.Count("sources: cases", 1)
	if k < 3 {
		c.Sample(map[string]any{"sources-case": k, "gen": gname, "A_authentic": A.v.Authentic, "A_why": A.v.Why, "B_authentic": B.v.Authentic})
	}
}

func (a *audit) round5Floors(ents []entry) {
	c := a.c
	for _, fam := range []string{"cert", "content"} {
		for _, en := range ents {
			key := fam + ":" + en.name
			c.Count("round5 genuine-accepts/"+key, a.accept[key])
			c.Count("round5 nonauthentic-rejects/"+key, a.reject[key])
			c.Floor("round5 genuine-accept/"+key, a.accept[key] > 0)
			c.Floor("round5 nonauthentic-reject/"+key, a.reject[key] > 0)
		}
	}
	lib := []string{"verify.EndorsementProto", "SevValidate/extras", "TdxValidate/options", "cli:verify", "cli:tdx validate"}
	// what the families exist for: these values were seen with a non-authentic endorsement and it was refused
	var rejectDims []string
	for _, en := range lib {
		for _, d := range []string{"cert=unknown-critical-ext", "cert=two-unknown-critical-ext", "cert=eku-client-auth-only", "issuer=self-signed", "issuer=foreign-root", "validity=run-out", "validity=not-begun"} {
			rejectDims = append(rejectDims, "cert:"+en+"|"+d)
		}
		for _, d := range []string{"prov=none", "prov=changelist", "ts=after-release-change", "ts=before-2024"} {
			rejectDims = append(rejectDims, "content:"+en+"|"+d)
		}
	}
	for _, d := range []string{"layout=bucket[A,B]", "layout=bucket[A,A,B]", "layout=table=A,bucket[B]", "layout=table=garbage,bucket[A,B]", "layout=options=A,table=B,bucket[B]", "force_gcs=on", "force_gcs=off", "suits=A-only", "suits=both"} {
		rejectDims = append(rejectDims, "src:SevValidate|"+d)
	}
	for _, d := range []string{"layout=bucket[A,B]", "layout=table=A,bucket[B]", "layout=file=A,table=B,bucket[B]", "suits=A-only"} {
		rejectDims = append(rejectDims, "src:cli:sev validate|"+d)
	}
	for _, d := range []string{"layout=arg=A,bucket[B]", "layout=arg=B,options=A", "layout=bucket[A,B]"} {
		rejectDims = append(rejectDims, "src:SNPFamilyValidateFunc|"+d)
	}
	for _, d := range rejectDims {
		c.Count("round5 nonauthentic-rejects/"+d, a.reject[d])
		// which attestation kind ("suits=...") a refusal falls on depends on the drawn cases of the quick tier: counted, no floor
		if !strings.Contains(d, "|suits=") {
			c.Floor("round5 saw-nonauthentic-reject/"+d, a.reject[d] > 0)
		}
	}
	var acceptDims []string
	for _, en := range lib {
		acceptDims = append(acceptDims, "cert:"+en+"|cert=unknown-noncritical-ext", "cert:"+en+"|issuer=callers-root", "content:"+en+"|prov=changelist", "content:"+en+"|prov=commit", "content:"+en+"|ts=before-2024")
	}
	for _, d := range []string{"layout=bucket[B,A]", "layout=table=B,bucket[A]", "layout=options=B,table=A,bucket[A]", "force_gcs=on", "force_gcs=off", "suits=both"} {
		acceptDims = append(acceptDims, "src:SevValidate|"+d)
	}
	acceptDims = append(acceptDims, "src:cli:sev validate|layout=bucket[B,A]", "src:cli:sev validate|layout=file=B,table=A,bucket[A]", "src:SNPFamilyValidateFunc|layout=arg=B,bucket[A]", "src:SNPFamilyValidateFunc|layout=arg=A,options=B")
	for _, d := range acceptDims {
		c.Count("round5 genuine-accepts/"+d, a.accept[d])
		c.Floor("round5 saw-genuine-accept/"+d, a.accept[d] > 0)
	}
	for _, en := range []string{"src:SevValidate", "src:cli:sev validate", "src:SNPFamilyValidateFunc"} {
		c.Count("round5 genuine-accepts/"+en, a.accept[en])
		c.Count("round5 nonauthentic-rejects/"+en, a.reject[en])
		c.Floor("round5 genuine-accept/"+en, a.accept[en] > 0)
		c.Floor("round5 nonauthentic-reject/"+en, a.reject[en] > 0)
	}
}
