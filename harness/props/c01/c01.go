// Package c01: accepted endorsements are authentic (signature, chain, time).
package c01

import (
	"context"
	"crypto"
	crand "crypto/rand"
	"crypto/rsa"
	"crypto/sha256"
	"crypto/sha512"
	"crypto/x509"
	"encoding/pem"
	"fmt"
	"os"
	"path/filepath"
	"time"

	"github.com/google/gce-tcb-verifier/extract/extractsev"
	"github.com/google/gce-tcb-verifier/gcetcbendorsement"
	epb "github.com/google/gce-tcb-verifier/proto/endorsement"
	"github.com/google/gce-tcb-verifier/sev"
	"github.com/google/gce-tcb-verifier/timeproto"
	"github.com/google/gce-tcb-verifier/verify"
	spb "github.com/google/go-sev-guest/proto/sevsnp"
	"google.golang.org/protobuf/encoding/protowire"
	"google.golang.org/protobuf/proto"

	"verifharness/core"
	"verifharness/doubles"
	"verifharness/gen"
	"verifharness/ref/authref"
)

func init() {
	core.Register(&core.Info{
		ID: "C01", Level: "exploration",
		Rule: "case = (forgery operator applied to a genuinely signed endorsement, trust-root set, verification time); every case is run through every entry point that takes an endorsement; " +
			"the independent oracle authref (PSS/SHA-256 over the carried payload under the embedded certificate's key; certificate byte-equal to or crypto-signed by a supplied root; notBefore<=now<=notAfter) decides whether acceptance is allowed. " +
			"non-trivial = the oracle had something to decide: distinct (operator class, roots, time class, entry point, outcome class) cells where outcome is accept-authentic, reject-nonauthentic or reject-authentic. " +
			"Two further families follow the sequences (audit.go), judged by the same rule: 'kept' = sequences in which the caller keeps ONE options value per entry point, one decode receiver, one buffer, one attestation and long-lived validator closures and changes one thing at a time between calls; " +
			"'matrix' = every entry point under drawn option combinations (SNP sub-options, expected digest, base policy x overwrite, VMSA/RAM selectors, testonly_force_gcs, endorsement from options / certificate table / bucket / bucket after an unparseable table entry, failing bucket, cancelled contexts, " +
			"verification times in non-UTC zones, CLI roots from file / download / failing or garbage download / missing or empty file, attestation containers raw/hex/base64/proto, parent-command flags); cells there are (family, entry point, option values, operator|roots|time, outcome). " +
			"Two more (round4.go), same rule: 'multi' = one command-line run given several things (verify with 2-4 endorsement PATHs, authentic and not in every order, the same PATH twice, the root flag at any position; sev/tdx validate with further positional arguments), each PATH also alone as reference; " +
			"'live' = the verification time left unset (= the time of the call): per case a signer certificate that runs out and one that starts at a whole second a few seconds ahead, validators and option values made (and partly used) before it and used again after it; a call is judged only if it lay wholly >= 1 s on one side of that second. " +
			"Three more (round5.go), same rule: 'cert' = the contents of the embedded signer certificate drawn (private critical / non-critical extensions, extended key usages, CA flag, no key usage; a non-RSA subject key: ECDSA P-256/P-384, Ed25519, the endorsement then genuinely signed with that key) x issuer (caller's root, foreign root, self-signed, intermediate) x validity (current, run out, not begun) x roots x time, correctly signed with the certificate's key, through every entry point; " +
			"'content' = the contents of the unauthenticated payload drawn (timestamp on either side of the release-process change, provenance fields, technology sections) x authentication state (genuine, re-signed foreign / self-signed, garbage signature, no signature and certificate, edited after signing), through every entry point; " +
			"'sources' = one SevValidate / sev validate / validator-closure call whose endorsement sources DIFFER (bucket answering successive requests differently, table entry vs bucket, explicit endorsement vs table, testonly_force_gcs), with an attestation that only the forged source's contents admit in half of the cases",
		Assumptions: []string{"oracle is one-directional (accept => authentic) and is the weakest reading of C01: any PSS salt length, root expiry not required, no CA/key-usage constraints",
			"a zero verification time means the time of the call (crypto/x509 substitutes the wall clock); it is used only in the 'live' family, the only place where real time passes and where the wall clock is read: verdicts there are taken only with a margin of one whole second on the call's side of the certificate boundary and with wall and monotonic clock in agreement, other calls are counted as not judged",
			"a successful run of `verify PATH PATH...` has accepted every endorsement it names (the PATHs are what is to be verified, not alternative sources of one endorsement)", "TdxValidate is always given the endorsement in its options (nil would start real HTTPS retries)",
			"family 'sources': acceptance is allowed iff some source of the call is authentic AND the same entry point with the same attestation and options accepts that source when it is the only endorsement, given explicitly (otherwise the acceptance rests on a non-authentic source, i.e. that one was accepted)",
			"RSA keys are generated per run (Go's RSA keygen is not seedable); verdicts do not depend on key values"},
		ShardsQuick: 8, ShardsThor: 16, TimeoutS: 600, TimeoutThor: 3000, Run: run,
	})
}

type world struct {
	pki          *gen.PKI
	nb           time.Time
	g0, g1       *epb.VMGoldenMeasurement
	e0, e1       *epb.VMLaunchEndorsement
	m4, mrtd     []byte
	vcekAt       map[int64][]byte
	raw, rawX    []byte
	pools        map[string]*x509.CertPool
	rootSets     map[string][]*gen.Identity
	rootSetNames []string
	times        map[string]time.Time
	hostRoots    int
	timeNames    []string
}

func mkWorld() *world {
	nb := time.Date(2025, 1, 1, 0, 0, 0, 0, time.UTC)
	w := &world{pki: gen.NewPKI(nb), nb: nb, vcekAt: map[int64][]byte{}}
	// Hostile host: the machine's own trust store (what crypto/x509 falls back to when a verifier
	// passes no roots) holds a CA the attacker controls. It is read once, at the first such use, so
	// it is pointed at before any repository code runs. The caller's roots are what count for the
	// property; nothing may become authentic because of this store.
	if dir, err := os.MkdirTemp("", "c01-hostroots"); err == nil {
		f := filepath.Join(dir, "roots.pem")
		if os.WriteFile(f, pemOf([]*gen.Identity{w.pki.Attacker}), 0o644) == nil && os.Mkdir(filepath.Join(dir, "certs"), 0o755) == nil {
			os.Setenv("SSL_CERT_FILE", f)
			os.Setenv("SSL_CERT_DIR", filepath.Join(dir, "certs"))
			if sp, err := x509.SystemCertPool(); err == nil && sp != nil {
				w.hostRoots = len(sp.Subjects()) //nolint:staticcheck // count only
			}
		}
		os.RemoveAll(dir)
	}
	mk := func(b byte) []byte {
		m := make([]byte, 48)
		for i := range m {
			m[i] = b + byte(i)
		}
		return m
	}
	w.m4, w.mrtd = mk(0x40), mk(0x90)
	w.g0 = &epb.VMGoldenMeasurement{Timestamp: timeproto.To(nb.Add(24 * time.Hour)), ClSpec: 7, Digest: mk(1),
		SevSnp: &epb.VMSevSnp{Policy: gen.ProdPolicy(), Measurements: map[uint32][]byte{1: mk(0x10), 4: w.m4, 8: mk(0x80)}},
		Tdx:    &epb.VMTdx{Measurements: []*epb.VMTdx_Measurement{{RamGib: 16, Mrtd: w.mrtd}, {RamGib: 32, Mrtd: mk(0xa0)}}}}
	w.g1 = proto.Clone(w.g0).(*epb.VMGoldenMeasurement)
	w.g1.ClSpec = 8
	w.e0 = gen.Endorse(w.pki.Signer, w.g0)
	w.e1 = gen.Endorse(w.pki.Signer2, w.g1)
	p := w.pki
	w.rootSets = map[string][]*gen.Identity{
		"nil": nil, "empty": {}, "foreign": {p.Attacker}, "genuine": {p.Root}, "genuine+foreign": {p.Root, p.Attacker},
		"leaf-in-pool": {p.SelfLeaf}, "genuine+inter": {p.Root, p.Inter}, "short-root": {p.ExpiredRoot}, "signer-as-root": {p.Signer},
	}
	w.rootSetNames = []string{"genuine", "nil", "empty", "foreign", "genuine+foreign", "leaf-in-pool", "genuine+inter", "short-root", "signer-as-root"}
	leafEnd := p.Signer.Cert.NotAfter
	w.times = map[string]time.Time{"before-1s": nb.Add(-time.Second), "notBefore": nb, "mid": nb.AddDate(0, 3, 0), "notAfter": leafEnd,
		"after+1s": leafEnd.Add(time.Second), "root-expired": nb.AddDate(0, 7, 0), "far-future": nb.AddDate(40, 0, 0)}
	w.timeNames = []string{"mid", "before-1s", "notBefore", "notAfter", "after+1s", "root-expired", "far-future"}
	return w
}

func (w *world) rawQuote() []byte {
	if w.raw == nil {
		w.raw = gen.RawSnpQuote(w.m4, nil, w.times["mid"])
	}
	return w.raw
}

func (w *world) rawQuoteGenuineExtras() []byte {
	if w.rawX == nil {
		w.rawX = gen.RawSnpQuote(w.m4, map[string][]byte{sev.GCEFwCertGUID: marshalE(w.e0)}, w.times["mid"])
	}
	return w.rawX
}

func (w *world) vcek(now time.Time) []byte {
	if v, ok := w.vcekAt[now.Unix()]; ok {
		return v
	}
	v := gen.Vcek(now)
	w.vcekAt[now.Unix()] = v
	return v
}

type spec struct {
	op    string // operator class
	param int
	roots string
	now   string
}

func flipBit(b []byte, pos int, bit uint) []byte {
	o := append([]byte(nil), b...)
	o[pos] ^= 1 << (bit & 7)
	return o
}

func marshalE(e *epb.VMLaunchEndorsement) []byte {
	b, err := proto.Marshal(e)
	if err != nil {
		panic(err)
	}
	return b
}

func withCert(g *epb.VMGoldenMeasurement, der []byte) []byte {
	c := proto.Clone(g).(*epb.VMGoldenMeasurement)
	c.Cert = der
	b, _ := proto.MarshalOptions{Deterministic: true}.Marshal(c)
	return b
}

// forge applies operator s to the genuine endorsement and returns wire bytes.
func (w *world) forge(s spec, bit uint) []byte {
	p := w.pki
	e := proto.Clone(w.e0).(*epb.VMLaunchEndorsement)
	signWith := func(payload []byte, k *rsa.PrivateKey) *epb.VMLaunchEndorsement {
		return &epb.VMLaunchEndorsement{SerializedUefiGolden: payload, Signature: gen.SignPSS(k, payload, rsa.PSSSaltLengthEqualsHash)}
	}
	switch s.op {
	case "genuine":
		return marshalE(e)
	case "genuine2":
		return marshalE(w.e1)
	case "flip-payload":
		e.SerializedUefiGolden = flipBit(e.SerializedUefiGolden, s.param%len(e.SerializedUefiGolden), bit)
	case "flip-sig":
		e.Signature = flipBit(e.Signature, s.param%len(e.Signature), bit)
	case "flip-cert": // certificate bytes inside the payload change; signature left as is
		der := flipBit(p.Signer.Cert.Raw, s.param%len(p.Signer.Cert.Raw), bit)
		e.SerializedUefiGolden = withCert(w.g0, der)
	case "flip-cert-resign": // mutated certificate, payload re-signed with the genuine signer key
		der := flipBit(p.Signer.Cert.Raw, s.param%len(p.Signer.Cert.Raw), bit)
		e = signWith(withCert(w.g0, der), p.Signer.Key)
	case "sig-truncate":
		e.Signature = e.Signature[:len(e.Signature)-1-s.param%8]
	case "sig-extend":
		e.Signature = append(e.Signature, make([]byte, 1+s.param%4)...)
	case "sig-empty":
		e.Signature = nil
	case "sig-zero":
		e.Signature = make([]byte, len(e.Signature))
	case "sig-swap":
		e.Signature = w.e1.Signature
	case "payload-swap":
		e.SerializedUefiGolden = w.e1.SerializedUefiGolden
	case "resign-attacker-keep-cert":
		g := proto.Clone(w.g0).(*epb.VMGoldenMeasurement)
		g.SevSnp.Measurements[4] = make([]byte, 48)
		e = signWith(withCert(g, p.Signer.Cert.Raw), p.AttackerSign.Key)
	case "attacker-chain":
		e = signWith(withCert(w.g0, p.AttackerSign.Cert.Raw), p.AttackerSign.Key)
	case "root-cert-other-key":
		e = signWith(withCert(w.g0, p.RootOtherKey.Cert.Raw), p.RootOtherKey.Key)
	case "self-signed-leaf":
		e = signWith(withCert(w.g0, p.SelfLeaf.Cert.Raw), p.SelfLeaf.Key)
	case "inter-leaf":
		e = signWith(withCert(w.g0, p.InterLeaf.Cert.Raw), p.InterLeaf.Key)
	case "short-root-leaf":
		e = signWith(withCert(w.g0, p.ExpiredLeaf.Cert.Raw), p.ExpiredLeaf.Key)
	case "root-as-signer": // the root key signs the document directly, root certificate embedded
		e = signWith(withCert(w.g0, p.Root.Cert.Raw), p.Root.Key)
	case "no-cert":
		e = signWith(withCert(w.g0, nil), p.Signer.Key)
	case "pkcs1v15":
		d := sha256.Sum256(e.SerializedUefiGolden)
		e.Signature, _ = rsa.SignPKCS1v15(crand.Reader, p.Signer.Key, crypto.SHA256, d[:])
	case "pss-sha384":
		d := sha512.Sum384(e.SerializedUefiGolden)
		e.Signature, _ = rsa.SignPSS(crand.Reader, p.Signer.Key, crypto.SHA384, d[:], &rsa.PSSOptions{SaltLength: rsa.PSSSaltLengthEqualsHash})
	case "pss-salt":
		salts := []int{0, 20, 32, 222}
		e.Signature = gen.SignPSS(p.Signer.Key, e.SerializedUefiGolden, salts[s.param%len(salts)])
	case "alt-alg": // signer certificates issued with other signature algorithms x endorsement signature schemes
		leaves := []*gen.Identity{p.SignerPKCS1, p.SignerPSS384}
		leaf := leaves[(s.param/4)%2]
		pl := withCert(w.g0, leaf.Cert.Raw)
		e = &epb.VMLaunchEndorsement{SerializedUefiGolden: pl}
		d256 := sha256.Sum256(pl)
		d384 := sha512.Sum384(pl)
		switch s.param % 4 {
		case 0: // PKCS#1 v1.5 / SHA-256
			e.Signature, _ = rsa.SignPKCS1v15(crand.Reader, leaf.Key, crypto.SHA256, d256[:])
		case 1: // PSS / SHA-256 (genuine scheme)
			e.Signature = gen.SignPSS(leaf.Key, pl, rsa.PSSSaltLengthEqualsHash)
		case 2: // PSS / SHA-384
			e.Signature, _ = rsa.SignPSS(crand.Reader, leaf.Key, crypto.SHA384, d384[:], &rsa.PSSOptions{SaltLength: rsa.PSSSaltLengthEqualsHash})
		case 3: // PKCS#1 v1.5 / SHA-384
			e.Signature, _ = rsa.SignPKCS1v15(crand.Reader, leaf.Key, crypto.SHA384, d384[:])
		}
	case "wire-unknown-field": // unknown field appended to the endorsement message
		b := marshalE(e)
		b = protowire.AppendTag(b, 1000, protowire.BytesType)
		return protowire.AppendBytes(b, []byte("extra"))
	case "wire-dup-sig-bad-last": // signature field twice: genuine first, garbage last (last wins)
		b := marshalE(e)
		b = protowire.AppendTag(b, 2, protowire.BytesType)
		return protowire.AppendBytes(b, make([]byte, 256))
	case "wire-dup-sig-good-last":
		bad := proto.Clone(e).(*epb.VMLaunchEndorsement)
		bad.Signature = make([]byte, 256)
		b := marshalE(bad)
		b = protowire.AppendTag(b, 2, protowire.BytesType)
		return protowire.AppendBytes(b, e.Signature)
	case "payload-unknown-field": // unknown field appended inside the payload, not re-signed
		pl := append([]byte(nil), e.SerializedUefiGolden...)
		pl = protowire.AppendTag(pl, 1000, protowire.VarintType)
		e.SerializedUefiGolden = protowire.AppendVarint(pl, 1)
	case "payload-unknown-field-resigned":
		pl := append([]byte(nil), e.SerializedUefiGolden...)
		pl = protowire.AppendTag(pl, 1000, protowire.VarintType)
		e = signWith(protowire.AppendVarint(pl, 1), p.Signer.Key)
	case "payload-truncate":
		e.SerializedUefiGolden = e.SerializedUefiGolden[:len(e.SerializedUefiGolden)-1-s.param%16]
	case "payload-reencode": // same message, other bytes; signature left as is (payload malleability)
		e.SerializedUefiGolden = reencode(e.SerializedUefiGolden, s.param)
	// operators below are only used by the audit families (audit.go); the case lists above never name them
	case "empty-endorsement": // zero-length wire bytes: parses to an endorsement with nothing in it
		return []byte{}
	case "payload-empty":
		e.SerializedUefiGolden = nil
	case "payload-empty-resigned": // the genuine signer's signature over the empty payload (no certificate inside)
		e = signWith([]byte{}, p.Signer.Key)
	case "sig-one-byte":
		e.Signature = e.Signature[:1]
	case "sig-leading-zero": // same integer, one byte longer
		e.Signature = append([]byte{0}, e.Signature...)
	default:
		panic("unknown operator " + s.op)
	}
	return marshalE(e)
}

// reencode returns a different wire encoding of the same top-level message: every variant parses to
// a message equal to the original, so only a verifier that checks the signature over the carried
// bytes rejects it.
func reencode(pl []byte, variant int) []byte {
	type field struct{ raw []byte }
	var fs []field
	for b := pl; len(b) > 0; {
		_, _, n := protowire.ConsumeField(b)
		if n < 0 {
			panic("payload does not parse")
		}
		fs = append(fs, field{b[:n]})
		b = b[n:]
	}
	nonMinimal := func(f []byte) []byte { // tag varint with a redundant continuation byte
		_, _, n := protowire.ConsumeTag(f)
		out := append([]byte(nil), f[:n]...)
		out[n-1] |= 0x80
		out = append(out, 0)
		return append(out, f[n:]...)
	}
	var out []byte
	switch variant % 4 {
	case 0: // last field repeated (scalars: last wins, same value)
		for _, f := range fs {
			if num, typ, _ := protowire.ConsumeTag(f.raw); typ == protowire.VarintType && num > 0 {
				out = append(append([]byte(nil), pl...), f.raw...)
			}
		}
		if out == nil {
			out = nonMinimal(pl)
		}
	case 1: // first field's tag in a non-minimal varint
		out = nonMinimal(fs[0].raw)
		for _, f := range fs[1:] {
			out = append(out, f.raw...)
		}
	case 2: // fields in reverse order
		for i := len(fs) - 1; i >= 0; i-- {
			out = append(out, fs[i].raw...)
		}
	case 3: // last field's tag in a non-minimal varint
		for _, f := range fs[:len(fs)-1] {
			out = append(out, f.raw...)
		}
		out = append(out, nonMinimal(fs[len(fs)-1].raw)...)
	}
	return out
}

func (w *world) specs(c *core.Ctx) []spec {
	var out []spec
	add := func(op string, param int, roots, now string) { out = append(out, spec{op, param, roots, now}) }
	// genuine endorsements across the full roots x time matrix
	for _, g := range []string{"genuine", "genuine2"} {
		for _, r := range w.rootSetNames {
			for _, t := range w.timeNames {
				add(g, 0, r, t)
			}
		}
	}
	r := c.RandNamed("specs")
	payloadLen, sigLen, certLen := len(w.e0.SerializedUefiGolden), len(w.e0.Signature), len(w.pki.Signer.Cert.Raw)
	positions := func(n int) []int {
		if c.Thorough() {
			ps := make([]int, n)
			for i := range ps {
				ps[i] = i
			}
			return ps
		}
		ps := []int{0, 1, n - 1, n / 2}
		for len(ps) < 40 {
			ps = append(ps, r.IntN(n))
		}
		return ps
	}
	for _, f := range []struct {
		op string
		n  int
	}{{"flip-payload", payloadLen}, {"flip-sig", sigLen}, {"flip-cert", certLen}, {"flip-cert-resign", certLen}} {
		for _, p := range positions(f.n) {
			add(f.op, p, "genuine", "mid")
		}
	}
	simple := []string{"sig-truncate", "sig-extend", "sig-empty", "sig-zero", "sig-swap", "payload-swap", "resign-attacker-keep-cert",
		"attacker-chain", "root-cert-other-key", "self-signed-leaf", "inter-leaf", "short-root-leaf", "root-as-signer", "no-cert",
		"pkcs1v15", "pss-sha384", "pss-salt", "alt-alg", "wire-unknown-field", "wire-dup-sig-bad-last", "wire-dup-sig-good-last",
		"payload-unknown-field", "payload-unknown-field-resigned", "payload-truncate", "payload-reencode"}
	for _, op := range simple {
		nparam := 1
		if op == "pss-salt" || op == "sig-truncate" || op == "sig-extend" || op == "payload-truncate" || op == "payload-reencode" {
			nparam = 4
		}
		if op == "alt-alg" {
			nparam = 8
		}
		for p := 0; p < nparam; p++ {
			for _, rs := range w.rootSetNames {
				add(op, p, rs, "mid")
			}
			for _, t := range w.timeNames[1:] {
				add(op, p, "genuine", t)
			}
			if op == "short-root-leaf" {
				for _, t := range w.timeNames {
					add(op, p, "short-root", t)
				}
			}
		}
	}
	// random combinations of flips with roots and times
	n := c.N(150, 3000)
	flips := []string{"flip-payload", "flip-sig", "flip-cert", "flip-cert-resign"}
	for i := 0; i < n; i++ {
		add(flips[r.IntN(len(flips))], r.IntN(1<<16), w.rootSetNames[r.IntN(len(w.rootSetNames))], w.timeNames[r.IntN(len(w.timeNames))])
	}
	return out
}

type entry struct {
	name string
	// returns (ran, err): ran=false when the entry point is not applicable to the case
	call func(w *world, raw []byte, e *epb.VMLaunchEndorsement, ids []*gen.Identity, rootsNil bool, now time.Time) (bool, error)
}

// pool returns ONE pool object per root set for the whole process (a verifier service keeps its
// trust store around; anything keyed on the pool object is therefore exercised across cases).
func (w *world) pool(ids []*gen.Identity, isNil bool) *x509.CertPool {
	if isNil {
		return nil
	}
	key := ""
	for _, id := range ids {
		key += id.Cert.Subject.CommonName + "/" + id.Cert.SerialNumber.String() + ";"
	}
	if w.pools == nil {
		w.pools = map[string]*x509.CertPool{}
	}
	if p, ok := w.pools[key]; ok {
		return p
	}
	p := gen.Pool(ids...)
	w.pools[key] = p
	return p
}

func pemOf(ids []*gen.Identity) []byte {
	var out []byte
	for _, id := range ids {
		out = append(out, pem.EncodeToMemory(&pem.Block{Type: "CERTIFICATE", Bytes: id.Cert.Raw})...)
	}
	return out
}

func entries() []entry {
	ctx := context.Background()
	snpURL := func(m []byte) string { return verify.GCETcbURL(extractsev.GCETcbObjectName(sev.GCEUefiFamilyID, m)) }
	return []entry{
		{"verify.Endorsement", func(w *world, raw []byte, e *epb.VMLaunchEndorsement, ids []*gen.Identity, rn bool, now time.Time) (bool, error) {
			return true, verify.Endorsement(raw, &verify.Options{RootsOfTrust: w.pool(ids, rn), Now: now})
		}},
		{"verify.EndorsementProto", func(w *world, raw []byte, e *epb.VMLaunchEndorsement, ids []*gen.Identity, rn bool, now time.Time) (bool, error) {
			if e == nil {
				return false, nil
			}
			return true, verify.EndorsementProto(e, &verify.Options{RootsOfTrust: w.pool(ids, rn), Now: now})
		}},
		{"verify.EndorsementProto+SNP", func(w *world, raw []byte, e *epb.VMLaunchEndorsement, ids []*gen.Identity, rn bool, now time.Time) (bool, error) {
			if e == nil {
				return false, nil
			}
			return true, verify.EndorsementProto(e, &verify.Options{RootsOfTrust: w.pool(ids, rn), Now: now, SNP: &verify.SNPOptions{Measurement: w.m4, ExpectedLaunchVMSAs: 4}})
		}},
		{"SNPValidateFunc/arg", func(w *world, raw []byte, e *epb.VMLaunchEndorsement, ids []*gen.Identity, rn bool, now time.Time) (bool, error) {
			f := verify.SNPValidateFunc(&verify.Options{RootsOfTrust: w.pool(ids, rn), Now: now})
			return true, f(&spb.Attestation{Report: &spb.Report{Measurement: w.m4}}, raw)
		}},
		{"SNPValidateFunc/options", func(w *world, raw []byte, e *epb.VMLaunchEndorsement, ids []*gen.Identity, rn bool, now time.Time) (bool, error) {
			if e == nil {
				return false, nil
			}
			f := verify.SNPValidateFunc(&verify.Options{RootsOfTrust: w.pool(ids, rn), Now: now, Endorsement: e})
			return true, f(&spb.Attestation{Report: &spb.Report{Measurement: w.m4}}, nil)
		}},
		{"SNPFamilyValidateFunc/getter", func(w *world, raw []byte, e *epb.VMLaunchEndorsement, ids []*gen.Identity, rn bool, now time.Time) (bool, error) {
			g := &doubles.Getter{Answers: map[string][]byte{snpURL(w.m4): raw}}
			f := verify.SNPFamilyValidateFunc(sev.GCEUefiFamilyID, &verify.Options{RootsOfTrust: w.pool(ids, rn), Now: now, Getter: g})
			return true, f(&spb.Attestation{Report: &spb.Report{Measurement: w.m4}}, nil)
		}},
		{"SevValidate/options", func(w *world, raw []byte, e *epb.VMLaunchEndorsement, ids []*gen.Identity, rn bool, now time.Time) (bool, error) {
			if e == nil {
				return false, nil
			}
			return true, gcetcbendorsement.SevValidate(ctx, gen.SnpAttestation(w.m4, w.vcek(w.times["mid"])), &gcetcbendorsement.SevValidateOptions{Endorsement: e, RootsOfTrust: w.pool(ids, rn), Now: now})
		}},
		{"SevValidate/extras", func(w *world, raw []byte, e *epb.VMLaunchEndorsement, ids []*gen.Identity, rn bool, now time.Time) (bool, error) {
			at := gen.SnpAttestation(w.m4, w.vcek(w.times["mid"]))
			at.CertificateChain.Extras = map[string][]byte{sev.GCEFwCertGUID: raw}
			return true, gcetcbendorsement.SevValidate(ctx, at, &gcetcbendorsement.SevValidateOptions{RootsOfTrust: w.pool(ids, rn), Now: now})
		}},
		{"SevValidate/getter", func(w *world, raw []byte, e *epb.VMLaunchEndorsement, ids []*gen.Identity, rn bool, now time.Time) (bool, error) {
			g := &doubles.Getter{Answers: map[string][]byte{snpURL(w.m4): raw}}
			return true, gcetcbendorsement.SevValidate(ctx, gen.SnpAttestation(w.m4, w.vcek(w.times["mid"])), &gcetcbendorsement.SevValidateOptions{RootsOfTrust: w.pool(ids, rn), Now: now, Getter: g})
		}},
		{"TdxValidate/options", func(w *world, raw []byte, e *epb.VMLaunchEndorsement, ids []*gen.Identity, rn bool, now time.Time) (bool, error) {
			if e == nil {
				return false, nil
			}
			return true, gcetcbendorsement.TdxValidate(ctx, gen.TdxQuote(w.mrtd), &gcetcbendorsement.TdxValidateOptions{Endorsement: e, RootsOfTrust: w.pool(ids, rn), Now: now})
		}},
		{"TdxValidate/options+ram", func(w *world, raw []byte, e *epb.VMLaunchEndorsement, ids []*gen.Identity, rn bool, now time.Time) (bool, error) {
			if e == nil {
				return false, nil
			}
			return true, gcetcbendorsement.TdxValidate(ctx, gen.TdxQuote(w.mrtd), &gcetcbendorsement.TdxValidateOptions{Endorsement: e, RootsOfTrust: w.pool(ids, rn), Now: now, ExpectedRAMGiB: 16})
		}},
		{"SNPValidateFunc/options-over-genuine-arg", func(w *world, raw []byte, e *epb.VMLaunchEndorsement, ids []*gen.Identity, rn bool, now time.Time) (bool, error) {
			if e == nil {
				return false, nil
			}
			// verify.Options.Endorsement is documented to take precedence over the blob from the certificate table
			f := verify.SNPValidateFunc(&verify.Options{RootsOfTrust: w.pool(ids, rn), Now: now, Endorsement: e})
			return true, f(&spb.Attestation{Report: &spb.Report{Measurement: w.m4}}, marshalE(w.e0))
		}},
		{"SevValidate/options-over-genuine-extras", func(w *world, raw []byte, e *epb.VMLaunchEndorsement, ids []*gen.Identity, rn bool, now time.Time) (bool, error) {
			if e == nil {
				return false, nil
			}
			// SevValidateOptions.Endorsement "overrides what could be extracted from the attestation"
			at := gen.SnpAttestation(w.m4, w.vcek(w.times["mid"]))
			at.CertificateChain.Extras = map[string][]byte{sev.GCEFwCertGUID: marshalE(w.e0)}
			return true, gcetcbendorsement.SevValidate(ctx, at, &gcetcbendorsement.SevValidateOptions{Endorsement: e, RootsOfTrust: w.pool(ids, rn), Now: now})
		}},
		{"cli:sev validate/endorsement-over-genuine-cert-table", func(w *world, raw []byte, e *epb.VMLaunchEndorsement, ids []*gen.Identity, rn bool, now time.Time) (bool, error) {
			if rn || len(ids) == 0 {
				return false, nil
			}
			io := doubles.NewMemIO()
			io.Files["e.binarypb"] = raw
			io.Files["root.pem"] = pemOf(ids)
			io.Files["at.bin"] = w.rawQuoteGenuineExtras()
			return true, (&doubles.CLI{IO: io, Now: now, Getter: &doubles.Getter{}}).Run("sev", "validate", "at.bin", "--endorsement", "e.binarypb", "--root_cert", "root.pem")
		}},
		{"cli:verify", func(w *world, raw []byte, e *epb.VMLaunchEndorsement, ids []*gen.Identity, rn bool, now time.Time) (bool, error) {
			if rn || len(ids) == 0 {
				return false, nil
			}
			io := doubles.NewMemIO()
			io.Files["e.binarypb"] = raw
			io.Files["root.pem"] = pemOf(ids)
			return true, (&doubles.CLI{IO: io, Now: now, Getter: &doubles.Getter{}}).Run("verify", "e.binarypb", "--root_cert", "root.pem")
		}},
		{"cli:verify/der-root", func(w *world, raw []byte, e *epb.VMLaunchEndorsement, ids []*gen.Identity, rn bool, now time.Time) (bool, error) {
			if rn || len(ids) != 1 {
				return false, nil
			}
			io := doubles.NewMemIO()
			io.Files["e.binarypb"] = raw
			io.Files["root.der"] = ids[0].Cert.Raw
			return true, (&doubles.CLI{IO: io, Now: now, Getter: &doubles.Getter{}}).Run("verify", "e.binarypb", "--root_cert=root.der")
		}},
		{"cli:sev validate", func(w *world, raw []byte, e *epb.VMLaunchEndorsement, ids []*gen.Identity, rn bool, now time.Time) (bool, error) {
			if rn || len(ids) == 0 {
				return false, nil
			}
			io := doubles.NewMemIO()
			io.Files["e.binarypb"] = raw
			io.Files["root.pem"] = pemOf(ids)
			io.Files["at.bin"] = w.rawQuote()
			return true, (&doubles.CLI{IO: io, Now: now, Getter: &doubles.Getter{}}).Run("sev", "validate", "at.bin", "--endorsement", "e.binarypb", "--root_cert", "root.pem")
		}},
		{"cli:sev validate/cert-table", func(w *world, raw []byte, e *epb.VMLaunchEndorsement, ids []*gen.Identity, rn bool, now time.Time) (bool, error) {
			if rn || len(ids) == 0 {
				return false, nil
			}
			io := doubles.NewMemIO()
			io.Files["root.pem"] = pemOf(ids)
			io.Files["at.bin"] = gen.RawSnpQuote(w.m4, map[string][]byte{sev.GCEFwCertGUID: raw}, w.times["mid"])
			return true, (&doubles.CLI{IO: io, Now: now, Getter: &doubles.Getter{}}).Run("sev", "validate", "at.bin", "--root_cert", "root.pem")
		}},
		{"cli:tdx validate", func(w *world, raw []byte, e *epb.VMLaunchEndorsement, ids []*gen.Identity, rn bool, now time.Time) (bool, error) {
			if rn || len(ids) == 0 {
				return false, nil
			}
			io := doubles.NewMemIO()
			io.Files["e.binarypb"] = raw
			io.Files["root.pem"] = pemOf(ids)
			io.Files["quote.bin"] = gen.TdxQuote(w.mrtd)
			return true, (&doubles.CLI{IO: io, Now: now, Getter: &doubles.Getter{}}).Run("tdx", "validate", "quote.bin", "--endorsement", "e.binarypb", "--root_cert", "root.pem")
		}},
	}
}

func run(c *core.Ctx) {
	w := mkWorld()
	c.Max("host-trust-store-attacker-roots", int64(w.hostRoots))
	specs := w.specs(c)
	ents := entries()
	genuineAccept := map[string]int{}
	forgedReject := map[string]int{}
	// one step = one (operator, roots, time) pushed through every entry point
	step := func(i int, s spec, bit uint, seqTag string) {
		raw := w.forge(s, bit)
		ids := w.rootSets[s.roots]
		now := w.times[s.now]
		gname := fmt.Sprintf("%s%s[%d] roots=%s now=%s", seqTag, s.op, s.param, s.roots, s.now)
		var rootCerts []*x509.Certificate
		for _, id := range ids {
			rootCerts = append(rootCerts, id.Cert)
		}
		verdict := authref.Bytes(raw, rootCerts, now)
		var e *epb.VMLaunchEndorsement
		pe := &epb.VMLaunchEndorsement{}
		if proto.Unmarshal(raw, pe) == nil {
			e = pe
		}
		cellTag := ""
		if seqTag != "" {
			cellTag = "seq|"
		}
		for _, en := range ents {
			var ran bool
			var err error
			m := c.Guard(i, en.name, gname, core.Budget{PanicNotJudged: true}, func() { ran, err = en.call(w, raw, e, ids, s.roots == "nil", now) })
			if m.Panicked || !ran {
				continue
			}
			accepted := err == nil
			switch {
			case accepted && !verdict.Authentic:
				site := "accepted-non-authentic"
				if seqTag != "" {
					site = "accepted-non-authentic(in-sequence)"
				}
				c.Violate(core.Violation{Kind: "oracle", Entry: en.name, Site: site, Gen: gname, Case: i,
					Detail:  fmt.Sprintf("%s accepted an endorsement that is not authentic: %s", en.name, verdict.Why),
					Witness: map[string]any{"endorsement": raw, "roots_pem": string(pemOf(ids)), "now": now.Format(time.RFC3339), "oracle": verdict.Why}})
				c.Cell("%s%s|%s|%s|%s|ACCEPT-NONAUTHENTIC", cellTag, s.op, s.roots, s.now, en.name)
			case accepted:
				genuineAccept[en.name]++
				c.Cell("%s%s|%s|%s|%s|accept-authentic", cellTag, s.op, s.roots, s.now, en.name)
			case !verdict.Authentic:
				forgedReject[en.name]++
				c.Cell("%s%s|%s|%s|%s|reject-nonauthentic", cellTag, s.op, s.roots, s.now, en.name)
			default:
				c.Cell("%s%s|%s|%s|%s|reject-authentic", cellTag, s.op, s.roots, s.now, en.name)
				c.Count("reject-authentic (verifier stricter than oracle)/"+s.op, 1)
			}
		}
		if verdict.Authentic {
			c.Count("cases-authentic", 1)
		} else {
			c.Count("cases-nonauthentic", 1)
		}
		if seqTag == "" && i%97 == 0 {
			c.Sample(map[string]any{"case": i, "gen": gname, "oracle_authentic": verdict.Authentic, "oracle_why": verdict.Why, "endorsement_len": len(raw)})
		}
	}
	for i, s := range specs {
		if !c.Mine(i) {
			continue
		}
		r := c.Rand(i)
		c.Begin(i, fmt.Sprintf("%s[%d] roots=%s now=%s", s.op, s.param, s.roots, s.now), "all", nil)
		step(i, s, uint(r.IntN(8)), "")
		c.End(i)
	}
	// sequences: several steps inside ONE process on the same trust-store objects, so that any state kept
	// between verifications (caches keyed on certificate / pool / time) is exercised: valid first, then invalid.
	base := len(specs)
	seqs := w.sequences(c)
	for k, sq := range seqs {
		i := base + k
		if !c.Mine(i) {
			continue
		}
		r := c.Rand(i)
		c.Begin(i, fmt.Sprintf("sequence#%d (%d steps)", k, len(sq)), "all", nil)
		for j, s := range sq {
			step(i, s, uint(r.IntN(8)), fmt.Sprintf("seq#%d.%d:", k, j))
		}
		c.Count("sequences-run", 1)
		c.Count("sequence-steps", len(sq))
		if k < 2 {
			c.Sample(map[string]any{"sequence": k, "steps": fmt.Sprintf("%v", sq)})
		}
		c.End(i)
	}
	// audit families (audit.go): caller-kept values reused across calls, and option / source / environment
	// combinations; their case numbers follow the sequences so that every earlier case keeps its number.
	next := w.runAudit(c, base+len(seqs))
	// fourth-round families (round4.go): several endorsements named in one command-line run, and an unset
	// verification time ("the time of the call") with values kept across a certificate's validity boundary.
	next = w.runRound4(c, next)
	// fifth-round families (round5.go): drawn contents of the signer certificate, drawn contents of the
	// unauthenticated payload, and calls whose several endorsement sources differ.
	w.runRound5(c, next)
	for _, en := range ents {
		c.Count("genuine-accepts/"+en.name, genuineAccept[en.name])
		c.Count("nonauthentic-rejects/"+en.name, forgedReject[en.name])
		// floors are evaluated over all shards by the supervisor (OR across shards)
		c.Floor("genuine-accept/"+en.name, genuineAccept[en.name] > 0)
		c.Floor("nonauthentic-reject/"+en.name, forgedReject[en.name] > 0)
	}
}

// sequences returns the multi-step cases.
func (w *world) sequences(c *core.Ctx) [][]spec {
	g := func(op, roots, now string) spec { return spec{op, 0, roots, now} }
	fixed := [][]spec{
		{g("genuine", "genuine", "mid"), g("genuine", "genuine", "after+1s"), g("genuine", "genuine", "before-1s"), g("genuine", "genuine", "far-future"),
			g("genuine", "genuine", "mid"), g("flip-sig", "genuine", "mid"), g("genuine", "genuine", "mid"), g("flip-payload", "genuine", "mid")},
		{g("genuine", "genuine", "notAfter"), g("genuine", "genuine", "after+1s"), g("genuine2", "genuine", "mid"), g("genuine2", "genuine", "after+1s"), g("genuine2", "genuine", "before-1s")},
		{g("genuine", "genuine+foreign", "mid"), g("attacker-chain", "genuine+foreign", "mid"), g("attacker-chain", "genuine", "mid"), g("genuine", "foreign", "mid"), g("genuine", "genuine", "mid"), g("genuine", "empty", "mid")},
		{g("attacker-chain", "foreign", "mid"), g("attacker-chain", "foreign", "after+1s"), g("resign-attacker-keep-cert", "genuine", "mid"), g("genuine", "genuine", "mid"), g("resign-attacker-keep-cert", "genuine", "mid"), g("sig-swap", "genuine", "mid")},
		{g("short-root-leaf", "short-root", "mid"), g("short-root-leaf", "short-root", "root-expired"), g("short-root-leaf", "short-root", "far-future"), g("inter-leaf", "genuine+inter", "mid"), g("inter-leaf", "genuine", "mid")},
		{g("self-signed-leaf", "leaf-in-pool", "mid"), g("self-signed-leaf", "leaf-in-pool", "after+1s"), g("self-signed-leaf", "genuine", "mid"), g("root-as-signer", "genuine", "mid"), g("root-as-signer", "genuine", "far-future")},
	}
	r := c.RandNamed("sequences")
	ops := []string{"genuine", "genuine2", "flip-sig", "flip-payload", "flip-cert", "flip-cert-resign", "sig-swap", "payload-swap", "attacker-chain", "root-cert-other-key", "self-signed-leaf",
		"inter-leaf", "short-root-leaf", "root-as-signer", "pkcs1v15", "pss-sha384", "alt-alg", "wire-dup-sig-bad-last", "resign-attacker-keep-cert", "no-cert"}
	n := c.N(24, 400)
	for k := 0; k < n; k++ {
		var sq []spec
		// start valid (warms any cache), then wander
		sq = append(sq, g([]string{"genuine", "genuine2"}[r.IntN(2)], "genuine", []string{"mid", "notBefore", "notAfter"}[r.IntN(3)]))
		for j := 0; j < 7; j++ {
			op := ops[r.IntN(len(ops))]
			if r.IntN(3) == 0 {
				op = sq[0].op
			}
			sq = append(sq, spec{op, r.IntN(1 << 12), w.rootSetNames[r.IntN(len(w.rootSetNames))], w.timeNames[r.IntN(len(w.timeNames))]})
		}
		fixed = append(fixed, sq)
	}
	return fixed
}
