package c01

// audit.go: workload dimensions added by the audit of C01 against the classes of misses seen in the
// seeded-change rounds. Two families, both judged by the existing rule (accept => authref authentic):
//
//   kept    caller-kept values reused across the calls of one sequence: ONE verify.Options, ONE
//           SevValidateOptions, ONE TdxValidateOptions (fields overwritten in place between calls), ONE
//           decode receiver, ONE byte buffer refilled in place, ONE attestation whose certificate table is
//           swapped in place, and validator closures that live for the whole sequence and are invoked once
//           per step with whatever endorsement that step carries.
//   matrix  option / source / environment combinations of every entry point: SNP sub-options nil / empty /
//           populated, expected digest nil / empty / matching, base policies nil / empty / populated with
//           and without overwrite, launch-VMSA and RAM selectors, testonly_force_gcs, the endorsement coming
//           from options / certificate table / bucket / bucket-after-unparseable-table-entry, a bucket that
//           fails, contexts that are already cancelled or past their deadline, verification times given in
//           other time zones, CLI root certificates from a file (PEM, noisy PEM, DER), from the download
//           (PEM, DER), from a download that fails, from a file that does not exist, attestation containers
//           (raw, hex, HEX, base64, go-tpm-tools proto), parent-command flags.
//
// Nothing here is judged that the property does not state: only acceptances are judged, against the
// endorsement(s) and the roots that the call was really given (a root source that fails gives no roots).

import (
	"bytes"
	"context"
	"crypto/x509"
	"encoding/base64"
	"encoding/hex"
	"fmt"
	"math/rand/v2"
	"os"
	"strings"
	"time"

	"github.com/google/gce-tcb-verifier/extract/extractsev"
	"github.com/google/gce-tcb-verifier/gcetcbendorsement"
	epb "github.com/google/gce-tcb-verifier/proto/endorsement"
	"github.com/google/gce-tcb-verifier/sev"
	"github.com/google/gce-tcb-verifier/verify"
	cpb "github.com/google/go-sev-guest/proto/check"
	spb "github.com/google/go-sev-guest/proto/sevsnp"
	tabi "github.com/google/go-tdx-guest/abi"
	tcpb "github.com/google/go-tdx-guest/proto/checkconfig"
	tpb "github.com/google/go-tdx-guest/proto/tdx"
	tpmpb "github.com/google/go-tpm-tools/proto/attest"
	"google.golang.org/protobuf/proto"

	"verifharness/core"
	"verifharness/doubles"
	"verifharness/gen"
	"verifharness/ref/authref"
)

var (
	zones     = []*time.Location{time.UTC, time.FixedZone("UTC+14", 14*3600), time.FixedZone("UTC-12", -12*3600), time.FixedZone("UTC+05:45", 5*3600+45*60)}
	zoneNames = []string{"utc", "+14", "-12", "+0545"}
)

var garbageBlob = []byte("not an endorsement") // 'n' = field 13 with wire type 6: does not parse as any message

type audit struct {
	c      *core.Ctx
	w      *world
	accept map[string]int // authentic and accepted, per entry / per "entry|dimension=value"
	reject map[string]int // not authentic and rejected
	lastErr error
}

// judge applies the one rule of C01 to one call. entry is the stable entry-point name, dims the option values
// of this call (they go into the cell and into the per-dimension floors), roots the certificates the call was
// really given as trust roots.
func (a *audit) judge(i int, family, entry, gname, op string, dims []string, accepted bool, v authref.Result, raw []byte, roots []*gen.Identity, now time.Time) {
	c := a.c
	dimText := strings.Join(dims, ",")
	outcome := ""
	switch {
	case accepted && !v.Authentic:
		outcome = "ACCEPT-NONAUTHENTIC"
		c.Violate(core.Violation{Kind: "oracle", Entry: entry, Site: "accepted-non-authentic(" + family + ")", Gen: gname, Case: i,
			Detail: fmt.Sprintf("%s [%s] accepted an endorsement that is not authentic: %s", entry, dimText, v.Why),
			Witness: map[string]any{"endorsement": append([]byte(nil), raw...), "roots_pem": string(pemOf(roots)), "now": now.Format(time.RFC3339),
				"options": dimText, "oracle": v.Why}})
	case accepted:
		outcome = "accept-authentic"
		a.accept[entry]++
		for _, d := range dims {
			a.accept[entry+"|"+d]++
		}
	case !v.Authentic:
		outcome = "reject-nonauthentic"
		a.reject[entry]++
		for _, d := range dims {
			a.reject[entry+"|"+d]++
		}
	default:
		outcome = "reject-authentic"
		c.Count(family+": reject-authentic (stricter than oracle, or option mismatch)/"+entry, 1)
		if os.Getenv("C01_DEBUG") != "" {
			es := fmt.Sprint(a.lastErr)
			if len(es) > 90 {
				es = es[:90]
			}
			c.Count("DEBUG "+entry+" ["+dimText+"] "+es, 1)
		}
	}
	c.Cell("%s|%s|%s|%s|%s", family, entry, dimText, op, outcome)
}

func (a *audit) guard(i int, entry, gname string, f func() error) (accepted, ok bool) {
	var err error
	m := a.c.Guard(i, entry, gname, core.Budget{PanicNotJudged: true}, func() { err = f() })
	if m.Panicked {
		return false, false
	}
	a.lastErr = err
	return err == nil, true
}

func x509Certs(ids []*gen.Identity) []*x509.Certificate {
	var out []*x509.Certificate
	for _, id := range ids {
		out = append(out, id.Cert)
	}
	return out
}

func (w *world) runAudit(c *core.Ctx, base int) int {
	a := &audit{c: c, w: w, accept: map[string]int{}, reject: map[string]int{}}
	kept := w.keptSequences(c)
	for k, sq := range kept {
		i := base + k
		if !c.Mine(i) {
			continue
		}
		r := c.Rand(i)
		c.Begin(i, fmt.Sprintf("kept#%d (%d steps)", k, len(sq)), "all(kept values)", nil)
		a.runKept(i, k, sq, r)
		c.End(i)
	}
	base += len(kept)
	ms := w.matrixCases(c)
	for k, mc := range ms {
		i := base + k
		if !c.Mine(i) {
			continue
		}
		r := c.Rand(i)
		c.Begin(i, fmt.Sprintf("matrix#%d %s[%d] roots=%s now=%s zone=%s", k, mc.s.op, mc.s.param, mc.s.roots, mc.s.now, zoneNames[mc.zone]), "all(option matrix)", nil)
		a.runMatrix(i, k, mc, r)
		c.End(i)
	}
	a.floors()
	return base + len(ms) // the next free case number
}

// ---------------------------------------------------------------------------------------------------
// family "kept"

type kstep struct {
	s    spec
	zone int
}

// keptSequences: every sequence starts with a genuine endorsement verified where it is valid (so that anything
// a kept value could remember is there to be remembered) and then changes ONE thing at a time — only the time,
// only the endorsement, only the roots — with returns to the valid start in between.
func (w *world) keptSequences(c *core.Ctx) [][]kstep {
	r := c.RandNamed("audit-kept")
	outside := []string{"before-1s", "after+1s", "far-future"}
	inside := []string{"mid", "notBefore", "notAfter"}
	forged := []string{"flip-sig", "flip-payload", "flip-cert", "sig-swap", "payload-swap", "resign-attacker-keep-cert", "attacker-chain", "root-cert-other-key",
		"self-signed-leaf", "pkcs1v15", "pss-sha384", "no-cert", "sig-zero", "sig-empty", "wire-dup-sig-bad-last", "payload-reencode", "payload-unknown-field", "payload-truncate"}
	badRoots := []string{"nil", "empty", "foreign", "leaf-in-pool", "short-root"}
	n := c.N(24, 320)
	var out [][]kstep
	for k := 0; k < n; k++ {
		start := kstep{spec{[]string{"genuine", "genuine2"}[k%2], 0, []string{"genuine", "genuine+foreign", "genuine+inter"}[(k/2)%3], inside[r.IntN(len(inside))]}, (k / 6) % len(zones)}
		sq := []kstep{start}
		for j := 0; j < 9; j++ {
			st := start
			switch r.IntN(6) {
			case 0: // only the time moves outside the certificate's validity
				st.s.now = outside[r.IntN(len(outside))]
				st.zone = r.IntN(len(zones))
			case 1: // only the endorsement changes
				st.s.op, st.s.param = forged[r.IntN(len(forged))], r.IntN(1<<12)
			case 2: // only the roots change
				st.s.roots = badRoots[r.IntN(len(badRoots))]
			case 3: // back to the valid start
			case 4: // the other genuine endorsement, possibly outside its validity
				st.s.op = []string{"genuine", "genuine2"}[(k+1)%2]
				if r.IntN(2) == 0 {
					st.s.now = outside[r.IntN(len(outside))]
				}
			default: // anything
				st = kstep{spec{forged[r.IntN(len(forged))], r.IntN(1 << 12), w.rootSetNames[r.IntN(len(w.rootSetNames))], w.timeNames[r.IntN(len(w.timeNames))]}, r.IntN(len(zones))}
			}
			sq = append(sq, st)
		}
		out = append(out, sq)
	}
	return out
}

func (a *audit) runKept(i, k int, sq []kstep, r *rand.Rand) {
	w, c := a.w, a.c
	const fam = "kept"
	// The caller's long-lived values: made once, reused by every step of the sequence.
	vo := &verify.Options{}
	keptSNP := &verify.SNPOptions{}
	so := &gcetcbendorsement.SevValidateOptions{}
	to := &gcetcbendorsement.TdxValidateOptions{}
	pe := &epb.VMLaunchEndorsement{}
	var buf []byte
	at := gen.SnpAttestation(w.m4, w.vcek(w.times["mid"]))
	rep := &spb.Attestation{Report: &spb.Report{Measurement: w.m4}}
	quote := gen.TdxQuote(w.mrtd)
	closures := map[string]func(*spb.Attestation, []byte) error{}
	bg := context.Background()
	for j, st := range sq {
		s := st.s
		raw0 := w.forge(s, uint(r.IntN(8)))
		buf = append(buf[:0], raw0...) // refilled in place
		ids := w.rootSets[s.roots]
		rn := s.roots == "nil"
		now := w.times[s.now].In(zones[st.zone])
		gname := fmt.Sprintf("kept#%d.%d:%s[%d] roots=%s now=%s zone=%s", k, j, s.op, s.param, s.roots, s.now, zoneNames[st.zone])
		v := authref.Bytes(raw0, x509Certs(ids), now)
		parsed := proto.Unmarshal(buf, pe) == nil // same receiver every step
		pool := w.pool(ids, rn)
		dims := []string{"step=" + stepClass(j), "zone=" + zoneClass(st.zone)}
		run := func(entry string, needParsed bool, f func() error) {
			if needParsed && !parsed {
				return
			}
			if acc, ok := a.guard(i, entry, gname, f); ok {
				a.judge(i, fam, entry, gname, s.op+"|"+s.roots+"|"+s.now, dims, acc, v, raw0, ids, now)
			}
		}
		setVO := func() {
			vo.RootsOfTrust, vo.Now, vo.Endorsement, vo.Getter = pool, now, nil, nil
			switch j % 3 {
			case 0:
				vo.SNP = nil
			case 1:
				keptSNP.Measurement, keptSNP.ExpectedLaunchVMSAs = w.m4, 4
				vo.SNP = keptSNP
			default:
				keptSNP.Measurement, keptSNP.ExpectedLaunchVMSAs = w.m4, 0
				vo.SNP = keptSNP
			}
		}
		run("kept:verify.EndorsementProto(one Options, one receiver)", true, func() error { setVO(); return verify.EndorsementProto(pe, vo) })
		run("kept:verify.Endorsement(one Options, one buffer)", false, func() error { setVO(); return verify.Endorsement(buf, vo) })
		run("kept:SNPValidateFunc(one Options)/options", true, func() error {
			setVO()
			vo.Endorsement = pe
			defer func() { vo.Endorsement = nil }()
			return verify.SNPValidateFunc(vo)(rep, nil)
		})
		// Validator closures live as long as the sequence; their own options never change after creation, so
		// "the caller's roots and time" of every invocation are beyond doubt. Only the endorsement varies.
		ckey := s.roots + "|" + s.now + "|" + zoneNames[st.zone]
		run("kept:SNPValidateFunc closure reused/arg", false, func() error {
			f := closures[ckey]
			if f == nil {
				f = verify.SNPValidateFunc(&verify.Options{RootsOfTrust: pool, Now: now})
				closures[ckey] = f
			} else {
				c.Count("kept: closure invocations after the first", 1)
			}
			return f(rep, buf)
		})
		fkey := "family|" + ckey
		run("kept:SNPFamilyValidateFunc closure reused/arg+preset SNP", false, func() error {
			f := closures[fkey]
			if f == nil {
				f = verify.SNPFamilyValidateFunc(sev.GCEUefiFamilyID, &verify.Options{RootsOfTrust: pool, Now: now, SNP: &verify.SNPOptions{ExpectedLaunchVMSAs: 4}})
				closures[fkey] = f
			} else {
				c.Count("kept: closure invocations after the first", 1)
			}
			return f(rep, buf)
		})
		setSO := func(e *epb.VMLaunchEndorsement, extras []byte) {
			so.Endorsement, so.RootsOfTrust, so.Now, so.Getter = e, pool, now, nil
			so.ExpectedLaunchVmsas = uint32(4 * (j % 2))
			if extras == nil {
				at.CertificateChain.Extras = nil
			} else {
				at.CertificateChain.Extras = map[string][]byte{sev.GCEFwCertGUID: extras}
			}
		}
		run("kept:SevValidate(one Options, one attestation)/options", true, func() error { setSO(pe, nil); return gcetcbendorsement.SevValidate(bg, at, so) })
		run("kept:SevValidate(one Options, one attestation)/extras", false, func() error { setSO(nil, buf); return gcetcbendorsement.SevValidate(bg, at, so) })
		run("kept:TdxValidate(one Options)/options", true, func() error {
			to.Endorsement, to.RootsOfTrust, to.Now, to.ExpectedRAMGiB = pe, pool, now, 16*(j%2)
			return gcetcbendorsement.TdxValidate(bg, quote, to)
		})
		c.Count("kept: steps", 1)
	}
	c.Count("kept: sequences", 1)
	if k < 2 {
		c.Sample(map[string]any{"kept-sequence": k, "steps": fmt.Sprintf("%v", sq)})
	}
}

func stepClass(j int) string {
	if j == 0 {
		return "first"
	}
	return "later"
}

func zoneClass(z int) string {
	if z == 0 {
		return "utc"
	}
	return "non-utc"
}

// ---------------------------------------------------------------------------------------------------
// family "matrix"

type mcase struct {
	s    spec
	zone int
}

func (w *world) matrixCases(c *core.Ctx) []mcase {
	var out []mcase
	add := func(op string, param int, roots, now string, zone int) { out = append(out, mcase{spec{op, param, roots, now}, zone}) }
	z := 0
	nz := func() int { z++; return z % len(zones) }
	for _, g := range []string{"genuine", "genuine2"} {
		for _, rs := range []string{"genuine", "genuine+foreign", "genuine+inter"} {
			for _, t := range []string{"mid", "notBefore", "notAfter"} {
				add(g, 0, rs, t, nz())
			}
		}
		// the time is the only thing wrong, in every zone
		for _, t := range []string{"before-1s", "after+1s", "far-future"} {
			for zi := range zones {
				add(g, 0, "genuine", t, zi)
			}
		}
	}
	for _, rs := range []string{"nil", "empty", "foreign", "leaf-in-pool", "short-root", "signer-as-root"} {
		add("genuine", 0, rs, "mid", nz())
	}
	forged := []string{"flip-payload", "flip-sig", "flip-cert", "flip-cert-resign", "sig-truncate", "sig-extend", "sig-empty", "sig-zero", "sig-swap", "payload-swap",
		"resign-attacker-keep-cert", "attacker-chain", "root-cert-other-key", "self-signed-leaf", "inter-leaf", "short-root-leaf", "root-as-signer", "no-cert", "pkcs1v15",
		"pss-sha384", "pss-salt", "alt-alg", "wire-unknown-field", "wire-dup-sig-bad-last", "wire-dup-sig-good-last", "payload-unknown-field", "payload-unknown-field-resigned",
		"payload-truncate", "payload-reencode", "empty-endorsement", "payload-empty", "payload-empty-resigned", "sig-one-byte", "sig-leading-zero"}
	r := c.RandNamed("audit-matrix")
	for _, op := range forged {
		add(op, r.IntN(1<<12), "genuine", "mid", nz())
	}
	// forgeries that chain to the attacker's CA (which is also the only CA in the host's trust store), under every root set
	for _, rs := range w.rootSetNames {
		add("attacker-chain", 0, rs, "mid", nz())
	}
	add("self-signed-leaf", 0, "leaf-in-pool", "mid", nz())
	add("short-root-leaf", 0, "short-root", "mid", nz())
	n := c.N(60, 2200)
	all := append([]string{"genuine", "genuine2", "genuine", "genuine2", "genuine", "genuine2", "genuine", "genuine2", "genuine", "genuine2", "genuine", "genuine2"}, forged...)
	for k := 0; k < n; k++ {
		add(all[r.IntN(len(all))], r.IntN(1<<12), w.rootSetNames[r.IntN(len(w.rootSetNames))], w.timeNames[r.IntN(len(w.timeNames))], r.IntN(len(zones)))
	}
	return out
}

func pick[T any](r *rand.Rand, xs ...T) T { return xs[r.IntN(len(xs))] }

func onoff(name string, b bool) string {
	if b {
		return name + "=on"
	}
	return name + "=off"
}

type ctxKind struct {
	name string
	mk   func() (context.Context, context.CancelFunc)
}

var ctxKinds = []ctxKind{
	{"ctx=background", func() (context.Context, context.CancelFunc) { return context.Background(), func() {} }},
	{"ctx=cancelled", func() (context.Context, context.CancelFunc) {
		ctx, cancel := context.WithCancel(context.Background())
		cancel()
		return ctx, cancel
	}},
	{"ctx=deadline-passed", func() (context.Context, context.CancelFunc) {
		return context.WithDeadline(context.Background(), time.Unix(1, 0))
	}},
}

func (w *world) sevBase(kind string) *cpb.Policy {
	switch kind {
	case "base=empty":
		return &cpb.Policy{}
	case "base=same-policy":
		return &cpb.Policy{Policy: gen.ProdPolicy(), MinimumVersion: "0.0"}
	case "base=same-measurement":
		return &cpb.Policy{Policy: gen.ProdPolicy(), Measurement: append([]byte(nil), w.m4...)}
	}
	return nil
}

func (w *world) tdxBase(kind string) *tcpb.Policy {
	switch kind {
	case "base=empty":
		return &tcpb.Policy{}
	case "base=body-no-mrtd":
		return &tcpb.Policy{TdQuoteBodyPolicy: &tcpb.TDQuoteBodyPolicy{}}
	case "base=pinned-mrtd":
		return &tcpb.Policy{TdQuoteBodyPolicy: &tcpb.TDQuoteBodyPolicy{AnyMrTd: [][]byte{append([]byte(nil), w.mrtd...)}}}
	}
	return nil
}

// container wraps a raw quote in one of the formats the CLI documents for its PATH argument.
func container(kind string, raw []byte, asProto func() proto.Message) []byte {
	switch kind {
	case "at=hex":
		return []byte(hex.EncodeToString(raw))
	case "at=HEX":
		return []byte(strings.ToUpper(hex.EncodeToString(raw)))
	case "at=base64":
		return []byte(base64.StdEncoding.EncodeToString(raw))
	case "at=tpm-proto":
		b, err := proto.Marshal(asProto())
		if err != nil {
			panic(err)
		}
		return b
	}
	return raw
}

// rootSource describes where a CLI run gets its trust roots from; it fills the in-memory file system and the
// getter, returns the command-line arguments and whether the run really has the case's roots at all.
type rootSource struct {
	name  string
	one   bool // needs exactly one root (DER holds one certificate)
	apply func(ids []*gen.Identity, io *doubles.MemIO, g *doubles.Getter, r *rand.Rand) (args []string, hasRoots bool)
}

func rootFlag(r *rand.Rand, path string) []string {
	if r.IntN(2) == 0 {
		return []string{"--root_cert=" + path}
	}
	return []string{"--root_cert", path}
}

var rootSources = []rootSource{
	{"root=file-pem", false, func(ids []*gen.Identity, io *doubles.MemIO, g *doubles.Getter, r *rand.Rand) ([]string, bool) {
		io.Files["root.pem"] = pemOf(ids)
		return rootFlag(r, "root.pem"), true
	}},
	{"root=file-pem-noisy", false, func(ids []*gen.Identity, io *doubles.MemIO, g *doubles.Getter, r *rand.Rand) ([]string, bool) {
		b := append([]byte("# trust roots\r\n"), bytes.ReplaceAll(pemOf(ids), []byte("\n"), []byte("\r\n"))...)
		io.Files["root.pem"] = append(b, []byte("\r\ntrailing text that is not PEM\x00\xff")...)
		return rootFlag(r, "root.pem"), true
	}},
	{"root=file-der", true, func(ids []*gen.Identity, io *doubles.MemIO, g *doubles.Getter, r *rand.Rand) ([]string, bool) {
		io.Files["root.der"] = ids[0].Cert.Raw
		return rootFlag(r, "root.der"), true
	}},
	{"root=download-pem", false, func(ids []*gen.Identity, io *doubles.MemIO, g *doubles.Getter, r *rand.Rand) ([]string, bool) {
		g.Answers[gcetcbendorsement.DefaultRootURL] = pemOf(ids)
		return nil, true
	}},
	{"root=download-der", true, func(ids []*gen.Identity, io *doubles.MemIO, g *doubles.Getter, r *rand.Rand) ([]string, bool) {
		g.Answers[gcetcbendorsement.DefaultRootURL] = ids[0].Cert.Raw
		return []string{"--root_cert="}, true // the flag given with its default value
	}},
	{"root=download-fails", false, func(ids []*gen.Identity, io *doubles.MemIO, g *doubles.Getter, r *rand.Rand) ([]string, bool) {
		return nil, false // the getter has no answer for the root URL: the run has no roots at all
	}},
	{"root=download-garbage", false, func(ids []*gen.Identity, io *doubles.MemIO, g *doubles.Getter, r *rand.Rand) ([]string, bool) {
		g.Answers[gcetcbendorsement.DefaultRootURL] = []byte("<html><body>Sign in to the network to continue</body></html>\n") // what a captive portal answers
		return nil, false
	}},
	{"root=file-missing", false, func(ids []*gen.Identity, io *doubles.MemIO, g *doubles.Getter, r *rand.Rand) ([]string, bool) {
		g.Answers[gcetcbendorsement.DefaultRootURL] = pemOf(ids) // must not be used: the caller named a file
		return rootFlag(r, "no-such-file.pem"), false
	}},
	{"root=file-empty", false, func(ids []*gen.Identity, io *doubles.MemIO, g *doubles.Getter, r *rand.Rand) ([]string, bool) {
		io.Files["root.pem"] = []byte{}
		return rootFlag(r, "root.pem"), false
	}},
}

func (a *audit) runMatrix(i, k int, mc mcase, r *rand.Rand) {
	w, c := a.w, a.c
	const fam = "matrix"
	s := mc.s
	raw := w.forge(s, uint(r.IntN(8)))
	ids := w.rootSets[s.roots]
	rn := s.roots == "nil"
	now := w.times[s.now].In(zones[mc.zone])
	zdim := "zone=" + zoneClass(mc.zone)
	gname := fmt.Sprintf("matrix#%d:%s[%d] roots=%s now=%s zone=%s", k, s.op, s.param, s.roots, s.now, zoneNames[mc.zone])
	v := authref.Bytes(raw, x509Certs(ids), now)
	vNoRoots := authref.Bytes(raw, nil, now)
	var e *epb.VMLaunchEndorsement
	if pe := (&epb.VMLaunchEndorsement{}); proto.Unmarshal(raw, pe) == nil {
		e = pe
	}
	pool := w.pool(ids, rn)
	opTag := s.op + "|" + s.roots + "|" + s.now
	call := func(entry string, dims []string, f func() error) {
		if acc, ok := a.guard(i, entry, gname, f); ok {
			a.judge(i, fam, entry, gname, opTag, append(dims, zdim), acc, v, raw, ids, now)
		}
	}
	url := verify.GCETcbURL(extractsev.GCETcbObjectName(sev.GCEUefiFamilyID, w.m4))
	getterKinds := func(kind string) verify.HTTPSGetter {
		switch kind {
		case "getter=none":
			return nil
		case "getter=fails":
			return &doubles.Getter{Fail: true}
		}
		return &doubles.Getter{Answers: map[string][]byte{}} // present, 404 for everything
	}
	digest := func(kind string) []byte {
		switch kind {
		case "sha=empty":
			return []byte{}
		case "sha=match":
			return append([]byte(nil), w.g0.Digest...)
		}
		return nil
	}

	// --- verify.Endorsement / EndorsementProto: SNP sub-options x expected digest x getter
	for _, snp := range []string{"snp=nil", "snp=empty", "snp=measurement", "snp=measurement+vmsas"} {
		mkSNP := func() *verify.SNPOptions {
			switch snp {
			case "snp=empty":
				return &verify.SNPOptions{}
			case "snp=measurement":
				return &verify.SNPOptions{Measurement: w.m4}
			case "snp=measurement+vmsas":
				return &verify.SNPOptions{Measurement: w.m4, ExpectedLaunchVMSAs: 4}
			}
			return nil
		}
		sha := pick(r, "sha=nil", "sha=empty", "sha=match")
		gk := pick(r, "getter=none", "getter=404", "getter=fails")
		if e != nil && r.IntN(2) == 0 {
			call("opt:verify.EndorsementProto", []string{snp, sha, gk}, func() error {
				return verify.EndorsementProto(e, &verify.Options{RootsOfTrust: pool, Now: now, SNP: mkSNP(), ExpectedUefiSha384: digest(sha), Getter: getterKinds(gk)})
			})
		} else {
			call("opt:verify.Endorsement", []string{snp, sha, gk}, func() error {
				return verify.Endorsement(raw, &verify.Options{RootsOfTrust: pool, Now: now, SNP: mkSNP(), ExpectedUefiSha384: digest(sha), Getter: getterKinds(gk)})
			})
		}
	}

	// --- validator closure: where the endorsement comes from x preset SNP options x family
	rep := func() *spb.Attestation { return &spb.Attestation{Report: &spb.Report{Measurement: w.m4}} }
	for _, src := range []string{"src=arg", "src=options", "src=bucket", "src=garbage-arg+options", "src=arg+failing-bucket", "src=empty-arg+bucket"} {
		if e == nil && (src == "src=options" || src == "src=garbage-arg+options") {
			continue
		}
		snp := pick(r, "snp=nil", "snp=vmsas", "snp=stale-measurement")
		fam2 := pick(r, "family=gce", "family=other")
		familyID := sev.GCEUefiFamilyID
		if fam2 == "family=other" {
			familyID = "11111111-2222-3333-4444-555555555555"
		}
		call("opt:SNPFamilyValidateFunc", []string{src, snp, fam2}, func() error {
			o := &verify.Options{RootsOfTrust: pool, Now: now}
			switch snp {
			case "snp=vmsas":
				o.SNP = &verify.SNPOptions{ExpectedLaunchVMSAs: 4}
			case "snp=stale-measurement":
				o.SNP = &verify.SNPOptions{Measurement: bytes.Repeat([]byte{0xee}, 48)}
			}
			var arg []byte
			switch src {
			case "src=arg":
				arg = raw
			case "src=options":
				o.Endorsement = e
			case "src=bucket":
				o.Getter = &doubles.Getter{Default: raw}
			case "src=garbage-arg+options":
				arg, o.Endorsement = garbageBlob, e
			case "src=arg+failing-bucket":
				arg, o.Getter = raw, &doubles.Getter{Fail: true}
			case "src=empty-arg+bucket": // a zero-length, non-nil table entry IS an endorsement (an empty one); the bucket holds the same bytes as the case
				arg, o.Getter = []byte{}, &doubles.Getter{Default: raw}
			}
			return verify.SNPFamilyValidateFunc(familyID, o)(rep(), arg)
		})
	}

	// --- SevValidate: source x testonly_force_gcs, with base policy, overwrite, launch VMSAs and context drawn
	for _, src := range []string{"src=options", "src=table", "src=bucket", "src=garbage-table+bucket"} {
		if e == nil && src == "src=options" {
			continue
		}
		for _, force := range []bool{false, true} {
			base := pick(r, "base=nil", "base=nil", "base=empty", "base=same-policy", "base=same-measurement")
			ow := r.IntN(2) == 0
			vmsas := pick(r, uint32(0), 0, 4)
			ck := ctxKinds[r.IntN(len(ctxKinds))]
			dims := []string{src, onoff("force_gcs", force), base, onoff("overwrite", ow), fmt.Sprintf("vmsas=%d", vmsas), ck.name}
			call("opt:SevValidate", dims, func() error {
				at := gen.SnpAttestation(w.m4, w.vcek(w.times["mid"]))
				o := &gcetcbendorsement.SevValidateOptions{RootsOfTrust: pool, Now: now, BasePolicy: w.sevBase(base), Overwrite: ow, ExpectedLaunchVmsas: vmsas, TestonlyForceGCS: force}
				switch src {
				case "src=options":
					o.Endorsement = e
				case "src=table":
					at.CertificateChain.Extras = map[string][]byte{sev.GCEFwCertGUID: raw}
				case "src=bucket":
					o.Getter = &doubles.Getter{Answers: map[string][]byte{url: raw}}
				case "src=garbage-table+bucket":
					at.CertificateChain.Extras = map[string][]byte{sev.GCEFwCertGUID: garbageBlob}
					o.Getter = &doubles.Getter{Answers: map[string][]byte{url: raw}}
				}
				ctx, cancel := ck.mk()
				defer cancel()
				return gcetcbendorsement.SevValidate(ctx, at, o)
			})
		}
	}

	// --- TdxValidate: base policy x overwrite, with RAM selector, getter and context drawn
	if e != nil {
		for _, base := range []string{"base=nil", "base=empty", "base=body-no-mrtd", "base=pinned-mrtd"} {
			for _, ow := range []bool{false, true} {
				ram := pick(r, 0, 0, 16)
				gk := pick(r, "getter=none", "getter=404", "getter=fails")
				ck := ctxKinds[r.IntN(len(ctxKinds))]
				call("opt:TdxValidate", []string{base, onoff("overwrite", ow), fmt.Sprintf("ram=%d", ram), gk, ck.name}, func() error {
					ctx, cancel := ck.mk()
					defer cancel()
					return gcetcbendorsement.TdxValidate(ctx, gen.TdxQuote(w.mrtd), &gcetcbendorsement.TdxValidateOptions{Endorsement: e, RootsOfTrust: pool, Now: now,
						BasePolicy: w.tdxBase(base), Overwrite: ow, ExpectedRAMGiB: ram, Getter: getterKinds(gk)})
				})
			}
		}
	}

	// --- command line. The CLI builds its own pool: a nil root set cannot be expressed, it is the empty one.
	cliCall := func(entry string, dims []string, hasRoots bool, f func() error) {
		vv, rr := v, ids
		if !hasRoots {
			vv, rr = vNoRoots, nil
		}
		if acc, ok := a.guard(i, entry, gname, f); ok {
			a.judge(i, fam, entry, gname, opTag, append(dims, zdim), acc, vv, raw, rr, now)
		}
	}
	for _, rs := range rootSources {
		if rs.one && len(ids) != 1 {
			continue
		}
		io, g := doubles.NewMemIO(), &doubles.Getter{Answers: map[string][]byte{}}
		io.Files["e.binarypb"] = raw
		rargs, has := rs.apply(ids, io, g, r)
		args := append([]string{"verify", "e.binarypb"}, rargs...)
		if r.IntN(2) == 0 {
			args = append(append([]string{"verify"}, rargs...), "e.binarypb")
		}
		cliCall("opt:cli:verify", []string{rs.name}, has, func() error { return (&doubles.CLI{IO: io, Now: now, Getter: g}).Run(args...) })
	}
	sevAt := func() *spb.Attestation { return gen.SnpAttestation(w.m4, w.vcek(w.times["mid"])) }
	for _, rsName := range []string{"root=file-pem", "root=download-pem", "root=download-fails", "root=download-garbage"} {
		rs := rootSourceByName(rsName)
		for _, esrc := range []string{"src=file", "src=table", "src=bucket"} {
			io, g := doubles.NewMemIO(), &doubles.Getter{Answers: map[string][]byte{}}
			rargs, has := rs.apply(ids, io, g, r)
			var pre, post []string
			ow := pick(r, "overwrite=absent", "overwrite=on", "overwrite=false")
			switch ow {
			case "overwrite=on":
				pre = append(pre, "--overwrite")
			case "overwrite=false":
				pre = append(pre, "--overwrite=false")
			}
			base := pick(r, "base=none", "base=none", "base=empty", "base=same-policy")
			if base != "base=none" {
				b, _ := proto.Marshal(w.sevBase(base))
				io.Files["base.binarypb"] = b
				pre = append(pre, "--base", "base.binarypb")
			}
			vm := pick(r, "launch_vmsas=absent", "launch_vmsas=0", "launch_vmsas=4")
			if vm != "launch_vmsas=absent" {
				pre = append(pre, "--"+vm)
			}
			au := r.IntN(3) == 0
			if au {
				pre = append(pre, "--allow_unspecified_vmsas")
			}
			force := r.IntN(2) == 0
			if force {
				post = append(post, "--testonly_force_gcs")
			}
			at := sevAt()
			kind := "at=tpm-proto"
			switch esrc {
			case "src=file":
				io.Files["e.binarypb"] = raw
				post = append(post, "--endorsement", "e.binarypb")
				kind = pick(r, "at=raw", "at=hex", "at=HEX", "at=base64", "at=tpm-proto")
			case "src=table":
				at.CertificateChain.Extras = map[string][]byte{sev.GCEFwCertGUID: raw}
			case "src=bucket":
				g.Answers[url] = raw
				kind = pick(r, "at=tpm-proto", "at=tpm-proto", "at=tpm-proto", "at=raw", "at=hex", "at=base64")
			}
			io.Files["at.bin"] = container(kind, w.rawQuote(), func() proto.Message {
				return &tpmpb.Attestation{TeeAttestation: &tpmpb.Attestation_SevSnpAttestation{SevSnpAttestation: at}}
			})
			args := append(append([]string{"sev"}, pre...), "validate", "at.bin")
			args = append(append(args, post...), rargs...)
			dims := []string{rs.name, esrc, kind, onoff("force_gcs", force), ow, base, vm, onoff("allow_unspecified", au)}
			cliCall("opt:cli:sev validate", dims, has, func() error { return (&doubles.CLI{IO: io, Now: now, Getter: g}).Run(args...) })
		}
	}
	for _, rsName := range []string{"root=file-pem", "root=download-pem", "root=download-fails", "root=download-garbage", "root=file-missing"} {
		rs := rootSourceByName(rsName)
		io, g := doubles.NewMemIO(), &doubles.Getter{Answers: map[string][]byte{}}
		rargs, has := rs.apply(ids, io, g, r)
		io.Files["e.binarypb"] = raw
		var pre []string
		ow := r.IntN(2) == 0
		if ow {
			pre = append(pre, "--overwrite")
		}
		base := pick(r, "base=none", "base=none", "base=empty", "base=pinned-mrtd")
		if base != "base=none" {
			b, _ := proto.Marshal(w.tdxBase(base))
			io.Files["base.binarypb"] = b
			pre = append(pre, "--base=base.binarypb")
		}
		ram := pick(r, "ram_gib=absent", "ram_gib=0", "ram_gib=16")
		if ram != "ram_gib=absent" {
			pre = append(pre, "--"+ram)
		}
		kind := pick(r, "at=raw", "at=hex", "at=HEX", "at=base64", "at=tpm-proto")
		q := gen.TdxQuote(w.mrtd)
		io.Files["quote.bin"] = container(kind, q, func() proto.Message {
			qp, err := tabi.QuoteToProto(q)
			if err != nil {
				panic(err)
			}
			return &tpmpb.Attestation{TeeAttestation: &tpmpb.Attestation_TdxAttestation{TdxAttestation: qp.(*tpb.QuoteV4)}}
		})
		args := append(append([]string{"tdx"}, pre...), "validate", "quote.bin", "--endorsement=e.binarypb")
		args = append(args, rargs...)
		cliCall("opt:cli:tdx validate", []string{rs.name, kind, onoff("overwrite", ow), base, ram}, has, func() error { return (&doubles.CLI{IO: io, Now: now, Getter: g}).Run(args...) })
	}
	c.Count("matrix: cases", 1)
	if k%61 == 0 {
		c.Sample(map[string]any{"matrix-case": k, "gen": gname, "oracle_authentic": v.Authentic, "oracle_why": v.Why})
	}
}

func rootSourceByName(n string) rootSource {
	for _, rs := range rootSources {
		if rs.name == n {
			return rs
		}
	}
	panic("no root source " + n)
}

// floors: every audit entry point, and every value of the dimensions the audit exists for, must have been seen
// both ways (a genuine endorsement accepted and a non-authentic one refused), or the run says nothing about it.
func (a *audit) floors() {
	c := a.c
	entries := []string{
		"kept:verify.EndorsementProto(one Options, one receiver)", "kept:verify.Endorsement(one Options, one buffer)", "kept:SNPValidateFunc(one Options)/options",
		"kept:SNPValidateFunc closure reused/arg", "kept:SNPFamilyValidateFunc closure reused/arg+preset SNP", "kept:SevValidate(one Options, one attestation)/options",
		"kept:SevValidate(one Options, one attestation)/extras", "kept:TdxValidate(one Options)/options",
		"opt:verify.EndorsementProto", "opt:verify.Endorsement", "opt:SNPFamilyValidateFunc", "opt:SevValidate", "opt:TdxValidate", "opt:cli:verify", "opt:cli:sev validate", "opt:cli:tdx validate",
	}
	for _, en := range entries {
		c.Count("audit genuine-accepts/"+en, a.accept[en])
		c.Count("audit nonauthentic-rejects/"+en, a.reject[en])
		c.Floor("audit genuine-accept/"+en, a.accept[en] > 0)
		c.Floor("audit nonauthentic-reject/"+en, a.reject[en] > 0)
	}
	both := []string{ // dimension values that must have accepted something genuine AND refused something forged
		"kept:verify.EndorsementProto(one Options, one receiver)|step=later", "kept:SNPValidateFunc closure reused/arg|step=later", "kept:SevValidate(one Options, one attestation)/extras|step=later",
		"kept:TdxValidate(one Options)/options|step=later", "kept:verify.Endorsement(one Options, one buffer)|zone=non-utc",
		"opt:verify.Endorsement|zone=non-utc", "opt:cli:verify|zone=non-utc", "opt:SevValidate|zone=non-utc", "opt:TdxValidate|zone=non-utc",
		"opt:SevValidate|force_gcs=on", "opt:SevValidate|force_gcs=off", "opt:SevValidate|src=options", "opt:SevValidate|src=table", "opt:SevValidate|src=bucket", "opt:SevValidate|src=garbage-table+bucket",
		"opt:SevValidate|ctx=cancelled", "opt:SevValidate|ctx=deadline-passed", "opt:SevValidate|overwrite=on", "opt:SevValidate|base=empty", "opt:SevValidate|base=same-policy", "opt:SevValidate|vmsas=4",
		"opt:TdxValidate|base=empty", "opt:TdxValidate|base=body-no-mrtd", "opt:TdxValidate|overwrite=on", "opt:TdxValidate|ctx=cancelled", "opt:TdxValidate|ram=16", "opt:TdxValidate|getter=fails",
		"opt:SNPFamilyValidateFunc|src=arg", "opt:SNPFamilyValidateFunc|src=options", "opt:SNPFamilyValidateFunc|src=bucket", "opt:SNPFamilyValidateFunc|src=garbage-arg+options",
		"opt:SNPFamilyValidateFunc|src=arg+failing-bucket", "opt:SNPFamilyValidateFunc|snp=vmsas", "opt:SNPFamilyValidateFunc|snp=stale-measurement", "opt:SNPFamilyValidateFunc|family=other",
		"opt:verify.Endorsement|snp=nil", "opt:verify.Endorsement|snp=empty", "opt:verify.Endorsement|snp=measurement+vmsas", "opt:verify.Endorsement|sha=match", "opt:verify.Endorsement|sha=empty",
		"opt:cli:verify|root=file-pem", "opt:cli:verify|root=file-pem-noisy", "opt:cli:verify|root=file-der", "opt:cli:verify|root=download-pem", "opt:cli:verify|root=download-der",
		"opt:cli:sev validate|root=download-pem", "opt:cli:sev validate|src=file", "opt:cli:sev validate|src=table", "opt:cli:sev validate|src=bucket", "opt:cli:sev validate|force_gcs=on",
		"opt:cli:sev validate|at=hex", "opt:cli:sev validate|at=base64", "opt:cli:sev validate|at=tpm-proto", "opt:cli:sev validate|overwrite=on", "opt:cli:sev validate|launch_vmsas=4",
		"opt:cli:tdx validate|root=download-pem", "opt:cli:tdx validate|overwrite=on", "opt:cli:tdx validate|ram_gib=16",
	}
	for _, d := range both {
		c.Count("audit genuine-accepts/"+d, a.accept[d])
		c.Count("audit nonauthentic-rejects/"+d, a.reject[d])
		c.Floor("audit saw-genuine-accept/"+d, a.accept[d] > 0)
		c.Floor("audit saw-nonauthentic-reject/"+d, a.reject[d] > 0)
	}
	rejectOnly := []string{ // sources that give the run no roots: nothing can be authentic, so only refusals can be seen
		"opt:cli:verify|root=download-fails", "opt:cli:verify|root=download-garbage", "opt:cli:verify|root=file-missing", "opt:cli:verify|root=file-empty",
		"opt:cli:sev validate|root=download-fails", "opt:cli:sev validate|root=download-garbage", "opt:cli:tdx validate|root=download-fails", "opt:cli:tdx validate|root=download-garbage",
		"opt:cli:tdx validate|root=file-missing",
	}
	for _, d := range rejectOnly {
		c.Count("audit nonauthentic-rejects/"+d, a.reject[d])
		c.Floor("audit refused-without-roots/"+d, a.reject[d] > 0)
	}
}
