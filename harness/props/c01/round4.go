package c01

// round4.go: two families appended after the audit families (their case numbers follow the matrix cases, so
// every earlier case keeps its number and its PRNG stream). Both are judged by the one rule of C01
// (accept => authref authentic); only acceptances are judged.
//
//   multi  ONE command-line run that is given SEVERAL things: `verify` with two to four endorsement PATHs
//          (authentic and non-authentic ones in every order, the same PATH twice, the root flag before, between
//          or after the PATHs), and `sev validate` / `tdx validate` with further positional arguments. A run of
//          `verify` that ends successfully has accepted every endorsement it was asked to verify: the PATHs are
//          the objects of the verification, not alternative sources of one endorsement (for alternative sources
//          the oracle stays existential, as everywhere else). Each PATH is also run alone as the reference.
//   live   the caller's verification time left UNSET, which crypto/x509 (and therefore every entry point)
//          reads as "the time of this call". The property is then about real time, so this family — and only
//          this one — lets real time pass: per case a signer certificate that runs out at a whole second B a few
//          seconds ahead and one that starts at B are minted on the spot, validators / option values are made
//          and (some of them) used before B, the case sleeps across B, and everything is used again. A call is
//          judged only when it lay wholly at least one whole second before B, or wholly at least one whole second
//          after B, and the wall clock agreed with the monotonic clock since the start of the case; then the
//          certificate's validity is the same at every instant of the call and authref decides with that time.
//          Calls that miss the margins are counted as not judged.

import (
	"context"
	"crypto/x509"
	"fmt"
	"math/rand/v2"
	"strings"
	"time"

	"github.com/google/gce-tcb-verifier/gcetcbendorsement"
	epb "github.com/google/gce-tcb-verifier/proto/endorsement"
	"github.com/google/gce-tcb-verifier/sev"
	"github.com/google/gce-tcb-verifier/verify"
	spb "github.com/google/go-sev-guest/proto/sevsnp"
	"google.golang.org/protobuf/proto"

	"verifharness/core"
	"verifharness/doubles"
	"verifharness/gen"
	"verifharness/ref/authref"
)

func (w *world) runRound4(c *core.Ctx, base int) int {
	a := &audit{c: c, w: w, accept: map[string]int{}, reject: map[string]int{}}
	ms := w.multiCases(c)
	for k, mc := range ms {
		i := base + k
		if !c.Mine(i) {
			continue
		}
		r := c.Rand(i)
		c.Begin(i, fmt.Sprintf("multi#%d %v roots=%s now=%s", k, mc.files, mc.roots, mc.now), "cli(several arguments)", nil)
		a.runMulti(i, k, mc, r)
		c.End(i)
	}
	base += len(ms)
	nLive := c.N(8, 32) // one per shard in the quick tier, two per shard in the thorough tier: they sleep
	for k := 0; k < nLive; k++ {
		i := base + k
		if !c.Mine(i) {
			continue
		}
		r := c.Rand(i)
		c.Begin(i, fmt.Sprintf("live#%d", k), "all(verification time unset)", nil)
		a.runLive(i, k, r)
		c.End(i)
	}
	a.round4Floors()
	return base + nLive
}

// ---------------------------------------------------------------------------------------------------
// family "multi"

type mfile struct {
	op    string
	param int
}

type multiCase struct {
	files      []mfile
	roots, now string
	zone       int
}

var multiForged = []string{"flip-sig", "flip-payload", "flip-cert", "sig-swap", "payload-swap", "resign-attacker-keep-cert", "attacker-chain", "root-cert-other-key",
	"self-signed-leaf", "pkcs1v15", "pss-sha384", "no-cert", "sig-zero", "sig-empty", "wire-dup-sig-bad-last", "payload-reencode", "payload-unknown-field", "payload-truncate",
	"empty-endorsement", "payload-empty"}

func (w *world) multiCases(c *core.Ctx) []multiCase {
	r := c.RandNamed("round4-multi")
	G, G2 := mfile{"genuine", 0}, mfile{"genuine2", 0}
	F := func() mfile { return mfile{multiForged[r.IntN(len(multiForged))], r.IntN(1 << 12)} }
	var out []multiCase
	add := func(roots, now string, fs ...mfile) { out = append(out, multiCase{fs, roots, now, r.IntN(len(zones))}) }
	// every order of one bad file among good ones, for two and three PATHs; the same file named twice
	for rep := 0; rep < 2; rep++ {
		f := F()
		add("genuine", "mid", f, G)
		add("genuine", "mid", G, f)
		add("genuine", "mid", f, G2)
		add("genuine", "mid", f, f, G)
		add("genuine", "mid", f, G, G2)
		add("genuine", "mid", G, f, G2)
		add("genuine", "mid", G, G2, f)
		add("genuine", "mid", f, F(), G)
		add("genuine", "mid", G, f, G, G2)
	}
	add("genuine", "mid", G, G)
	add("genuine", "mid", G, G2)
	add("genuine", "mid", G2, G, G2)
	add("genuine+foreign", "mid", mfile{"attacker-chain", 0}, G) // both chain to a supplied root: all authentic
	add("genuine", "mid", mfile{"attacker-chain", 0}, G)         // the first does not
	add("foreign", "mid", G, mfile{"attacker-chain", 0})         // the first does not
	add("genuine", "after+1s", G, G2)                            // the time is wrong for all
	add("short-root", "mid", mfile{"short-root-leaf", 0}, G)     // the second chains to no supplied root
	add("genuine", "mid", mfile{"short-root-leaf", 0}, G)        // the first chains to no supplied root
	n := c.N(30, 900)
	rootsOf := []string{"genuine", "genuine", "genuine", "genuine+foreign", "genuine+inter", "foreign"}
	nowOf := []string{"mid", "mid", "mid", "mid", "notBefore", "notAfter", "after+1s", "before-1s"}
	for k := 0; k < n; k++ {
		np := 2 + r.IntN(3)
		var fs []mfile
		for j := 0; j < np; j++ {
			switch x := r.IntN(10); {
			case x < 3:
				fs = append(fs, G)
			case x < 6:
				fs = append(fs, G2)
			case x < 7 && j > 0:
				fs = append(fs, fs[r.IntN(j)]) // an earlier PATH again
			default:
				fs = append(fs, F())
			}
		}
		add(rootsOf[r.IntN(len(rootsOf))], nowOf[r.IntN(len(nowOf))], fs...)
	}
	return out
}

func (a *audit) runMulti(i, k int, mc multiCase, r *rand.Rand) {
	w, c := a.w, a.c
	const fam = "multi"
	ids := w.rootSets[mc.roots]
	certs := x509Certs(ids)
	now := w.times[mc.now].In(zones[mc.zone])
	gname := fmt.Sprintf("multi#%d:%v roots=%s now=%s zone=%s", k, mc.files, mc.roots, mc.now, zoneNames[mc.zone])
	// identical (operator, parameter) pairs are ONE file named more than once
	pathOf := map[mfile]string{}
	rawOf := map[string][]byte{}
	verdictOf := map[string]authref.Result{}
	var paths, distinct []string
	for _, f := range mc.files {
		p, ok := pathOf[f]
		if !ok {
			p = fmt.Sprintf("e%d.binarypb", len(pathOf))
			pathOf[f] = p
			raw := w.forge(spec{f.op, f.param, mc.roots, mc.now}, uint(r.IntN(8)))
			rawOf[p] = raw
			verdictOf[p] = authref.Bytes(raw, certs, now)
			distinct = append(distinct, p)
		}
		paths = append(paths, p)
	}
	// the run is allowed to succeed only when every endorsement it names is authentic
	all := authref.Result{Authentic: true}
	witness := rawOf[paths[0]]
	pattern := ""
	for j, p := range paths {
		if verdictOf[p].Authentic {
			pattern += "A"
			continue
		}
		pattern += "N"
		if all.Authentic {
			all = authref.Result{Authentic: false, Why: fmt.Sprintf("PATH %d of %d (%s, %s): %s", j+1, len(paths), p, mc.files[j].op, verdictOf[p].Why)}
			witness = rawOf[p]
		}
	}
	var ops []string
	for _, f := range mc.files {
		ops = append(ops, f.op)
	}
	opTag := strings.Join(ops, "+") + "|" + mc.roots + "|" + mc.now
	fill := func(rsName string) (*doubles.MemIO, *doubles.Getter, []string) {
		io, g := doubles.NewMemIO(), &doubles.Getter{Answers: map[string][]byte{}}
		for p, raw := range rawOf {
			io.Files[p] = raw
		}
		rargs, _ := rootSourceByName(rsName).apply(ids, io, g, r)
		return io, g, rargs
	}
	// place the root flag before, between or after the positional arguments
	place := func(cmd []string, pos []string, rargs []string, tail ...string) ([]string, string) {
		at := r.IntN(len(pos) + 1)
		args := append([]string(nil), cmd...)
		args = append(args, pos[:at]...)
		args = append(args, rargs...)
		args = append(args, pos[at:]...)
		args = append(args, tail...)
		where := "rootflag=between"
		switch {
		case len(rargs) == 0:
			where = "rootflag=absent"
		case at == 0:
			where = "rootflag=first"
		case at == len(pos):
			where = "rootflag=last"
		}
		return args, where
	}
	rsName := pick(r, "root=file-pem", "root=file-pem", "root=download-pem")

	// --- verify PATH PATH [PATH [PATH]]
	{
		io, g, rargs := fill(rsName)
		args, where := place([]string{"verify"}, paths, rargs)
		dims := []string{fmt.Sprintf("paths=%d", len(paths)), "pattern=" + pattern, "last=" + pattern[len(pattern)-1:], rsName, where}
		if acc, ok := a.guard(i, "multi:cli:verify(several PATHs)", gname, func() error { return (&doubles.CLI{IO: io, Now: now, Getter: g}).Run(args...) }); ok {
			a.judge(i, fam, "multi:cli:verify(several PATHs)", gname, opTag, dims, acc, all, witness, ids, now)
			if !acc && all.Authentic {
				c.Count("multi: runs refused although every PATH is authentic (the command takes one PATH)", 1)
			}
		}
	}
	// --- the reference: each PATH alone
	for _, p := range distinct {
		io, g, rargs := fill(rsName)
		args, where := place([]string{"verify"}, []string{p}, rargs)
		if acc, ok := a.guard(i, "multi:cli:verify(each PATH alone)", gname, func() error { return (&doubles.CLI{IO: io, Now: now, Getter: g}).Run(args...) }); ok {
			var f mfile
			for ff, pp := range pathOf {
				if pp == p {
					f = ff
				}
			}
			a.judge(i, fam, "multi:cli:verify(each PATH alone)", gname, f.op+"|"+mc.roots+"|"+mc.now, []string{rsName, where}, acc, verdictOf[p], rawOf[p], ids, now)
		}
	}
	// --- sev validate / tdx validate with further positional arguments (the same attestation again): ONE endorsement
	// is named, so the rule is the plain one.
	e0 := paths[0]
	extra := 1 + r.IntN(2)
	{
		io, g, rargs := fill(rsName)
		io.Files["at.bin"] = w.rawQuote()
		pos := []string{"at.bin"}
		for x := 0; x < extra; x++ {
			n := fmt.Sprintf("at%d.bin", x+2)
			io.Files[n] = w.rawQuote()
			pos = append(pos, n)
		}
		args, where := place([]string{"sev", "validate"}, pos, rargs, "--endorsement", e0)
		dims := []string{fmt.Sprintf("positional=%d", len(pos)), rsName, where}
		if acc, ok := a.guard(i, "multi:cli:sev validate(further positional arguments)", gname, func() error { return (&doubles.CLI{IO: io, Now: now, Getter: g}).Run(args...) }); ok {
			a.judge(i, fam, "multi:cli:sev validate(further positional arguments)", gname, mc.files[0].op+"|"+mc.roots+"|"+mc.now, dims, acc, verdictOf[e0], rawOf[e0], ids, now)
		}
	}
	{
		io, g, rargs := fill(rsName)
		pos := []string{"quote.bin"}
		io.Files["quote.bin"] = gen.TdxQuote(w.mrtd)
		for x := 0; x < extra; x++ {
			n := fmt.Sprintf("quote%d.bin", x+2)
			io.Files[n] = gen.TdxQuote(w.mrtd)
			pos = append(pos, n)
		}
		args, where := place([]string{"tdx", "validate"}, pos, rargs, "--endorsement="+e0)
		dims := []string{fmt.Sprintf("positional=%d", len(pos)), rsName, where}
		if acc, ok := a.guard(i, "multi:cli:tdx validate(further positional arguments)", gname, func() error { return (&doubles.CLI{IO: io, Now: now, Getter: g}).Run(args...) }); ok {
			a.judge(i, fam, "multi:cli:tdx validate(further positional arguments)", gname, mc.files[0].op+"|"+mc.roots+"|"+mc.now, dims, acc, verdictOf[e0], rawOf[e0], ids, now)
		}
	}
	c.Count("multi: cases", 1)
	c.Count("multi: pattern "+fmt.Sprintf("%d paths, last %s, some earlier N=%v", len(paths), pattern[len(pattern)-1:], strings.Contains(pattern[:len(pattern)-1], "N")), 1)
	if k < 3 {
		c.Sample(map[string]any{"multi-case": k, "gen": gname, "pattern": pattern, "oracle_all_authentic": all.Authentic, "oracle_why": all.Why})
	}
}

// ---------------------------------------------------------------------------------------------------
// family "live"

const (
	liveMargin    = time.Second            // distance every judged call keeps from the boundary, on its side
	liveClockSkew = 250 * time.Millisecond // tolerated disagreement between wall and monotonic clock since the case began
)

const (
	liveClosureArg    = "live:SNPValidateFunc closure kept(Now unset)/arg"
	liveClosureBucket = "live:SNPFamilyValidateFunc closure kept(Now unset)/bucket"
	liveEndorsement   = "live:verify.Endorsement(one Options kept, Now unset)"
	liveSharedOptions = "live:verify.EndorsementProto(the Options a validator was made from, Now unset)"
	liveSevOptions    = "live:SevValidate(one Options kept, Now unset)/options"
	liveSevExtras     = "live:SevValidate(one Options kept, Now unset)/extras"
	liveTdx           = "live:TdxValidate(one Options kept, Now unset)"
	liveCliVerify     = "live:cli:verify(Backend.Now unset)"
	liveCliSev        = "live:cli:sev validate(Backend.Now unset)"
	liveCliTdx        = "live:cli:tdx validate(Backend.Now unset)"
	liveFreshClosure  = "live:SNPValidateFunc closure made for the call(Now unset)/arg"
)

var liveKept = []string{liveClosureArg, liveClosureBucket, liveEndorsement, liveSharedOptions, liveSevOptions, liveSevExtras, liveTdx}
var liveAll = append(append([]string(nil), liveKept...), liveCliVerify, liveCliSev, liveCliTdx, liveFreshClosure)

type liveDoc struct {
	name string // expiring | starting | forged-sig
	raw  []byte
	e    *epb.VMLaunchEndorsement
}

func (a *audit) runLive(i, k int, r *rand.Rand) {
	w, c := a.w, a.c
	const fam = "live"
	p := w.pki
	lead := 4 + r.IntN(2) // the boundary lies between lead and lead+1 seconds ahead
	withForeign := r.IntN(2) == 0
	swapGolden := r.IntN(2) == 0
	bg := context.Background()

	// --- the world of this case, around the real present. Keys are the run's keys; only certificates are minted.
	t0 := time.Now() // carries the monotonic reading all later readings are compared with
	wall := func(t time.Time) time.Time { return t.Round(0) }
	boundary := wall(t0).Truncate(time.Second).Add(time.Duration(lead+1) * time.Second).UTC()
	clockOK := func(t time.Time) bool {
		d := t.Sub(t0) - wall(t).Sub(wall(t0)) // monotonic elapsed minus wall elapsed
		return d > -liveClockSkew && d < liveClockSkew
	}
	ca, ds := x509.KeyUsageCertSign, x509.KeyUsageDigitalSignature
	root := gen.Mint(gen.CertSpec{CN: "live root", Serial: 101, NotBefore: boundary.Add(-time.Hour), NotAfter: boundary.Add(24 * time.Hour), IsCA: true, KeyUsage: ca}, p.Root.Key, nil)
	expiring := gen.Mint(gen.CertSpec{CN: "live signer, runs out at the boundary", Serial: 102, NotBefore: boundary.Add(-time.Hour), NotAfter: boundary, KeyUsage: ds}, p.Signer.Key, root)
	starting := gen.Mint(gen.CertSpec{CN: "live signer, starts at the boundary", Serial: 103, NotBefore: boundary, NotAfter: boundary.Add(24 * time.Hour), KeyUsage: ds}, p.Signer2.Key, root)
	ids := []*gen.Identity{root}
	rootsName := "live-root"
	if withForeign {
		ids = append(ids, p.Attacker)
		rootsName = "live-root+foreign"
	}
	certs := x509Certs(ids)
	pool := gen.Pool(ids...)
	gx, gy := w.g0, w.g1
	if swapGolden {
		gx, gy = gy, gx
	}
	mkDoc := func(name string, e *epb.VMLaunchEndorsement) liveDoc { return liveDoc{name, marshalE(e), e} }
	docX := mkDoc("expiring", gen.Endorse(expiring, gx))
	docY := mkDoc("starting", gen.Endorse(starting, gy))
	bad := proto.Clone(docX.e).(*epb.VMLaunchEndorsement)
	bad.Signature = flipBit(bad.Signature, r.IntN(len(bad.Signature)), uint(r.IntN(8)))
	docBad := mkDoc("forged-sig", bad)

	// --- the caller's long-lived values, all made now, before the boundary, none with a verification time
	rep := &spb.Attestation{Report: &spb.Report{Measurement: w.m4}}
	at := gen.SnpAttestation(w.m4, w.vcek(w.times["mid"]))
	at2 := gen.SnpAttestation(w.m4, w.vcek(w.times["mid"]))
	quote := gen.TdxQuote(w.mrtd)
	closureArg := verify.SNPValidateFunc(&verify.Options{RootsOfTrust: pool})
	bucket := &doubles.Getter{}
	closureBucket := verify.SNPFamilyValidateFunc(sev.GCEUefiFamilyID, &verify.Options{RootsOfTrust: pool, Getter: bucket, SNP: &verify.SNPOptions{ExpectedLaunchVMSAs: 4}})
	vo := &verify.Options{RootsOfTrust: pool}
	shared := &verify.Options{RootsOfTrust: pool}
	sharedClosure := verify.SNPValidateFunc(shared) // the caller goes on using `shared` itself as well
	so := &gcetcbendorsement.SevValidateOptions{RootsOfTrust: pool}
	so2 := &gcetcbendorsement.SevValidateOptions{RootsOfTrust: pool}
	to := &gcetcbendorsement.TdxValidateOptions{RootsOfTrust: pool}
	made := time.Now()
	madeBefore := clockOK(made) && !wall(made).After(boundary.Add(-liveMargin))
	cli := func(d liveDoc, args ...string) error {
		io := doubles.NewMemIO()
		io.Files["e.binarypb"] = d.raw
		io.Files["root.pem"] = pemOf(ids)
		io.Files["at.bin"] = w.rawQuote()
		io.Files["quote.bin"] = quote
		return (&doubles.CLI{IO: io, Getter: &doubles.Getter{}}).Run(args...) // Now is the zero time
	}
	calls := map[string]func(d liveDoc) error{
		liveClosureArg: func(d liveDoc) error { return closureArg(rep, d.raw) },
		liveClosureBucket: func(d liveDoc) error {
			bucket.Default = d.raw
			return closureBucket(rep, nil)
		},
		liveEndorsement: func(d liveDoc) error { return verify.Endorsement(d.raw, vo) },
		liveSharedOptions: func(d liveDoc) error {
			_ = sharedClosure(rep, d.raw) // whatever the validator does to the options it was made from happens first
			c.Eval(1)
			return verify.EndorsementProto(d.e, shared) // this result is the one that is judged
		},
		liveSevOptions: func(d liveDoc) error {
			so.Endorsement = d.e
			return gcetcbendorsement.SevValidate(bg, at, so)
		},
		liveSevExtras: func(d liveDoc) error {
			at2.CertificateChain.Extras = map[string][]byte{sev.GCEFwCertGUID: d.raw}
			return gcetcbendorsement.SevValidate(bg, at2, so2)
		},
		liveTdx: func(d liveDoc) error {
			to.Endorsement = d.e
			return gcetcbendorsement.TdxValidate(bg, quote, to)
		},
		liveCliVerify: func(d liveDoc) error { return cli(d, "verify", "e.binarypb", "--root_cert", "root.pem") },
		liveCliSev: func(d liveDoc) error {
			return cli(d, "sev", "validate", "at.bin", "--endorsement", "e.binarypb", "--root_cert", "root.pem")
		},
		liveCliTdx: func(d liveDoc) error {
			return cli(d, "tdx", "validate", "quote.bin", "--endorsement", "e.binarypb", "--root_cert", "root.pem")
		},
		liveFreshClosure: func(d liveDoc) error { return verify.SNPValidateFunc(&verify.Options{RootsOfTrust: pool})(rep, d.raw) },
	}
	usedBefore := map[string]int{} // 1 = used (and judged) before the boundary, 2 = a use was attempted but missed the margin
	notJudged := 0
	one := func(phase, entry string, d liveDoc) {
		gname := fmt.Sprintf("live#%d:%s %s roots=%s phase=%s", k, entry, d.name, rootsName, phase)
		t1 := time.Now()
		acc, ok := a.guard(i, entry, gname, func() error { return calls[entry](d) })
		t2 := time.Now()
		if !ok {
			return
		}
		judged := clockOK(t1) && clockOK(t2)
		if phase == "before" {
			judged = judged && !wall(t2).After(boundary.Add(-liveMargin))
		} else {
			judged = judged && !wall(t1).Before(boundary.Add(liveMargin))
		}
		v := authref.Bytes(d.raw, certs, wall(t1))
		if judged && authref.Bytes(d.raw, certs, wall(t2)).Authentic != v.Authentic {
			judged = false // cannot happen inside the margins; kept as a guard of the oracle itself
		}
		if phase == "before" {
			if judged {
				usedBefore[entry] = 1
			} else if usedBefore[entry] == 0 {
				usedBefore[entry] = 2
			}
		}
		if !judged {
			notJudged++
			c.Count("live: calls not judged (whole-second margin to the boundary not met, or the clock was stepped)", 1)
			return
		}
		dims := []string{"phase=" + phase, "cert=" + d.name}
		if phase == "after" && entry != liveFreshClosure && !strings.HasPrefix(entry, "live:cli:") {
			switch {
			case !madeBefore:
				dims = append(dims, "span=made-too-late")
			case usedBefore[entry] == 1:
				dims = append(dims, "span=made-and-used-before,used-after")
			case usedBefore[entry] == 2:
				dims = append(dims, "span=made-before,use-before-missed-the-margin")
			default:
				dims = append(dims, "span=made-before,first-used-after")
			}
			if madeBefore {
				dims = append(dims, "span=kept-across-the-boundary")
			}
		}
		a.judge(i, fam, entry, gname, d.name+"|"+rootsName+"|"+phase, dims, acc, v, d.raw, ids, wall(t1))
	}
	order := func() []string {
		o := append([]string(nil), liveAll...)
		r.Shuffle(len(o), func(x, y int) { o[x], o[y] = o[y], o[x] })
		return o
	}
	docs := func() []liveDoc {
		d := []liveDoc{docX, docY, docBad}
		r.Shuffle(len(d), func(x, y int) { d[x], d[y] = d[y], d[x] })
		return d
	}

	// --- before the boundary: two thirds of the kept values are used (which ones rotates with the case number),
	// the rest stay untouched until afterwards
	keptIdx := map[string]int{}
	for x, en := range liveKept {
		keptIdx[en] = x
	}
	for _, en := range order() {
		if x, kept := keptIdx[en]; kept && (k+x)%3 == 2 {
			continue
		}
		for _, d := range docs() {
			one("before", en, d)
		}
	}
	// --- across the boundary: nothing of the repository runs while the case waits
	target := boundary.Add(liveMargin + 200*time.Millisecond)
	for {
		left := target.Sub(wall(time.Now()))
		if left <= 0 {
			break
		}
		time.Sleep(left)
	}
	// --- after the boundary: every value again, twice (the second use sees whatever the first one left behind)
	for round := 0; round < 2; round++ {
		for _, en := range order() {
			for _, d := range docs() {
				one("after", en, d)
			}
		}
	}
	c.Count("live: cases", 1)
	if madeBefore {
		c.Count("live: cases whose kept values were made at least a whole second before the boundary", 1)
	}
	c.Max("live: longest case, wall ms", time.Since(t0).Milliseconds())
	if k < 2 {
		c.Sample(map[string]any{"live-case": k, "boundary_in_s": lead + 1, "roots": rootsName, "values_made_before_boundary": madeBefore, "calls_not_judged": notJudged})
	}
}

func (a *audit) round4Floors() {
	c := a.c
	// multi: on a tree whose commands take exactly one argument nothing with several can be accepted, so the
	// several-argument entries have only a refusal floor; the single-PATH reference has both.
	for _, en := range []string{"multi:cli:verify(several PATHs)", "multi:cli:sev validate(further positional arguments)", "multi:cli:tdx validate(further positional arguments)"} {
		c.Count("round4 genuine-accepts/"+en, a.accept[en])
		c.Count("round4 nonauthentic-rejects/"+en, a.reject[en])
		c.Floor("round4 nonauthentic-reject/"+en, a.reject[en] > 0)
	}
	for _, d := range []string{"multi:cli:verify(several PATHs)|last=A", "multi:cli:verify(several PATHs)|last=N", "multi:cli:verify(several PATHs)|paths=2", "multi:cli:verify(several PATHs)|paths=3",
		"multi:cli:verify(several PATHs)|pattern=NA", "multi:cli:verify(several PATHs)|pattern=AN", "multi:cli:verify(several PATHs)|pattern=NNA", "multi:cli:verify(several PATHs)|pattern=ANA"} {
		c.Count("round4 nonauthentic-rejects/"+d, a.reject[d])
		c.Floor("round4 saw-nonauthentic-reject/"+d, a.reject[d] > 0)
	}
	both := []string{"multi:cli:verify(each PATH alone)"}
	both = append(both, liveAll...)
	for _, en := range both {
		c.Count("round4 genuine-accepts/"+en, a.accept[en])
		c.Count("round4 nonauthentic-rejects/"+en, a.reject[en])
		c.Floor("round4 genuine-accept/"+en, a.accept[en] > 0)
		c.Floor("round4 nonauthentic-reject/"+en, a.reject[en] > 0)
	}
	// live: what the family exists for — a value made (and used) a whole second or more before the boundary, used a
	// whole second or more after it, refused the certificate that had run out meanwhile and accepted the one that
	// had started meanwhile.
	for _, en := range liveKept {
		for _, d := range []string{"span=kept-across-the-boundary", "cert=expiring", "cert=starting"} {
			key := en + "|" + d
			c.Count("round4 genuine-accepts/"+key, a.accept[key])
			c.Count("round4 nonauthentic-rejects/"+key, a.reject[key])
			c.Floor("round4 saw-genuine-accept/"+key, a.accept[key] > 0)
			c.Floor("round4 saw-nonauthentic-reject/"+key, a.reject[key] > 0)
		}
	}
	for _, key := range []string{liveClosureArg + "|span=made-and-used-before,used-after", liveClosureArg + "|span=made-before,first-used-after"} {
		c.Count("round4 nonauthentic-rejects/"+key, a.reject[key])
	}
}
