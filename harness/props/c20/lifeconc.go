package c20

// Audit dimension "lifecycle calls in flight together": two or three independent lifecycle calls
// (own Manager, own model world, own context; the worlds use the SAME resource names) run in one
// process at the same time. A scheduler driven by the case PRNG gives the turn at the start of
// every RPC (lockstep.go), so the calls interleave RPC by RPC in an order that is a function of
// the seed. Each call is judged on its own world by the rules of the single-call scenarios: what
// a call does must not depend on other calls running in the same process.

import (
	"fmt"
	"math/rand/v2"
	"runtime/debug"
	"sort"
	"strings"

	"verifharness/core"
)

const lifeGroupsPerCase = 4

func concScen(r *rand.Rand) *scen {
	pgs := []string{"full", "cap50", "cap99", "cap7", "ragged", "sparse", "tokenlast"}
	wmix := []string{"enabled", "disabled", "live-last", "live-late", "mixed"}
	bmix := []string{"live-first", "live-last", "live-late", "pending-then-enabled", "pending-only", "pending-late", "mixed"}
	pg := mkPaging(pgs[r.IntN(len(pgs))], r)
	tmpls := []verTemplate{{State: stEnabled}, {State: stPending, After: stEnabled}, {State: stPending, After: stGenFail}}
	sc := &scen{RingExists: true, KeepGoing: true, Paging: pg, Class: "lockstep", Tmpl: tmpls[r.IntN(len(tmpls))]}
	switch k := r.IntN(10); {
	case k < 4:
		sc.Entry = eWipeout
		mix := wmix[r.IntN(len(wmix))]
		sc.Keys = append(sc.Keys, mkKey("k0", mix, genStates(mix, []int{1, 50, 99, 100, 101, 150}[r.IntN(6)], r)))
		sc.Keys = append(sc.Keys, otherKeys(r.IntN(2), r, []int{0, 1, 3, 100}, wmix)...)
	case k < 8:
		sc.Entry, sc.Keys = eBootRoot, nil
		id := rootKeyID
		if k >= 6 {
			sc.Entry, id = eBootSign, signKeyID
		}
		mix := bmix[r.IntN(len(bmix))]
		sc.Keys = append(sc.Keys, mkKey(id, mix, genStates(mix, []int{1, 100, 101, 150}[r.IntN(4)], r)))
	case k == 8:
		sc.Entry = eRotate
		sc.Keys = append(sc.Keys, mkKey(signKeyID, "mixed", genStates("mixed", []int{1, 100}[r.IntN(2)], r)))
	default:
		sc.Entry, sc.RingExists = eBootRoot, false
	}
	return sc
}

type lifePart struct {
	sc       *scen
	plan     faultPlan
	o        outcome
	panicMsg string
	panicAt  string
}

func lifeConcCase(c *core.Ctx, i int, r *rand.Rand, st *audStats) {
	for g := 0; g < lifeGroupsPerCase; g++ {
		lifeGroup(c, i, g, r, st)
	}
}

func lifeGroup(c *core.Ctx, i, g int, r *rand.Rand, st *audStats) {
	k := 2 + r.IntN(2)
	l := newLockstep(k)
	classes := faultClasses()
	var ps []*lifePart
	var texts []string
	for id := 0; id < k; id++ {
		p := &lifePart{sc: concScen(r)}
		if r.IntN(4) == 0 {
			p.plan = planOf([]string{"single", "burst"}[r.IntN(2)], 1+r.IntN(20), classes[r.IntN(len(classes))])
		}
		ps = append(ps, p)
		texts = append(texts, fmt.Sprintf("#%d: %s fault=%s", id, p.sc.cellPrefix(), p.plan))
	}
	gen := fmt.Sprintf("lockstep#%d group %d: %d lifecycle calls in flight together, interleaved at every RPC: %s", i, g, k, strings.Join(texts, "; "))
	m := c.Guard(i, "Manager.*(in flight together)", gen, core.Budget{}, func() {
		for id, p := range ps {
			id, p := id, p
			turn := func() { l.wait(id) }
			go func() {
				defer l.finish(id)
				defer func() {
					if x := recover(); x != nil {
						p.o.panicked, p.panicMsg, p.panicAt = true, fmt.Sprint(x), core.PanicSite(debug.Stack())
					}
				}()
				l.wait(id)
				p.o = p.sc.callWith(p.plan, func(m *model) { m.turn, m.tokenSalt = turn, uint32(id+1) })
			}()
		}
		l.run(r)
	})
	c.Eval(k - 1)
	if m.Panicked {
		return
	}
	st.add("lockstep: groups", 1)
	for id, p := range ps {
		if p.o.panicked {
			c.Violate(core.Violation{Kind: "panic", Entry: p.sc.Entry, Site: p.panicAt, Gen: gen, Case: i, Detail: fmt.Sprintf("participant #%d: %s", id, p.panicMsg)})
			c.Cell("lockstep|%s|panic", p.sc.Entry)
			continue
		}
		fs, class := p.sc.judge(p.o, p.plan.active())
		for _, f := range fs {
			w := p.sc.witness(p.o)
			w["group"] = texts
			w["participant"] = id
			c.Violate(core.Violation{Kind: "oracle", Entry: p.sc.Entry, Site: f.rule + "(in-flight-together)", Gen: gen, Case: i, Detail: fmt.Sprintf("participant #%d: %s", id, f.detail), Witness: w})
		}
		var others []string
		over := false
		for j, q := range ps {
			if j != id {
				others = append(others, q.sc.Entry[len("Manager."):])
				over = over || l.overlapped(id, j)
			}
		}
		sort.Strings(others)
		fl := "none"
		if p.plan.active() {
			fl = p.plan.Mode
		}
		c.Cell("lockstep|%s|n0=%d|paging=%s|with=%s|interleaved=%v|fault=%s|%s", p.sc.Entry, firstN(p.sc), p.sc.Paging, strings.Join(others, "+"), over, fl, class)
		c.Count("lockstep/calls/"+p.sc.Entry, 1)
		c.Count("rpcs-total", p.o.m.calls)
		if over && len(fs) == 0 {
			st.add("lockstep: calls judged whose RPCs interleaved with another call's", 1)
			if p.o.m.tokensUsed > 0 {
				st.add("lockstep: interleaved calls that followed a served page token", 1)
			}
		}
	}
	c.Count("lockstep/turns", l.tick)
	c.Count("lockstep/turns-that-changed-the-running-call", l.switches)
	c.Max("lockstep/turns-in-one-group", int64(l.tick))
}

func firstN(sc *scen) int {
	if len(sc.Keys) > 0 {
		return sc.Keys[0].N
	}
	return 0
}
