package c20

// An in-process model of the Cloud KMS KeyManagementService (and of the IAM policy
// client), written from the public API description, independent of the repository's
// own test fake: key rings, keys, key versions with states, AIP-158 pagination with
// several legal behaviours, one injectable fault, a logical RPC budget, and a call log.

import (
	"context"
	"fmt"
	"hash/fnv"
	"sort"
	"strings"
	"sync"
	"sync/atomic"

	"cloud.google.com/go/iam/apiv1/iampb"
	"cloud.google.com/go/kms/apiv1/kmspb"
	"google.golang.org/grpc"
	"google.golang.org/grpc/codes"
	"google.golang.org/grpc/status"
)

type vstate = kmspb.CryptoKeyVersion_CryptoKeyVersionState

const (
	stPending   = kmspb.CryptoKeyVersion_PENDING_GENERATION
	stEnabled   = kmspb.CryptoKeyVersion_ENABLED
	stDisabled  = kmspb.CryptoKeyVersion_DISABLED
	stDestroyed = kmspb.CryptoKeyVersion_DESTROYED
	stSched     = kmspb.CryptoKeyVersion_DESTROY_SCHEDULED
	stPendImp   = kmspb.CryptoKeyVersion_PENDING_IMPORT
	stImpFail   = kmspb.CryptoKeyVersion_IMPORT_FAILED
	stGenFail   = kmspb.CryptoKeyVersion_GENERATION_FAILED
	stPendExt   = kmspb.CryptoKeyVersion_PENDING_EXTERNAL_DESTRUCTION
	stExtFail   = kmspb.CryptoKeyVersion_EXTERNAL_DESTRUCTION_FAILED
)

var allStates = []vstate{stPending, stEnabled, stDisabled, stDestroyed, stSched, stPendImp, stImpFail, stGenFail, stPendExt, stExtFail}

// states that are neither live (enabled/disabled) nor on their way to become live
var deadStates = []vstate{stDestroyed, stSched, stImpFail, stGenFail, stPendExt, stExtFail, stPendImp}

func live(s vstate) bool { return s == stEnabled || s == stDisabled }

type mver struct {
	name    string
	state   vstate
	polls   int    // number of further Get calls that still answer PENDING_GENERATION
	after   vstate // state reached when generation completes
	created bool   // created during the monitored call
}

type mkey struct {
	name string
	vers []*mver
	idx  map[string]*mver
}

func (k *mkey) add(v *mver) {
	if k.idx == nil {
		k.idx = map[string]*mver{}
	}
	k.vers = append(k.vers, v)
	k.idx[v.name] = v
}

type mring struct {
	name string
	keys []*mkey
	idx  map[string]*mkey
}

func (r *mring) add(k *mkey) {
	if r.idx == nil {
		r.idx = map[string]*mkey{}
	}
	r.keys = append(r.keys, k)
	r.idx[k.name] = k
}

// paging is one legal (AIP-158) listing behaviour. Page lengths are a function of the
// offset only, so that the number of pages of a complete listing is known beforehand.
type paging struct {
	Kind string `json:"kind"` // full | cap | ragged | sparse | tokenlast
	Cap  int    `json:"cap,omitempty"`
	Salt uint64 `json:"salt,omitempty"`
}

func (p paging) String() string {
	if p.Kind == "cap" {
		return fmt.Sprintf("cap%d", p.Cap)
	}
	return p.Kind
}

func mix64(a, b uint64) uint64 {
	x := a*0x9e3779b97f4a7c15 ^ (b + 0x632be59bd9b4e019)
	x ^= x >> 32
	x *= 0xd6e8feb86659fd93
	x ^= x >> 29
	x *= 0xd6e8feb86659fd93
	x ^= x >> 32
	return x
}

// plan answers: how many items does the page at offset off hold (rem items remain, the
// client asked for req), and does it carry a token although nothing remains after it.
// e==1 means the previous page was empty (so this one must make progress).
func (p paging) plan(off, e, rem, req int) (n int, tokenAtEnd bool) {
	if rem == 0 {
		return 0, false
	}
	switch p.Kind {
	case "cap":
		n = min(req, p.Cap)
	case "ragged":
		n = 1 + int(mix64(p.Salt, uint64(off))%uint64(req))
	case "sparse":
		if e == 0 && mix64(p.Salt^0x5bd1e995, uint64(off))%3 == 0 {
			return 0, false
		}
		n = 1 + int(mix64(p.Salt, uint64(off))%uint64(req))
	case "tokenlast":
		n = min(req, rem)
		return n, n == rem
	default: // full
		n = req
	}
	return min(n, rem), false
}

// pages is the number of list calls a complete listing of total items needs.
func (p paging) pages(total, req int) int {
	off, e, k := 0, 0, 0
	for {
		k++
		n, tokEnd := p.plan(off, e, total-off, req)
		off += n
		if off >= total && !tokEnd {
			return k
		}
		if n == 0 {
			e = 1
		} else {
			e = 0
		}
	}
}

type callRec struct {
	Seq    int    `json:"seq"`
	Method string `json:"method"`
	Arg    string `json:"arg"`
	Res    string `json:"res"`
}

type verTemplate struct {
	State vstate `json:"state"`
	Polls int    `json:"polls"`
	After vstate `json:"after"`
}

type model struct {
	kmspb.KeyManagementServiceClient // nil: any RPC the model does not know panics (and is reported)

	mu     sync.Mutex
	rings  map[string]*mring
	paging paging
	tmpl   verTemplate

	calls     int
	budget    int
	budgetHit bool

	plan        faultPlan
	faultFrom   int // sequence number of the RPC at which the plan was triggered (0: not yet)
	faultHit    bool
	faultMethod string
	faultsDone  int         // RPCs that were answered with the planned failure
	endable     *endableCtx // the caller's context, when the plan ends it
	hardLimit   int
	parked      atomic.Bool // the call went on past hardLimit and was aborted by the model

	gets        int
	cancelAtGet int
	cancel      context.CancelFunc

	per          map[string]int
	head, tail   []callRec
	tokensServed map[string]bool
	tokensUsed   int // list requests that carried a token the model had served
	created      []string
	destroyed    int
	iamSet       int

	// lockstep groups (lifeconc.go): called at the start of every RPC, before the model's lock is
	// taken; blocks until the group's scheduler gives this world's caller the turn
	turn func()
	// folded into the page tokens this world serves, so that a token of another world is never valid here
	tokenSalt uint32
}

func (m *model) waitTurn() {
	if m.turn != nil {
		m.turn()
	}
}

func newModel(p paging) *model {
	return &model{rings: map[string]*mring{}, paging: p, per: map[string]int{}, tokensServed: map[string]bool{},
		tmpl: verTemplate{State: stEnabled}}
}

var errBudget = status.Error(codes.ResourceExhausted, "verif: RPC budget of the scenario exhausted")

// hardStop is the panic value with which the model aborts a call that keeps issuing RPCs long
// after the budget was exhausted (a loop that retries on every error, including the budget's).
type hardStop struct{}

// A faultPlan says which RPCs of a run fail. It is triggered at the At-th RPC of the run (or,
// when Method is set, at the At-th call of that method) and then covers
//
//	single         that RPC only
//	burst          that RPC and the next Span-1 ones (the service recovers afterwards)
//	outage         every RPC from there on (the service stays down)
//	method-outage  every later call of the same method (one method denied/down, the rest works)
//	ctx-deadline   the caller's context expires during that RPC: Done() is closed, Err() is
//	ctx-cancel     DeadlineExceeded/Canceled, and, as a gRPC client does, that RPC and every
//	               later one is answered with the status made from the context's error.
//	ctx-deadline-after  the caller's context ends between that RPC and the next one: that RPC is
//	ctx-cancel-after    still answered as usual (its response was on the way when the deadline
//	               passed / the caller cancelled), Done() is closed and Err() set by the time the
//	               answer is handed back, every later RPC is answered with the context's status.
//	ctx-cancel-unheeded  as ctx-cancel-after, but the client under the interface does not look at
//	               the context (an in-process client, an emulator): every RPC goes on being answered.
type faultPlan struct {
	At     int    `json:"at"`
	Method string `json:"nth_call_of_method,omitempty"`
	Mode   string `json:"mode"`
	Span   int    `json:"span,omitempty"`
	Class  string `json:"class"`
	err    error
}

func (p faultPlan) active() bool { return p.At > 0 }
func (p faultPlan) endsCtx() bool {
	return p.Mode == "ctx-deadline" || p.Mode == "ctx-cancel" || p.endsCtxAfter()
}
func (p faultPlan) endsCtxAfter() bool {
	return p.Mode == "ctx-deadline-after" || p.Mode == "ctx-cancel-after" || p.Mode == "ctx-cancel-unheeded"
}

func (p faultPlan) String() string {
	if !p.active() {
		return "none"
	}
	at := fmt.Sprintf("rpc%d", p.At)
	if p.Method != "" {
		at = fmt.Sprintf("%s#%d", p.Method, p.At)
	}
	return fmt.Sprintf("%s:%s@%s", p.Mode, p.Class, at)
}

// endableCtx is a caller's context that the model ends at a chosen RPC, so that "the deadline
// passed while the service was being polled" needs no real clock.
type endableCtx struct {
	context.Context
	mu   sync.Mutex
	done chan struct{}
	err  error
}

func newEndableCtx(parent context.Context) *endableCtx {
	return &endableCtx{Context: parent, done: make(chan struct{})}
}
func (c *endableCtx) Done() <-chan struct{} { return c.done }
func (c *endableCtx) Err() error {
	c.mu.Lock()
	defer c.mu.Unlock()
	return c.err
}
func (c *endableCtx) end(err error) {
	c.mu.Lock()
	defer c.mu.Unlock()
	if c.err == nil {
		c.err = err
		close(c.done)
	}
}

// planned decides whether the current RPC (already counted) fails under the plan.
func (m *model) planned(method string) error {
	p := &m.plan
	if !p.active() {
		return nil
	}
	if m.faultFrom == 0 {
		if (p.Method == "" && m.calls == p.At) || (p.Method == method && m.per[method] == p.At) {
			m.faultFrom, m.faultHit, m.faultMethod = m.calls, true, method
			if p.endsCtx() && m.endable != nil {
				if p.Mode == "ctx-deadline" || p.Mode == "ctx-deadline-after" {
					m.endable.end(context.DeadlineExceeded)
				} else {
					m.endable.end(context.Canceled)
				}
			}
		} else {
			return nil
		}
	}
	switch p.Mode {
	case "single":
		if m.calls != m.faultFrom {
			return nil
		}
	case "burst":
		if m.calls >= m.faultFrom+max(1, p.Span) {
			return nil
		}
	case "method-outage":
		if method != m.faultMethod {
			return nil
		}
	case "outage":
	case "ctx-deadline", "ctx-cancel":
		if m.endable != nil {
			m.faultsDone++
			return status.FromContextError(m.endable.Err()).Err()
		}
	case "ctx-deadline-after", "ctx-cancel-after":
		if m.endable != nil && m.calls > m.faultFrom {
			m.faultsDone++
			return status.FromContextError(m.endable.Err()).Err()
		}
		return nil
	default: // also ctx-cancel-unheeded: the context has ended, the RPCs go on being answered
		return nil
	}
	m.faultsDone++
	return p.err
}

// enter accounts for one RPC; a non-nil error is what the RPC must return.
func (m *model) enter(method, arg string) error {
	m.calls++
	m.per[method]++
	var err error
	if m.hardLimit > 0 && m.calls > m.hardLimit {
		// Refusing did not end the call: abort it (callers hold m.mu through a deferred Unlock).
		m.parked.Store(true)
		panic(hardStop{})
	}
	if m.calls > m.budget {
		m.budgetHit = true
		err = errBudget
	} else {
		err = m.planned(method)
	}
	rec := callRec{Seq: m.calls, Method: method, Arg: arg}
	if err != nil {
		rec.Res = "error: " + err.Error()
	}
	if len(m.head) < 6 {
		m.head = append(m.head, rec)
	} else {
		m.tail = append(m.tail, rec)
		if len(m.tail) > 10 {
			m.tail = m.tail[1:]
		}
	}
	return err
}

func (m *model) result(res string) {
	if len(m.tail) > 0 {
		m.tail[len(m.tail)-1].Res = res
	} else if len(m.head) > 0 {
		m.head[len(m.head)-1].Res = res
	}
}

func (m *model) logExcerpt() []callRec {
	return append(append([]callRec(nil), m.head...), m.tail...)
}

func (m *model) perMethod() string {
	var ks []string
	for k := range m.per {
		ks = append(ks, k)
	}
	sort.Strings(ks)
	var b strings.Builder
	for _, k := range ks {
		fmt.Fprintf(&b, "%s=%d ", k, m.per[k])
	}
	return strings.TrimSpace(b.String())
}

func (m *model) findKey(name string) *mkey {
	i := strings.Index(name, "/cryptoKeys/")
	if i < 0 {
		return nil
	}
	r := m.rings[name[:i]]
	if r == nil {
		return nil
	}
	return r.idx[name]
}

func (m *model) findVer(name string) *mver {
	i := strings.Index(name, "/cryptoKeyVersions/")
	if i < 0 {
		return nil
	}
	k := m.findKey(name[:i])
	if k == nil {
		return nil
	}
	return k.idx[name]
}

func parentTag(parent string) uint32 {
	h := fnv.New32a()
	h.Write([]byte(parent))
	return h.Sum32()
}

func (m *model) tag(parent string) uint32 { return parentTag(parent) ^ m.tokenSalt*0x9e3779b1 }

// page computes one page of a listing of total items.
func (m *model) page(parent string, total int, reqSize int32, token string) (lo, hi int, next string, err error) {
	off, e := 0, 0
	if token != "" {
		var tag uint32
		if n, _ := fmt.Sscanf(token, "pt%08x-%d-%d", &tag, &off, &e); n != 3 || tag != m.tag(parent) || off < 0 || off > total || !m.tokensServed[token] {
			return 0, 0, "", status.Errorf(codes.InvalidArgument, "invalid page_token %q", token)
		}
		m.tokensUsed++
	}
	req := int(reqSize)
	if req <= 0 {
		req = 100
	}
	if req > 1000 {
		req = 1000
	}
	n, tokEnd := m.paging.plan(off, e, total-off, req)
	lo, hi = off, off+n
	if hi < total || tokEnd {
		ne := 0
		if n == 0 || tokEnd {
			ne = 1
		}
		next = fmt.Sprintf("pt%08x-%d-%d", m.tag(parent), hi, ne)
		m.tokensServed[next] = true
	}
	return lo, hi, next, nil
}

func verPB(v *mver) *kmspb.CryptoKeyVersion {
	return &kmspb.CryptoKeyVersion{Name: v.name, State: v.state, ProtectionLevel: kmspb.ProtectionLevel_SOFTWARE,
		Algorithm: kmspb.CryptoKeyVersion_RSA_SIGN_PSS_4096_SHA256}
}

func (m *model) ListCryptoKeys(_ context.Context, in *kmspb.ListCryptoKeysRequest, _ ...grpc.CallOption) (*kmspb.ListCryptoKeysResponse, error) {
	m.waitTurn()
	m.mu.Lock()
	defer m.mu.Unlock()
	if err := m.enter("ListCryptoKeys", fmt.Sprintf("size=%d token=%q", in.GetPageSize(), in.GetPageToken())); err != nil {
		return nil, err
	}
	r := m.rings[in.GetParent()]
	if r == nil {
		return nil, status.Errorf(codes.NotFound, "key ring %q not found", in.GetParent())
	}
	lo, hi, next, err := m.page(in.GetParent(), len(r.keys), in.GetPageSize(), in.GetPageToken())
	if err != nil {
		return nil, err
	}
	out := &kmspb.ListCryptoKeysResponse{NextPageToken: next, TotalSize: int32(len(r.keys))}
	for _, k := range r.keys[lo:hi] {
		out.CryptoKeys = append(out.CryptoKeys, &kmspb.CryptoKey{Name: k.name, Purpose: kmspb.CryptoKey_ASYMMETRIC_SIGN})
	}
	m.result(fmt.Sprintf("%d keys [%d,%d) next=%q", hi-lo, lo, hi, next))
	return out, nil
}

func (m *model) ListCryptoKeyVersions(_ context.Context, in *kmspb.ListCryptoKeyVersionsRequest, _ ...grpc.CallOption) (*kmspb.ListCryptoKeyVersionsResponse, error) {
	m.waitTurn()
	m.mu.Lock()
	defer m.mu.Unlock()
	if err := m.enter("ListCryptoKeyVersions", fmt.Sprintf("size=%d token=%q", in.GetPageSize(), in.GetPageToken())); err != nil {
		return nil, err
	}
	k := m.findKey(in.GetParent())
	if k == nil {
		return nil, status.Errorf(codes.NotFound, "crypto key %q not found", in.GetParent())
	}
	lo, hi, next, err := m.page(in.GetParent(), len(k.vers), in.GetPageSize(), in.GetPageToken())
	if err != nil {
		return nil, err
	}
	out := &kmspb.ListCryptoKeyVersionsResponse{NextPageToken: next, TotalSize: int32(len(k.vers))}
	for _, v := range k.vers[lo:hi] {
		out.CryptoKeyVersions = append(out.CryptoKeyVersions, verPB(v))
	}
	m.result(fmt.Sprintf("%d versions [%d,%d) of %d next=%q", hi-lo, lo, hi, len(k.vers), next))
	return out, nil
}

func (m *model) GetCryptoKeyVersion(_ context.Context, in *kmspb.GetCryptoKeyVersionRequest, _ ...grpc.CallOption) (*kmspb.CryptoKeyVersion, error) {
	m.waitTurn()
	m.mu.Lock()
	defer m.mu.Unlock()
	m.gets++
	if m.cancel != nil && m.cancelAtGet == m.gets {
		m.cancel()
	}
	if err := m.enter("GetCryptoKeyVersion", shortName(in.GetName())); err != nil {
		return nil, err
	}
	v := m.findVer(in.GetName())
	if v == nil {
		return nil, status.Errorf(codes.NotFound, "crypto key version %q not found", in.GetName())
	}
	if v.state == stPending {
		if v.polls > 0 {
			v.polls--
		} else {
			v.state = v.after
		}
	}
	m.result(v.state.String())
	return verPB(v), nil
}

func (m *model) newVersion(k *mkey) *mver {
	v := &mver{name: fmt.Sprintf("%s/cryptoKeyVersions/%d", k.name, len(k.vers)+1), state: m.tmpl.State, polls: m.tmpl.Polls, after: m.tmpl.After, created: true}
	k.add(v)
	m.created = append(m.created, v.name)
	return v
}

func (m *model) CreateCryptoKeyVersion(_ context.Context, in *kmspb.CreateCryptoKeyVersionRequest, _ ...grpc.CallOption) (*kmspb.CryptoKeyVersion, error) {
	m.waitTurn()
	m.mu.Lock()
	defer m.mu.Unlock()
	if err := m.enter("CreateCryptoKeyVersion", shortName(in.GetParent())); err != nil {
		return nil, err
	}
	k := m.findKey(in.GetParent())
	if k == nil {
		return nil, status.Errorf(codes.NotFound, "crypto key %q not found", in.GetParent())
	}
	v := m.newVersion(k)
	m.result(shortName(v.name) + " " + v.state.String())
	return verPB(v), nil
}

func (m *model) CreateCryptoKey(_ context.Context, in *kmspb.CreateCryptoKeyRequest, _ ...grpc.CallOption) (*kmspb.CryptoKey, error) {
	m.waitTurn()
	m.mu.Lock()
	defer m.mu.Unlock()
	if err := m.enter("CreateCryptoKey", in.GetCryptoKeyId()); err != nil {
		return nil, err
	}
	r := m.rings[in.GetParent()]
	if r == nil {
		return nil, status.Errorf(codes.NotFound, "key ring %q not found", in.GetParent())
	}
	name := in.GetParent() + "/cryptoKeys/" + in.GetCryptoKeyId()
	if m.findKey(name) != nil {
		return nil, status.Errorf(codes.AlreadyExists, "crypto key %q already exists", name)
	}
	if in.GetCryptoKeyId() == "" || in.GetCryptoKey().GetPurpose() == kmspb.CryptoKey_CRYPTO_KEY_PURPOSE_UNSPECIFIED {
		return nil, status.Error(codes.InvalidArgument, "crypto_key_id and purpose are required")
	}
	k := &mkey{name: name}
	r.add(k)
	if !in.GetSkipInitialVersionCreation() {
		m.newVersion(k)
	}
	m.result("created")
	return &kmspb.CryptoKey{Name: name, Purpose: in.GetCryptoKey().GetPurpose(), VersionTemplate: in.GetCryptoKey().GetVersionTemplate()}, nil
}

func (m *model) CreateKeyRing(_ context.Context, in *kmspb.CreateKeyRingRequest, _ ...grpc.CallOption) (*kmspb.KeyRing, error) {
	m.waitTurn()
	m.mu.Lock()
	defer m.mu.Unlock()
	if err := m.enter("CreateKeyRing", in.GetKeyRingId()); err != nil {
		return nil, err
	}
	name := in.GetParent() + "/keyRings/" + in.GetKeyRingId()
	if m.rings[name] != nil {
		return nil, status.Errorf(codes.AlreadyExists, "key ring %q already exists", name)
	}
	m.rings[name] = &mring{name: name}
	m.result("created")
	return &kmspb.KeyRing{Name: name}, nil
}

func (m *model) DestroyCryptoKeyVersion(_ context.Context, in *kmspb.DestroyCryptoKeyVersionRequest, _ ...grpc.CallOption) (*kmspb.CryptoKeyVersion, error) {
	m.waitTurn()
	m.mu.Lock()
	defer m.mu.Unlock()
	if err := m.enter("DestroyCryptoKeyVersion", shortName(in.GetName())); err != nil {
		return nil, err
	}
	v := m.findVer(in.GetName())
	if v == nil {
		return nil, status.Errorf(codes.NotFound, "crypto key version %q not found", in.GetName())
	}
	if !live(v.state) {
		return nil, status.Errorf(codes.FailedPrecondition, "crypto key version in state %v cannot be destroyed", v.state)
	}
	v.state = stSched
	m.destroyed++
	m.result("DESTROY_SCHEDULED")
	return verPB(v), nil
}

func (m *model) GetPublicKey(_ context.Context, in *kmspb.GetPublicKeyRequest, _ ...grpc.CallOption) (*kmspb.PublicKey, error) {
	m.waitTurn()
	m.mu.Lock()
	defer m.mu.Unlock()
	if err := m.enter("GetPublicKey", shortName(in.GetName())); err != nil {
		return nil, err
	}
	v := m.findVer(in.GetName())
	if v == nil {
		return nil, status.Errorf(codes.NotFound, "crypto key version %q not found", in.GetName())
	}
	if v.state != stEnabled {
		return nil, status.Errorf(codes.FailedPrecondition, "crypto key version is %v", v.state)
	}
	return &kmspb.PublicKey{Name: in.GetName(), Pem: "-----BEGIN PUBLIC KEY-----\n-----END PUBLIC KEY-----\n"}, nil
}

func shortName(n string) string {
	if i := strings.Index(n, "/cryptoKeys/"); i >= 0 {
		return n[i+len("/cryptoKeys/"):]
	}
	return n
}

// iamModel is the IAM policy client; it shares the RPC counter, budget and fault with the KMS model.
type iamModel struct {
	iampb.IAMPolicyClient
	m *model
}

func (i *iamModel) SetIamPolicy(_ context.Context, in *iampb.SetIamPolicyRequest, _ ...grpc.CallOption) (*iampb.Policy, error) {
	i.m.waitTurn()
	i.m.mu.Lock()
	defer i.m.mu.Unlock()
	if err := i.m.enter("SetIamPolicy", shortName(in.GetResource())); err != nil {
		return nil, err
	}
	if i.m.findKey(in.GetResource()) == nil {
		return nil, status.Errorf(codes.NotFound, "resource %q not found", in.GetResource())
	}
	i.m.iamSet++
	return in.GetPolicy(), nil
}
