package c20

// Audit dimension "kept manager": a session is ONE gcpkms.Manager, ONE context carrying ONE
// output.Options, ONE gcpkms.BootstrapContext and ONE gcpkms.SigningKeyContext, used for a
// PRNG-drawn series of lifecycle calls against ONE model world that persists between the calls.
// Between two calls the caller edits the kept option structs in place (keep_going, the key ids,
// the operators) and another actor may change the world (disables or destroys the version the
// previous call returned, adds a pending version, pushes the key over a page boundary, ...);
// some calls run under a fault plan, so a failed call is followed by a retry through the same
// manager. Now and then a call goes through a fresh Manager over the same world (other commands
// come and go). Every call is judged on its own by the rules of the single-call scenarios: what
// the property promises for a call does not depend on what the same manager did before.

import (
	"context"
	"fmt"
	"math/rand/v2"
	"sync"

	"github.com/google/gce-tcb-verifier/cmd/output"
	"github.com/google/gce-tcb-verifier/keys/gcpkms"

	"verifharness/core"
)

// audStats collects what the audit dimensions really exercised (for the floors).
type audStats struct {
	mu  sync.Mutex
	n   map[string]int
	ran map[string]bool
}

func newAudStats() *audStats { return &audStats{n: map[string]int{}, ran: map[string]bool{}} }

func (a *audStats) add(name string, k int) {
	a.mu.Lock()
	a.n[name] += k
	a.mu.Unlock()
}

func (a *audStats) get(name string) int {
	a.mu.Lock()
	defer a.mu.Unlock()
	return a.n[name]
}

// nextCall prepares a persistent world for the next monitored call: per-call counters, the fault
// plan and the RPC budget (from the world as it is now) start afresh; the world itself stays.
func (m *model) nextCall(fp faultPlan) {
	m.mu.Lock()
	defer m.mu.Unlock()
	m.calls, m.per = 0, map[string]int{}
	m.budgetHit = false
	m.plan, m.faultFrom, m.faultHit, m.faultMethod, m.faultsDone = fp, 0, false, "", 0
	m.endable = nil
	m.parked.Store(false)
	m.head, m.tail = nil, nil
	m.tokensUsed, m.created, m.destroyed = 0, nil, 0
	nver, nkeys, pages := 0, 0, 0
	for _, r := range m.rings {
		for _, k := range r.keys {
			for _, v := range k.vers {
				v.created = false
			}
			nver += len(k.vers)
			pages += m.paging.pages(len(k.vers), 100)
		}
		nkeys += len(r.keys)
		pages += m.paging.pages(len(r.keys), 100)
	}
	m.budget = 2*(nver+nkeys) + 10*pages + 100
	m.hardLimit = 3*m.budget + 1000
}

// addVersion is another actor creating a version (not the monitored call).
func (m *model) addVersion(k *mkey, st, after vstate) *mver {
	v := &mver{name: fmt.Sprintf("%s/cryptoKeyVersions/%d", k.name, len(k.vers)+1), state: st, after: after}
	k.add(v)
	return v
}

type sessStep struct {
	N         int       `json:"step"`
	Event     string    `json:"other_actor_before_the_call,omitempty"`
	Entry     string    `json:"entry"`
	Fresh     bool      `json:"through_a_fresh_manager,omitempty"`
	KeepGoing bool      `json:"keep_going"`
	RootID    string    `json:"root_key_id"`
	SignID    string    `json:"signing_key_id"`
	Operators int       `json:"operators"`
	Target    string    `json:"target,omitempty"`
	Tmpl      string    `json:"new_version_template"`
	Fault     faultPlan `json:"fault"`
	Result    string    `json:"result,omitempty"`
	Class     string    `json:"outcome,omitempty"`
}

var sessTmpls = []verTemplate{{State: stEnabled}, {State: stEnabled}, {State: stEnabled}, {State: stPending, After: stEnabled}, {State: stPending, After: stEnabled},
	{State: stPending, After: stEnabled}, {State: stPending, After: stGenFail}, {State: stPending, After: stSched}}

func sessionWorld(r *rand.Rand) *scen {
	pgs := []string{"full", "cap50", "cap99", "cap1", "ragged", "sparse", "tokenlast", "cap7"}
	bmix := []string{"live-first", "live-last", "live-late", "pending-then-enabled", "pending-only", "dead", "disabled", "mixed"}
	wmix := []string{"enabled", "disabled", "live-last", "mixed", "dead"}
	ns := []int{0, 1, 2, 5, 5, 12, 100, 101}
	sc := &scen{RingExists: r.IntN(7) != 0, Paging: mkPaging(pgs[r.IntN(len(pgs))], r), Class: "kept-manager", Tmpl: verTemplate{State: stEnabled}}
	if !sc.RingExists {
		return sc
	}
	for _, k := range []struct {
		id string
		p  int // out of 10
	}{{rootKeyID, 7}, {signKeyID, 7}, {"sign2", 4}, {"root2", 2}} {
		if r.IntN(10) < k.p {
			mix := bmix[r.IntN(len(bmix))]
			sc.Keys = append(sc.Keys, mkKey(k.id, mix, genStates(mix, ns[r.IntN(len(ns))], r)))
		}
	}
	sc.Keys = append(sc.Keys, otherKeys(r.IntN(3), r, []int{0, 1, 3, 100}, wmix)...)
	return sc
}

// sessionCase runs one session. i is the case number.
func sessionCase(c *core.Ctx, i int, r *rand.Rand, st *audStats) {
	world := sessionWorld(r)
	m := world.build()
	opts := &output.Options{Quiet: true}
	bc := &gcpkms.BootstrapContext{RootKeyID: rootKeyID, SigningKeyID: signKeyID}
	skc := &gcpkms.SigningKeyContext{SigningKeyID: signKeyID}
	kept := gcpkms.NewSigningKeyContext(gcpkms.NewBootstrapContext(output.NewContext(context.Background(), opts), bc), skc)
	iam := &iamModel{m: m}
	mgr := &gcpkms.Manager{Project: projectID, Location: locationID, KeyRingID: ringID, KeyClient: m, IAMClient: iam}
	classes, trans := faultClasses(), transientClasses()
	modes := []string{"single", "single", "burst", "outage", "method-outage", "ctx-deadline", "ctx-cancel"}
	entries := []string{eBootRoot, eBootRoot, eBootSign, eBootSign, eBootSign, eRotate, eRotate, eRotate, eDestroy, eDestroy, eWipeout, eWipeout}
	operators := [][]string{nil, {"serviceAccount:signer@p.iam.gserviceaccount.com"}, {"serviceAccount:a@p.iam.gserviceaccount.com", "group:b@example.com"}}

	var steps []sessStep
	lastReturned, prev := "", "start"
	prevFailed, wiped, padded := false, false, false
	nsteps := 6 + r.IntN(5)
	gbase := fmt.Sprintf("session#%d kept manager, %d calls, paging=%s, world: ring=%v %s", i, nsteps, world.Paging, world.RingExists, keysText(world.Keys))
	for n := 0; n < nsteps; n++ {
		s := sessStep{N: n + 1}
		// another actor changes the world
		s.Event = sessionEvent(m, r, lastReturned, &padded)
		// the caller edits the kept option structs in place
		opts.KeepGoing = r.IntN(4) != 0
		bc.RootKeyID = []string{rootKeyID, rootKeyID, rootKeyID, "root2"}[r.IntN(4)]
		id := []string{signKeyID, signKeyID, "sign2"}[r.IntN(3)]
		bc.SigningKeyID, skc.SigningKeyID = id, id
		ops := r.IntN(len(operators))
		bc.SigningKeyOperators = operators[ops]
		s.KeepGoing, s.RootID, s.SignID, s.Operators = opts.KeepGoing, bc.RootKeyID, id, len(operators[ops])
		s.Entry = entries[r.IntN(len(entries))]
		tm := sessTmpls[r.IntN(len(sessTmpls))]
		s.Tmpl = fmt.Sprintf("%v->%v", tm.State, tm.After)
		if s.Entry == eDestroy {
			s.Target = destroyTarget(m, r, lastReturned, id)
		}
		if r.IntN(3) == 0 {
			mode := modes[r.IntN(len(modes))]
			fc := classes[r.IntN(len(classes))]
			if mode == "method-outage" || (mode == "outage" && r.IntN(2) == 0) {
				fc = trans[r.IntN(len(trans))]
			}
			s.Fault = planOf(mode, 1+r.IntN(6), fc)
		}
		s.Fresh = r.IntN(6) == 0

		m.nextCall(s.Fault)
		m.mu.Lock()
		m.tmpl = tm
		m.mu.Unlock()
		step := &scen{Entry: s.Entry, Target: s.Target, RootID: s.RootID, SignID: s.SignID, Paging: world.Paging, Class: "kept-manager", KeepGoing: s.KeepGoing}
		o := outcome{m: m, pre: map[string]bool{}, prePend: map[string]bool{}}
		if k := m.findKey(step.targetKeyName()); k != nil {
			for _, v := range k.vers {
				if v.state == stEnabled {
					o.pre[v.name] = true
				}
				if v.state == stPending {
					o.prePend[v.name] = true
				}
			}
		}
		ctx := kept
		if s.Fault.endsCtx() {
			m.endable = newEndableCtx(kept)
			ctx = m.endable
		}
		use := mgr
		if s.Fresh {
			use = &gcpkms.Manager{Project: projectID, Location: locationID, KeyRingID: ringID, KeyClient: m, IAMClient: iam}
		}
		g := fmt.Sprintf("%s; call %d: %s", gbase, n+1, stepText(s))
		o.panicked = c.Guard(i, s.Entry, g, core.Budget{}, func() { o.name, o.err = invoke(use, ctx, s.Entry, s.Target, m) }).Panicked
		if o.panicked {
			c.Cell("kept-manager|%s|panic", s.Entry)
			return
		}
		fs, class := step.judge(o, s.Fault.active())
		s.Result, s.Class = fmt.Sprintf("name=%q err=%v", shortName(o.name), o.err), class
		steps = append(steps, s)
		for _, f := range fs {
			w := step.witness(o)
			w["session"] = map[string]any{"world": world, "calls": steps}
			c.Violate(core.Violation{Kind: "oracle", Entry: s.Entry, Site: f.rule + "(kept-manager)", Gen: g, Case: i, Detail: f.detail, Witness: w})
		}
		fl := "none"
		if s.Fault.active() {
			fl = s.Fault.Mode
			if m.faultHit {
				c.Count("kept-manager/calls-in-which-the-planned-failure-was-reached", 1)
			} else {
				fl = "planned-not-reached"
			}
		}
		ev := s.Event
		if ev == "" {
			ev = "-"
		}
		c.Cell("kept-manager|%s|after=%s|other-actor=%s|fault=%s|%s", s.Entry, prev, ev, fl, class)
		c.Count("kept-manager/calls/"+s.Entry, 1)
		c.Count("rpcs-total", m.calls)
		ok := o.err == nil && len(fs) == 0
		st.add("kept: calls", 1)
		if ok && prevFailed {
			st.add("kept: a call succeeded right after a failed call through the same manager", 1)
		}
		if ok && wiped && (s.Entry == eBootRoot || s.Entry == eBootSign || s.Entry == eRotate) {
			st.add("kept: bootstrap or rotation returned a version after a wipeout in the same session", 1)
		}
		if ok && n > 0 && (steps[n-1].SignID != s.SignID || steps[n-1].RootID != s.RootID) && s.Entry != eWipeout && s.Entry != eDestroy {
			st.add("kept: a call succeeded for other key ids than the previous call's", 1)
		}
		if ok && s.Event != "" {
			st.add("kept: a call succeeded after another actor changed the world", 1)
		}
		if s.Entry == eWipeout && ok {
			wiped = true
		}
		if o.err == nil && o.name != "" {
			lastReturned = o.name
		}
		prevFailed = o.err != nil
		prev = s.Entry[len("Manager."):] + map[bool]string{true: ":error", false: ":ok"}[o.err != nil]
		if m.budgetHit {
			break // the session's trace is no longer meaningful
		}
	}
	c.Count("kept-manager/sessions", 1)
	if i%7 == 0 {
		c.Sample(map[string]any{"case": i, "scenario": gbase, "calls": steps})
	}
}

func keysText(ks []keySpec) string {
	s := ""
	for _, k := range ks {
		s += fmt.Sprintf("%s[%d %s] ", k.ID, k.N, k.Mix)
	}
	return s
}

func stepText(s sessStep) string {
	t := fmt.Sprintf("%s keep_going=%v root=%s sign=%s new=%s fault=%s", s.Entry, s.KeepGoing, s.RootID, s.SignID, s.Tmpl, s.Fault)
	if s.Target != "" {
		t += " target=" + shortName(s.Target)
	}
	if s.Event != "" {
		t += " after another actor: " + s.Event
	}
	if s.Fresh {
		t += " (through a fresh Manager)"
	}
	return t
}

func destroyTarget(m *model, r *rand.Rand, lastReturned, signID string) string {
	if lastReturned != "" && r.IntN(2) == 0 {
		return lastReturned
	}
	m.mu.Lock()
	defer m.mu.Unlock()
	if k := m.findKey(ringName + "/cryptoKeys/" + signID); k != nil && len(k.vers) > 0 && r.IntN(5) != 0 {
		return k.vers[r.IntN(len(k.vers))].name
	}
	return ringName + "/cryptoKeys/" + signID + "/cryptoKeyVersions/7777"
}

// sessionEvent lets another actor change the world between two calls (about every second call).
func sessionEvent(m *model, r *rand.Rand, lastReturned string, padded *bool) string {
	m.mu.Lock()
	defer m.mu.Unlock()
	rg := m.rings[ringName]
	if rg == nil || len(rg.keys) == 0 {
		return ""
	}
	if r.IntN(2) == 0 {
		return ""
	}
	k := rg.keys[r.IntN(len(rg.keys))]
	switch r.IntN(7) {
	case 0:
		if v := m.findVer(lastReturned); v != nil && v.state == stEnabled {
			v.state = stDisabled
			return "disabled " + shortName(v.name) + " (returned by an earlier call)"
		}
	case 1:
		if v := m.findVer(lastReturned); v != nil && live(v.state) {
			v.state = stSched
			return "destroyed " + shortName(v.name) + " (returned by an earlier call)"
		}
	case 2:
		v := m.addVersion(k, stPending, stEnabled)
		return "created " + shortName(v.name) + " PENDING_GENERATION (will be enabled)"
	case 3:
		v := m.addVersion(k, stPending, stGenFail)
		return "created " + shortName(v.name) + " PENDING_GENERATION (generation will fail)"
	case 4:
		if !*padded {
			*padded = true
			for j := 0; j < 100; j++ {
				m.addVersion(k, stDestroyed, stDestroyed)
			}
			return "created 100 destroyed versions in " + shortName(k.name)
		}
	case 5:
		for _, v := range k.vers {
			if v.state == stDisabled {
				v.state = stEnabled
				return "re-enabled " + shortName(v.name)
			}
		}
	case 6:
		for j := len(k.vers) - 1; j >= 0; j-- {
			if k.vers[j].state == stEnabled {
				k.vers[j].state = stDisabled
				return "disabled " + shortName(k.vers[j].name)
			}
		}
	}
	return ""
}
