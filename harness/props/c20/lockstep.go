package c20

// A PRNG-driven turn scheduler for groups of calls that are in flight in one process at the same
// time: every participant asks for the turn at the start of each RPC, exactly one participant runs
// at any moment, and the interleaving is a pure function of the case PRNG (no clock, and the
// monitor cannot be the race: every hand-over goes through one mutex).

import (
	"math/rand/v2"
	"sync"
)

const (
	lsRunning = iota
	lsWaiting
	lsDone
)

type lockstep struct {
	mu       sync.Mutex
	cond     *sync.Cond
	state    []int
	grant    int
	tick     int
	first    []int // tick of each participant's first turn
	last     []int // tick of each participant's last turn
	switches int   // turns given to another participant than the previous turn
	prev     int
}

func newLockstep(n int) *lockstep {
	l := &lockstep{state: make([]int, n), grant: -1, first: make([]int, n), last: make([]int, n), prev: -1}
	l.cond = sync.NewCond(&l.mu)
	return l
}

// wait blocks participant id until the scheduler gives it the turn.
func (l *lockstep) wait(id int) {
	l.mu.Lock()
	l.state[id] = lsWaiting
	l.cond.Broadcast()
	for l.grant != id {
		l.cond.Wait()
	}
	l.grant = -1
	if l.first[id] == 0 {
		l.first[id] = l.tick
	}
	l.last[id] = l.tick
	l.mu.Unlock()
}

func (l *lockstep) finish(id int) {
	l.mu.Lock()
	l.state[id] = lsDone
	l.cond.Broadcast()
	l.mu.Unlock()
}

// run is the scheduler: whenever nobody runs it picks one of the waiting participants; it returns
// when every participant is done.
func (l *lockstep) run(r *rand.Rand) {
	l.mu.Lock()
	defer l.mu.Unlock()
	for {
		var waiting []int
		running := false
		for id, s := range l.state {
			switch s {
			case lsRunning:
				running = true
			case lsWaiting:
				waiting = append(waiting, id)
			}
		}
		if running {
			l.cond.Wait()
			continue
		}
		if len(waiting) == 0 {
			return
		}
		id := waiting[r.IntN(len(waiting))]
		l.tick++
		if l.prev >= 0 && l.prev != id {
			l.switches++
		}
		l.prev = id
		l.grant = id
		l.state[id] = lsRunning
		l.cond.Broadcast()
	}
}

// overlapped says whether participant a's turns and participant b's turns interleave in time.
func (l *lockstep) overlapped(a, b int) bool {
	return l.first[a] != 0 && l.first[b] != 0 && l.first[a] < l.last[b] && l.first[b] < l.last[a]
}
