package c20

// Signer.Sign against a model AsymmetricSign endpoint whose responses are corrupted "in
// transit" in every single-bit way (signature, checksum value, confirmation flags) and in a
// number of structural ways; plus every kind of signer option that is not RSA-PSS/SHA-256.

import (
	"bytes"
	"context"
	"crypto"
	"crypto/rsa"
	"fmt"
	"hash/crc32"
	"math/rand/v2"
	"strings"

	"cloud.google.com/go/kms/apiv1/kmspb"
	"github.com/google/gce-tcb-verifier/keys/gcpkms"
	styp "github.com/google/gce-tcb-verifier/sign/types"
	"google.golang.org/grpc"
	"google.golang.org/grpc/codes"
	"google.golang.org/grpc/status"
	"google.golang.org/protobuf/proto"
	"google.golang.org/protobuf/types/known/wrapperspb"

	"verifharness/core"
)

var castagnoli = crc32.MakeTable(crc32.Castagnoli)

func crc(b []byte) int64 { return int64(crc32.Checksum(b, castagnoli)) }

// signModel is an honest AsymmetricSign service followed by a transport that may corrupt the
// request before the service sees it and the response after the service produced it.
type signModel struct {
	kmspb.KeyManagementServiceClient
	sig        []byte                              // what the HSM signs (opaque to the client)
	svcErr     error                               // the service fails
	reqMutate  func(*kmspb.AsymmetricSignRequest)  // transport, client -> service
	respMutate func(*kmspb.AsymmetricSignResponse) // transport, service -> client
	calls      int
	sentReq    *kmspb.AsymmetricSignRequest  // as the repository sent it
	sentResp   *kmspb.AsymmetricSignResponse // as delivered to the repository (nil if an error was delivered)
	sentSig    []byte                        // private copy of the delivered signature bytes (the caller may edit what it was given)
	respErr    error
}

func (s *signModel) AsymmetricSign(_ context.Context, in *kmspb.AsymmetricSignRequest, _ ...grpc.CallOption) (*kmspb.AsymmetricSignResponse, error) {
	s.calls++
	s.sentReq = proto.Clone(in).(*kmspb.AsymmetricSignRequest)
	got := proto.Clone(in).(*kmspb.AsymmetricSignRequest)
	if s.reqMutate != nil {
		s.reqMutate(got)
	}
	fail := func(err error) (*kmspb.AsymmetricSignResponse, error) {
		s.respErr = err
		return nil, err
	}
	if s.svcErr != nil {
		return fail(s.svcErr)
	}
	if got.GetName() == "" {
		return fail(status.Error(codes.InvalidArgument, "name is required"))
	}
	d := got.GetDigest().GetSha256()
	if len(d) != 32 || len(got.GetData()) != 0 {
		return fail(status.Error(codes.InvalidArgument, "a 32-byte sha256 digest is required for this key"))
	}
	if got.GetDigestCrc32C() != nil && got.GetDigestCrc32C().GetValue() != crc(d) {
		// the documented behaviour when the digest does not match the checksum the client sent
		return fail(status.Error(codes.InvalidArgument, "digest_crc32c does not match the digest"))
	}
	if got.GetDataCrc32C() != nil && got.GetDataCrc32C().GetValue() != crc(got.GetData()) {
		return fail(status.Error(codes.InvalidArgument, "data_crc32c does not match the data"))
	}
	resp := &kmspb.AsymmetricSignResponse{
		Name:                 got.GetName(),
		Signature:            append([]byte(nil), s.sig...),
		SignatureCrc32C:      wrapperspb.Int64(crc(s.sig)),
		VerifiedDigestCrc32C: got.GetDigestCrc32C() != nil, // false = the checksum never arrived
		VerifiedDataCrc32C:   got.GetDataCrc32C() != nil,
		ProtectionLevel:      kmspb.ProtectionLevel_SOFTWARE,
	}
	if s.respMutate != nil {
		s.respMutate(resp)
	}
	s.sentResp = resp
	s.sentSig = append([]byte(nil), resp.GetSignature()...)
	return resp, nil
}

// customOpts is a crypto.SignerOpts that is not *rsa.PSSOptions but names SHA-256.
type customOpts struct{}

func (customOpts) HashFunc() crypto.Hash { return crypto.SHA256 }

type optCase struct {
	name string
	opts crypto.SignerOpts
	pss  bool // *rsa.PSSOptions with SHA-256
}

func optCases() []optCase {
	return []optCase{
		{"pss-sha256-salt=hash", &rsa.PSSOptions{SaltLength: rsa.PSSSaltLengthEqualsHash, Hash: crypto.SHA256}, true},
		{"pss-sha256-salt=auto", &rsa.PSSOptions{SaltLength: rsa.PSSSaltLengthAuto, Hash: crypto.SHA256}, true},
		{"pss-sha256-salt=32", &rsa.PSSOptions{SaltLength: 32, Hash: crypto.SHA256}, true},
		{"pss-sha256-salt=20", &rsa.PSSOptions{SaltLength: 20, Hash: crypto.SHA256}, true},
		{"nil", nil, false},
		{"pkcs1v15-sha256", crypto.SHA256, false},
		{"pkcs1v15-sha384", crypto.SHA384, false},
		{"pkcs1v15-sha1", crypto.SHA1, false},
		{"hash-0", crypto.Hash(0), false},
		{"pss-sha384", &rsa.PSSOptions{SaltLength: rsa.PSSSaltLengthEqualsHash, Hash: crypto.SHA384}, false},
		{"pss-sha512", &rsa.PSSOptions{SaltLength: rsa.PSSSaltLengthEqualsHash, Hash: crypto.SHA512}, false},
		{"pss-sha1", &rsa.PSSOptions{SaltLength: rsa.PSSSaltLengthEqualsHash, Hash: crypto.SHA1}, false},
		{"pss-hash-0", &rsa.PSSOptions{SaltLength: rsa.PSSSaltLengthEqualsHash}, false},
		{"pss-sha512_256", &rsa.PSSOptions{SaltLength: rsa.PSSSaltLengthEqualsHash, Hash: crypto.SHA512_256}, false},
		{"custom-sha256", customOpts{}, false},
		{"custom-ptr-sha256", &customOpts{}, false},
	}
}

var goodOpts = optCases()[0]

type signStats struct {
	genuine, rejectedCorrupt, rejectedOpts, rejectedSvc, acceptedLegit int
	forcedGenuine                                                      int // genuine signatures returned in the cases with a forced checksum value
}

type signProbe struct {
	class  string // cell class
	detail string // witness text
	setup  func(s *signModel)
	opt    optCase
	digest []byte
}

// signCase runs one family of probes for a signature of sigLen bytes.
func signCase(c *core.Ctx, i int, gname string, r *rand.Rand, sigLen int, force *uint32, st *signStats) {
	sig := make([]byte, sigLen)
	for k := range sig {
		sig[k] = byte(r.UintN(256))
	}
	if crc(sig) == 0 { // keep "checksum absent" distinguishable from "checksum matches"
		sig[0] ^= 1
	}
	if force != nil { // audit dimension: a signature whose CRC32C is a chosen boundary value
		forceCRC(sig, *force)
		if uint32(crc(sig)) != *force {
			panic("c20: forceCRC failed")
		}
		c.Count(fmt.Sprintf("sign/forced-checksum-value/0x%08x", *force), 1)
	}
	other := make([]byte, sigLen)
	for k := range other {
		other[k] = byte(r.UintN(256))
	}
	digest := make([]byte, 32)
	for k := range digest {
		digest[k] = byte(r.UintN(256))
	}
	keyVer := fmt.Sprintf("projects/p/locations/l/keyRings/r/cryptoKeys/sign/cryptoKeyVersions/%d", 1+r.IntN(300))
	var probes []signProbe
	add := func(class, detail string, setup func(*signModel)) {
		probes = append(probes, signProbe{class: class, detail: detail, setup: setup, opt: goodOpts, digest: digest})
	}
	add("genuine", "honest response", nil)
	// every single-bit corruption of the signature
	for b := 0; b < sigLen*8; b++ {
		b := b
		add("sig-bit", fmt.Sprintf("signature bit %d flipped in transit", b), func(s *signModel) {
			s.respMutate = func(x *kmspb.AsymmetricSignResponse) { x.Signature[b/8] ^= 1 << (b % 8) }
		})
	}
	// every single-bit corruption of the checksum value (an int64 on the wire)
	for b := 0; b < 64; b++ {
		b := b
		add("crc-bit", fmt.Sprintf("signature_crc32c bit %d flipped in transit", b), func(s *signModel) {
			s.respMutate = func(x *kmspb.AsymmetricSignResponse) {
				x.SignatureCrc32C = wrapperspb.Int64(x.SignatureCrc32C.GetValue() ^ int64(uint64(1)<<b))
			}
		})
	}
	// the confirmation flags
	for _, f := range []struct {
		n    string
		d, a bool
	}{{"verified_digest_crc32c=false", false, true}, {"verified_data_crc32c=false", true, false}, {"both verified flags false", false, false}} {
		f := f
		add("flag", f.n, func(s *signModel) {
			s.respMutate = func(x *kmspb.AsymmetricSignResponse) { x.VerifiedDigestCrc32C, x.VerifiedDataCrc32C = f.d, f.a }
		})
	}
	add("flag-lost-request-checksum", "digest_crc32c lost on the way to the service (flag honestly false)", func(s *signModel) {
		s.reqMutate = func(x *kmspb.AsymmetricSignRequest) { x.DigestCrc32C = nil }
	})
	add("flag-lost-request-checksum", "data_crc32c lost on the way to the service (flag honestly false)", func(s *signModel) {
		s.reqMutate = func(x *kmspb.AsymmetricSignRequest) { x.DataCrc32C = nil }
	})
	// structural corruptions of the checksum
	crcSets := []struct {
		n string
		f func(x *kmspb.AsymmetricSignResponse, req *kmspb.AsymmetricSignRequest)
	}{
		{"signature_crc32c absent", func(x *kmspb.AsymmetricSignResponse, _ *kmspb.AsymmetricSignRequest) { x.SignatureCrc32C = nil }},
		{"signature_crc32c = 0", func(x *kmspb.AsymmetricSignResponse, _ *kmspb.AsymmetricSignRequest) {
			x.SignatureCrc32C = wrapperspb.Int64(0)
		}},
		{"signature_crc32c = checksum of the request digest", func(x *kmspb.AsymmetricSignResponse, q *kmspb.AsymmetricSignRequest) {
			x.SignatureCrc32C = wrapperspb.Int64(crc(q.GetDigest().GetSha256()))
		}},
		{"signature_crc32c = the request's digest_crc32c", func(x *kmspb.AsymmetricSignResponse, q *kmspb.AsymmetricSignRequest) {
			x.SignatureCrc32C = wrapperspb.Int64(q.GetDigestCrc32C().GetValue())
		}},
		{"signature_crc32c = the request's data_crc32c", func(x *kmspb.AsymmetricSignResponse, q *kmspb.AsymmetricSignRequest) {
			x.SignatureCrc32C = wrapperspb.Int64(q.GetDataCrc32C().GetValue())
		}},
		{"signature_crc32c sign-extended from 32 bits", func(x *kmspb.AsymmetricSignResponse, _ *kmspb.AsymmetricSignRequest) {
			x.SignatureCrc32C = wrapperspb.Int64(int64(int32(uint32(x.SignatureCrc32C.GetValue()))) | (-1 << 32))
		}},
		{"signature_crc32c + 2^32", func(x *kmspb.AsymmetricSignResponse, _ *kmspb.AsymmetricSignRequest) {
			x.SignatureCrc32C = wrapperspb.Int64(x.SignatureCrc32C.GetValue() + 1<<32)
		}},
		{"signature_crc32c of the signature without its last byte", func(x *kmspb.AsymmetricSignResponse, _ *kmspb.AsymmetricSignRequest) {
			x.SignatureCrc32C = wrapperspb.Int64(crc(x.Signature[:len(x.Signature)-1]))
		}},
		{"signature_crc32c computed with the IEEE polynomial", func(x *kmspb.AsymmetricSignResponse, _ *kmspb.AsymmetricSignRequest) {
			x.SignatureCrc32C = wrapperspb.Int64(int64(crc32.ChecksumIEEE(x.Signature)))
		}},
	}
	for _, cs := range crcSets {
		cs := cs
		add("crc-struct", cs.n, func(s *signModel) {
			s.respMutate = func(x *kmspb.AsymmetricSignResponse) { cs.f(x, s.sentReq) }
		})
	}
	// structural corruptions of the signature
	add("sig-struct", "signature truncated by one byte", func(s *signModel) {
		s.respMutate = func(x *kmspb.AsymmetricSignResponse) { x.Signature = x.Signature[:len(x.Signature)-1] }
	})
	add("sig-struct", "signature extended by a zero byte", func(s *signModel) {
		s.respMutate = func(x *kmspb.AsymmetricSignResponse) { x.Signature = append(x.Signature, 0) }
	})
	add("sig-struct", "signature replaced by another one of the same length, checksum kept", func(s *signModel) {
		s.respMutate = func(x *kmspb.AsymmetricSignResponse) { x.Signature = append([]byte(nil), other...) }
	})
	add("sig-struct", "signature bytes reversed, checksum kept", func(s *signModel) {
		s.respMutate = func(x *kmspb.AsymmetricSignResponse) {
			for a, b := 0, len(x.Signature)-1; a < b; a, b = a+1, b-1 {
				x.Signature[a], x.Signature[b] = x.Signature[b], x.Signature[a]
			}
		}
	})
	add("sig-struct-consistent", "signature replaced by another one together with its checksum (not detectable by a checksum)", func(s *signModel) {
		s.respMutate = func(x *kmspb.AsymmetricSignResponse) {
			x.Signature = append([]byte(nil), other...)
			x.SignatureCrc32C = wrapperspb.Int64(crc(other))
		}
	})
	// random double-bit corruptions over signature and checksum
	for k := 0; k < 64; k++ {
		b1, b2 := r.IntN(sigLen*8+64), r.IntN(sigLen*8+64)
		if b1 == b2 {
			continue
		}
		add("two-bits", fmt.Sprintf("bits %d and %d of signature‖checksum flipped", b1, b2), func(s *signModel) {
			s.respMutate = func(x *kmspb.AsymmetricSignResponse) {
				for _, b := range []int{b1, b2} {
					if b < sigLen*8 {
						x.Signature[b/8] ^= 1 << (b % 8)
					} else {
						x.SignatureCrc32C = wrapperspb.Int64(x.SignatureCrc32C.GetValue() ^ int64(uint64(1)<<(b-sigLen*8)))
					}
				}
			}
		})
	}
	// request corrupted on the way to the service; service errors
	add("request-corrupt", "request digest bit flipped on the way to the service", func(s *signModel) {
		s.reqMutate = func(x *kmspb.AsymmetricSignRequest) { x.GetDigest().GetSha256()[3] ^= 0x10 }
	})
	for _, fc := range faultClasses() {
		fc := fc
		add("service-error", "AsymmetricSign fails: "+fc.name, func(s *signModel) { s.svcErr = fc.err })
	}
	for _, n := range []int{0, 31, 33, 64} {
		d := make([]byte, n)
		for k := range d {
			d[k] = byte(r.UintN(256))
		}
		probes = append(probes, signProbe{class: "digest-length", detail: fmt.Sprintf("digest of %d bytes (the service refuses it)", n), opt: goodOpts, digest: d})
	}
	// signer options
	for _, oc := range optCases()[1:] {
		probes = append(probes, signProbe{class: "opts:" + oc.name, detail: "signer options " + oc.name + ", honest response", opt: oc, digest: digest})
	}

	for pi, p := range probes {
		s := &signModel{sig: sig}
		if p.setup != nil {
			p.setup(s)
		}
		signer := &gcpkms.Signer{Manager: &gcpkms.Manager{Project: "p", Location: "l", KeyRingID: "r", KeyClient: s}}
		var out []byte
		var err error
		g := fmt.Sprintf("%s probe#%d %s: %s", gname, pi, p.class, p.detail)
		m := c.Guard(i, "Signer.Sign", g, core.Budget{}, func() {
			out, err = signer.Sign(context.Background(), keyVer, styp.Digest{SHA256: p.digest}, p.opt.opts)
		})
		if m.Panicked {
			c.Cell("Sign|%s|len=%d|panic", p.class, sigLen)
			continue
		}
		c.Count("sign/probes/"+classGroup(p.class), 1)
		if err != nil {
			switch {
			case p.class == "genuine":
				c.Count("sign/genuine-refused", 1)
			case !p.opt.pss:
				st.rejectedOpts++
			case s.sentResp == nil:
				st.rejectedSvc++
			default:
				st.rejectedCorrupt++
			}
			c.Cell("Sign|%s|len=%d|refused", classGroup(p.class), sigLen)
			if s.calls > 0 && !p.opt.pss {
				c.Count("sign/rpc-issued-for-non-pss-options", 1)
			}
			continue
		}
		// a signature was returned: everything the property lists must hold (ground truth from the model)
		resp := s.sentResp
		why := signWhy(s, p.opt, out, keyVer, p.digest)
		if len(why) > 0 {
			c.Violate(core.Violation{Kind: "oracle", Entry: "Signer.Sign", Site: "signature-returned-for-" + siteGroup(p.class), Gen: g, Case: i,
				Detail: fmt.Sprintf("Sign returned a %d-byte signature and no error although %v", len(out), why),
				Witness: map[string]any{"probe": p.detail, "opts": p.opt.name, "signature_len": sigLen, "digest": fmt.Sprintf("%x", p.digest),
					"delivered_response": fmt.Sprint(resp), "request": fmt.Sprint(s.sentReq)}})
			c.Cell("Sign|%s|len=%d|VIOLATION", classGroup(p.class), sigLen)
			continue
		}
		if resp.GetSignatureCrc32C() == nil {
			c.Note("Sign accepted a response without signature_crc32c whose signature has CRC32C 0 (outside the quantifier; not judged)")
		}
		if p.class == "genuine" {
			st.genuine++
			if force != nil {
				st.forcedGenuine++
			}
		} else {
			st.acceptedLegit++ // e.g. salt-length variants of PSS/SHA-256, consistent replacement
			c.Count("sign/accepted-legitimately/"+classGroup(p.class), 1)
		}
		c.Cell("Sign|%s|len=%d|signature-returned", classGroup(p.class), sigLen)
	}
	// Outside the quantifier, recorded as notes only: an empty signature without checksum
	// (crc32c("")==0 equals the default of an absent field) and a typed-nil options pointer.
	func() {
		s := &signModel{sig: sig, respMutate: func(x *kmspb.AsymmetricSignResponse) { x.Signature, x.SignatureCrc32C = nil, nil }}
		signer := &gcpkms.Signer{Manager: &gcpkms.Manager{KeyClient: s}}
		out, err := signer.Sign(context.Background(), keyVer, styp.Digest{SHA256: digest}, goodOpts.opts)
		c.Eval(1)
		if err == nil {
			c.Note("note (not judged): a response with neither signature nor signature_crc32c but both verified flags is accepted and a %d-byte signature returned (crc32c of the empty string is 0 = default of the absent checksum)", len(out))
		}
	}()
	func() {
		defer func() {
			if rec := recover(); rec != nil {
				c.Note("note (not judged): Sign with a typed-nil *rsa.PSSOptions panics (%v); callers inside the repository always pass a non-nil pointer", rec)
			}
		}()
		s := &signModel{sig: sig}
		signer := &gcpkms.Signer{Manager: &gcpkms.Manager{KeyClient: s}}
		signer.Sign(context.Background(), keyVer, styp.Digest{SHA256: digest}, (*rsa.PSSOptions)(nil))
		c.Eval(1)
	}()
}

// signWhy is the oracle for a call of Signer.Sign that returned a signature and no error: every
// reason for which, by the property, no signature may be returned (ground truth from the model).
func signWhy(s *signModel, opt optCase, out []byte, keyVer string, digest []byte) []string {
	var why []string
	resp := s.sentResp
	if !opt.pss {
		why = append(why, "the signer options are not RSA-PSS with SHA-256 ("+opt.name+")")
	}
	if resp == nil {
		why = append(why, fmt.Sprintf("the service delivered no response (calls=%d err=%v)", s.calls, s.respErr))
		return why
	}
	if crc(s.sentSig) != resp.GetSignatureCrc32C().GetValue() {
		why = append(why, fmt.Sprintf("crc32c(delivered signature)=%d but delivered signature_crc32c=%d", crc(s.sentSig), resp.GetSignatureCrc32C().GetValue()))
	}
	if !resp.GetVerifiedDigestCrc32C() {
		why = append(why, "the service did not confirm digest_crc32c (verified_digest_crc32c=false)")
	}
	if s.sentReq.GetDataCrc32C() != nil && !resp.GetVerifiedDataCrc32C() {
		why = append(why, "the request carried data_crc32c and the service did not confirm it (verified_data_crc32c=false)")
	}
	if !bytes.Equal(out, s.sentSig) {
		why = append(why, "the returned bytes are not the signature of the response")
	}
	if s.sentReq.GetName() != keyVer || !bytes.Equal(s.sentReq.GetDigest().GetSha256(), digest) {
		why = append(why, "the request did not carry the given key version name and digest")
	}
	return why
}

// siteGroup keeps violation signatures few and stable: all option values share one rule name.
func siteGroup(class string) string {
	if strings.HasPrefix(class, "opts:") {
		return "non-pss-sha256-options"
	}
	return class
}

func classGroup(class string) string { return class }

// forceCRC rewrites the last four bytes of b so that CRC32C(b) == want. The checksum is an affine
// function of those four bytes over GF(2) and the linear part is a bijection, so a solution exists.
func forceCRC(b []byte, want uint32) {
	if len(b) < 4 {
		panic("c20: forceCRC needs at least four bytes")
	}
	tail := b[len(b)-4:]
	set := func(x uint32) uint32 {
		tail[0], tail[1], tail[2], tail[3] = byte(x), byte(x>>8), byte(x>>16), byte(x>>24)
		return crc32.Checksum(b, castagnoli)
	}
	f0 := set(0)
	var col [32]uint32 // col[j] = L(e_j)
	for j := 0; j < 32; j++ {
		col[j] = set(1<<j) ^ f0
	}
	// Gaussian elimination on the augmented system sum_j x_j*col[j] = want^f0, one row per output bit.
	var rows [32]uint64 // low 32 bits: coefficients of x_j, bit 32: right-hand side
	t := want ^ f0
	for i := 0; i < 32; i++ {
		for j := 0; j < 32; j++ {
			if col[j]>>i&1 == 1 {
				rows[i] |= 1 << j
			}
		}
		if t>>i&1 == 1 {
			rows[i] |= 1 << 32
		}
	}
	var x uint32
	piv := [32]int{}
	rk := 0
	for j := 0; j < 32 && rk < 32; j++ {
		p := -1
		for i := rk; i < 32; i++ {
			if rows[i]>>j&1 == 1 {
				p = i
				break
			}
		}
		if p < 0 {
			continue
		}
		rows[rk], rows[p] = rows[p], rows[rk]
		for i := 0; i < 32; i++ {
			if i != rk && rows[i]>>j&1 == 1 {
				rows[i] ^= rows[rk]
			}
		}
		piv[rk] = j
		rk++
	}
	for i := 0; i < rk; i++ {
		if rows[i]>>32&1 == 1 {
			x |= 1 << piv[i]
		}
	}
	set(x)
}
