package c20

// Audit dimensions for Signer.Sign.
//
// "kept signer": ONE gcpkms.Signer (one Manager, one service connection) is used for a PRNG-drawn
// series of calls. The caller keeps ONE *rsa.PSSOptions value and edits it in place between calls,
// keeps ONE digest buffer and refills it in place, overwrites the bytes a call returned before the
// next call, and now and then signs through a fresh Signer over the same Manager. Honest and
// corrupted responses, PSS/SHA-256 and other options, service errors follow each other in every
// order. Each call is judged on its own by the oracle of the single-call probes (signWhy).
//
// "calls in flight together": 3-6 calls of Sign run at the same time through one Signer (or one
// Signer each over one Manager, or all their own). The model service holds every call that
// reaches AsymmetricSign until all calls of the group have either reached it or returned, so all
// of them are between "request sent" and "response checked" at the same moment; then each call
// gets its own planned response. Calls are told apart by a value in their context. Each call is
// judged on its own; on the unchanged tree nothing depends on the schedule.

import (
	"context"
	"crypto"
	"crypto/rsa"
	"fmt"
	"math/rand/v2"
	"runtime/debug"
	"sync"

	"cloud.google.com/go/kms/apiv1/kmspb"
	"github.com/google/gce-tcb-verifier/keys/gcpkms"
	styp "github.com/google/gce-tcb-verifier/sign/types"
	"google.golang.org/grpc"
	"google.golang.org/protobuf/types/known/wrapperspb"

	"verifharness/core"
)

type signPlan struct {
	class   string // genuine | corrupt:<what> | service-error
	detail  string
	setup   func(s *signModel)
	genuine bool
}

// drawSignPlan draws what the service/transport does to one call.
func drawSignPlan(r *rand.Rand, sigLen int) signPlan {
	mut := func(class, detail string, f func(x *kmspb.AsymmetricSignResponse)) signPlan {
		return signPlan{class: class, detail: detail, setup: func(s *signModel) { s.respMutate = f }}
	}
	switch k := r.IntN(100); {
	case k < 45:
		return signPlan{class: "genuine", detail: "honest response", genuine: true}
	case k < 55:
		b := r.IntN(sigLen * 8)
		return mut("corrupt:sig-bit", fmt.Sprintf("signature bit %d flipped in transit", b), func(x *kmspb.AsymmetricSignResponse) { x.Signature[b/8] ^= 1 << (b % 8) })
	case k < 65:
		b := r.IntN(64)
		return mut("corrupt:crc-bit", fmt.Sprintf("signature_crc32c bit %d flipped in transit", b), func(x *kmspb.AsymmetricSignResponse) {
			x.SignatureCrc32C = wrapperspb.Int64(x.SignatureCrc32C.GetValue() ^ int64(uint64(1)<<b))
		})
	case k < 75:
		fl := [][2]bool{{false, true}, {true, false}, {false, false}}[r.IntN(3)]
		d, a := fl[0], fl[1]
		return mut("corrupt:flag", fmt.Sprintf("verified_digest_crc32c=%v verified_data_crc32c=%v", d, a), func(x *kmspb.AsymmetricSignResponse) { x.VerifiedDigestCrc32C, x.VerifiedDataCrc32C = d, a })
	case k < 80:
		if r.IntN(2) == 0 {
			return signPlan{class: "corrupt:lost-request-checksum", detail: "digest_crc32c lost on the way to the service", setup: func(s *signModel) {
				s.reqMutate = func(x *kmspb.AsymmetricSignRequest) { x.DigestCrc32C = nil }
			}}
		}
		return signPlan{class: "corrupt:lost-request-checksum", detail: "data_crc32c lost on the way to the service", setup: func(s *signModel) {
			s.reqMutate = func(x *kmspb.AsymmetricSignRequest) { x.DataCrc32C = nil }
		}}
	case k < 83:
		return mut("corrupt:crc-struct", "signature_crc32c absent", func(x *kmspb.AsymmetricSignResponse) { x.SignatureCrc32C = nil })
	case k < 85:
		return mut("corrupt:crc-struct", "signature_crc32c + 2^32", func(x *kmspb.AsymmetricSignResponse) {
			x.SignatureCrc32C = wrapperspb.Int64(x.SignatureCrc32C.GetValue() + 1<<32)
		})
	case k < 95:
		fc := faultClasses()[r.IntN(len(faultClasses()))]
		return signPlan{class: "service-error", detail: "AsymmetricSign fails: " + fc.name, setup: func(s *signModel) { s.svcErr = fc.err }}
	default:
		other := randSig(r, sigLen)
		return signPlan{class: "consistent-replacement", detail: "signature replaced together with its checksum (not detectable by a checksum)", genuine: true, setup: func(s *signModel) {
			s.respMutate = func(x *kmspb.AsymmetricSignResponse) {
				x.Signature = append([]byte(nil), other...)
				x.SignatureCrc32C = wrapperspb.Int64(crc(other))
			}
		}}
	}
}

func randSig(r *rand.Rand, n int) []byte {
	sig := make([]byte, n)
	for k := range sig {
		sig[k] = byte(r.UintN(256))
	}
	if crc(sig) == 0 {
		sig[0] ^= 1
	}
	return sig
}

// pssConfigs are contents the caller writes into its one kept *rsa.PSSOptions value.
var pssConfigs = []struct {
	name string
	v    rsa.PSSOptions
	pss  bool
}{
	{"pss-sha256-salt=hash", rsa.PSSOptions{SaltLength: rsa.PSSSaltLengthEqualsHash, Hash: crypto.SHA256}, true},
	{"pss-sha256-salt=hash", rsa.PSSOptions{SaltLength: rsa.PSSSaltLengthEqualsHash, Hash: crypto.SHA256}, true},
	{"pss-sha256-salt=hash", rsa.PSSOptions{SaltLength: rsa.PSSSaltLengthEqualsHash, Hash: crypto.SHA256}, true},
	{"pss-sha256-salt=auto", rsa.PSSOptions{SaltLength: rsa.PSSSaltLengthAuto, Hash: crypto.SHA256}, true},
	{"pss-sha384", rsa.PSSOptions{SaltLength: rsa.PSSSaltLengthEqualsHash, Hash: crypto.SHA384}, false},
	{"pss-sha512", rsa.PSSOptions{SaltLength: rsa.PSSSaltLengthEqualsHash, Hash: crypto.SHA512}, false},
	{"pss-sha1", rsa.PSSOptions{SaltLength: rsa.PSSSaltLengthEqualsHash, Hash: crypto.SHA1}, false},
	{"pss-hash-0", rsa.PSSOptions{SaltLength: rsa.PSSSaltLengthEqualsHash}, false},
}

// drawOpts draws the signer options of one call: the kept value edited in place, or a fresh value.
func drawOpts(r *rand.Rand, kept *rsa.PSSOptions) (oc optCase, how string) {
	all := optCases()
	switch k := r.IntN(10); {
	case k < 4:
		cfg := pssConfigs[r.IntN(len(pssConfigs))]
		*kept = cfg.v
		return optCase{name: cfg.name, opts: kept, pss: cfg.pss}, "kept-value-edited-in-place"
	case k < 6:
		return all[0], "fresh-value"
	default:
		return all[1+r.IntN(len(all)-1)], "fresh-value"
	}
}

func keyVerName(r *rand.Rand) string {
	return fmt.Sprintf("projects/p/locations/l/keyRings/r/cryptoKeys/%s/cryptoKeyVersions/%d", []string{"sign", "root"}[r.IntN(2)], 1+r.IntN(5))
}

const signSeqLen = 64

func signSeqCase(c *core.Ctx, i int, r *rand.Rand, sst *signStats, st *audStats) {
	s := &signModel{}
	mgr := &gcpkms.Manager{Project: "p", Location: "l", KeyRingID: "r", KeyClient: s}
	keptSigner := &gcpkms.Signer{Manager: mgr}
	keptOpts := &rsa.PSSOptions{SaltLength: rsa.PSSSaltLengthEqualsHash, Hash: crypto.SHA256}
	keptDigest := make([]byte, 32)
	prev := "start"
	var prevOut []byte
	var history []string
	for n := 0; n < signSeqLen; n++ {
		sigLen := []int{1, 32, 256}[r.IntN(3)]
		*s = signModel{sig: randSig(r, sigLen)} // same service connection, next call
		plan := drawSignPlan(r, sigLen)
		if plan.setup != nil {
			plan.setup(s)
		}
		oc, how := drawOpts(r, keptOpts)
		digest, dhow := keptDigest, "kept-buffer-refilled"
		if r.IntN(2) == 0 {
			digest, dhow = make([]byte, 32), "fresh-buffer"
		}
		for k := range digest {
			digest[k] = byte(r.UintN(256))
		}
		want := append([]byte(nil), digest...)
		keyVer := keyVerName(r)
		signer, through := keptSigner, "kept-signer"
		if r.IntN(7) == 0 {
			signer, through = &gcpkms.Signer{Manager: mgr}, "fresh-signer-same-manager"
		}
		edited := false
		if prevOut != nil && r.IntN(4) != 0 { // the caller overwrites what the previous call gave it
			for k := range prevOut {
				prevOut[k] ^= 0xff
			}
			edited = true
		}
		desc := fmt.Sprintf("call %d (%s): %s; opts %s (%s); digest %s; %d-byte signature; %s", n+1, through, plan.detail, oc.name, how, dhow, sigLen, shortName(keyVer))
		if edited {
			desc += "; the bytes returned by the previous call were overwritten first"
		}
		history = append(history, desc)
		if len(history) > 6 {
			history = history[1:]
		}
		g := fmt.Sprintf("signseq#%d one kept Signer, %s", i, desc)
		var out []byte
		var err error
		m := c.Guard(i, eSign, g, core.Budget{}, func() {
			out, err = signer.Sign(context.Background(), keyVer, styp.Digest{SHA256: digest}, oc.opts)
		})
		if m.Panicked {
			c.Cell("Sign|kept-signer|panic")
			return
		}
		optc := "pss-sha256"
		if !oc.pss {
			optc = "other-options"
		}
		st.add("signseq: calls", 1)
		prevOut = nil
		if err != nil {
			switch {
			case !oc.pss:
				sst.rejectedOpts++
				if prev == "returned" {
					st.add("signseq: other options refused right after a signature was returned through the same signer", 1)
				}
			case s.sentResp == nil:
				sst.rejectedSvc++
			default:
				sst.rejectedCorrupt++
				if prev == "returned" {
					st.add("signseq: a corrupted response was refused right after a signature was returned through the same signer", 1)
				}
			}
			c.Cell("Sign|%s|after=%s|%s|opts=%s(%s)|digest=%s|refused", through, prev, plan.class, optc, how, dhow)
			prev = "refused"
			continue
		}
		why := signWhy(s, oc, out, keyVer, want)
		if len(why) > 0 {
			c.Violate(core.Violation{Kind: "oracle", Entry: eSign, Site: "signature-returned-for-" + seqSite(plan, oc) + "(kept-signer)", Gen: g, Case: i,
				Detail: fmt.Sprintf("Sign returned a %d-byte signature and no error although %v", len(out), why),
				Witness: map[string]any{"last_calls_through_the_signer": history, "opts": oc.name, "digest": fmt.Sprintf("%x", want),
					"delivered_response": fmt.Sprint(s.sentResp), "request": fmt.Sprint(s.sentReq)}})
			c.Cell("Sign|%s|after=%s|%s|opts=%s(%s)|digest=%s|VIOLATION", through, prev, plan.class, optc, how, dhow)
			prev = "returned"
			continue
		}
		sst.acceptedLegit++
		if prev == "refused" {
			st.add("signseq: a signature was returned right after a refused call through the same signer", 1)
		}
		if edited {
			st.add("signseq: a signature was returned after the previous result was overwritten", 1)
		}
		c.Cell("Sign|%s|after=%s|%s|opts=%s(%s)|digest=%s|signature-returned", through, prev, plan.class, optc, how, dhow)
		prev, prevOut = "returned", out
	}
	c.Count("sign/kept-signer-sequences", 1)
}

func seqSite(plan signPlan, oc optCase) string {
	if !oc.pss {
		return "non-pss-sha256-options"
	}
	return plan.class
}

// ---- calls in flight together ----

type callIDKey struct{}

type signCall struct {
	id      int
	sm      *signModel
	plan    signPlan
	oc      optCase
	digest  []byte
	keyVer  string
	signer  *gcpkms.Signer
	reached bool // accounted for at the barrier (reached the service, or returned without reaching it)
	inRPC   bool
	out     []byte
	err     error
	panicAt string
	panicV  string
}

// signGroup is the service connection of one group: a barrier, then the honest service and the
// transport of the call the request belongs to.
type signGroup struct {
	kmspb.KeyManagementServiceClient
	mu       sync.Mutex
	cond     *sync.Cond
	k        int
	arrived  int
	early    int
	together int // calls that were inside AsymmetricSign at the moment the barrier opened
	calls    []*signCall
	unknown  int
}

func (g *signGroup) AsymmetricSign(ctx context.Context, in *kmspb.AsymmetricSignRequest, _ ...grpc.CallOption) (*kmspb.AsymmetricSignResponse, error) {
	id, ok := ctx.Value(callIDKey{}).(int)
	g.mu.Lock()
	defer g.mu.Unlock()
	if !ok || id < 0 || id >= len(g.calls) {
		g.unknown++
		return nil, fmt.Errorf("verif: request outside any call of the group")
	}
	cl := g.calls[id]
	if !cl.reached {
		cl.reached, cl.inRPC = true, true
		g.arrived++
		g.cond.Broadcast()
		for g.arrived+g.early < g.k {
			g.cond.Wait()
		}
		if g.together == 0 {
			g.together = g.arrived
		}
	}
	return cl.sm.AsymmetricSign(ctx, in) // the request is read now, when every call of the group has sent its own
}

func (g *signGroup) returned(cl *signCall) {
	g.mu.Lock()
	if !cl.reached {
		cl.reached = true
		g.early++
		g.cond.Broadcast()
	}
	g.mu.Unlock()
}

const signGroupsPerCase = 6

func signConcCase(c *core.Ctx, i int, r *rand.Rand, sst *signStats, st *audStats) {
	for gi := 0; gi < signGroupsPerCase; gi++ {
		signConcGroup(c, i, gi, r, sst, st)
	}
}

func signConcGroup(c *core.Ctx, i, gi int, r *rand.Rand, sst *signStats, st *audStats) {
	k := 3 + r.IntN(4)
	g := &signGroup{k: k}
	g.cond = sync.NewCond(&g.mu)
	share := []string{"one-signer", "one-signer", "signer-each-one-manager", "all-own"}[r.IntN(4)]
	mgr := &gcpkms.Manager{Project: "p", Location: "l", KeyRingID: "r", KeyClient: g}
	one := &gcpkms.Signer{Manager: mgr}
	sameDigest := r.IntN(3) == 0
	shared := make([]byte, 32)
	for j := range shared {
		shared[j] = byte(r.UintN(256))
	}
	var texts []string
	for id := 0; id < k; id++ {
		sigLen := []int{1, 32, 256}[r.IntN(3)]
		cl := &signCall{id: id, sm: &signModel{sig: randSig(r, sigLen)}, keyVer: keyVerName(r)}
		cl.plan = drawSignPlan(r, sigLen)
		if cl.plan.setup != nil {
			cl.plan.setup(cl.sm)
		}
		all := optCases()
		cl.oc = all[0]
		if r.IntN(3) == 0 {
			cl.oc = all[1+r.IntN(len(all)-1)]
		}
		cl.digest = make([]byte, 32)
		for j := range cl.digest {
			cl.digest[j] = byte(r.UintN(256))
		}
		if sameDigest {
			cl.digest = shared // read-only for everybody
		}
		switch share {
		case "one-signer":
			cl.signer = one
		case "signer-each-one-manager":
			cl.signer = &gcpkms.Signer{Manager: mgr}
		default:
			cl.signer = &gcpkms.Signer{Manager: &gcpkms.Manager{Project: "p", Location: "l", KeyRingID: "r", KeyClient: g}}
		}
		g.calls = append(g.calls, cl)
		texts = append(texts, fmt.Sprintf("#%d: %s; opts %s; %s", id, cl.plan.detail, cl.oc.name, shortName(cl.keyVer)))
	}
	gen := fmt.Sprintf("signconc#%d group %d: %d calls of Sign in flight together (%s, same digest=%v): %v", i, gi, k, share, sameDigest, texts)
	m := c.Guard(i, eSign, gen, core.Budget{}, func() {
		var wg sync.WaitGroup
		for _, cl := range g.calls {
			cl := cl
			wg.Add(1)
			go func() {
				defer wg.Done()
				defer g.returned(cl)
				defer func() {
					if x := recover(); x != nil {
						cl.panicV, cl.panicAt = fmt.Sprint(x), core.PanicSite(debug.Stack())
					}
				}()
				ctx := context.WithValue(context.Background(), callIDKey{}, cl.id)
				cl.out, cl.err = cl.signer.Sign(ctx, cl.keyVer, styp.Digest{SHA256: cl.digest}, cl.oc.opts)
			}()
		}
		wg.Wait()
	})
	c.Eval(k - 1)
	if m.Panicked {
		return
	}
	g.mu.Lock()
	defer g.mu.Unlock()
	st.add("signconc: groups", 1)
	c.Max("sign/calls-inside-AsymmetricSign-together", int64(g.together))
	returned, refusedInRPC := 0, 0
	for _, cl := range g.calls {
		if cl.panicAt != "" {
			c.Violate(core.Violation{Kind: "panic", Entry: eSign, Site: cl.panicAt, Gen: gen, Case: i, Detail: fmt.Sprintf("call #%d: %s", cl.id, cl.panicV)})
			c.Cell("Sign|in-flight-together|panic")
			continue
		}
		optc := "pss-sha256"
		if !cl.oc.pss {
			optc = "other-options"
		}
		if cl.err != nil {
			switch {
			case !cl.oc.pss:
				sst.rejectedOpts++
			case cl.sm.sentResp == nil:
				sst.rejectedSvc++
			default:
				sst.rejectedCorrupt++
				refusedInRPC++
			}
			c.Cell("Sign|in-flight-together|%s|k=%d|%s|opts=%s|refused", share, k, cl.plan.class, optc)
			continue
		}
		why := signWhy(cl.sm, cl.oc, cl.out, cl.keyVer, cl.digest)
		if len(why) > 0 {
			c.Violate(core.Violation{Kind: "oracle", Entry: eSign, Site: "signature-returned-for-" + seqSite(cl.plan, cl.oc) + "(in-flight-together)", Gen: gen, Case: i,
				Detail: fmt.Sprintf("call #%d: Sign returned a %d-byte signature and no error although %v", cl.id, len(cl.out), why),
				Witness: map[string]any{"group": texts, "call": cl.id, "opts": cl.oc.name, "digest": fmt.Sprintf("%x", cl.digest),
					"delivered_response": fmt.Sprint(cl.sm.sentResp), "request": fmt.Sprint(cl.sm.sentReq), "calls_inside_the_rpc_together": g.together}})
			c.Cell("Sign|in-flight-together|%s|k=%d|%s|opts=%s|VIOLATION", share, k, cl.plan.class, optc)
			continue
		}
		sst.acceptedLegit++
		returned++
		c.Cell("Sign|in-flight-together|%s|k=%d|%s|opts=%s|signature-returned", share, k, cl.plan.class, optc)
	}
	if g.unknown > 0 {
		c.Count("sign/requests-outside-any-call-of-a-group", g.unknown)
	}
	if g.together >= 2 && returned > 0 && refusedInRPC > 0 {
		st.add("signconc: groups in which a signature was returned and a corrupted response refused while both calls were inside the RPC together", 1)
	}
	if g.together >= 2 && returned >= 2 {
		st.add("signconc: groups in which two signatures were returned to calls that were inside the RPC together", 1)
	}
}
