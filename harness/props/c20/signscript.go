package c20

// Audit dimension for Signer.Sign: a SEQUENCE of answers within one call.
//
// Everywhere else in this workload the model service treats every AsymmetricSign RPC of one call
// of Sign in the same way (one planned fault, applied to each RPC alike), so code that asks the
// service more than once during one call always sees the same kind of answer twice. Here the n-th
// RPC of one call is answered according to the n-th step of a script: every ordered pair of answer
// kinds (honest, each kind of damaged answer, each kind of unconfirmed request, service errors)
// followed by a tail (the last step repeats / the service is honest from then on), and PRNG-drawn
// scripts of 3-5 steps. The model records every exchange (request as received, answer as
// delivered).
//
// Oracle (the property, read for a call that may have received several answers): a signature was
// returned => the options were RSA-PSS/SHA-256 and the returned bytes are the signature of SOME
// answer delivered during that call whose signature_crc32c matches its signature, whose
// verified_digest_crc32c (and verified_data_crc32c when the request carried data_crc32c) is true
// and whose request carried the given key version and digest. Asking again is not judged, nor is
// which of several acceptable answers is returned; refusals are counted, never judged.

import (
	"bytes"
	"context"
	"fmt"
	"math/rand/v2"
	"strings"
	"sync"

	"cloud.google.com/go/kms/apiv1/kmspb"
	"github.com/google/gce-tcb-verifier/keys/gcpkms"
	styp "github.com/google/gce-tcb-verifier/sign/types"
	"google.golang.org/grpc"
	"google.golang.org/protobuf/proto"
	"google.golang.org/protobuf/types/known/wrapperspb"

	"verifharness/core"
)

type scriptStep struct {
	kind   string
	detail string
	sig    []byte // what the service signs at this RPC (nil: the signature of the call)
	setup  func(s *signModel)
}

type exchange struct {
	step string
	req  *kmspb.AsymmetricSignRequest  // as the repository sent it
	resp *kmspb.AsymmetricSignResponse // private copy of what was delivered (nil: an error was delivered)
	sig  []byte                        // private copy of the delivered signature bytes
	err  error
}

// scriptStop aborts a call of Sign that goes on asking (the property does not bound the RPCs of
// Sign; the abort only keeps the run finite and is counted, not judged).
type scriptStop struct{}

const scriptHardLimit = 2000

type scriptModel struct {
	kmspb.KeyManagementServiceClient
	mu    sync.Mutex
	sig   []byte
	steps []scriptStep
	tail  string // "last-repeats" | "then-honest"
	ex    []exchange
}

func (m *scriptModel) AsymmetricSign(ctx context.Context, in *kmspb.AsymmetricSignRequest, _ ...grpc.CallOption) (*kmspb.AsymmetricSignResponse, error) {
	m.mu.Lock()
	defer m.mu.Unlock()
	n := len(m.ex)
	if n >= scriptHardLimit {
		panic(scriptStop{})
	}
	st := scriptStep{kind: "honest", detail: "honest answer"}
	switch {
	case n < len(m.steps):
		st = m.steps[n]
	case m.tail == "last-repeats" && len(m.steps) > 0:
		st = m.steps[len(m.steps)-1]
	}
	sm := &signModel{sig: m.sig}
	if st.sig != nil {
		sm.sig = st.sig
	}
	if st.setup != nil {
		st.setup(sm)
	}
	resp, err := sm.AsymmetricSign(ctx, in)
	e := exchange{step: st.kind, req: sm.sentReq, err: err}
	if resp != nil {
		e.resp = proto.Clone(resp).(*kmspb.AsymmetricSignResponse)
		e.sig = append([]byte(nil), resp.GetSignature()...)
	}
	m.ex = append(m.ex, e)
	return resp, err
}

// stepKinds are the answers one RPC can get. Kinds that need a PRNG draw (bit positions, another
// signature) draw it when the step is made.
var stepKinds = []string{
	"honest", "sig-bit", "crc-bit", "crc-absent", "crc+2^32", "sig-truncated",
	"digest-unconfirmed", "data-unconfirmed", "both-unconfirmed",
	"digest-checksum-lost", "data-checksum-lost", "other-digest-signed-and-said-so",
	"consistent-replacement", "empty-answer",
	"error:Unavailable", "error:DeadlineExceeded", "error:Internal",
}

func mkStep(kind string, r *rand.Rand, sigLen int) scriptStep {
	mut := func(detail string, f func(x *kmspb.AsymmetricSignResponse)) scriptStep {
		return scriptStep{kind: kind, detail: detail, setup: func(s *signModel) { s.respMutate = f }}
	}
	flags := func(detail string, d, a bool) scriptStep {
		return mut(detail, func(x *kmspb.AsymmetricSignResponse) { x.VerifiedDigestCrc32C, x.VerifiedDataCrc32C = d, a })
	}
	switch kind {
	case "honest":
		return scriptStep{kind: kind, detail: "honest answer"}
	case "sig-bit":
		b := r.IntN(sigLen * 8)
		return mut(fmt.Sprintf("signature bit %d flipped on the way back", b), func(x *kmspb.AsymmetricSignResponse) { x.Signature[b/8] ^= 1 << (b % 8) })
	case "crc-bit":
		b := r.IntN(64)
		return mut(fmt.Sprintf("signature_crc32c bit %d flipped on the way back", b), func(x *kmspb.AsymmetricSignResponse) {
			x.SignatureCrc32C = wrapperspb.Int64(x.SignatureCrc32C.GetValue() ^ int64(uint64(1)<<b))
		})
	case "crc-absent":
		return mut("signature_crc32c absent", func(x *kmspb.AsymmetricSignResponse) { x.SignatureCrc32C = nil })
	case "crc+2^32":
		return mut("signature_crc32c + 2^32", func(x *kmspb.AsymmetricSignResponse) {
			x.SignatureCrc32C = wrapperspb.Int64(x.SignatureCrc32C.GetValue() + 1<<32)
		})
	case "sig-truncated":
		return mut("signature truncated by one byte on the way back", func(x *kmspb.AsymmetricSignResponse) { x.Signature = x.Signature[:len(x.Signature)-1] })
	case "digest-unconfirmed":
		return flags("verified_digest_crc32c=false", false, true)
	case "data-unconfirmed":
		return flags("verified_data_crc32c=false", true, false)
	case "both-unconfirmed":
		return flags("both verified flags false", false, false)
	case "digest-checksum-lost":
		return scriptStep{kind: kind, detail: "digest_crc32c lost on the way to the service (flag honestly false)", setup: func(s *signModel) {
			s.reqMutate = func(x *kmspb.AsymmetricSignRequest) { x.DigestCrc32C = nil }
		}}
	case "data-checksum-lost":
		return scriptStep{kind: kind, detail: "data_crc32c lost on the way to the service (flag honestly false)", setup: func(s *signModel) {
			s.reqMutate = func(x *kmspb.AsymmetricSignRequest) { x.DataCrc32C = nil }
		}}
	case "other-digest-signed-and-said-so":
		// the request was damaged on its way out: the service signed something else, the answer is
		// consistent in itself and says that the digest checksum was not confirmed
		st := flags("the service signed another digest (consistent signature and checksum) and reports verified_digest_crc32c=false", false, true)
		st.sig = randSig(r, sigLen)
		return st
	case "consistent-replacement":
		other := randSig(r, sigLen)
		return mut("signature replaced together with its checksum (not detectable by a checksum)", func(x *kmspb.AsymmetricSignResponse) {
			x.Signature = append([]byte(nil), other...)
			x.SignatureCrc32C = wrapperspb.Int64(crc(other))
		})
	case "empty-answer":
		return mut("an answer with every field at its default", func(x *kmspb.AsymmetricSignResponse) { proto.Reset(x) })
	}
	if name, ok := strings.CutPrefix(kind, "error:"); ok {
		for _, fc := range append(faultClasses(), transientClasses()...) {
			if fc.name == name {
				fc := fc
				return scriptStep{kind: kind, detail: "AsymmetricSign fails: " + fc.name, setup: func(s *signModel) { s.svcErr = fc.err }}
			}
		}
	}
	panic("c20: unknown step kind " + kind)
}

type scriptStats struct{ returned, refused, aborted, multi int }

type scriptCall struct {
	label string // cell text of the script
	steps []scriptStep
	tail  string
	opt   optCase
}

const scriptRandomPerCase = 160

func signScriptCase(c *core.Ctx, i int, r *rand.Rand, sigLen int, sst *signStats, ss *scriptStats) {
	var calls []scriptCall
	tails := []string{"last-repeats", "then-honest"}
	// every ordered pair of answer kinds, with both tails
	for _, a := range stepKinds {
		for _, b := range stepKinds {
			for _, tail := range tails {
				calls = append(calls, scriptCall{label: a + ">" + b, steps: []scriptStep{mkStep(a, r, sigLen), mkStep(b, r, sigLen)}, tail: tail, opt: goodOpts})
			}
		}
	}
	// drawn scripts of 3-5 steps; now and then with other signer options
	for k := 0; k < scriptRandomPerCase; k++ {
		n := 3 + r.IntN(3)
		sc := scriptCall{tail: tails[r.IntN(2)], opt: goodOpts}
		var kinds []string
		for j := 0; j < n; j++ {
			kind := stepKinds[r.IntN(len(stepKinds))]
			if strings.HasPrefix(kind, "error:") && r.IntN(2) == 0 {
				all := append(faultClasses(), transientClasses()...)
				kind = "error:" + all[r.IntN(len(all))].name
			}
			sc.steps = append(sc.steps, mkStep(kind, r, sigLen))
			kinds = append(kinds, kind)
		}
		sc.label = fmt.Sprintf("drawn(%d steps, first=%s)", n, kinds[0])
		if r.IntN(6) == 0 {
			all := optCases()
			sc.opt = all[1+r.IntN(len(all)-1)]
		}
		calls = append(calls, sc)
	}

	keptMgr := &gcpkms.Manager{Project: "p", Location: "l", KeyRingID: "r"}
	keptSigner := &gcpkms.Signer{Manager: keptMgr}
	for ci, sc := range calls {
		m := &scriptModel{sig: randSig(r, sigLen), steps: sc.steps, tail: sc.tail}
		digest := make([]byte, 32)
		for k := range digest {
			digest[k] = byte(r.UintN(256))
		}
		want := append([]byte(nil), digest...)
		keyVer := keyVerName(r)
		signer, through := keptSigner, "kept-signer"
		if r.IntN(4) == 0 {
			signer, through = &gcpkms.Signer{Manager: &gcpkms.Manager{Project: "p", Location: "l", KeyRingID: "r", KeyClient: m}}, "fresh-signer"
		} else {
			keptMgr.KeyClient = m // same Signer and Manager, the service connection of the next call
		}
		var texts []string
		for _, st := range sc.steps {
			texts = append(texts, st.detail)
		}
		g := fmt.Sprintf("signscript#%d call %d (%s): answers to the successive AsymmetricSign RPCs of ONE call of Sign: %s; afterwards %s; opts %s; %d-byte signature",
			i, ci, through, strings.Join(texts, " | "), sc.tail, sc.opt.name, sigLen)
		var out []byte
		var err error
		aborted := false
		gm := c.Guard(i, eSign, g, core.Budget{}, func() {
			defer func() {
				if rec := recover(); rec != nil {
					if _, ok := rec.(scriptStop); !ok {
						panic(rec)
					}
					aborted = true
				}
			}()
			out, err = signer.Sign(context.Background(), keyVer, styp.Digest{SHA256: digest}, sc.opt.opts)
		})
		if gm.Panicked {
			c.Cell("Sign|answer-sequence|%s|panic", sc.label)
			continue
		}
		m.mu.Lock()
		rpcs := len(m.ex)
		m.mu.Unlock()
		c.Count("sign/answer-sequences/calls", 1)
		c.Max("sign/answer-sequences/most-RPCs-in-one-call-of-Sign", int64(rpcs))
		rp := fmt.Sprint(min(rpcs, 3))
		if rpcs > 3 {
			rp = ">3"
		}
		if rpcs > 1 {
			ss.multi++
			c.Count("sign/answer-sequences/calls-that-asked-the-service-more-than-once", 1)
		}
		optc := "pss-sha256"
		if !sc.opt.pss {
			optc = "other-options"
		}
		if aborted {
			ss.aborted++
			c.Count("sign/answer-sequences/calls-aborted-by-the-model-after-2000-RPCs (not judged)", 1)
			c.Cell("Sign|answer-sequence|%s|tail=%s|opts=%s|aborted", sc.label, sc.tail, optc)
			continue
		}
		if err != nil {
			ss.refused++
			switch {
			case !sc.opt.pss:
				sst.rejectedOpts++
			case rpcs > 0 && m.ex[rpcs-1].resp == nil:
				sst.rejectedSvc++
			default:
				sst.rejectedCorrupt++
			}
			c.Cell("Sign|answer-sequence|%s|tail=%s|opts=%s|rpcs=%s|refused", sc.label, sc.tail, optc, rp)
			continue
		}
		why := scriptWhy(m, sc.opt, out, keyVer, want)
		if len(why) > 0 {
			site := "signature-returned-without-a-confirmed-and-intact-answer(answer-sequence)"
			if !sc.opt.pss {
				site = "signature-returned-for-non-pss-sha256-options(answer-sequence)"
			}
			var log []string
			for k, e := range m.ex {
				if k >= 8 {
					log = append(log, "…")
					break
				}
				log = append(log, fmt.Sprintf("RPC %d (%s): request %v -> answer %v err=%v", k+1, e.step, e.req, e.resp, e.err))
			}
			c.Violate(core.Violation{Kind: "oracle", Entry: eSign, Site: site, Gen: g, Case: i,
				Detail: fmt.Sprintf("Sign returned a %d-byte signature and no error after %d AsymmetricSign RPCs although %v", len(out), rpcs, why),
				Witness: map[string]any{"script": texts, "afterwards": sc.tail, "opts": sc.opt.name, "digest": fmt.Sprintf("%x", want), "key_version": keyVer,
					"returned": fmt.Sprintf("%x", out), "exchanges": log}})
			c.Cell("Sign|answer-sequence|%s|tail=%s|opts=%s|rpcs=%s|VIOLATION", sc.label, sc.tail, optc, rp)
			continue
		}
		ss.returned++
		sst.acceptedLegit++
		c.Cell("Sign|answer-sequence|%s|tail=%s|opts=%s|rpcs=%s|signature-returned", sc.label, sc.tail, optc, rp)
	}
	c.Count("sign/answer-sequences/cases", 1)
}

// answerDefects lists why, by the property, the signature of this one answer may not be returned.
func answerDefects(e exchange, keyVer string, digest []byte) []string {
	var why []string
	if crc(e.sig) != e.resp.GetSignatureCrc32C().GetValue() {
		why = append(why, fmt.Sprintf("crc32c(its signature)=%d but its signature_crc32c=%d", crc(e.sig), e.resp.GetSignatureCrc32C().GetValue()))
	}
	if !e.resp.GetVerifiedDigestCrc32C() {
		why = append(why, "it does not confirm digest_crc32c (verified_digest_crc32c=false)")
	}
	if e.req.GetDataCrc32C() != nil && !e.resp.GetVerifiedDataCrc32C() {
		why = append(why, "the request carried data_crc32c and it does not confirm it (verified_data_crc32c=false)")
	}
	if e.req.GetName() != keyVer || !bytes.Equal(e.req.GetDigest().GetSha256(), digest) {
		why = append(why, "its request did not carry the given key version name and digest")
	}
	return why
}

// scriptWhy is the oracle for a call of Sign that returned a signature and no error after any
// number of exchanges: empty when the options are RSA-PSS/SHA-256 and the returned bytes are the
// signature of at least one delivered answer without defects.
func scriptWhy(m *scriptModel, opt optCase, out []byte, keyVer string, digest []byte) []string {
	m.mu.Lock()
	defer m.mu.Unlock()
	var why []string
	if !opt.pss {
		why = append(why, "the signer options are not RSA-PSS with SHA-256 ("+opt.name+")")
	}
	answers, same := 0, 0
	var bad []string
	for k, e := range m.ex {
		if e.resp == nil {
			continue
		}
		answers++
		if !bytes.Equal(out, e.sig) {
			continue
		}
		same++
		d := answerDefects(e, keyVer, digest)
		if len(d) == 0 {
			return why // an intact, confirmed answer carries exactly these bytes
		}
		bad = append(bad, fmt.Sprintf("answer %d of %d (%s) carries the returned bytes, but %s", k+1, len(m.ex), e.step, strings.Join(d, "; ")))
	}
	switch {
	case answers == 0:
		why = append(why, fmt.Sprintf("the service delivered no answer at all (%d RPCs, all failed)", len(m.ex)))
	case same == 0:
		why = append(why, fmt.Sprintf("the returned bytes are not the signature of any of the %d answers delivered during the call", answers))
	default:
		why = append(why, bad...)
		why = append(why, "no other answer delivered during the call carries the returned bytes")
	}
	return why
}
