// Package c20: Cloud KMS signing and key lifecycle are integrity-checked and complete.
//
// The repository code (keys/gcpkms: Signer.Sign, Manager.Wipeout, CreateNewRootKey,
// CreateFirstSigningKey, CreateNewSigningKeyVersion, DestroyKeyVersion) runs against an
// in-process model of the KMS service (kmsmodel.go, sign.go). Decisions come from the
// model's ground truth (final key-version states, the response actually delivered) and from
// a logical RPC budget that the model enforces; no decision depends on the wall clock.
package c20

import (
	"context"
	"encoding/json"
	"errors"
	"fmt"
	"math/rand/v2"
	"runtime/debug"
	"sort"
	"strings"
	"sync"

	"github.com/google/gce-tcb-verifier/cmd/output"
	"github.com/google/gce-tcb-verifier/keys/gcpkms"
	"google.golang.org/grpc/codes"
	"google.golang.org/grpc/status"

	"verifharness/core"
)

func init() {
	core.Register(&core.Info{
		ID: "C20", Level: "fault_enumeration",
		Rule: "scenario = (entry point, key ring of 0..3 keys [or 99..300 keys] with per-key version counts from {0,1,99,100,101,200,250,...} in generated state mixes over all 10 version states, " +
			"one legal AIP-158 pagination behaviour of the model service {full pages; server cap 1/50/99; ragged page lengths; ragged with empty pages that carry a token; token on the last full page followed by an empty page}, " +
			"version template of newly created versions {enabled; pending->enabled; pending->generation failed; pending->destroyed}, keep_going). Every scenario runs once fault-free; then the same world is rebuilt and the p-th RPC fails, " +
			"for every position p of the fault-free trace (sampled when the trace is longer than the tier's bound) with gRPC error classes in rotation; " +
			"every such position is also the start of a burst of 3 failing RPCs, of an outage of the whole service (all later RPCs fail; any class and a transient class {UNAVAILABLE, DEADLINE_EXCEEDED, ABORTED, CANCELLED, RESOURCE_EXHAUSTED}), " +
			"of an outage of that one method (transient class), and the moment the caller's context ends (deadline / cancellation: Done() closes and that RPC and all later ones answer the status a gRPC client makes from the context error). " +
			"The slow batch repeats outage, method outage, burst and context end at the second poll of a version that never completes. " +
			"Appended: every position is also the point BETWEEN two RPCs at which the caller's context ends (that RPC is still answered; Done() is closed when its answer arrives; later RPCs answer the context's status, or, with a client that does not look at the context, go on being answered); " +
			"and a long-poll batch: 6 (thorough 12) concurrent scenarios over rotation and every bootstrap path in which the version answers PENDING_GENERATION to 2..3 (thorough 2..4) polls in a row and ENABLED afterwards, under a context that is alive; a watchdog ends that context only after the call has sent no RPC for 20 consecutive seconds (4 poll intervals), which together with not returning the enabled version is the stall verdict. " +
			"Oracles: (budget) the model stops answering after 2*(versions+keys)+10*pages+100 RPCs, reaching that is non-termination (a call that goes on for 3*budget+1000 RPCs is aborted by the model); (wipeout) nil result => no ENABLED/DISABLED version in the ring, and a fault-free wipeout leaves none; " +
			"(bootstrap) nil result => the returned name is an ENABLED version of the requested key, and when the key had an ENABLED version beforehand it is one of those (no pending one preferred, no new one minted); " +
			"(rotation) nil result => the returned version is ENABLED; (destroy) nil result => the version is not ENABLED/DISABLED. " +
			"Signer.Sign: for signatures of 1..512 bytes every single-bit flip of the delivered signature, every bit of signature_crc32c, the verified flags, lost request checksums, structural checksum/signature corruptions, random double flips, service errors, " +
			"wrong digest lengths and 15 non-PSS/SHA-256 option values; a returned signature => delivered checksum equals CRC32C of the delivered signature, verified_digest_crc32c (and verified_data_crc32c when data_crc32c was sent) true, " +
			"options are *rsa.PSSOptions with SHA-256, returned bytes are the delivered ones. Refusals are counted, never judged. " +
			"Appended audit dimensions (same oracles, every call judged on its own): (i) kept manager: sessions of 6-10 lifecycle calls through ONE Manager and ONE context whose output.Options, BootstrapContext and SigningKeyContext the caller edits in place between calls (keep_going, key ids, operators), over ONE model world that persists, with another actor changing the world between calls (disables/destroys the version a call returned, adds pending versions, adds a page of destroyed versions), fault plans on a third of the calls (so failed calls are retried through the same manager) and now and then a call through a fresh Manager; " +
			"(ii) kept signer: 64 calls through ONE Signer, the caller keeping one *rsa.PSSOptions value edited in place, one digest buffer refilled in place, overwriting the bytes the previous call returned, honest/corrupted/failed responses and PSS-SHA-256/other options in PRNG order; " +
			"(iii) Sign calls in flight together: groups of 3-6 calls through one Signer / one Manager / all their own, held inside AsymmetricSign by the model until every call of the group has sent its request or returned, then each answered with its own planned response (calls told apart by a context value); " +
			"(iv) lifecycle calls in flight together: groups of 2-3 calls (own Manager, own world, identical resource names), a PRNG scheduler gives the turn at every RPC so that exactly one runs at a time and the interleaving is a function of the seed; " +
			"(v) signatures whose CRC32C is forced to 0x00000001, 0x7fffffff, 0x80000000, 0x80000001, 0xfffffffe, 0xffffffff with the complete probe family; " +
			"(vi) answer sequences within ONE call of Sign: the n-th AsymmetricSign RPC of the call is answered by the n-th step of a script (every ordered pair of 17 answer kinds {honest; signature bit; checksum bit; checksum absent; checksum+2^32; truncated; digest/data/both unconfirmed; digest/data checksum lost; another digest signed and said so; consistent replacement; empty answer; 3 error classes} x tail {last step repeats; honest afterwards}, and drawn scripts of 3-5 steps, a sixth of them with other options), every exchange recorded; " +
			"a returned signature => PSS/SHA-256 options and the returned bytes are the signature of SOME answer delivered during the call that is intact and confirmed (asking again and the choice among acceptable answers are not judged). " +
			"non-trivial = a scenario whose fault-free trace reached the entry point's RPCs (faulted runs: the fault position was reached); distinct = (entry, keys, first key's version count, state mix, pagination, fault method:class or none, outcome) cells",
		Assumptions: []string{
			"the model only produces listings AIP-158 allows: a page may be shorter than requested (also empty) while a token is present; only an empty next_page_token ends a listing; total_size is the size of the whole collection; page tokens are opaque and validated",
			"version states change only when the service is asked (a pending version becomes enabled at a GetCryptoKeyVersion call): a legal linearisation of the real, time-driven generation",
			"the 5-second poll interval of waitForKeyVersionGen is real time; the few scenarios that wait run concurrently in one case and nothing is decided by elapsed time",
			"a faulted wipeout is only required to be honest (nil => complete), not complete",
			"a fault sequence may fail every call from some point on (the quantifier's 'service errors at each call'); termination is then still demanded within the RPC budget, which leaves room for about a hundred retries but not for retrying as long as the service fails; what a call returns under an outage or an ended context is not judged beyond the nil-result rules",
			"the caller's context is ended by the model at an RPC (a context.Context implementation without a timer), never by a clock; the one exception is the long-poll batch's watchdog, which ends the context of a call that has sent no RPC for 20 consecutive on-time one-second looks (a look that came late restarts the count) although its version is pending and no RPC failed",
		"the repository polls a pending version at intervals of 5 s; a polling loop that stays silent for four such intervals while its context is alive has stopped polling (an interval of 20 s or more would be reported as a stall)",
			"the property's per-call guarantees hold for every call whatever the same Manager/Signer or the same process did before or does at the same time (calls on different worlds only; two lifecycle calls never share a world, so no rule has to arbitrate between them); another actor changes a world only between two calls, never during one",
			"creation of a fresh version when a key has neither an enabled nor a pending version is the repository's choice and is not judged; typed-nil signer options and an empty signature without checksum are outside the quantifier and only noted",
		},
		ShardsQuick: 8, ShardsThor: 16, TimeoutS: 600, TimeoutThor: 3000, Run: run,
	})
}

const (
	projectID  = "p"
	locationID = "l"
	ringID     = "r"
	rootKeyID  = "root"
	signKeyID  = "sign"
	ringName   = "projects/p/locations/l/keyRings/r"

	eWipeout  = "Manager.Wipeout"
	eBootRoot = "Manager.CreateNewRootKey"
	eBootSign = "Manager.CreateFirstSigningKey"
	eRotate   = "Manager.CreateNewSigningKeyVersion"
	eDestroy  = "Manager.DestroyKeyVersion"
	eSign     = "Signer.Sign"
)

type faultClass struct {
	name string
	err  error
}

func faultClasses() []faultClass {
	return []faultClass{
		{"Unavailable", status.Error(codes.Unavailable, "verif: injected UNAVAILABLE")},
		{"Internal", status.Error(codes.Internal, "verif: injected INTERNAL")},
		{"DeadlineExceeded", status.Error(codes.DeadlineExceeded, "verif: injected DEADLINE_EXCEEDED")},
		{"PermissionDenied", status.Error(codes.PermissionDenied, "verif: injected PERMISSION_DENIED")},
		{"NotFound", status.Error(codes.NotFound, "verif: injected NOT_FOUND")},
		{"AlreadyExists", status.Error(codes.AlreadyExists, "verif: injected ALREADY_EXISTS")},
		{"FailedPrecondition", status.Error(codes.FailedPrecondition, "verif: injected FAILED_PRECONDITION")},
		{"plain-error", errors.New("verif: injected transport error")},
	}
}

// transientClasses are the codes retry logic is usually written for: failures that "may go away".
func transientClasses() []faultClass {
	return []faultClass{
		{"Unavailable", status.Error(codes.Unavailable, "verif: injected UNAVAILABLE")},
		{"DeadlineExceeded", status.Error(codes.DeadlineExceeded, "verif: injected DEADLINE_EXCEEDED")},
		{"Aborted", status.Error(codes.Aborted, "verif: injected ABORTED")},
		{"Canceled", status.Error(codes.Canceled, "verif: injected CANCELLED")},
		{"ResourceExhausted", status.Error(codes.ResourceExhausted, "verif: injected RESOURCE_EXHAUSTED (quota)")},
	}
}

func planOf(mode string, at int, fc faultClass) faultPlan {
	p := faultPlan{At: at, Mode: mode, Class: fc.name, err: fc.err}
	switch mode {
	case "burst":
		p.Span = 3
	case "ctx-deadline":
		p.Class, p.err = "DeadlineExceeded(context)", nil
	case "ctx-cancel":
		p.Class, p.err = "Canceled(context)", nil
	case "ctx-deadline-after":
		p.Class, p.err = "DeadlineExceeded(context)", nil
	case "ctx-cancel-after", "ctx-cancel-unheeded":
		p.Class, p.err = "Canceled(context)", nil
	}
	return p
}

// ---- scenario description ----

type keySpec struct {
	ID     string         `json:"id"`
	Mix    string         `json:"mix"`
	N      int            `json:"versions"`
	RLE    string         `json:"states"`
	states []vstate       // one per version
	polls  map[int]int    // pending versions that need more than one look (slow scenarios only)
	after  map[int]vstate // what a pending version becomes (default ENABLED)
	names  []string
}

type scen struct {
	Entry       string      `json:"entry"`
	Keys        []keySpec   `json:"keys"`
	RingExists  bool        `json:"ring_exists"`
	KeepGoing   bool        `json:"keep_going"`
	Paging      paging      `json:"paging"`
	Tmpl        verTemplate `json:"new_version_template"`
	Target      string      `json:"target,omitempty"` // key id (bootstrap, rotation) or version name (destroy)
	CancelAtGet int         `json:"cancel_context_at_get,omitempty"`
	Class       string      `json:"class"` // cell prefix
	// key ids when they are not the default ones (kept-manager sessions edit them between calls)
	RootID string `json:"root_key_id,omitempty"`
	SignID string `json:"signing_key_id,omitempty"`
}

func (sc *scen) rootID() string {
	if sc.RootID != "" {
		return sc.RootID
	}
	return rootKeyID
}

func (sc *scen) signID() string {
	if sc.SignID != "" {
		return sc.SignID
	}
	return signKeyID
}

func rle(st []vstate) string {
	var b strings.Builder
	for i := 0; i < len(st); {
		j := i
		for j < len(st) && st[j] == st[i] {
			j++
		}
		if b.Len() > 0 {
			b.WriteByte(' ')
		}
		fmt.Fprintf(&b, "%s*%d", st[i], j-i)
		i = j
	}
	return b.String()
}

func mkKey(id, mix string, states []vstate) keySpec {
	k := keySpec{ID: id, Mix: mix, N: len(states), states: states, RLE: rle(states)}
	k.names = make([]string, len(states))
	for i := range states {
		k.names[i] = fmt.Sprintf("%s/cryptoKeys/%s/cryptoKeyVersions/%d", ringName, id, i+1)
	}
	return k
}

func lateIndex(n int, r *rand.Rand) int {
	if n > 100 {
		return 100 + r.IntN(n-100)
	}
	return n - 1
}

func genStates(mix string, n int, r *rand.Rand) []vstate {
	st := make([]vstate, n)
	dead := func() {
		for i := range st {
			st[i] = deadStates[r.IntN(len(deadStates))]
		}
	}
	if n == 0 {
		return st
	}
	switch mix {
	case "enabled":
		for i := range st {
			st[i] = stEnabled
		}
	case "disabled":
		for i := range st {
			st[i] = stDisabled
		}
	case "dead":
		dead()
	case "live-first":
		dead()
		st[0] = stEnabled
	case "live-last":
		dead()
		st[n-1] = stEnabled
	case "live-late":
		dead()
		st[lateIndex(n, r)] = stEnabled
	case "disabled-late":
		dead()
		st[lateIndex(n, r)] = stDisabled
	case "pending-then-enabled":
		dead()
		p := r.IntN(max(1, n/2))
		st[p] = stPending
		if n-p-1 > 0 {
			e := p + 1 + r.IntN(n-p-1)
			if n > 100 && r.IntN(2) == 0 {
				e = max(e, lateIndex(n, r))
			}
			st[e] = stEnabled
		}
	case "pending-only":
		dead()
		st[r.IntN(n)] = stPending
	case "pending-late":
		dead()
		st[lateIndex(n, r)] = stPending
	default: // mixed
		for i := range st {
			st[i] = allStates[r.IntN(len(allStates))]
		}
	}
	return st
}

func mkPaging(name string, r *rand.Rand) paging {
	salt := r.Uint64()
	switch name {
	case "cap1":
		return paging{Kind: "cap", Cap: 1}
	case "cap7":
		return paging{Kind: "cap", Cap: 7}
	case "cap50":
		return paging{Kind: "cap", Cap: 50}
	case "cap99":
		return paging{Kind: "cap", Cap: 99}
	case "ragged", "sparse":
		return paging{Kind: name, Salt: salt}
	}
	return paging{Kind: name}
}

// ---- building and running one scenario ----

func (sc *scen) build() *model {
	m := newModel(sc.Paging)
	m.tmpl = sc.Tmpl
	nver, pages := 0, 0
	if sc.RingExists {
		r := &mring{name: ringName}
		m.rings[ringName] = r
		for ki := range sc.Keys {
			ks := &sc.Keys[ki]
			k := &mkey{name: ringName + "/cryptoKeys/" + ks.ID, idx: make(map[string]*mver, ks.N)}
			store := make([]mver, ks.N)
			for i, s := range ks.states {
				v := &store[i]
				v.name, v.state, v.after = ks.names[i], s, stEnabled
				if p, ok := ks.polls[i]; ok {
					v.polls = p
				}
				if a, ok := ks.after[i]; ok {
					v.after = a
				}
				k.add(v)
			}
			r.add(k)
			nver += ks.N
			pages += sc.Paging.pages(ks.N, 100)
		}
		pages += sc.Paging.pages(len(sc.Keys), 100)
	}
	m.budget = 2*(nver+len(sc.Keys)) + 10*pages + 100
	m.hardLimit = 3*m.budget + 1000
	return m
}

type outcome struct {
	name     string
	err      error
	panicked bool
	m        *model
	pre      map[string]bool // versions of the target key that were ENABLED before the call
	prePend  map[string]bool // ... that were PENDING_GENERATION before the call
}

func (sc *scen) targetKeyName() string {
	switch sc.Entry {
	case eBootRoot:
		return ringName + "/cryptoKeys/" + sc.rootID()
	case eBootSign, eRotate:
		return ringName + "/cryptoKeys/" + sc.signID()
	}
	return ""
}

// call runs the entry point of the scenario on a freshly built world.
func (sc *scen) call(fp faultPlan, guard func(f func()) bool) outcome {
	return sc.callSetup(fp, nil, guard)
}

// callWith is call with a hook that configures the freshly built world, without a guard of its
// own (the caller recovers panics).
func (sc *scen) callWith(fp faultPlan, setup func(m *model)) outcome {
	return sc.callSetup(fp, setup, func(f func()) bool { f(); return false })
}

func (sc *scen) callSetup(fp faultPlan, setup func(m *model), guard func(f func()) bool) outcome {
	return sc.callBase(fp, setup, guard, nil)
}

// callBase is callSetup with the caller's context chosen by the workload (nil: Background).
func (sc *scen) callBase(fp faultPlan, setup func(m *model), guard func(f func()) bool, parent context.Context) outcome {
	m := sc.build()
	m.plan = fp
	if setup != nil {
		setup(m)
	}
	o := outcome{m: m, pre: map[string]bool{}, prePend: map[string]bool{}}
	if k := m.findKey(sc.targetKeyName()); k != nil {
		for _, v := range k.vers {
			if v.state == stEnabled {
				o.pre[v.name] = true
			}
			if v.state == stPending {
				o.prePend[v.name] = true
			}
		}
	}
	base := context.Background()
	if parent != nil {
		base = parent
	}
	if fp.endsCtx() {
		m.endable = newEndableCtx(base)
		base = m.endable
	}
	ctx := output.NewContext(base, &output.Options{Quiet: true, KeepGoing: sc.KeepGoing})
	ctx = gcpkms.NewBootstrapContext(ctx, &gcpkms.BootstrapContext{RootKeyID: rootKeyID, SigningKeyID: signKeyID,
		SigningKeyOperators: []string{"serviceAccount:signer@p.iam.gserviceaccount.com"}})
	ctx = gcpkms.NewSigningKeyContext(ctx, &gcpkms.SigningKeyContext{SigningKeyID: signKeyID})
	if sc.CancelAtGet > 0 {
		var cancel context.CancelFunc
		ctx, cancel = context.WithCancel(ctx)
		defer cancel()
		m.cancel, m.cancelAtGet = cancel, sc.CancelAtGet
	}
	mgr := &gcpkms.Manager{Project: projectID, Location: locationID, KeyRingID: ringID, KeyClient: m, IAMClient: &iamModel{m: m}}
	o.panicked = guard(func() { o.name, o.err = invoke(mgr, ctx, sc.Entry, sc.Target, m) })
	return o
}

// invoke calls one entry point of mgr. A call that the model had to abort at the hard RPC limit
// (hardStop panic out of the model) is turned into errAborted; any other panic goes on.
func invoke(mgr *gcpkms.Manager, ctx context.Context, entry, target string, m *model) (name string, err error) {
	defer func() {
		if m.parked.Load() { // the model aborted a call that would not end; not a panic of the repository
			if rec := recover(); rec != nil {
				if _, ok := rec.(hardStop); !ok {
					panic(rec)
				}
				name, err = "", errAborted
			}
		}
	}()
	switch entry {
	case eWipeout:
		err = mgr.Wipeout(ctx)
	case eBootRoot:
		name, err = mgr.CreateNewRootKey(ctx)
	case eBootSign:
		name, err = mgr.CreateFirstSigningKey(ctx)
	case eRotate:
		name, err = mgr.CreateNewSigningKeyVersion(ctx)
	case eDestroy:
		err = mgr.DestroyKeyVersion(ctx, target)
	}
	return name, err
}

var errAborted = errors.New("verif: the call did not return; aborted by the model at the hard RPC limit")

type finding struct{ rule, detail string }

// judge applies the oracles to the final state of the model. class is the outcome class for cells.
func (sc *scen) judge(o outcome, faulted bool) (fs []finding, class string) {
	m := o.m
	m.mu.Lock()
	defer m.mu.Unlock()
	if m.budgetHit {
		how := "was only ended by the model refusing further calls"
		if m.parked.Load() {
			how = fmt.Sprintf("went on although the model refused every further call, until it was aborted after %d RPCs", m.calls)
		}
		fs = append(fs, finding{"call-budget-exhausted", fmt.Sprintf("the call issued more than the scenario's budget of %d RPCs (%s) and %s; faults: %s (%d RPCs answered with the planned failure); result err=%v",
			m.budget, m.perMethod(), how, m.plan, m.faultsDone, o.err)})
	}
	class = "ok"
	if o.err != nil {
		class = "error"
	}
	switch sc.Entry {
	case eWipeout:
		liveLeft, pendingLeft, first := 0, 0, ""
		if r := m.rings[ringName]; r != nil {
			for _, k := range r.keys {
				for _, v := range k.vers {
					if live(v.state) {
						if liveLeft == 0 {
							first = shortName(v.name) + " " + v.state.String()
						}
						liveLeft++
					}
					if v.state == stPending {
						pendingLeft++
					}
				}
			}
		}
		if liveLeft > 0 && o.err == nil {
			fs = append(fs, finding{"wipeout-returned-nil-with-live-version-left", fmt.Sprintf("Wipeout returned nil but %d ENABLED/DISABLED versions remain (first: %s); %d destroyed; RPCs: %s",
				liveLeft, first, m.destroyed, m.perMethod())})
		} else if liveLeft > 0 && !faulted && !m.budgetHit {
			fs = append(fs, finding{"fault-free-wipeout-left-live-version", fmt.Sprintf("no RPC failed, yet Wipeout left %d ENABLED/DISABLED versions (first: %s) and returned %v", liveLeft, first, o.err)})
		}
		if o.err == nil {
			class = fmt.Sprintf("complete(destroyed>0=%v,pending-left=%v)", m.destroyed > 0, pendingLeft > 0)
		}
	case eBootRoot, eBootSign:
		if o.err != nil {
			break
		}
		v := m.findVer(o.name)
		switch {
		case v == nil || !strings.HasPrefix(o.name, sc.targetKeyName()+"/cryptoKeyVersions/"):
			fs = append(fs, finding{"bootstrap-returned-non-enabled-version", fmt.Sprintf("returned %q, which is not a version of %s", o.name, sc.targetKeyName())})
		case v.state != stEnabled:
			fs = append(fs, finding{"bootstrap-returned-non-enabled-version", fmt.Sprintf("returned %s whose state is %v", shortName(o.name), v.state)})
		}
		switch {
		case o.pre[o.name]:
			class = "selected-existing-enabled"
		case v != nil && v.created:
			class = "created-new-version"
		default:
			class = "waited-for-pending"
		}
		some := func(set map[string]bool) []string {
			var had []string
			for n := range set {
				had = append(had, shortName(n))
			}
			sort.Strings(had)
			if len(had) > 4 {
				had = append(had[:4], "…")
			}
			return had
		}
		if len(o.pre) == 0 && len(o.prePend) > 0 && !o.prePend[o.name] {
			fs = append(fs, finding{"bootstrap-ignored-existing-pending-version", fmt.Sprintf("the key had no ENABLED but PENDING_GENERATION version(s) %v to wait for, yet the call returned %s (%s; versions created during the call: %d); RPCs: %s",
				some(o.prePend), shortName(o.name), class, len(m.created), m.perMethod())})
		}
		if len(o.pre) > 0 && !o.pre[o.name] {
			had := some(o.pre)
			fs = append(fs, finding{"bootstrap-ignored-existing-enabled-version", fmt.Sprintf("the key already had ENABLED version(s) %v, but the call returned %s (%s; versions created during the call: %d); RPCs: %s",
				had, shortName(o.name), class, len(m.created), m.perMethod())})
		}
	case eRotate:
		if o.err != nil {
			break
		}
		v := m.findVer(o.name)
		if v == nil || v.state != stEnabled || !strings.HasPrefix(o.name, sc.targetKeyName()+"/cryptoKeyVersions/") {
			st := "unknown to the service"
			if v != nil {
				st = v.state.String()
			}
			fs = append(fs, finding{"rotation-returned-non-enabled-version", fmt.Sprintf("returned %q whose state is %s", shortName(o.name), st)})
		}
		if v != nil && v.created {
			class = "returned-created-version"
		} else {
			class = "returned-other-version"
		}
	case eDestroy:
		if v := m.findVer(sc.Target); o.err == nil && (v == nil || live(v.state)) {
			fs = append(fs, finding{"destroy-returned-nil-with-live-version", fmt.Sprintf("DestroyKeyVersion(%s) returned nil but the version is %v", shortName(sc.Target), v)})
		}
	}
	if len(fs) > 0 {
		class = "VIOLATION"
	}
	return fs, class
}

func (sc *scen) witness(o outcome) map[string]any {
	o.m.mu.Lock()
	defer o.m.mu.Unlock()
	w := map[string]any{"scenario": sc, "rpcs": o.m.calls, "budget": o.m.budget, "rpcs_by_method": o.m.perMethod(), "calls_excerpt": o.m.logExcerpt(),
		"returned_name": o.name, "returned_error": fmt.Sprint(o.err)}
	if o.m.plan.active() {
		w["fault"] = map[string]any{"plan": o.m.plan, "reached": o.m.faultHit, "method": o.m.faultMethod, "triggered_at_rpc": o.m.faultFrom,
			"rpcs_answered_with_the_failure": o.m.faultsDone}
	}
	return w
}

func (sc *scen) cellPrefix() string {
	n0, mix := 0, "-"
	if len(sc.Keys) > 0 {
		n0, mix = sc.Keys[0].N, sc.Keys[0].Mix
	}
	nk := len(sc.Keys)
	nkc := fmt.Sprint(nk)
	if nk > 3 {
		nkc = "many"
		if nk%100 == 0 {
			nkc = "many(multiple of page size)"
		}
	}
	return fmt.Sprintf("%s|%s|keys=%s|n0=%d|mix=%s|paging=%s", sc.Entry, sc.Class, nkc, n0, mix, sc.Paging)
}

type stats struct {
	mu                                     sync.Mutex
	multiPageFollowed, wipeoutsWithDestroy int
	bootExisting, bootWaited, bootCreated  int
	rotEnabled, rotRefused                 int
	faultsReached                          map[string]int
	modesReached                           map[string]int
	slowWaited                             int
}

// positions of the fault-free trace at which the RPC is made to fail.
func faultPositions(t, bound int, r *rand.Rand) []int {
	if t <= bound {
		ps := make([]int, t)
		for i := range ps {
			ps[i] = i + 1
		}
		return ps
	}
	set := map[int]bool{1: true, 2: true, 3: true, t: true, t - 1: true, t - 2: true}
	for p := 100; p < t; p += 100 { // around page boundaries of the repository's page size
		set[p], set[p+1], set[p+2] = true, true, true
	}
	for len(set) < bound {
		set[1+r.IntN(t)] = true
	}
	ps := make([]int, 0, len(set))
	for p := range set {
		if p >= 1 && p <= t {
			ps = append(ps, p)
		}
	}
	sort.Ints(ps)
	return ps
}

func specBytes(sc *scen) []byte {
	b, _ := json.Marshal(sc)
	return b
}

// lifecycleCase runs one scenario fault-free and then with a fault at each position.
func lifecycleCase(c *core.Ctx, i int, sc *scen, r *rand.Rand, st *stats) {
	gname := fmt.Sprintf("scenario#%d %s", i, sc.cellPrefix())
	guard := func(g string) func(f func()) bool {
		return func(f func()) bool { return c.Guard(i, sc.Entry, g, core.Budget{}, f).Panicked }
	}
	o := sc.call(faultPlan{}, guard(gname+" fault=none"))
	if o.panicked {
		c.Cell("%s|fault=none|panic", sc.cellPrefix())
		return
	}
	fs, class := sc.judge(o, false)
	for _, f := range fs {
		c.Violate(core.Violation{Kind: "oracle", Entry: sc.Entry, Site: f.rule, Gen: gname + " fault=none", Case: i, Detail: f.detail, Witness: sc.witness(o)})
	}
	c.Cell("%s|fault=none|%s", sc.cellPrefix(), class)
	c.Count("scenarios/"+sc.Entry, 1)
	c.Count("outcome/"+sc.Entry+"/"+class, 1)
	c.Count("paging/"+sc.Paging.String(), 1)
	c.Max("rpcs-per-scenario/"+sc.Entry, int64(o.m.calls))
	c.Count("rpcs-total", o.m.calls)
	st.mu.Lock()
	if o.m.tokensUsed > 0 && len(fs) == 0 {
		st.multiPageFollowed++
		c.Count("scenarios-in-which-a-served-page-token-was-followed", 1)
	}
	switch {
	case sc.Entry == eWipeout && o.err == nil && o.m.destroyed > 0 && len(fs) == 0:
		st.wipeoutsWithDestroy++
	case class == "selected-existing-enabled":
		st.bootExisting++
	case class == "waited-for-pending":
		st.bootWaited++
	case class == "created-new-version":
		st.bootCreated++
	case sc.Entry == eRotate && o.err == nil && len(fs) == 0:
		st.rotEnabled++
	case sc.Entry == eRotate && o.err != nil:
		st.rotRefused++
	}
	st.mu.Unlock()
	if i%37 == 0 || len(fs) > 0 {
		c.Sample(map[string]any{"case": i, "scenario": gname, "rpcs": o.m.calls, "budget": o.m.budget, "by_method": o.m.perMethod(), "outcome": class, "error": fmt.Sprint(o.err)})
	}
	if o.m.budgetHit {
		return // no meaningful trace to enumerate faults over
	}
	t := o.m.calls
	classes := faultClasses()
	per := 1
	if c.Thorough() {
		per = 2
	}
	trans := transientClasses()
	for _, p := range faultPositions(t, c.N(120, 300), r) {
		// one failing RPC (as before), then the same position as the start of a burst, of an outage
		// of the whole service or of the one method, and as the moment the caller's context ends
		plans := make([]faultPlan, 0, 11)
		for k := 0; k < per; k++ {
			plans = append(plans, planOf("single", p, classes[(p+i+k*3)%len(classes)]))
		}
		plans = append(plans,
			planOf("burst", p, classes[(p+i+1)%len(classes)]),
			planOf("outage", p, classes[(p+i+2)%len(classes)]),
			planOf("outage", p, trans[(p+i)%len(trans)]),
			planOf("method-outage", p, trans[(p+i+2)%len(trans)]),
			planOf("ctx-deadline", p, faultClass{}),
			planOf("ctx-cancel", p, faultClass{}),
			// appended in the fifth round: the context ends BETWEEN this RPC and the next one
			planOf("ctx-deadline-after", p, faultClass{}),
			planOf("ctx-cancel-after", p, faultClass{}),
			planOf("ctx-cancel-unheeded", p, faultClass{}))
		for _, fp := range plans {
			g := fmt.Sprintf("%s fault=%s/%d", gname, fp, t)
			of := sc.call(fp, guard(g))
			flabel := fp.Class
			if fp.Mode != "single" {
				flabel = fp.Mode + ":" + fp.Class
			}
			if of.panicked {
				c.Cell("%s|fault=%s|panic", sc.cellPrefix(), flabel)
				continue
			}
			ffs, fclass := sc.judge(of, true)
			for _, f := range ffs {
				site := f.rule + "(after-fault)"
				if fp.Mode != "single" {
					site = f.rule + "(" + fp.Mode + ")"
				}
				c.Violate(core.Violation{Kind: "oracle", Entry: sc.Entry, Site: site, Gen: g, Case: i, Detail: f.detail, Witness: sc.witness(of)})
			}
			if of.m.faultHit {
				c.Cell("%s|%s|paging=%s|fault=%s:%s|%s", sc.Entry, sc.Class, sc.Paging, of.m.faultMethod, flabel, fclass)
				c.Count("fault-runs/"+sc.Entry, 1)
				c.Count("fault-runs-by-mode/"+fp.Mode, 1)
				c.Count("fault-outcome/"+sc.Entry+"/"+of.m.faultMethod+"/"+fclass, 1)
				c.Max("rpcs-answered-with-the-failure-in-one-run/"+fp.Mode, int64(of.m.faultsDone))
				st.mu.Lock()
				st.faultsReached[sc.Entry]++
				st.modesReached[fp.Mode]++
				st.mu.Unlock()
			} else {
				c.Count("fault-position-not-reached", 1)
			}
		}
	}
}

// ---- the slow batch: scenarios that really wait for the 5-second poll ----

type slowScen struct {
	sc       *scen
	plan     faultPlan
	expectOK bool // informational only
	what     string
}

func slowBatch(c *core.Ctx, i int, st *stats) {
	dead := func(n int) []vstate {
		s := make([]vstate, n)
		for k := range s {
			s[k] = stDestroyed
		}
		return s
	}
	with := func(s []vstate, at int, v vstate) []vstate { s[at] = v; return s }
	polls := c.N(1, 2)
	const never = 1 << 30
	nthCall := func(p faultPlan, method string) faultPlan { p.Method = method; return p }
	pk := func(id string, states []vstate, at, polls int, after vstate) keySpec {
		k := mkKey(id, "pending-slow", states)
		k.polls = map[int]int{at: polls}
		k.after = map[int]vstate{at: after}
		return k
	}
	full := paging{Kind: "full"}
	list := []slowScen{
		{what: "root bootstrap of a fresh key whose first version needs polling",
			sc: &scen{Entry: eBootRoot, RingExists: false, Paging: full, Tmpl: verTemplate{State: stPending, Polls: polls, After: stEnabled}}},
		{what: "signing bootstrap, existing key, only a pending version among destroyed ones",
			sc: &scen{Entry: eBootSign, RingExists: true, KeepGoing: true, Paging: paging{Kind: "tokenlast"}, Keys: []keySpec{pk(signKeyID, with(dead(7), 3, stPending), 3, polls, stEnabled)}}},
		{what: "signing bootstrap, pending version on the second page",
			sc: &scen{Entry: eBootSign, RingExists: true, KeepGoing: true, Paging: full, Keys: []keySpec{pk(signKeyID, with(dead(150), 120, stPending), 120, 1, stEnabled)}}},
		{what: "rotation, created version needs polling",
			sc: &scen{Entry: eRotate, RingExists: true, Paging: full, Keys: []keySpec{mkKey(signKeyID, "enabled", []vstate{stEnabled})}, Tmpl: verTemplate{State: stPending, Polls: polls, After: stEnabled}}},
		{what: "rotation, generation fails after a poll",
			sc: &scen{Entry: eRotate, RingExists: true, Paging: full, Keys: []keySpec{mkKey(signKeyID, "enabled", []vstate{stEnabled})}, Tmpl: verTemplate{State: stPending, Polls: 1, After: stGenFail}}},
		{what: "root bootstrap, pending version gets destroyed while polled",
			sc: &scen{Entry: eBootRoot, RingExists: true, KeepGoing: true, Paging: full, Keys: []keySpec{pk(rootKeyID, with(dead(3), 1, stPending), 1, 1, stSched)}}},
		{what: "rotation, version pending forever, context cancelled during the second poll",
			sc: &scen{Entry: eRotate, RingExists: true, Paging: full, Keys: []keySpec{mkKey(signKeyID, "enabled", []vstate{stEnabled})}, Tmpl: verTemplate{State: stPending, Polls: 1 << 30, After: stEnabled}, CancelAtGet: 2}},
		{what: "rotation, the second poll fails",
			sc: &scen{Entry: eRotate, RingExists: true, Paging: full, Keys: []keySpec{mkKey(signKeyID, "enabled", []vstate{stEnabled})}, Tmpl: verTemplate{State: stPending, Polls: 3, After: stEnabled}}, plan: planOf("single", 3, faultClasses()[0])},
		{what: "signing bootstrap of a fresh key in an existing ring, first version needs polling, then IAM",
			sc: &scen{Entry: eBootSign, RingExists: true, Paging: paging{Kind: "cap", Cap: 1}, Tmpl: verTemplate{State: stPending, Polls: polls, After: stEnabled}}},
		// a version that never completes, and a service or a caller that gives up while it is being polled
		{what: "rotation, version pending forever, the service is down (UNAVAILABLE) from the second poll on",
			sc:   &scen{Entry: eRotate, RingExists: true, Paging: full, Keys: []keySpec{mkKey(signKeyID, "enabled", []vstate{stEnabled})}, Tmpl: verTemplate{State: stPending, Polls: never, After: stEnabled}},
			plan: nthCall(planOf("outage", 2, transientClasses()[0]), "GetCryptoKeyVersion")},
		{what: "rotation, version pending forever, polls answer DEADLINE_EXCEEDED from the second one on, everything else works",
			sc:   &scen{Entry: eRotate, RingExists: true, Paging: full, Keys: []keySpec{mkKey(signKeyID, "enabled", []vstate{stEnabled})}, Tmpl: verTemplate{State: stPending, Polls: never, After: stEnabled}},
			plan: nthCall(planOf("method-outage", 2, transientClasses()[1]), "GetCryptoKeyVersion")},
		{what: "signing bootstrap, only a pending version that never completes, the caller's deadline passes during the second poll",
			sc:   &scen{Entry: eBootSign, RingExists: true, KeepGoing: true, Paging: paging{Kind: "tokenlast"}, Keys: []keySpec{pk(signKeyID, with(dead(7), 3, stPending), 3, never, stEnabled)}},
			plan: nthCall(planOf("ctx-deadline", 2, faultClass{}), "GetCryptoKeyVersion")},
		{what: "root bootstrap of a fresh key whose first version never completes, the caller cancels during the second poll",
			sc:   &scen{Entry: eBootRoot, RingExists: false, Paging: full, Tmpl: verTemplate{State: stPending, Polls: never, After: stEnabled}},
			plan: nthCall(planOf("ctx-cancel", 2, faultClass{}), "GetCryptoKeyVersion")},
		{what: "signing bootstrap, pending version on the second page never completes, three polls in a row fail (ABORTED), then the service recovers and the version is enabled",
			sc:   &scen{Entry: eBootSign, RingExists: true, KeepGoing: true, Paging: full, Keys: []keySpec{pk(signKeyID, with(dead(150), 120, stPending), 120, 1, stEnabled)}},
			plan: nthCall(planOf("burst", 2, transientClasses()[2]), "GetCryptoKeyVersion")},
	}
	var wg sync.WaitGroup
	for si := range list {
		s := list[si]
		s.sc.Class = "slow"
		wg.Add(1)
		go func() {
			defer wg.Done()
			g := fmt.Sprintf("slow#%d %s: %s", si, s.sc.Entry, s.what)
			guard := func(f func()) (panicked bool) {
				defer func() {
					if rec := recover(); rec != nil {
						panicked = true
						c.Violate(core.Violation{Kind: "panic", Entry: s.sc.Entry, Site: core.PanicSite(debug.Stack()), Gen: g, Case: i, Detail: fmt.Sprint(rec)})
					}
				}()
				f()
				c.Eval(1)
				return false
			}
			o := s.sc.call(s.plan, guard)
			if o.panicked {
				return
			}
			fs, class := s.sc.judge(o, s.plan.active())
			for _, f := range fs {
				c.Violate(core.Violation{Kind: "oracle", Entry: s.sc.Entry, Site: f.rule, Gen: g, Case: i, Detail: f.detail, Witness: s.sc.witness(o)})
			}
			o.m.mu.Lock()
			gets := o.m.per["GetCryptoKeyVersion"]
			calls := o.m.calls
			o.m.mu.Unlock()
			c.Cell("%s|slow|%s|polls=%d|%s", s.sc.Entry, s.what, gets, class)
			if s.plan.active() && o.m.faultHit {
				c.Count("slow-scenarios-in-which-the-planned-failure-was-reached/"+s.plan.Mode, 1)
			}
			c.Count("slow-scenarios", 1)
			c.Max("polls-in-one-call", int64(gets))
			c.Count("rpcs-total", calls)
			if gets >= 2 && o.err == nil && len(fs) == 0 {
				st.mu.Lock()
				st.slowWaited++
				st.mu.Unlock()
			}
			c.Sample(map[string]any{"case": i, "scenario": g, "rpcs": calls, "polls": gets, "outcome": class, "error": fmt.Sprint(o.err)})
		}()
	}
	wg.Wait()
}

// ---- the case list ----

type caseDef struct {
	kind   string // sign | slow | life | audit dimensions: signseq | signconc | session | lifeconc
	sigLen int
	force  *uint32 // sign: the signature's CRC32C is forced to this value
	mk     func(r *rand.Rand) *scen
}

func otherKeys(k int, r *rand.Rand, pool []int, mixes []string) []keySpec {
	var ks []keySpec
	for j := 0; j < k; j++ {
		n := pool[r.IntN(len(pool))]
		mix := mixes[r.IntN(len(mixes))]
		ks = append(ks, mkKey(fmt.Sprintf("other%d", j+1), mix, genStates(mix, n, r)))
	}
	return ks
}

func buildCases(thorough bool) []caseDef {
	var cs []caseDef
	sigLens := []int{1, 32, 256}
	if thorough {
		sigLens = []int{1, 2, 32, 32, 255, 256, 256, 512, 512}
	}
	for _, l := range sigLens {
		cs = append(cs, caseDef{kind: "sign", sigLen: l})
	}
	cs = append(cs, caseDef{kind: "slow"})

	ns := []int{0, 1, 99, 100, 101, 200, 250}
	pgs := []string{"full", "cap50", "cap99", "cap1", "ragged", "sparse", "tokenlast"}
	if thorough {
		ns = []int{0, 1, 2, 50, 99, 100, 101, 199, 200, 201, 250, 300, 400}
		pgs = append(pgs, "cap7")
	}
	wmix := []string{"enabled", "disabled", "live-last", "live-late", "disabled-late", "mixed", "dead"}
	bmix := []string{"live-first", "live-last", "live-late", "pending-then-enabled", "pending-only", "pending-late", "dead", "disabled", "mixed"}

	wipe := func(n int, pg, mix string, k int) {
		cs = append(cs, caseDef{kind: "life", mk: func(r *rand.Rand) *scen {
			sc := &scen{Entry: eWipeout, RingExists: true, Paging: mkPaging(pg, r), Class: "ring"}
			sc.Keys = append(sc.Keys, mkKey("k0", mix, genStates(mix, n, r)))
			sc.Keys = append(sc.Keys, otherKeys(k-1, r, ns, wmix)...)
			r.Shuffle(len(sc.Keys)-1, func(a, b int) { sc.Keys[a+1], sc.Keys[b+1] = sc.Keys[b+1], sc.Keys[a+1] })
			return sc
		}})
	}
	boot := func(entry string, n int, pg, mix string, k int) {
		cs = append(cs, caseDef{kind: "life", mk: func(r *rand.Rand) *scen {
			id := rootKeyID
			if entry == eBootSign {
				id = signKeyID
			}
			sc := &scen{Entry: entry, RingExists: true, KeepGoing: true, Paging: mkPaging(pg, r), Class: "existing-key",
				Tmpl: verTemplate{State: stPending, Polls: 0, After: stEnabled}}
			sc.Keys = append(sc.Keys, mkKey(id, mix, genStates(mix, n, r)))
			sc.Keys = append(sc.Keys, otherKeys(k, r, []int{0, 1, 3, 100}, wmix)...)
			return sc
		}})
	}
	if thorough {
		for _, n := range ns {
			for _, pg := range pgs {
				for _, mix := range wmix {
					for k := 1; k <= 3; k++ {
						wipe(n, pg, mix, k)
					}
				}
				for _, mix := range bmix {
					boot(eBootRoot, n, pg, mix, len(mix)%3)
					boot(eBootSign, n, pg, mix, (len(mix)+1)%3)
				}
			}
		}
	} else {
		for ni, n := range ns {
			for pi, pg := range pgs {
				for round := 0; round < 2; round++ {
					wipe(n, pg, wmix[(ni+pi*3+round*4)%len(wmix)], 1+(ni+pi+round)%3)
				}
				for round := 0; round < 3; round++ {
					e := eBootRoot
					if (ni+pi+round)%2 == 1 {
						e = eBootSign
					}
					boot(e, n, pg, bmix[(ni*2+pi+round*3)%len(bmix)], (ni+round)%3)
				}
			}
		}
	}
	// an empty ring, and rings with about / exactly / more than a page of keys
	for _, pg := range pgs {
		pg := pg
		cs = append(cs, caseDef{kind: "life", mk: func(r *rand.Rand) *scen {
			return &scen{Entry: eWipeout, RingExists: true, Paging: mkPaging(pg, r), Class: "empty-ring"}
		}})
	}
	manyK := []int{99, 100, 101, 200}
	manyPg := []string{"full", "cap50", "ragged", "sparse", "tokenlast"}
	if thorough {
		manyK = []int{99, 100, 101, 199, 200, 201, 300}
	}
	for _, nk := range manyK {
		for _, pg := range manyPg {
			nk, pg := nk, pg
			cs = append(cs, caseDef{kind: "life", mk: func(r *rand.Rand) *scen {
				sc := &scen{Entry: eWipeout, RingExists: true, Paging: mkPaging(pg, r), Class: "many-keys"}
				for j := 0; j < nk; j++ {
					mix := []string{"enabled", "mixed", "disabled"}[r.IntN(3)]
					sc.Keys = append(sc.Keys, mkKey(fmt.Sprintf("k%d", j), mix, genStates(mix, r.IntN(3), r)))
				}
				// make sure something live sits behind the first page of keys
				last := &sc.Keys[len(sc.Keys)-1]
				*last = mkKey(last.ID, "enabled", []vstate{stEnabled, stDisabled})
				return sc
			}})
		}
	}
	// bootstrap of fresh keys
	tmpls := []verTemplate{{State: stEnabled}, {State: stPending, After: stEnabled}, {State: stPending, After: stGenFail}, {State: stPending, After: stSched}}
	for _, entry := range []string{eBootRoot, eBootSign} {
		for _, ringExists := range []bool{true, false} {
			for _, keep := range []bool{true, false} {
				for _, t := range tmpls {
					entry, ringExists, keep, t := entry, ringExists, keep, t
					cs = append(cs, caseDef{kind: "life", mk: func(r *rand.Rand) *scen {
						sc := &scen{Entry: entry, RingExists: ringExists, KeepGoing: keep, Paging: mkPaging(pgs[r.IntN(len(pgs))], r), Tmpl: t,
							Class: fmt.Sprintf("fresh-key(new=%v->%v)", t.State, t.After)}
						if ringExists {
							sc.Keys = otherKeys(r.IntN(3), r, []int{0, 1, 5}, wmix)
						}
						return sc
					}})
				}
			}
		}
		entry := entry
		cs = append(cs, caseDef{kind: "life", mk: func(r *rand.Rand) *scen { // key exists, keep_going off: refusal expected, counted
			id := rootKeyID
			if entry == eBootSign {
				id = signKeyID
			}
			return &scen{Entry: entry, RingExists: true, KeepGoing: false, Paging: paging{Kind: "full"}, Class: "existing-key-no-keep-going",
				Keys: []keySpec{mkKey(id, "enabled", []vstate{stEnabled})}, Tmpl: tmpls[1]}
		}})
	}
	// rotation
	for _, n := range []int{0, 1, 100} {
		for _, t := range tmpls {
			n, t := n, t
			cs = append(cs, caseDef{kind: "life", mk: func(r *rand.Rand) *scen {
				return &scen{Entry: eRotate, RingExists: true, Paging: mkPaging(pgs[r.IntN(len(pgs))], r), Tmpl: t, Class: fmt.Sprintf("rotate(new=%v->%v)", t.State, t.After),
					Keys: []keySpec{mkKey(signKeyID, "mixed", genStates("mixed", n, r))}}
			}})
		}
	}
	cs = append(cs, caseDef{kind: "life", mk: func(r *rand.Rand) *scen {
		return &scen{Entry: eRotate, RingExists: true, Paging: paging{Kind: "full"}, Tmpl: tmpls[1], Class: "rotate(key-missing)"}
	}})
	// destruction of one version in each state
	for si := range allStates {
		si := si
		cs = append(cs, caseDef{kind: "life", mk: func(r *rand.Rand) *scen {
			states := genStates("mixed", 5, r)
			states[2] = allStates[si]
			k := mkKey(signKeyID, "mixed", states)
			return &scen{Entry: eDestroy, RingExists: true, Paging: paging{Kind: "full"}, Keys: []keySpec{k}, Target: k.names[2], Class: "destroy(" + allStates[si].String() + ")"}
		}})
	}
	cs = append(cs, caseDef{kind: "life", mk: func(r *rand.Rand) *scen {
		return &scen{Entry: eDestroy, RingExists: true, Paging: paging{Kind: "full"}, Keys: []keySpec{mkKey(signKeyID, "enabled", []vstate{stEnabled})},
			Target: ringName + "/cryptoKeys/" + signKeyID + "/cryptoKeyVersions/77", Class: "destroy(missing)"}
	}})

	// ---- audit dimensions, appended so that the cases above keep their numbers and PRNG streams ----
	// signatures whose CRC32C sits at the boundaries of the 32-bit value inside the int64 field
	forcedLens := []int{8}
	if thorough {
		forcedLens = []int{8, 256}
	}
	for _, l := range forcedLens {
		for _, v := range []uint32{0x00000001, 0x7fffffff, 0x80000000, 0x80000001, 0xfffffffe, 0xffffffff} {
			v := v
			cs = append(cs, caseDef{kind: "sign", sigLen: l, force: &v})
		}
	}
	add := func(kind string, quick, thor int) {
		n := quick
		if thorough {
			n = thor
		}
		for j := 0; j < n; j++ {
			cs = append(cs, caseDef{kind: kind})
		}
	}
	add("signseq", 6, 24)
	add("signconc", 6, 24)
	add("session", 48, 240)
	add("lifeconc", 12, 48)
	// answer sequences within one call of Sign (appended in the fourth round)
	scriptLens := []int{1, 32, 256}
	if thorough {
		scriptLens = []int{1, 2, 32, 32, 255, 256, 256, 512, 1, 32, 256, 512}
	}
	for _, l := range scriptLens {
		cs = append(cs, caseDef{kind: "signscript", sigLen: l})
	}
	// versions that stay pending for two or more polls in a row (appended in the fifth round)
	cs = append(cs, caseDef{kind: "slowpoll"})
	return cs
}

func run(c *core.Ctx) {
	cases := buildCases(c.Thorough())
	st := &stats{faultsReached: map[string]int{}, modesReached: map[string]int{}}
	sst := &signStats{}
	ast := newAudStats()
	ss := &scriptStats{}
	pst := &pollStats{}
	ranLife, ranSign, ranSlow := false, false, false
	for i, cd := range cases {
		if !c.Mine(i) {
			continue
		}
		r := c.Rand(i)
		switch cd.kind {
		case "sign":
			g := fmt.Sprintf("sign#%d signature of %d bytes", i, cd.sigLen)
			if cd.force != nil {
				g += fmt.Sprintf(" whose CRC32C is 0x%08x", *cd.force)
				ast.ran["forced"] = true
			}
			c.Begin(i, g, eSign, nil)
			signCase(c, i, g, r, cd.sigLen, cd.force, sst)
			ranSign = true
		case "signseq":
			c.Begin(i, fmt.Sprintf("signseq#%d: %d calls through one kept Signer", i, signSeqLen), eSign, nil)
			signSeqCase(c, i, r, sst, ast)
			ast.ran["signseq"] = true
		case "signconc":
			c.Begin(i, fmt.Sprintf("signconc#%d: %d groups of 3-6 calls of Sign in flight together", i, signGroupsPerCase), eSign, nil)
			signConcCase(c, i, r, sst, ast)
			ast.ran["signconc"] = true
		case "signscript":
			c.Begin(i, fmt.Sprintf("signscript#%d: every ordered pair of answer kinds and %d drawn scripts of 3-5 answers to the successive RPCs of one call of Sign, %d-byte signatures", i, scriptRandomPerCase, cd.sigLen), eSign, nil)
			signScriptCase(c, i, r, cd.sigLen, sst, ss)
			ast.ran["signscript"] = true
		case "session":
			c.Begin(i, fmt.Sprintf("session#%d: lifecycle calls through one kept Manager over one persistent world", i), "Manager.*(kept)", nil)
			sessionCase(c, i, r, ast)
			ast.ran["session"] = true
		case "lifeconc":
			c.Begin(i, fmt.Sprintf("lockstep#%d: %d groups of 2-3 lifecycle calls in flight together", i, lifeGroupsPerCase), "Manager.*(in flight together)", nil)
			lifeConcCase(c, i, r, ast)
			ast.ran["lifeconc"] = true
		case "slowpoll":
			c.Begin(i, "long-poll batch: versions that answer PENDING_GENERATION to 2 or more polls in a row, then ENABLED; run concurrently", "Manager.*(polling)", nil)
			slowPollBatch(c, i, r, pst)
			ast.ran["slowpoll"] = true
		case "slow":
			c.Begin(i, "slow batch: scenarios that wait for the repository's 5 s poll, run concurrently", "Manager.*(polling)", nil)
			slowBatch(c, i, st)
			ranSlow = true
		default:
			sc := cd.mk(r)
			c.Begin(i, fmt.Sprintf("scenario#%d %s", i, sc.cellPrefix()), sc.Entry, specBytes(sc))
			lifecycleCase(c, i, sc, r, st)
			ranLife = true
		}
		c.End(i)
	}
	c.Count("sign/genuine-signatures-returned", sst.genuine)
	c.Count("sign/corrupted-responses-refused", sst.rejectedCorrupt)
	c.Count("sign/non-pss-sha256-options-refused", sst.rejectedOpts)
	c.Count("sign/service-errors-and-bad-requests-refused", sst.rejectedSvc)
	// floors: OR-ed over shards, so a shard only vouches for what it ran
	c.Floor("sign: a genuine signature was returned", ranSign && sst.genuine > 0)
	c.Floor("sign: corrupted responses were refused", ranSign && sst.rejectedCorrupt > 0)
	c.Floor("sign: non-PSS options were refused", ranSign && sst.rejectedOpts > 0)
	c.Floor("lifecycle: a listing was followed over a served page token", ranLife && st.multiPageFollowed > 0)
	c.Floor("wipeout: a complete wipeout destroyed versions", ranLife && st.wipeoutsWithDestroy > 0)
	c.Floor("bootstrap: an existing enabled version was selected", ranLife && st.bootExisting > 0)
	c.Floor("bootstrap: a pending version was waited for", ranLife && st.bootWaited > 0)
	c.Floor("rotation: an enabled version was returned", ranLife && st.rotEnabled > 0)
	c.Floor("polling: a call polled at least twice and succeeded", ranSlow && st.slowWaited > 0)
	for _, e := range []string{eWipeout, eBootRoot, eBootSign, eRotate, eDestroy} {
		c.Floor("faults reached in "+e, ranLife && st.faultsReached[e] > 0)
	}
	for _, mode := range []string{"single", "burst", "outage", "method-outage", "ctx-deadline", "ctx-cancel", "ctx-deadline-after", "ctx-cancel-after", "ctx-cancel-unheeded"} {
		c.Floor("fault mode reached: "+mode, ranLife && st.modesReached[mode] > 0)
	}
	// audit dimensions
	for _, f := range auditFloors {
		c.Floor(f.name, ast.ran[f.dim] && ast.get(f.counter) > 0)
		c.Count("audit/"+f.counter, ast.get(f.counter))
	}
	c.Floor("answer sequences: a signature was returned from an intact, confirmed answer", ast.ran["signscript"] && ss.returned > 0)
	c.Floor("answer sequences: calls whose first answer was damaged or unconfirmed were refused", ast.ran["signscript"] && ss.refused > 0)
	c.Floor("polling: a version that stayed pending for two or more polls in a row was polled until enabled and returned", ast.ran["slowpoll"] && pst.waited > 0)
	c.Floor("sign: a genuine signature with a forced boundary checksum value was returned", ast.ran["forced"] && sst.forcedGenuine > 0)
}

var auditFloors = []struct{ name, dim, counter string }{
	{"kept signer: other options were refused right after a signature was returned through the same signer", "signseq", "signseq: other options refused right after a signature was returned through the same signer"},
	{"kept signer: a corrupted response was refused right after a signature was returned through the same signer", "signseq", "signseq: a corrupted response was refused right after a signature was returned through the same signer"},
	{"kept signer: a signature was returned right after a refused call", "signseq", "signseq: a signature was returned right after a refused call through the same signer"},
	{"kept signer: a signature was returned after the caller overwrote the previous result", "signseq", "signseq: a signature was returned after the previous result was overwritten"},
	{"sign in flight together: a signature was returned and a corrupted response refused inside the RPC together", "signconc", "signconc: groups in which a signature was returned and a corrupted response refused while both calls were inside the RPC together"},
	{"sign in flight together: two signatures were returned to calls inside the RPC together", "signconc", "signconc: groups in which two signatures were returned to calls that were inside the RPC together"},
	{"kept manager: a call succeeded right after a failed call", "session", "kept: a call succeeded right after a failed call through the same manager"},
	{"kept manager: bootstrap or rotation returned a version after a wipeout in the same session", "session", "kept: bootstrap or rotation returned a version after a wipeout in the same session"},
	{"kept manager: a call succeeded for other key ids than the previous call's", "session", "kept: a call succeeded for other key ids than the previous call's"},
	{"kept manager: a call succeeded after another actor changed the world", "session", "kept: a call succeeded after another actor changed the world"},
	{"lifecycle in flight together: calls whose RPCs interleaved were judged", "lifeconc", "lockstep: calls judged whose RPCs interleaved with another call's"},
	{"lifecycle in flight together: an interleaved call followed a served page token", "lifeconc", "lockstep: interleaved calls that followed a served page token"},
}
