package c20

// The long-poll batch (appended in the fifth round): key versions that answer
// PENDING_GENERATION to TWO OR MORE consecutive polls and are ENABLED afterwards, through
// rotation and every bootstrap path, under a caller's context that outlives the waits.
//
// The repository waits 5 s of real time between two polls, so the scenarios of the batch run
// concurrently and the batch costs (pending answers) x 5 s of wall time and next to no CPU.
//
// What is judged is logical: the name the call returned (the usual bootstrap / rotation rules
// over the model's final state) and whether the call went on polling until the service said
// ENABLED. A call that blocks for ever sends no further event, so there is a watchdog: a
// goroutine that looks at the model's RPC counter once a second. When the counter has not
// moved during pollPatience consecutive looks (20 s = 4 poll intervals of the repository)
// although the version was still pending, the watchdog ends the caller's context - what a
// caller with a generous deadline experiences - and the call is judged by what it then
// returns: anything but the enabled version is "polling-stalled-while-version-pending".
// The clock only paces the watchdog. A look that came late (more than 1.5 s after the previous
// one: the process was not running normally) restarts the count, so the verdict needs 20
// consecutive seconds in which this process's timers demonstrably fired on time while the
// polling loop, whose 5 s timer lives in the same runtime, sent nothing; a scenario in which
// the watchdog fired but the call nevertheless returned the enabled version is counted as
// not judged.

import (
	"context"
	"fmt"
	"math/rand/v2"
	"runtime/debug"
	"sync"
	"sync/atomic"
	"time"

	"verifharness/core"
)

const (
	pollTick     = time.Second
	pollLateLook = 1500 * time.Millisecond
	pollPatience = 20 // consecutive on-time looks without any RPC: 4 poll intervals of 5 s
)

type pollScen struct {
	sc      *scen
	pending int // consecutive polls answered PENDING_GENERATION before ENABLED
	what    string
}

// pendingAmong builds a key whose only candidate is one pending version among n dead ones.
func pendingAmong(id string, n, pending int, r *rand.Rand) keySpec {
	states := genStates("dead", n, r)
	at := r.IntN(n)
	states[at] = stPending
	k := mkKey(id, "pending-slow", states)
	k.polls = map[int]int{at: pending}
	k.after = map[int]vstate{at: stEnabled}
	return k
}

func genPollScens(thorough bool, r *rand.Rand) []pollScen {
	rounds, maxPending := 1, 3
	if thorough {
		rounds, maxPending = 2, 4
	}
	pgs := []string{"full", "cap50", "cap1", "ragged", "sparse", "tokenlast"}
	var list []pollScen
	for round := 0; round < rounds; round++ {
		for kind := 0; kind < 6; kind++ {
			p := 2 + r.IntN(maxPending-1)
			if round == 0 && kind < 2 {
				p = 2 + kind // two and three pending answers occur whatever the seed
			}
			pg := mkPaging(pgs[r.IntN(len(pgs))], r)
			n := []int{1, 3, 7, 100, 120, 150}[r.IntN(6)]
			tm := verTemplate{State: stPending, Polls: p, After: stEnabled}
			var sc *scen
			var what string
			switch kind {
			case 0:
				what = "rotation, the created version"
				sc = &scen{Entry: eRotate, RingExists: true, Paging: pg, Tmpl: tm, Keys: []keySpec{mkKey(signKeyID, "mixed", append(genStates("mixed", n-1, r), stEnabled))}}
			case 1:
				what = "root bootstrap of a fresh key in a fresh ring, its first version"
				sc = &scen{Entry: eBootRoot, RingExists: false, Paging: pg, Tmpl: tm}
			case 2:
				what = fmt.Sprintf("signing bootstrap, existing key whose only candidate is a pending version among %d", n)
				sc = &scen{Entry: eBootSign, RingExists: true, KeepGoing: true, Paging: pg, Keys: []keySpec{pendingAmong(signKeyID, n, p, r)}}
			case 3:
				what = fmt.Sprintf("root bootstrap, existing key whose only candidate is a pending version among %d", n)
				sc = &scen{Entry: eBootRoot, RingExists: true, KeepGoing: true, Paging: pg, Keys: append([]keySpec{pendingAmong(rootKeyID, n, p, r)}, otherKeys(r.IntN(2), r, []int{0, 1, 3}, []string{"enabled", "mixed"})...)}
			case 4:
				what = "signing bootstrap of a fresh key in an existing ring, its first version, then IAM"
				sc = &scen{Entry: eBootSign, RingExists: true, Paging: pg, Tmpl: tm, Keys: otherKeys(r.IntN(3), r, []int{0, 1, 3}, []string{"enabled", "mixed", "dead"})}
			default:
				what = fmt.Sprintf("signing bootstrap, existing key with %d versions none of which is a candidate, the version the call creates", n)
				sc = &scen{Entry: eBootSign, RingExists: true, KeepGoing: true, Paging: pg, Tmpl: tm, Keys: []keySpec{mkKey(signKeyID, "dead", genStates("dead", n, r))}}
			}
			sc.Class = "long-poll"
			list = append(list, pollScen{sc: sc, pending: p, what: fmt.Sprintf("%s answers PENDING_GENERATION to %d polls in a row, then ENABLED (paging %s)", what, p, pg)})
		}
	}
	return list
}

type pollStats struct {
	mu                sync.Mutex
	waited, notJudged int
}

func slowPollBatch(c *core.Ctx, i int, r *rand.Rand, ps *pollStats) {
	list := genPollScens(c.Thorough(), r)
	var wg sync.WaitGroup
	for si := range list {
		wg.Add(1)
		go func() {
			defer wg.Done()
			runPollScen(c, i, si, list[si], ps)
		}()
	}
	wg.Wait()
}

func runPollScen(c *core.Ctx, i, si int, s pollScen, ps *pollStats) {
	g := fmt.Sprintf("long-poll#%d %s: %s", si, s.sc.Entry, s.what)
	guard := func(f func()) (panicked bool) {
		defer func() {
			if rec := recover(); rec != nil {
				panicked = true
				c.Violate(core.Violation{Kind: "panic", Entry: s.sc.Entry, Site: core.PanicSite(debug.Stack()), Gen: g, Case: i, Detail: fmt.Sprint(rec)})
			}
		}()
		f()
		c.Eval(1)
		return false
	}
	ectx := newEndableCtx(context.Background())
	var mref atomic.Pointer[model]
	var o outcome
	done := make(chan struct{})
	go func() {
		defer close(done)
		o = s.sc.callBase(faultPlan{}, func(m *model) { mref.Store(m) }, guard, ectx)
	}()

	// the watchdog (see the head of the file)
	rpcs := func() (calls, gets int) {
		m := mref.Load()
		if m == nil {
			return -1, 0
		}
		m.mu.Lock()
		defer m.mu.Unlock()
		return m.calls, m.per["GetCryptoKeyVersion"]
	}
	quiet, lastCalls, ended, abandoned, getsWhenEnded := 0, -2, false, false, 0
	last := time.Now()
	tm := time.NewTimer(pollTick)
	defer tm.Stop()
watch:
	for {
		select {
		case <-done:
			break watch
		case <-tm.C:
		}
		now := time.Now()
		late := now.Sub(last) > pollLateLook
		last = now
		tm.Reset(pollTick)
		calls, gets := rpcs()
		if late || calls != lastCalls {
			quiet, lastCalls = 0, calls
			continue
		}
		if quiet++; quiet < pollPatience {
			continue
		}
		if !ended {
			ended, getsWhenEnded, quiet = true, gets, 0
			ectx.end(context.DeadlineExceeded)
			continue
		}
		abandoned = true // the context has been over for another 20 s and the call has still not returned
		break watch
	}
	if abandoned {
		calls, gets := rpcs()
		c.Violate(core.Violation{Kind: "oracle", Entry: s.sc.Entry, Site: "polling-stalled-while-version-pending", Gen: g, Case: i,
			Detail: fmt.Sprintf("the version was to answer PENDING_GENERATION to %d polls and ENABLED from then on; no RPC failed; the call sent no RPC for %d consecutive seconds after poll %d, the harness then ended the caller's context (DeadlineExceeded) and the call had still not returned %d s later; it was left behind. RPCs: %d",
				s.pending, pollPatience, gets, pollPatience, calls)})
		c.Cell("%s|long-poll|pending-answers=%d|never-returned", s.sc.Entry, s.pending)
		return
	}
	if o.panicked {
		return
	}
	fs, class := s.sc.judge(o, false)
	o.m.mu.Lock()
	gets, calls := o.m.per["GetCryptoKeyVersion"], o.m.calls
	o.m.mu.Unlock()
	if ended {
		if o.err == nil && len(fs) == 0 {
			// the call moved on after all and returned an enabled version: nothing to hold against it
			ps.mu.Lock()
			ps.notJudged++
			ps.mu.Unlock()
			c.Count("long-poll/watchdog-fired-but-the-call-returned-the-enabled-version(not judged)", 1)
		} else {
			fs = append(fs, finding{"polling-stalled-while-version-pending", fmt.Sprintf(
				"the version answered PENDING_GENERATION to the first %d polls and was to answer ENABLED from poll %d on; no RPC failed; after poll %d the call sent no RPC for %d consecutive seconds (4 poll intervals; the harness's own 1 s timer fired on time throughout), so the harness ended the caller's context (DeadlineExceeded), and the call returned name=%q err=%v after %d polls: it had stopped polling while the version was pending and its context was alive",
				min(s.pending, getsWhenEnded), s.pending+1, getsWhenEnded, pollPatience, shortName(o.name), o.err, gets)})
			class = "VIOLATION"
		}
	}
	for _, f := range fs {
		c.Violate(core.Violation{Kind: "oracle", Entry: s.sc.Entry, Site: f.rule, Gen: g, Case: i, Detail: f.detail, Witness: s.sc.witness(o)})
	}
	c.Cell("%s|long-poll|%s|pending-answers=%d|polls=%d|%s", s.sc.Entry, s.sc.Paging, s.pending, gets, class)
	c.Count("long-poll/scenarios", 1)
	c.Count(fmt.Sprintf("long-poll/pending-answers-in-a-row=%d", s.pending), 1)
	c.Max("polls-in-one-call", int64(gets))
	c.Count("rpcs-total", calls)
	if !ended && o.err == nil && len(fs) == 0 && gets >= s.pending+1 && s.pending >= 2 {
		ps.mu.Lock()
		ps.waited++
		ps.mu.Unlock()
		c.Count("long-poll/calls-that-polled-through-two-or-more-pending-answers-and-returned-the-enabled-version", 1)
	}
	c.Sample(map[string]any{"case": i, "scenario": g, "rpcs": calls, "polls": gets, "outcome": class, "error": fmt.Sprint(o.err)})
}
