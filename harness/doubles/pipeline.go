package doubles

import (
	"bytes"
	"context"
	"crypto"
	"crypto/x509"
	"errors"
	"fmt"
	"io"
	"os"
	"sort"
	"strings"
	"sync"

	"github.com/google/gce-tcb-verifier/endorse"
	"github.com/google/gce-tcb-verifier/keys"
	styp "github.com/google/gce-tcb-verifier/sign/types"
	"github.com/google/gce-tcb-verifier/storage/storagei"

	"verifharness/core"
)

// ErrInjected is the error class of injected faults.
var ErrInjected = errors.New("injected fault")

// Call is one entry of the process-wide call log.
type Call struct {
	Seq    int    `json:"seq"`
	Name   string `json:"name"` // component.Method[:argument]
	Result string `json:"result"`
}

// Write is one completed object write.
type Write struct {
	Seq    int
	Object string
	Data   []byte
}

// Fault kinds.
const (
	FaultError       = "error"        // the call returns an error and has no effect
	FaultCrashBefore = "crash-before" // execution stops before the call's effect
	FaultCrashAfter  = "crash-after"  // execution stops right after the call's effect
)

// FCtl is the fault controller and call log shared by all doubles of one run.
type FCtl struct {
	mu     sync.Mutex
	n      int
	Log    []Call
	Writes []Write
	Faults map[int]string // seq -> fault kind
	// Match, when non-nil, injects FaultKind at the first call whose name has this prefix (position-independent faults).
	Match     string
	MatchKind string
	matched   bool
	// Hook, when non-nil, runs before the effect of every call (outside the log's lock): used to interleave
	// another command (e.g. a rotation) at a chosen position of this command's trace.
	Hook func(seq int, name string)
}

// Enter logs a call; it returns an injected error or panics with the crash sentinel.
func (f *FCtl) Enter(name string) (int, error) {
	f.mu.Lock()
	f.n++
	seq := f.n
	kind := f.Faults[seq]
	if kind == "" && f.Match != "" && !f.matched && strings.HasPrefix(name, f.Match) {
		f.matched = true
		kind = f.MatchKind
	}
	res := "ok"
	if kind == FaultError {
		res = "injected-error"
	} else if kind == FaultCrashBefore {
		res = "crash-before"
	}
	f.Log = append(f.Log, Call{Seq: seq, Name: name, Result: res})
	hook := f.Hook
	f.mu.Unlock()
	if hook != nil {
		hook(seq, name)
	}
	switch kind {
	case FaultError:
		return seq, fmt.Errorf("%s: %w", name, ErrInjected)
	case FaultCrashBefore:
		panic(core.CrashSentinel{At: seq})
	}
	return seq, nil
}

// Exit is called after the call's effect; it records a real error and realises crash-after.
func (f *FCtl) Exit(seq int, err error) {
	f.mu.Lock()
	kind := f.Faults[seq]
	if err != nil && seq-1 < len(f.Log) {
		f.Log[seq-1].Result = "error: " + err.Error()
	}
	if kind == FaultCrashAfter && seq-1 < len(f.Log) {
		f.Log[seq-1].Result = "crash-after"
	}
	f.mu.Unlock()
	if kind == FaultCrashAfter {
		panic(core.CrashSentinel{At: seq})
	}
}

// N returns the number of calls logged.
func (f *FCtl) N() int { f.mu.Lock(); defer f.mu.Unlock(); return f.n }

// Names returns the call names in order.
func (f *FCtl) Names() []string {
	f.mu.Lock()
	defer f.mu.Unlock()
	out := make([]string, len(f.Log))
	for i, c := range f.Log {
		out[i] = c.Name
	}
	return out
}

// RunCrashable runs fn and reports whether it was cut by a simulated crash.
func RunCrashable(fn func() error) (err error, crashed bool) {
	defer func() {
		if r := recover(); r != nil {
			if _, ok := r.(core.CrashSentinel); ok {
				crashed = true
				return
			}
			panic(r)
		}
	}()
	return fn(), false
}

// ---- storage ----

// MemStore is an in-memory storagei.Client (single bucket namespace: bucket/object).
type MemStore struct {
	mu   sync.Mutex
	Objs map[string][]byte
}

// NewMemStore returns an empty store.
func NewMemStore() *MemStore { return &MemStore{Objs: map[string][]byte{}} }

// Clone deep-copies the store.
func (s *MemStore) Clone() *MemStore {
	s.mu.Lock()
	defer s.mu.Unlock()
	c := NewMemStore()
	for k, v := range s.Objs {
		c.Objs[k] = append([]byte(nil), v...)
	}
	return c
}

type memW struct {
	s   *MemStore
	key string
	buf bytes.Buffer
}

func (w *memW) Write(p []byte) (int, error) { return w.buf.Write(p) }
func (w *memW) Close() error {
	w.s.mu.Lock()
	w.s.Objs[w.key] = append([]byte(nil), w.buf.Bytes()...)
	w.s.mu.Unlock()
	return nil
}

func (s *MemStore) Reader(_ context.Context, b, o string) (io.ReadCloser, error) {
	s.mu.Lock()
	defer s.mu.Unlock()
	d, ok := s.Objs[b+"/"+o]
	if !ok {
		return nil, os.ErrNotExist
	}
	return io.NopCloser(bytes.NewReader(append([]byte(nil), d...))), nil
}
func (s *MemStore) Exists(_ context.Context, b, o string) (bool, error) {
	s.mu.Lock()
	defer s.mu.Unlock()
	_, ok := s.Objs[b+"/"+o]
	return ok, nil
}
func (s *MemStore) Writer(_ context.Context, b, o string) (io.WriteCloser, error) {
	return &memW{s: s, key: b + "/" + o}, nil
}
func (s *MemStore) IsNotExists(err error) bool                       { return errors.Is(err, os.ErrNotExist) }
func (s *MemStore) EnsureBucketExists(context.Context, string) error { return nil }
func (s *MemStore) Wipeout(_ context.Context, b string) error {
	s.mu.Lock()
	defer s.mu.Unlock()
	for k := range s.Objs {
		if strings.HasPrefix(k, b+"/") {
			delete(s.Objs, k)
		}
	}
	return nil
}

// Keys lists object keys.
func (s *MemStore) Keys() []string {
	s.mu.Lock()
	defer s.mu.Unlock()
	var ks []string
	for k := range s.Objs {
		ks = append(ks, k)
	}
	sort.Strings(ks)
	return ks
}

// FStore wraps any storage client with the call log, fault injection and the write log.
type FStore struct {
	Inner storagei.Client
	F     *FCtl
}

type fW struct {
	s    *FStore
	ctx  context.Context
	b, o string
	buf  bytes.Buffer
}

// Write only collects the bytes: the object is written as a whole at Close, which is the write event. Nothing reaches
// the inner store before that, so an injected error or a crash before the event has NO effect on any back end (on
// storage/local the file is not even opened, hence not truncated) — the fault model's granularity is one object.
func (w *fW) Write(p []byte) (int, error) { return w.buf.Write(p) }
func (w *fW) Close() error {
	seq, err := w.s.F.Enter("storage.Write:" + w.o)
	if err != nil {
		return err
	}
	inner, err := w.s.Inner.Writer(w.ctx, w.b, w.o)
	if err == nil {
		if _, err = inner.Write(w.buf.Bytes()); err != nil {
			inner.Close()
		} else {
			err = inner.Close()
		}
	}
	if err == nil {
		w.s.F.mu.Lock()
		w.s.F.Writes = append(w.s.F.Writes, Write{Seq: seq, Object: w.o, Data: append([]byte(nil), w.buf.Bytes()...)})
		w.s.F.mu.Unlock()
	}
	w.s.F.Exit(seq, err)
	return err
}

func (s *FStore) Reader(ctx context.Context, b, o string) (io.ReadCloser, error) {
	seq, err := s.F.Enter("storage.Read:" + o)
	if err != nil {
		return nil, err
	}
	r, err := s.Inner.Reader(ctx, b, o)
	if err != nil && s.Inner.IsNotExists(err) {
		s.F.Exit(seq, nil)
		return r, err
	}
	s.F.Exit(seq, err)
	return r, err
}
func (s *FStore) Exists(ctx context.Context, b, o string) (bool, error) {
	seq, err := s.F.Enter("storage.Exists:" + o)
	if err != nil {
		return false, err
	}
	ok, err := s.Inner.Exists(ctx, b, o)
	s.F.Exit(seq, err)
	return ok, err
}
func (s *FStore) Writer(ctx context.Context, b, o string) (io.WriteCloser, error) {
	return &fW{s: s, ctx: ctx, b: b, o: o}, nil
}
func (s *FStore) IsNotExists(err error) bool { return s.Inner.IsNotExists(err) }
func (s *FStore) EnsureBucketExists(ctx context.Context, b string) error {
	seq, err := s.F.Enter("storage.EnsureBucketExists")
	if err != nil {
		return err
	}
	err = s.Inner.EnsureBucketExists(ctx, b)
	s.F.Exit(seq, err)
	return err
}
func (s *FStore) Wipeout(ctx context.Context, b string) error {
	seq, err := s.F.Enter("storage.Wipeout")
	if err != nil {
		return err
	}
	err = s.Inner.Wipeout(ctx, b)
	s.F.Exit(seq, err)
	return err
}

// ---- signer / manager / CA wrappers ----

// FSigner wraps a signer.
type FSigner struct {
	Inner styp.Signer
	F     *FCtl
}

func (s *FSigner) Sign(ctx context.Context, k string, d styp.Digest, o crypto.SignerOpts) ([]byte, error) {
	seq, err := s.F.Enter("signer.Sign:" + k)
	if err != nil {
		return nil, err
	}
	b, err := s.Inner.Sign(ctx, k, d, o)
	s.F.Exit(seq, err)
	return b, err
}
func (s *FSigner) PublicKey(ctx context.Context, k string) ([]byte, error) {
	seq, err := s.F.Enter("signer.PublicKey:" + k)
	if err != nil {
		return nil, err
	}
	b, err := s.Inner.PublicKey(ctx, k)
	s.F.Exit(seq, err)
	return b, err
}

// FManager wraps a key manager.
type FManager struct {
	Inner keys.ManagerInterface
	F     *FCtl
}

func (m *FManager) CreateFirstSigningKey(ctx context.Context) (string, error) {
	seq, err := m.F.Enter("manager.CreateFirstSigningKey")
	if err != nil {
		return "", err
	}
	s, err := m.Inner.CreateFirstSigningKey(ctx)
	m.F.Exit(seq, err)
	return s, err
}
func (m *FManager) CreateNewSigningKeyVersion(ctx context.Context) (string, error) {
	seq, err := m.F.Enter("manager.CreateNewSigningKeyVersion")
	if err != nil {
		return "", err
	}
	s, err := m.Inner.CreateNewSigningKeyVersion(ctx)
	m.F.Exit(seq, err)
	return s, err
}
func (m *FManager) CreateNewRootKey(ctx context.Context) (string, error) {
	seq, err := m.F.Enter("manager.CreateNewRootKey")
	if err != nil {
		return "", err
	}
	s, err := m.Inner.CreateNewRootKey(ctx)
	m.F.Exit(seq, err)
	return s, err
}
func (m *FManager) CertificateTemplate(ctx context.Context, issuer *x509.Certificate, pub any) (*x509.Certificate, error) {
	seq, err := m.F.Enter("manager.CertificateTemplate")
	if err != nil {
		return nil, err
	}
	c, err := m.Inner.CertificateTemplate(ctx, issuer, pub)
	m.F.Exit(seq, err)
	return c, err
}
func (m *FManager) DestroyKeyVersion(ctx context.Context, k string) error {
	seq, err := m.F.Enter("manager.DestroyKeyVersion:" + k)
	if err != nil {
		return err
	}
	err = m.Inner.DestroyKeyVersion(ctx, k)
	m.F.Exit(seq, err)
	return err
}
func (m *FManager) Wipeout(ctx context.Context) error {
	seq, err := m.F.Enter("manager.Wipeout")
	if err != nil {
		return err
	}
	err = m.Inner.Wipeout(ctx)
	m.F.Exit(seq, err)
	return err
}

// FCA wraps a certificate authority (reads are logged; Finalize, Wipeout and reads can be faulted).
type FCA struct {
	Inner styp.CertificateAuthority
	F     *FCtl
}

func (c *FCA) Certificate(ctx context.Context, k string) ([]byte, error) {
	seq, err := c.F.Enter("ca.Certificate:" + k)
	if err != nil {
		return nil, err
	}
	b, err := c.Inner.Certificate(ctx, k)
	c.F.Exit(seq, nil) // an absent certificate is an answer, not a fault
	return b, err
}
func (c *FCA) CABundle(ctx context.Context, k string) ([]byte, error) {
	seq, err := c.F.Enter("ca.CABundle:" + k)
	if err != nil {
		return nil, err
	}
	b, err := c.Inner.CABundle(ctx, k)
	c.F.Exit(seq, nil)
	return b, err
}
func (c *FCA) PrimaryRootKeyVersion(ctx context.Context) (string, error) {
	seq, err := c.F.Enter("ca.PrimaryRootKeyVersion")
	if err != nil {
		return "", err
	}
	s, err := c.Inner.PrimaryRootKeyVersion(ctx)
	c.F.Exit(seq, err)
	return s, err
}
func (c *FCA) PrimarySigningKeyVersion(ctx context.Context) (string, error) {
	seq, err := c.F.Enter("ca.PrimarySigningKeyVersion")
	if err != nil {
		return "", err
	}
	s, err := c.Inner.PrimarySigningKeyVersion(ctx)
	c.F.Exit(seq, err)
	return s, err
}
func (c *FCA) NewMutation() styp.CertificateAuthorityMutation { return c.Inner.NewMutation() }
func (c *FCA) Finalize(ctx context.Context, m styp.CertificateAuthorityMutation) error {
	seq, err := c.F.Enter("ca.Finalize")
	if err != nil {
		return err
	}
	err = c.Inner.Finalize(ctx, m)
	c.F.Exit(seq, err)
	return err
}
func (c *FCA) PrepareResources(ctx context.Context) error {
	seq, err := c.F.Enter("ca.PrepareResources")
	if err != nil {
		return err
	}
	err = c.Inner.PrepareResources(ctx)
	c.F.Exit(seq, err)
	return err
}
func (c *FCA) Wipeout(ctx context.Context) error {
	seq, err := c.F.Enter("ca.Wipeout")
	if err != nil {
		return err
	}
	err = c.Inner.Wipeout(ctx)
	c.F.Exit(seq, err)
	return err
}

// ---- version control double ----

// MemVCS is an in-memory VersionControl with a committed head and per-attempt workspaces.
type MemVCS struct {
	F       *FCtl // optional
	mu      sync.Mutex
	Head    map[string][]byte
	Commits int
	Results []string
	Prefix  string // ReleasePath prefix
	// Retriable makes RetriableError answer true for every error (a back end whose failures are all transient).
	Retriable bool
}

// NewMemVCS returns an empty repository.
func NewMemVCS(f *FCtl) *MemVCS { return &MemVCS{F: f, Head: map[string][]byte{}} }

func (v *MemVCS) enter(name string) (int, error) {
	if v.F == nil {
		return 0, nil
	}
	return v.F.Enter(name)
}
func (v *MemVCS) exit(seq int, err error) {
	if v.F != nil {
		v.F.Exit(seq, err)
	}
}

type memWS struct {
	v     *MemVCS
	files map[string][]byte
	dirty map[string]bool
}

func (v *MemVCS) GetChangeOps(context.Context) (endorse.ChangeOps, error) {
	seq, err := v.enter("vcs.GetChangeOps")
	if err != nil {
		return nil, err
	}
	v.mu.Lock()
	ws := &memWS{v: v, files: map[string][]byte{}, dirty: map[string]bool{}}
	for k, d := range v.Head {
		ws.files[k] = append([]byte(nil), d...)
	}
	v.mu.Unlock()
	v.exit(seq, nil)
	return ws, nil
}
func (v *MemVCS) RetriableError(error) bool { return v.Retriable }
func (v *MemVCS) Result(commit any, p string) {
	v.mu.Lock()
	v.Results = append(v.Results, fmt.Sprintf("%v:%s", commit, p))
	v.mu.Unlock()
	if v.F != nil {
		seq, _ := v.F.Enter("vcs.Result")
		v.F.Exit(seq, nil)
	}
}
func (v *MemVCS) ReleasePath(_ context.Context, p string) string { return v.Prefix + p }

func (w *memWS) WriteOrCreateFiles(_ context.Context, files ...*endorse.File) error {
	for _, f := range files {
		seq, err := w.v.enter("vcs.Write:" + f.Path)
		if err != nil {
			return err
		}
		// The slice is retained, not copied: an implementation that uploads at commit time keeps File.Contents
		// past the call, so contents that the caller later overwrites in place would corrupt what was committed.
		w.files[f.Path] = f.Contents
		w.dirty[f.Path] = true
		w.v.exit(seq, nil)
	}
	return nil
}
func (w *memWS) ReadFile(_ context.Context, p string) ([]byte, error) {
	seq, err := w.v.enter("vcs.Read:" + p)
	if err != nil {
		return nil, err
	}
	d, ok := w.files[p]
	w.v.exit(seq, nil)
	if !ok {
		return nil, os.ErrNotExist
	}
	return append([]byte(nil), d...), nil
}
func (w *memWS) SetBinaryWritable(_ context.Context, p string) error {
	seq, err := w.v.enter("vcs.SetBinaryWritable:" + p)
	if err != nil {
		return err
	}
	w.v.exit(seq, nil)
	return nil
}
func (w *memWS) IsNotFound(err error) bool { return errors.Is(err, os.ErrNotExist) }
func (w *memWS) Destroy() {
	if w.v.F != nil {
		seq, _ := w.v.F.Enter("vcs.Destroy")
		w.v.F.Exit(seq, nil)
	}
}
func (w *memWS) TryCommit(context.Context) (any, error) {
	seq, err := w.v.enter("vcs.TryCommit")
	if err != nil {
		return nil, err
	}
	w.v.mu.Lock()
	for p := range w.dirty {
		w.v.Head[p] = w.files[p]
	}
	w.v.Commits++
	n := w.v.Commits
	w.v.mu.Unlock()
	w.v.exit(seq, nil)
	return n, nil
}
