// Package doubles holds recording / fault-injecting stand-ins for the interfaces the
// repository defines for its I/O.
package doubles

import (
	"bytes"
	"context"
	"fmt"
	"io"
	"sync"
	"time"

	"github.com/google/gce-tcb-verifier/extract"
	exel "github.com/google/gce-tcb-verifier/extract/eventlog"
	"github.com/google/gce-tcb-verifier/gcetcbendorsement"
	gcmd "github.com/google/gce-tcb-verifier/gcetcbendorsement/cmd"
	"github.com/google/gce-tcb-verifier/verify"
)

// MemIO is an in-memory implementation of the CLI's IO interface.
type MemIO struct {
	mu       sync.Mutex
	Files    map[string][]byte
	Terminal bool
}

type memWriter struct {
	io   *MemIO
	path string
	buf  bytes.Buffer
}

func (w *memWriter) Write(p []byte) (int, error) { return w.buf.Write(p) }
func (w *memWriter) IsTerminal() bool            { return w.io.Terminal }

// Create implements cmd.IO.
func (m *MemIO) Create(path string) (gcetcbendorsement.TerminalWriter, func(), error) {
	w := &memWriter{io: m, path: path}
	return w, func() {
		m.mu.Lock()
		m.Files[path] = append([]byte(nil), w.buf.Bytes()...)
		m.mu.Unlock()
	}, nil
}

// ReadFile implements cmd.IO.
func (m *MemIO) ReadFile(path string) ([]byte, error) {
	m.mu.Lock()
	defer m.mu.Unlock()
	b, ok := m.Files[path]
	if !ok {
		return nil, fmt.Errorf("open %s: no such file", path)
	}
	return append([]byte(nil), b...), nil
}

// NewMemIO returns an empty file system.
func NewMemIO() *MemIO { return &MemIO{Files: map[string][]byte{}} }

// Getter is a recording HTTPS getter answering from a map; unknown URLs fail.
type Getter struct {
	mu      sync.Mutex
	Answers map[string][]byte
	Default []byte // answer for every other URL when non-nil
	Fail    bool
	URLs    []string
}

// Get implements verify.HTTPSGetter.
func (g *Getter) Get(url string) ([]byte, error) {
	g.mu.Lock()
	defer g.mu.Unlock()
	g.URLs = append(g.URLs, url)
	if g.Fail {
		return nil, fmt.Errorf("getter: injected failure for %s", url)
	}
	if b, ok := g.Answers[url]; ok {
		return append([]byte(nil), b...), nil
	}
	if g.Default != nil {
		return append([]byte(nil), g.Default...), nil
	}
	return nil, fmt.Errorf("getter: 404 %s", url)
}

var _ verify.HTTPSGetter = (*Getter)(nil)

// CLI describes one in-process run of the gcetcbendorsement command line.
type CLI struct {
	IO       *MemIO
	Getter   verify.HTTPSGetter
	Provider extract.LeveledQuoteProvider
	Now      time.Time
	EfiRoot  func(mount string) exel.VariableReader
}

// Run executes the CLI with args through MakeRoot and the verif hook.
func (c *CLI) Run(args ...string) error {
	b := &gcmd.Backend{Provider: c.Provider, Getter: c.Getter, Now: c.Now, IO: c.IO, MakeEfiVariableReader: c.EfiRoot}
	if b.MakeEfiVariableReader == nil {
		b.MakeEfiVariableReader = func(p string) exel.VariableReader { return exel.MakeEfiVarFSReader(p) }
	}
	root := gcmd.MakeRoot(gcmd.VerifWithBackend(context.Background(), b))
	root.SetArgs(args)
	root.SetOut(io.Discard)
	root.SetErr(io.Discard)
	root.SilenceUsage = true
	root.SilenceErrors = true
	return root.Execute()
}
