package core

import (
	"encoding/json"
	"flag"
	"fmt"
	"os"
)

// Main is the worker entry point: runs one property workload shard and writes a JSONL event log.
func Main() {
	prop := flag.String("prop", "", "property id")
	seed := flag.Int64("seed", 1, "seed")
	tier := flag.String("tier", "quick", "quick|thorough")
	shard := flag.Int("shard", 0, "shard index")
	nshards := flag.Int("nshards", 1, "number of shards")
	logp := flag.String("log", "", "event log path")
	only := flag.Int("only", -1, "run only this case")
	skipTo := flag.Int("skip-to", 0, "skip cases below this index")
	describe := flag.Bool("describe", false, "print property info as JSON")
	flag.Parse()
	if *describe {
		out := map[string]*Info{}
		for _, id := range IDs() {
			out[id] = Lookup(id)
		}
		b, _ := json.Marshal(out)
		fmt.Println(string(b))
		return
	}
	info := Lookup(*prop)
	if info == nil {
		fmt.Fprintln(os.Stderr, "unknown property", *prop)
		os.Exit(2)
	}
	c, err := NewCtx(*prop, *seed, *tier, *shard, *nshards, *logp)
	if err != nil {
		fmt.Fprintln(os.Stderr, err)
		os.Exit(2)
	}
	c.Only = *only
	c.SkipTo = *skipTo
	info.Run(c)
	c.Finish()
}
