// Package core is the worker-side runtime of the monitors: event log, per-case
// seeding, violation records, coverage counters and the guarded-call resource
// monitor (panic / CPU / allocation).
package core

import (
	"bufio"
	"encoding/base64"
	"encoding/json"
	"fmt"
	"hash/fnv"
	"math/rand/v2"
	"os"
	"runtime"
	"runtime/debug"
	"runtime/metrics"
	"sort"
	"strings"
	"sync"
	"sync/atomic"
	"syscall"
	"time"
)

// Info describes a property check to the supervisor (printed by `worker -describe`).
type Info struct {
	ID          string       `json:"id"`
	Level       string       `json:"level"`
	Rule        string       `json:"rule"`
	Assumptions []string     `json:"assumptions"`
	ShardsQuick int          `json:"shards_quick"`
	ShardsThor  int          `json:"shards_thorough"`
	Race        bool         `json:"race"`          // run on the -race worker
	RaceThor    bool         `json:"race_thorough"` // thorough tier additionally replays on the -race worker
	UlimitVKB   int64        `json:"ulimit_v_kb"`   // 0 = none
	TimeoutS    int          `json:"timeout_s"`     // wall-clock watchdog per shard (inconclusive when it fires)
	TimeoutThor int          `json:"timeout_thorough_s"`
	Exhaustive  bool         `json:"exhaustive"`
	Run         func(c *Ctx) `json:"-"`
}

var registry = map[string]*Info{}

// Register adds a property check.
func Register(i *Info) { registry[i.ID] = i }

// Lookup returns a registered property.
func Lookup(id string) *Info { return registry[id] }

// IDs lists registered properties.
func IDs() []string {
	var s []string
	for k := range registry {
		s = append(s, k)
	}
	sort.Strings(s)
	return s
}

// Violation is one refuting observation.
type Violation struct {
	Kind    string `json:"kind"`   // oracle | panic | budget-cpu | budget-alloc | race | death-*
	Entry   string `json:"entry"`  // entry point of the repository that was called
	Site    string `json:"site"`   // normalised failure site or oracle rule name
	Gen     string `json:"gen"`    // generator path of the case
	Detail  string `json:"detail"` // human-readable
	Case    int    `json:"case"`
	Witness any    `json:"witness,omitempty"`
}

// Ctx is the per-shard run context.
type Ctx struct {
	Prop    string
	Seed    int64
	Tier    string
	Shard   int
	NShards int
	Only    int // >=0: run only this case index
	SkipTo  int // skip cases below this index (restart after a death)

	mu       sync.Mutex
	w        *bufio.Writer
	f        *os.File
	evals    int64
	counters map[string]int64
	cells    map[string]struct{}
	samples  []any
	maxSamp  int
	floors   map[string]bool
	nviol    int
	maxes    map[string]int64
	notes    map[string]struct{}

	// watchdog state
	caseStartCPU atomic.Int64 // process cpu ns at case start; 0 = idle
	caseBudget   atomic.Int64
	curCase      atomic.Int64
	curEntry     atomic.Value
	curGen       atomic.Value
}

// Thorough reports whether the tier is "thorough".
func (c *Ctx) Thorough() bool { return c.Tier == "thorough" }

// N picks a size by tier.
func (c *Ctx) N(quick, thorough int) int {
	if c.Thorough() {
		return thorough
	}
	return quick
}

// NewCtx opens the log.
func NewCtx(prop string, seed int64, tier string, shard, nshards int, logPath string) (*Ctx, error) {
	f, err := os.OpenFile(logPath, os.O_CREATE|os.O_WRONLY|os.O_APPEND, 0o644)
	if err != nil {
		return nil, err
	}
	c := &Ctx{Prop: prop, Seed: seed, Tier: tier, Shard: shard, NShards: nshards, Only: -1,
		f: f, w: bufio.NewWriterSize(f, 1<<16), counters: map[string]int64{}, cells: map[string]struct{}{},
		maxSamp: 6, floors: map[string]bool{}, maxes: map[string]int64{}, notes: map[string]struct{}{}}
	c.curEntry.Store("")
	c.curGen.Store("")
	go c.watchdog()
	return c, nil
}

func (c *Ctx) emit(rec map[string]any, flush bool) {
	b, err := json.Marshal(rec)
	if err != nil {
		b, _ = json.Marshal(map[string]any{"ev": "logerr", "err": err.Error()})
	}
	c.mu.Lock()
	c.w.Write(b)
	c.w.WriteByte('\n')
	if flush {
		c.w.Flush()
	}
	c.mu.Unlock()
}

// Mine reports whether case i belongs to this shard and is selected.
func (c *Ctx) Mine(i int) bool {
	if c.Only >= 0 {
		return i == c.Only
	}
	if i < c.SkipTo {
		return false
	}
	return i%c.NShards == c.Shard
}

// Rand returns the PRNG of case i: determined by (seed, property, i) only.
func (c *Ctx) Rand(i int) *rand.Rand {
	h := fnv.New64a()
	fmt.Fprintf(h, "%s/%d/%d", c.Prop, c.Seed, i)
	return rand.New(rand.NewPCG(h.Sum64(), uint64(i)*0x9e3779b97f4a7c15+uint64(c.Seed)))
}

// RandNamed returns a PRNG for a named stream (shared worlds etc.).
func (c *Ctx) RandNamed(name string) *rand.Rand {
	h := fnv.New64a()
	fmt.Fprintf(h, "%s/%d/%s", c.Prop, c.Seed, name)
	return rand.New(rand.NewPCG(h.Sum64(), 0x1234567))
}

// Begin writes the case record (flushed before the repository is called).
func (c *Ctx) Begin(i int, gen, entry string, input []byte) {
	rec := map[string]any{"ev": "case", "i": i, "gen": gen, "entry": entry}
	if input != nil {
		rec["input_b64"] = base64.StdEncoding.EncodeToString(input)
	}
	c.curCase.Store(int64(i))
	c.curEntry.Store(entry)
	c.curGen.Store(gen)
	c.emit(rec, true)
}

// End closes case i.
func (c *Ctx) End(i int) {
	c.emit(map[string]any{"ev": "end", "i": i}, false)
}

// Eval counts executions of repository entry points.
func (c *Ctx) Eval(n int) { atomic.AddInt64(&c.evals, int64(n)) }

// Count adds to a named counter.
func (c *Ctx) Count(key string, n int) {
	c.mu.Lock()
	c.counters[key] += int64(n)
	c.mu.Unlock()
}

// Max records the maximum of a named gauge.
func (c *Ctx) Max(key string, v int64) {
	c.mu.Lock()
	if v > c.maxes[key] {
		c.maxes[key] = v
	}
	c.mu.Unlock()
}

// Cell records one distinct non-trivial cell (the supervisor unions across shards).
func (c *Ctx) Cell(format string, a ...any) {
	k := fmt.Sprintf(format, a...)
	c.mu.Lock()
	c.cells[k] = struct{}{}
	c.mu.Unlock()
}

// Note records a free-text note that goes to evidence (never a verdict).
func (c *Ctx) Note(format string, a ...any) {
	k := fmt.Sprintf(format, a...)
	c.mu.Lock()
	c.notes[k] = struct{}{}
	c.mu.Unlock()
}

// Sample keeps up to a few written-out cases for the evidence file.
func (c *Ctx) Sample(v any) {
	c.mu.Lock()
	if len(c.samples) < c.maxSamp {
		c.samples = append(c.samples, v)
	}
	c.mu.Unlock()
}

// Floor declares a minimum-observation requirement; the final value decides.
// A floor that is false at the end makes the run inconclusive.
func (c *Ctx) Floor(name string, ok bool) {
	c.mu.Lock()
	c.floors[name] = ok
	c.mu.Unlock()
}

// Violate records a violation.
func (c *Ctx) Violate(v Violation) {
	c.mu.Lock()
	c.nviol++
	n := c.nviol
	c.mu.Unlock()
	if n > 400 { // keep logs bounded; the count is still reported
		c.Count("violations_dropped_from_log", 1)
		return
	}
	if len(v.Detail) > 2000 {
		v.Detail = v.Detail[:2000] + "…"
	}
	b, _ := json.Marshal(v)
	var m map[string]any
	json.Unmarshal(b, &m)
	m["ev"] = "viol"
	c.emit(m, true)
}

// Oracle is shorthand for an oracle violation.
func (c *Ctx) Oracle(i int, entry, rule, gen, format string, a ...any) {
	c.Violate(Violation{Kind: "oracle", Entry: entry, Site: rule, Gen: gen, Case: i, Detail: fmt.Sprintf(format, a...)})
}

// Finish writes the summary record.
func (c *Ctx) Finish() {
	c.mu.Lock()
	cells := make([]string, 0, len(c.cells))
	for k := range c.cells {
		cells = append(cells, k)
	}
	sort.Strings(cells)
	notes := make([]string, 0, len(c.notes))
	for k := range c.notes {
		notes = append(notes, k)
	}
	sort.Strings(notes)
	rec := map[string]any{"ev": "summary", "shard": c.Shard, "evaluations": atomic.LoadInt64(&c.evals),
		"cells": cells, "counters": c.counters, "maxes": c.maxes, "samples": c.samples, "floors": c.floors,
		"violations": c.nviol, "notes": notes}
	c.mu.Unlock()
	c.emit(rec, true)
	c.f.Sync()
	c.f.Close()
}

// ---- resource monitor ----

// Budget bounds one guarded call. Zero fields mean "no bound".
type Budget struct {
	CPU   time.Duration
	Alloc uint64
	// PanicNotJudged: a panic is recorded in the evidence counters but is not a violation of this
	// property (totality is C07/C08/C19's business; elsewhere a panic only means "not accepted").
	PanicNotJudged bool
}

// Measured is what a guarded call cost.
type Measured struct {
	CPU      time.Duration
	Alloc    uint64
	Panicked bool
	PanicMsg string
	Site     string
}

func threadCPU() int64 {
	var ru syscall.Rusage
	const rusageThread = 1
	if err := syscall.Getrusage(rusageThread, &ru); err != nil {
		return 0
	}
	// user time only: under memory pressure the kernel charges direct reclaim to the faulting thread as
	// system time, which has nothing to do with the code under test (seen: 30 s charged to a sub-ms call)
	return ru.Utime.Nano()
}

func procCPU() int64 {
	var ru syscall.Rusage
	if err := syscall.Getrusage(0, &ru); err != nil {
		return 0
	}
	return ru.Utime.Nano()
}

func heapAllocs() uint64 {
	s := []metrics.Sample{{Name: "/gc/heap/allocs:bytes"}}
	metrics.Read(s)
	return s[0].Value.Uint64()
}

// Guard runs f as case-internal call: recovers panics, measures thread CPU and
// allocated bytes, and reports panic / budget violations. It assumes the worker
// runs one guarded call at a time (allocation counter is process-wide).
func (c *Ctx) Guard(i int, entry, gen string, b Budget, f func()) Measured {
	runtime.LockOSThread()
	defer runtime.UnlockOSThread()
	var m Measured
	if b.CPU > 0 {
		c.caseBudget.Store(int64(b.CPU) * 3) // watchdog fires well after the in-line check would
		c.caseStartCPU.Store(procCPU() | 1)
	}
	a0 := heapAllocs()
	t0 := threadCPU()
	func() {
		defer func() {
			if r := recover(); r != nil {
				if _, ok := r.(CrashSentinel); ok {
					panic(r)
				}
				m.Panicked = true
				m.PanicMsg = fmt.Sprint(r)
				m.Site = PanicSite(debug.Stack())
			}
		}()
		f()
	}()
	m.CPU = time.Duration(threadCPU() - t0)
	m.Alloc = heapAllocs() - a0
	c.caseStartCPU.Store(0)
	c.Eval(1)
	if m.Panicked {
		if b.PanicNotJudged {
			c.Count("panic-observed-not-judged-here/"+entry+"@"+m.Site, 1)
		} else {
			c.Violate(Violation{Kind: "panic", Entry: entry, Site: m.Site, Gen: gen, Case: i, Detail: m.PanicMsg})
		}
	}
	if b.CPU > 0 && m.CPU > b.CPU {
		c.Violate(Violation{Kind: "budget-cpu", Entry: entry, Site: entry, Gen: gen, Case: i,
			Detail: fmt.Sprintf("cpu %v > budget %v", m.CPU, b.CPU)})
	}
	if b.Alloc > 0 && m.Alloc > b.Alloc {
		c.Violate(Violation{Kind: "budget-alloc", Entry: entry, Site: entry, Gen: gen, Case: i,
			Detail: fmt.Sprintf("allocated %d bytes > budget %d", m.Alloc, b.Alloc)})
	}
	c.Max("cpu_us/"+entry, int64(m.CPU/time.Microsecond))
	c.Max("alloc_b/"+entry, int64(m.Alloc))
	return m
}

// CrashSentinel is the panic value doubles use to simulate a crash; Guard re-panics it.
type CrashSentinel struct{ At int }

// watchdog ends the process when a guarded call exceeds 3x its CPU budget without
// returning (non-termination); the violation is written first. Logical time (CPU), not wall-clock.
func (c *Ctx) watchdog() {
	for {
		time.Sleep(200 * time.Millisecond)
		s := c.caseStartCPU.Load()
		if s == 0 {
			continue
		}
		if procCPU()-s > c.caseBudget.Load() {
			buf := make([]byte, 1<<20)
			n := runtime.Stack(buf, true)
			site := StuckSite(buf[:n])
			c.Violate(Violation{Kind: "budget-cpu", Entry: c.curEntry.Load().(string), Site: c.curEntry.Load().(string),
				Gen: c.curGen.Load().(string), Case: int(c.curCase.Load()),
				Detail: "call did not return within 3x CPU budget; running at " + site})
			c.emit(map[string]any{"ev": "abort", "i": c.curCase.Load(), "why": "cpu-watchdog"}, true)
			os.Exit(97)
		}
	}
}

func isRuntimeFrame(fn string) bool {
	return strings.HasPrefix(fn, "runtime.") || strings.HasPrefix(fn, "runtime/") || strings.HasPrefix(fn, "panic(") ||
		strings.HasPrefix(fn, "verifharness/core.") || strings.HasPrefix(fn, "created by ")
}

func normFn(line string) string {
	line = strings.TrimSpace(line)
	// strip argument list: last "(" that starts the args
	if i := strings.LastIndex(line, "("); i > 0 && strings.HasSuffix(line, ")") {
		// keep receiver parens like pkg.(*T).M: the arg list is the final (...) group
		line = line[:i]
	}
	// strip generic instantiation brackets and closure numbering stays
	return line
}

// PanicSite extracts the innermost non-runtime function below the panic frame.
func PanicSite(stack []byte) string {
	lines := strings.Split(string(stack), "\n")
	seenPanic := false
	for _, l := range lines {
		if strings.HasPrefix(l, "\t") || l == "" || strings.HasPrefix(l, "goroutine ") {
			continue
		}
		if strings.HasPrefix(l, "panic(") {
			seenPanic = true
			continue
		}
		if !seenPanic {
			continue
		}
		fn := normFn(l)
		if isRuntimeFrame(fn) {
			continue
		}
		return fn
	}
	return "unknown"
}

// StuckSite finds the innermost non-runtime frame of the first running goroutine that is
// inside Guard (used by the CPU watchdog).
func StuckSite(stack []byte) string {
	for _, g := range strings.Split(string(stack), "\n\n") {
		if !strings.Contains(g, "core.(*Ctx).Guard") {
			continue
		}
		for _, l := range strings.Split(g, "\n") {
			if strings.HasPrefix(l, "\t") || l == "" || strings.HasPrefix(l, "goroutine ") {
				continue
			}
			fn := normFn(l)
			if isRuntimeFrame(fn) {
				continue
			}
			return fn
		}
	}
	return "unknown"
}
