package spike

import (
	"bytes"
	"context"
	"encoding/pem"
	"math/rand"
	"testing"

	"github.com/google/gce-tcb-verifier/gcetcbendorsement"
	epb "github.com/google/gce-tcb-verifier/proto/endorsement"
	cpb "github.com/google/go-sev-guest/proto/check"
	tcpb "github.com/google/go-tdx-guest/proto/checkconfig"
	"google.golang.org/protobuf/proto"
	"google.golang.org/protobuf/reflect/protoreflect"
)

func fill(r *rand.Rand, m protoreflect.Message, depth int) {
	fds := m.Descriptor().Fields()
	for i := 0; i < fds.Len(); i++ {
		fd := fds.Get(i)
		if r.Intn(2) == 0 {
			continue
		}
		val := func() protoreflect.Value {
			switch fd.Kind() {
			case protoreflect.BoolKind:
				return protoreflect.ValueOfBool(r.Intn(2) == 0)
			case protoreflect.Uint32Kind, protoreflect.Fixed32Kind:
				return protoreflect.ValueOfUint32(uint32(r.Intn(5)))
			case protoreflect.Uint64Kind, protoreflect.Fixed64Kind:
				return protoreflect.ValueOfUint64(uint64(r.Intn(3)) * 0x30000)
			case protoreflect.Int32Kind:
				return protoreflect.ValueOfInt32(int32(r.Intn(5)))
			case protoreflect.Int64Kind:
				return protoreflect.ValueOfInt64(int64(r.Intn(5)))
			case protoreflect.StringKind:
				return protoreflect.ValueOfString("1.5")
			case protoreflect.BytesKind:
				b := make([]byte, 48)
				b[0] = byte(r.Intn(3))
				return protoreflect.ValueOfBytes(b)
			case protoreflect.EnumKind:
				return protoreflect.ValueOfEnum(0)
			}
			return protoreflect.Value{}
		}
		switch {
		case fd.IsMap():
		case fd.IsList():
			l := m.Mutable(fd).List()
			for k := 0; k < r.Intn(3); k++ {
				if fd.Kind() == protoreflect.MessageKind {
					e := l.NewElement()
					fill(r, e.Message(), depth+1)
					l.Append(e)
				} else if v := val(); v.IsValid() {
					l.Append(v)
				}
			}
		case fd.Kind() == protoreflect.MessageKind:
			if depth < 3 {
				fill(r, m.Mutable(fd).Message(), depth+1)
			}
		default:
			if v := val(); v.IsValid() {
				m.Set(fd, v)
			}
		}
	}
}

func TestC17(t *testing.T) {
	r := rand.New(rand.NewSource(3))
	certPEM := pem.EncodeToMemory(&pem.Block{Type: "CERTIFICATE", Bytes: []byte("idkey")})
	authPEM := pem.EncodeToMemory(&pem.Block{Type: "CERTIFICATE", Bytes: []byte("authkey")})
	viol, okc, errc := 0, 0, 0
	for i := 0; i < 20000; i++ {
		meas := func(b byte) []byte { x := make([]byte, 48); x[0] = b; return x }
		sevg := &epb.VMSevSnp{Svn: uint32(r.Intn(4)), Policy: uint64(r.Intn(3)) * 0x30000, Measurements: map[uint32][]byte{}}
		for _, k := range []uint32{1, 2, 4} {
			if r.Intn(2) == 0 {
				sevg.Measurements[k] = meas(byte(r.Intn(3)))
			}
		}
		switch r.Intn(4) {
		case 1:
			sevg.CaBundle = certPEM
		case 2:
			sevg.CaBundle = append(append([]byte{}, certPEM...), authPEM...)
		case 3:
			sevg.CaBundle = []byte("garbage")
		}
		g := &epb.VMGoldenMeasurement{SevSnp: sevg, Tdx: &epb.VMTdx{}}
		for k := 0; k < r.Intn(3); k++ {
			g.Tdx.Measurements = append(g.Tdx.Measurements, &epb.VMTdx_Measurement{RamGib: uint32(r.Intn(3)) * 16, Mrtd: meas(byte(k))})
		}
		gb, _ := proto.Marshal(g)
		end := &epb.VMLaunchEndorsement{SerializedUefiGolden: gb}
		var base *cpb.Policy
		if r.Intn(8) != 0 {
			base = &cpb.Policy{}
			fill(r, base.ProtoReflect(), 0)
		}
		var snap *cpb.Policy
		if base != nil {
			snap = proto.Clone(base).(*cpb.Policy)
		}
		opts := &gcetcbendorsement.SevPolicyOptions{Base: base, LaunchVmsas: []uint32{0, 1, 2, 4, 8}[r.Intn(5)], Overwrite: r.Intn(2) == 0, AllowUnspecifiedVmsas: r.Intn(3) != 0}
		res, err := gcetcbendorsement.SevPolicy(context.Background(), end, opts)
		if base != nil && !proto.Equal(base, snap) {
			viol++
			t.Logf("VIOL base mutated")
		}
		if err != nil {
			errc++
		} else {
			okc++
			ref := snap
			if ref == nil {
				ref = &cpb.Policy{Policy: res.Policy, MinimumVersion: "0.0"}
			}
			// unrelated fields
			a := proto.Clone(res).(*cpb.Policy)
			b := proto.Clone(ref).(*cpb.Policy)
			a.Policy, b.Policy = 0, 0
			a.Measurement, b.Measurement = nil, nil
			a.TrustedIdKeys, b.TrustedIdKeys = nil, nil
			a.TrustedAuthorKeys, b.TrustedAuthorKeys = nil, nil
			if !proto.Equal(a, b) {
				viol++
				t.Logf("VIOL unrelated fields differ")
			}
			if !opts.Overwrite && snap != nil {
				if snap.Policy != 0 && res.Policy != snap.Policy {
					viol++
					t.Logf("VIOL policy overwritten")
				}
				if len(snap.Measurement) != 0 && !bytes.Equal(res.Measurement, snap.Measurement) {
					viol++
					t.Logf("VIOL measurement overwritten %v", opts)
				}
				if res.MinimumGuestSvn != snap.MinimumGuestSvn {
					viol++
				}
			}
			if opts.LaunchVmsas != 0 && !bytes.Equal(res.Measurement, sevg.Measurements[opts.LaunchVmsas]) {
				viol++
				t.Logf("VIOL measurement not endorsement's")
			}
			if res == base {
				viol++
			}
		}
		// TDX
		var tb *tcpb.Policy
		if r.Intn(4) != 0 {
			tb = &tcpb.Policy{}
			fill(r, tb.ProtoReflect(), 0)
		}
		var tsnap *tcpb.Policy
		if tb != nil {
			tsnap = proto.Clone(tb).(*tcpb.Policy)
		}
		to := &gcetcbendorsement.TdxPolicyOptions{Base: tb, RAMGiB: []int{0, 16, 32}[r.Intn(3)], Overwrite: r.Intn(2) == 0}
		tres, terr := gcetcbendorsement.TdxPolicy(context.Background(), end, to)
		if tb != nil && !proto.Equal(tb, tsnap) {
			viol++
			t.Logf("VIOL tdx base mutated")
		}
		if terr == nil {
			if tsnap != nil && !to.Overwrite && tsnap.GetTdQuoteBodyPolicy().GetAnyMrTd() != nil {
				viol++
				t.Logf("VIOL any_mr_td replaced without overwrite: %v", tsnap.GetTdQuoteBodyPolicy().GetAnyMrTd())
			}
			a := proto.Clone(tres).(*tcpb.Policy)
			var b *tcpb.Policy
			if tsnap != nil {
				b = proto.Clone(tsnap).(*tcpb.Policy)
			} else {
				b = &tcpb.Policy{}
			}
			if a.TdQuoteBodyPolicy != nil {
				a.TdQuoteBodyPolicy.AnyMrTd = nil
			}
			if b.TdQuoteBodyPolicy == nil {
				b.TdQuoteBodyPolicy = &tcpb.TDQuoteBodyPolicy{}
			}
			b.TdQuoteBodyPolicy.AnyMrTd = nil
			if !proto.Equal(a, b) {
				viol++
				t.Logf("VIOL tdx unrelated fields differ")
			}
		}
	}
	t.Logf("ok=%d err=%d violations=%d", okc, errc, viol)
}
