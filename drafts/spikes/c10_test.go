package spike

import (
	"bytes"
	"context"
	"crypto"
	"crypto/rand"
	"crypto/rsa"
	"crypto/sha256"
	"crypto/x509"
	"encoding/pem"
	"errors"
	"fmt"
	"io"
	"math/big"
	"os"
	"sort"
	"testing"
	"time"

	"github.com/google/gce-tcb-verifier/cmd/output"
	"github.com/google/gce-tcb-verifier/keys"
	"github.com/google/gce-tcb-verifier/rotate"
	"github.com/google/gce-tcb-verifier/sign/gcsca"
	"github.com/google/gce-tcb-verifier/sign/nonprod"
	styp "github.com/google/gce-tcb-verifier/sign/types"
	"github.com/google/gce-tcb-verifier/testing/nonprod/memkm"
)

var errInjected = errors.New("injected fault")

type crashSentinel struct{ at int }

// fault controller shared by all doubles
type fctl struct {
	n       int // call counter
	failAt  int // 0 = none
	crash   bool
	trace   []string
	writes  []wr
}
type wr struct{ obj string; data []byte }

func (f *fctl) hit(name string) error {
	f.n++
	f.trace = append(f.trace, name)
	if f.failAt == f.n {
		if f.crash {
			panic(crashSentinel{f.n})
		}
		return fmt.Errorf("%s: %w", name, errInjected)
	}
	return nil
}

// in-memory storage
type memStore struct {
	f    *fctl
	objs map[string][]byte
}
type mwriter struct {
	s   *memStore
	obj string
	buf bytes.Buffer
}

func (w *mwriter) Write(p []byte) (int, error) { return w.buf.Write(p) }
func (w *mwriter) Close() error {
	if err := w.s.f.hit("storage.Write:" + w.obj); err != nil {
		return err
	}
	w.s.objs[w.obj] = append([]byte{}, w.buf.Bytes()...)
	w.s.f.writes = append(w.s.f.writes, wr{w.obj, w.s.objs[w.obj]})
	return nil
}
func (s *memStore) Reader(_ context.Context, b, o string) (io.ReadCloser, error) {
	if err := s.f.hit("storage.Read:" + o); err != nil {
		return nil, err
	}
	d, ok := s.objs[o]
	if !ok {
		return nil, os.ErrNotExist
	}
	return io.NopCloser(bytes.NewReader(d)), nil
}
func (s *memStore) Exists(_ context.Context, b, o string) (bool, error) {
	if err := s.f.hit("storage.Exists:" + o); err != nil {
		return false, err
	}
	_, ok := s.objs[o]
	return ok, nil
}
func (s *memStore) Writer(_ context.Context, b, o string) (io.WriteCloser, error) {
	return &mwriter{s: s, obj: o}, nil
}
func (s *memStore) IsNotExists(err error) bool                          { return errors.Is(err, os.ErrNotExist) }
func (s *memStore) EnsureBucketExists(context.Context, string) error   { return nil }
func (s *memStore) Wipeout(context.Context, string) error              { s.objs = map[string][]byte{}; return nil }

type fSigner struct {
	*nonprod.Signer
	f *fctl
}

func (s *fSigner) Sign(ctx context.Context, k string, d styp.Digest, o crypto.SignerOpts) ([]byte, error) {
	if err := s.f.hit("signer.Sign:" + k); err != nil {
		return nil, err
	}
	return s.Signer.Sign(ctx, k, d, o)
}
func (s *fSigner) PublicKey(ctx context.Context, k string) ([]byte, error) {
	if err := s.f.hit("signer.PublicKey:" + k); err != nil {
		return nil, err
	}
	return s.Signer.PublicKey(ctx, k)
}

type fManager struct {
	*memkm.T
	f *fctl
}

func (m *fManager) CreateNewSigningKeyVersion(ctx context.Context) (string, error) {
	if err := m.f.hit("manager.CreateNewSigningKeyVersion"); err != nil {
		return "", err
	}
	return m.T.CreateNewSigningKeyVersion(ctx)
}
func (m *fManager) DestroyKeyVersion(ctx context.Context, k string) error {
	if err := m.f.hit("manager.DestroyKeyVersion:" + k); err != nil {
		return err
	}
	return m.T.DestroyKeyVersion(ctx, k)
}

func cloneObjs(m map[string][]byte) map[string][]byte {
	r := map[string][]byte{}
	for k, v := range m {
		r[k] = append([]byte{}, v...)
	}
	return r
}
func cloneKeys(m map[string]*rsa.PrivateKey) map[string]*rsa.PrivateKey {
	r := map[string]*rsa.PrivateKey{}
	for k, v := range m {
		r[k] = v
	}
	return r
}

func newCA(st *memStore) *gcsca.CertificateAuthority {
	return &gcsca.CertificateAuthority{Storage: st, PrivateBucket: "b", RootPath: "root.crt", SigningCertDirInGCS: "certs"}
}

// check the persisted state: returns "" if healthy.
func health(objs map[string][]byte, sg *nonprod.Signer) string {
	f := &fctl{}
	st := &memStore{f: f, objs: objs}
	ca := newCA(st)
	ctx := context.Background()
	kv, err := ca.PrimarySigningKeyVersion(ctx)
	if err != nil || kv == "" {
		return fmt.Sprintf("no primary: %q %v", kv, err)
	}
	key, ok := sg.Keys[kv]
	if !ok {
		return fmt.Sprintf("primary %q has no live key", kv)
	}
	der, err := ca.Certificate(ctx, kv)
	if err != nil {
		return fmt.Sprintf("primary %q has no certificate: %v", kv, err)
	}
	cert, _ := x509.ParseCertificate(der)
	if pk, ok := cert.PublicKey.(*rsa.PublicKey); !ok || pk.N.Cmp(key.N) != 0 {
		return fmt.Sprintf("certificate of %q is for another key", kv)
	}
	bundle, err := ca.CABundle(ctx, kv)
	if err != nil {
		return "no bundle"
	}
	blk, _ := pem.Decode(bundle)
	root, err := x509.ParseCertificate(blk.Bytes)
	if err != nil {
		return "bad root"
	}
	if err := root.CheckSignature(cert.SignatureAlgorithm, cert.RawTBSCertificate, cert.Signature); err != nil {
		return "cert does not verify under root"
	}
	// sign+verify
	d := sha256.Sum256([]byte("doc"))
	sig, err := sg.Sign(ctx, kv, styp.Digest{SHA256: d[:]}, &rsa.PSSOptions{SaltLength: rsa.PSSSaltLengthEqualsHash, Hash: crypto.SHA256})
	if err != nil {
		return "cannot sign: " + err.Error()
	}
	if err := rsa.VerifyPSS(cert.PublicKey.(*rsa.PublicKey), crypto.SHA256, d[:], sig, nil); err != nil {
		return "signature does not verify"
	}
	return ""
}

func TestC10C11(t *testing.T) {
	// bootstrap once
	f := &fctl{}
	st := &memStore{f: f, objs: map[string][]byte{}}
	sg := &nonprod.Signer{Rand: rand.Reader}
	mk := func(f *fctl, st *memStore, sg *nonprod.Signer, overwrite bool) context.Context {
		km := &fManager{T: &memkm.T{Signer: sg}, f: f}
		kc := &keys.Context{CA: newCA(st), Manager: km, Signer: &fSigner{Signer: sg, f: f}, Random: rand.Reader}
		return output.NewContext(keys.NewContext(context.Background(), kc), &output.Options{Quiet: true, Overwrite: overwrite})
	}
	now := time.Date(2025, 1, 1, 0, 0, 0, 0, time.UTC)
	bctx := rotate.NewBootstrapContext(mk(f, st, sg, false), &rotate.BootstrapContext{RootKeyCommonName: "r", SigningKeyCommonName: "s", RootKeySerial: big.NewInt(1), SigningKeySerial: big.NewInt(2), Now: now})
	if err := rotate.Bootstrap(bctx); err != nil {
		t.Fatal(err)
	}
	// C11 on bootstrap writes
	t.Logf("bootstrap writes: %d", len(f.writes))
	for i, w := range f.writes {
		t.Logf("  write %d: %s (%d bytes)", i, w.obj, len(w.data))
	}
	for p := 0; p <= len(f.writes); p++ {
		objs := map[string][]byte{}
		for _, w := range f.writes[:p] {
			objs[w.obj] = w.data
		}
		if msg := consistent(objs); msg != "" {
			t.Logf("C11 VIOL bootstrap prefix %d: %s", p, msg)
		}
	}
	base := cloneObjs(st.objs)
	baseKeys := cloneKeys(sg.Keys)
	if h := health(cloneObjs(base), sg); h != "" {
		t.Fatalf("baseline unhealthy: %s", h)
	}
	// fault-free rotation trace
	runRot := func(failAt int, crash bool, serial int64) (*fctl, map[string][]byte, *nonprod.Signer, error, bool) {
		f := &fctl{failAt: failAt, crash: crash}
		st := &memStore{f: f, objs: cloneObjs(base)}
		sg := &nonprod.Signer{Rand: rand.Reader, Keys: cloneKeys(baseKeys)}
		rctx := rotate.NewSigningKeyContext(mk(f, st, sg, false), &rotate.SigningKeyContext{SigningKeyCommonName: "s", SigningKeySerial: big.NewInt(serial), Now: now.Add(time.Hour)})
		var err error
		crashed := false
		func() {
			defer func() {
				if r := recover(); r != nil {
					if _, ok := r.(crashSentinel); ok {
						crashed = true
						return
					}
					panic(r)
				}
			}()
			_, err = rotate.Key(rctx)
		}()
		return f, st.objs, sg, err, crashed
	}
	f0, _, _, err, _ := runRot(0, false, 3)
	if err != nil {
		t.Fatal(err)
	}
	t.Logf("fault-free rotation trace (%d calls):", len(f0.trace))
	for i, c := range f0.trace {
		t.Logf("  %2d %s", i+1, c)
	}
	// C11 rotation prefixes
	for p := 0; p <= len(f0.writes); p++ {
		objs := cloneObjs(base)
		for _, w := range f0.writes[:p] {
			objs[w.obj] = w.data
		}
		if msg := consistent(objs); msg != "" {
			t.Logf("C11 VIOL rotation prefix %d: %s", p, msg)
		}
	}
	// order rule
	di, wi := -1, -1
	for i, c := range f0.trace {
		if len(c) > 26 && c[:26] == "manager.DestroyKeyVersion:" {
			di = i
		}
		if c == "storage.Write:keyManifest.textproto" {
			wi = i
		}
	}
	t.Logf("destroy index %d, manifest write index %d (destroy must come later)", di, wi)
	viol := 0
	for i := 1; i <= len(f0.trace); i++ {
		for _, crash := range []bool{false, true} {
			_, objs, sg2, err, crashed := runRot(i, crash, 3)
			h := health(cloneObjs(objs), sg2)
			if h != "" {
				viol++
				t.Logf("C10 VIOL fault at %d (%s) crash=%v err=%v crashed=%v: %s", i, f0.trace[i-1], crash, err, crashed, h)
				continue
			}
			// later fault-free rotation with overwrite must succeed
			f3 := &fctl{}
			st3 := &memStore{f: f3, objs: objs}
			rctx := rotate.NewSigningKeyContext(mk(f3, st3, sg2, true), &rotate.SigningKeyContext{SigningKeyCommonName: "s", SigningKeySerial: big.NewInt(3), Now: now.Add(2 * time.Hour)})
			if _, err := rotate.Key(rctx); err != nil {
				viol++
				t.Logf("C10 VIOL recovery rotation after fault at %d (%s) crash=%v failed: %v", i, f0.trace[i-1], crash, err)
			} else if h := health(cloneObjs(st3.objs), sg2); h != "" {
				viol++
				t.Logf("C10 VIOL after recovery rotation (fault at %d): %s", i, h)
			}
		}
	}
	t.Logf("C10 fault positions=%d violations=%d", len(f0.trace), viol)
}

func consistent(objs map[string][]byte) string {
	f := &fctl{}
	st := &memStore{f: f, objs: objs}
	ca := newCA(st)
	ctx := context.Background()
	m, ok := objs["keyManifest.textproto"]
	_ = m
	if !ok {
		return "" // empty authority
	}
	kv, err := ca.PrimarySigningKeyVersion(ctx)
	if err != nil {
		return "manifest unreadable: " + err.Error()
	}
	var names []string
	// every entry resolves
	root, _ := ca.PrimaryRootKeyVersion(ctx)
	for _, n := range []string{kv, root} {
		if n == "" {
			continue
		}
		names = append(names, n)
	}
	sort.Strings(names)
	for _, n := range names {
		if _, err := ca.Certificate(ctx, n); err != nil {
			return fmt.Sprintf("entry %q unresolvable: %v", n, err)
		}
	}
	if kv != "" {
		der, _ := ca.Certificate(ctx, kv)
		cert, _ := x509.ParseCertificate(der)
		bundle, err := ca.CABundle(ctx, kv)
		if err != nil {
			return "no root: " + err.Error()
		}
		blk, _ := pem.Decode(bundle)
		if blk == nil {
			return "root not PEM"
		}
		rc, err := x509.ParseCertificate(blk.Bytes)
		if err != nil {
			return "root unparseable"
		}
		if err := rc.CheckSignature(cert.SignatureAlgorithm, cert.RawTBSCertificate, cert.Signature); err != nil {
			return "primary cert does not verify under stored root"
		}
	}
	return ""
}
