package spike

import (
	"context"
	"errors"
	"fmt"
	"testing"

	"cloud.google.com/go/kms/apiv1/kmspb"
	"github.com/google/gce-tcb-verifier/keys/gcpkms"
	"google.golang.org/grpc"
)

type kmsModel struct {
	kmspb.KeyManagementServiceClient
	versions []*kmspb.CryptoKeyVersion
	calls    int
	budget   int
}

var errBudget = errors.New("call budget exhausted")

func (m *kmsModel) tick() error {
	m.calls++
	if m.calls > m.budget {
		return errBudget
	}
	return nil
}

func (m *kmsModel) ListCryptoKeys(ctx context.Context, in *kmspb.ListCryptoKeysRequest, _ ...grpc.CallOption) (*kmspb.ListCryptoKeysResponse, error) {
	if err := m.tick(); err != nil {
		return nil, err
	}
	return &kmspb.ListCryptoKeysResponse{CryptoKeys: []*kmspb.CryptoKey{{Name: in.Parent + "/cryptoKeys/k"}}, TotalSize: 1}, nil
}

func (m *kmsModel) ListCryptoKeyVersions(ctx context.Context, in *kmspb.ListCryptoKeyVersionsRequest, _ ...grpc.CallOption) (*kmspb.ListCryptoKeyVersionsResponse, error) {
	if err := m.tick(); err != nil {
		return nil, err
	}
	start := 0
	if in.PageToken != "" {
		fmt.Sscanf(in.PageToken, "%d", &start)
	}
	end := start + int(in.PageSize)
	tok := ""
	if end >= len(m.versions) {
		end = len(m.versions)
	} else {
		tok = fmt.Sprint(end)
	}
	return &kmspb.ListCryptoKeyVersionsResponse{CryptoKeyVersions: m.versions[start:end], NextPageToken: tok, TotalSize: int32(len(m.versions))}, nil
}

func (m *kmsModel) DestroyCryptoKeyVersion(ctx context.Context, in *kmspb.DestroyCryptoKeyVersionRequest, _ ...grpc.CallOption) (*kmspb.CryptoKeyVersion, error) {
	if err := m.tick(); err != nil {
		return nil, err
	}
	for _, v := range m.versions {
		if v.Name == in.Name {
			v.State = kmspb.CryptoKeyVersion_DESTROY_SCHEDULED
			return v, nil
		}
	}
	return nil, errors.New("not found")
}

func TestKmsWipeout(t *testing.T) {
	for _, n := range []int{99, 100, 101, 200} {
		m := &kmsModel{budget: 2000}
		for i := 0; i < n; i++ {
			m.versions = append(m.versions, &kmspb.CryptoKeyVersion{Name: fmt.Sprintf("v%d", i), State: kmspb.CryptoKeyVersion_ENABLED})
		}
		mgr := &gcpkms.Manager{Project: "p", Location: "l", KeyRingID: "r", KeyClient: m}
		err := mgr.Wipeout(context.Background())
		left := 0
		for _, v := range m.versions {
			if v.State == kmspb.CryptoKeyVersion_ENABLED {
				left++
			}
		}
		t.Logf("n=%d calls=%d enabled-left=%d budgetHit=%v", n, m.calls, left, errors.Is(err, errBudget) || (err != nil && m.calls > m.budget))
	}
}
