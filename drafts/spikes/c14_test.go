package spike

import (
	"context"
	"errors"
	"fmt"
	"os"
	"testing"

	"github.com/google/gce-tcb-verifier/cmd/output"
	"github.com/google/gce-tcb-verifier/endorse"
)

var errRetri = errors.New("retriable")
var errPerm = errors.New("permanent")

type step int // which op fails in the attempt: 0 none,1 getops,2 change,3 commit
type outcome struct {
	fail step
	err  error
}

type svcs struct {
	script   []outcome
	attempt  int
	log      []string
	results  int
	live     map[int]bool
}

type sops struct {
	v  *svcs
	id int
}

func (v *svcs) GetChangeOps(context.Context) (endorse.ChangeOps, error) {
	v.attempt++
	v.log = append(v.log, fmt.Sprintf("get%d", v.attempt))
	o := v.cur()
	if o.fail == 1 {
		return nil, o.err
	}
	v.live[v.attempt] = true
	return &sops{v: v, id: v.attempt}, nil
}
func (v *svcs) cur() outcome {
	if v.attempt-1 < len(v.script) {
		return v.script[v.attempt-1]
	}
	return outcome{}
}
func (v *svcs) RetriableError(err error) bool { return errors.Is(err, errRetri) }
func (v *svcs) Result(commit any, p string) {
	v.results++
	v.log = append(v.log, fmt.Sprintf("result(%v)", commit))
}
func (v *svcs) ReleasePath(_ context.Context, p string) string { return p }

func (o *sops) WriteOrCreateFiles(context.Context, ...*endorse.File) error { return nil }
func (o *sops) ReadFile(context.Context, string) ([]byte, error)          { return nil, os.ErrNotExist }
func (o *sops) SetBinaryWritable(context.Context, string) error           { return nil }
func (o *sops) IsNotFound(err error) bool                                 { return os.IsNotExist(err) }
func (o *sops) Destroy() {
	o.v.log = append(o.v.log, fmt.Sprintf("destroy%d", o.id))
	if !o.v.live[o.id] {
		o.v.log = append(o.v.log, "DOUBLE-DESTROY")
	}
	delete(o.v.live, o.id)
}
func (o *sops) TryCommit(context.Context) (any, error) {
	c := o.v.cur()
	if c.fail == 3 {
		return nil, c.err
	}
	return fmt.Sprintf("commit%d", o.id), nil
}

func TestC14(t *testing.T) {
	outs := []outcome{{0, nil}, {1, errRetri}, {1, errPerm}, {2, errRetri}, {2, errPerm}, {3, errRetri}, {3, errPerm}}
	viol, n := 0, 0
	var rec func(prefix []outcome, depth int, f func([]outcome))
	rec = func(prefix []outcome, depth int, f func([]outcome)) {
		if depth == 0 {
			f(prefix)
			return
		}
		for _, o := range outs {
			rec(append(append([]outcome{}, prefix...), o), depth-1, f)
		}
	}
	for _, retries := range []int{-2, -1, 0, 1, 2, 3} {
		rec(nil, 4, func(script []outcome) {
			n++
			v := &svcs{script: script, live: map[int]bool{}}
			ec := &endorse.Context{VCS: v, CommitRetries: retries}
			ctx := endorse.NewContext(output.NewContext(context.Background(), &output.Options{Quiet: true}), ec)
			err := endorse.RetrySubmit(ctx, func(ctx context.Context, cops endorse.ChangeOps) (string, error) {
				if v.cur().fail == 2 {
					return "", v.cur().err
				}
				return "p", nil
			})
			// oracle
			max := retries
			if max < 0 {
				max = 0
			}
			max++
			exp := 0
			succeeded := false
			for i := 0; i < max; i++ {
				exp++
				o := outcome{}
				if i < len(script) {
					o = script[i]
				}
				if o.fail == 0 {
					succeeded = true
					break
				}
				if !errors.Is(o.err, errRetri) {
					break
				}
			}
			bad := ""
			if v.attempt != exp {
				bad = fmt.Sprintf("attempts=%d want %d", v.attempt, exp)
			}
			if succeeded != (err == nil) {
				bad += " success mismatch"
			}
			if succeeded && v.results != 1 || !succeeded && v.results != 0 {
				bad += fmt.Sprintf(" results=%d", v.results)
			}
			live := len(v.live)
			if succeeded {
				live-- // successful workspace may stay
			}
			if live != 0 {
				bad += fmt.Sprintf(" leaked=%d", live)
			}
			if bad != "" {
				viol++
				if viol < 5 {
					t.Logf("VIOL retries=%d script=%v: %s log=%v err=%v", retries, script, bad, v.log, err)
				}
			}
		})
	}
	t.Logf("scripts=%d violations=%d", n, viol)
}
