package spike

import (
	"context"
	"crypto"
	"crypto/rand"
	"crypto/rsa"
	"crypto/sha256"
	"crypto/x509"
	"crypto/x509/pkix"
	"math/big"
	"testing"
	"time"

	"github.com/google/gce-tcb-verifier/gcetcbendorsement"
	epb "github.com/google/gce-tcb-verifier/proto/endorsement"
	"github.com/google/gce-tcb-verifier/sev"
	"github.com/google/gce-tcb-verifier/timeproto"
	"github.com/google/gce-tcb-verifier/verify"
	sgabi "github.com/google/go-sev-guest/abi"
	spb "github.com/google/go-sev-guest/proto/sevsnp"
	sgtest "github.com/google/go-sev-guest/testing"
	"github.com/google/go-tdx-guest/testing/testdata"
	"google.golang.org/protobuf/proto"
)

type pki struct {
	rootKey, signKey *rsa.PrivateKey
	root, sign       *x509.Certificate
}

func mkPKI(t *testing.T, nb time.Time) *pki {
	p := &pki{}
	p.rootKey, _ = rsa.GenerateKey(rand.Reader, 2048)
	p.signKey, _ = rsa.GenerateKey(rand.Reader, 2048)
	rt := &x509.Certificate{SerialNumber: big.NewInt(1), Subject: pkix.Name{CommonName: "root"}, NotBefore: nb, NotAfter: nb.AddDate(25, 0, 0), IsCA: true, BasicConstraintsValid: true, KeyUsage: x509.KeyUsageCertSign, SignatureAlgorithm: x509.SHA256WithRSAPSS}
	rd, err := x509.CreateCertificate(rand.Reader, rt, rt, &p.rootKey.PublicKey, p.rootKey)
	if err != nil {
		t.Fatal(err)
	}
	p.root, _ = x509.ParseCertificate(rd)
	st := &x509.Certificate{SerialNumber: big.NewInt(2), Subject: pkix.Name{CommonName: "signer"}, NotBefore: nb, NotAfter: nb.AddDate(5, 0, 0), KeyUsage: x509.KeyUsageDigitalSignature, BasicConstraintsValid: true, SignatureAlgorithm: x509.SHA256WithRSAPSS}
	sd, err := x509.CreateCertificate(rand.Reader, st, p.root, &p.signKey.PublicKey, p.rootKey)
	if err != nil {
		t.Fatal(err)
	}
	p.sign, _ = x509.ParseCertificate(sd)
	return p
}

func (p *pki) endorse(t *testing.T, g *epb.VMGoldenMeasurement) *epb.VMLaunchEndorsement {
	g.Cert = p.sign.Raw
	b, _ := proto.Marshal(g)
	d := sha256.Sum256(b)
	sig, err := rsa.SignPSS(rand.Reader, p.signKey, crypto.SHA256, d[:], &rsa.PSSOptions{SaltLength: rsa.PSSSaltLengthEqualsHash})
	if err != nil {
		t.Fatal(err)
	}
	return &epb.VMLaunchEndorsement{SerializedUefiGolden: b, Signature: sig}
}

func TestC01Wiring(t *testing.T) {
	nb := time.Date(2025, 1, 1, 0, 0, 0, 0, time.UTC)
	now := nb.AddDate(0, 6, 0)
	p := mkPKI(t, nb)
	pool := x509.NewCertPool()
	pool.AddCert(p.root)
	m4 := make([]byte, 48)
	m4[5] = 4
	m8 := make([]byte, 48)
	m8[5] = 8
	mrtd := make([]byte, 48)
	mrtd[7] = 9
	prodPolicy := sgabi.SnpPolicyToBytes(sgabi.SnpPolicy{SMT: true, MigrateMA: true})
	g := &epb.VMGoldenMeasurement{Timestamp: timeproto.To(now), ClSpec: 1, Digest: make([]byte, 48),
		SevSnp: &epb.VMSevSnp{Policy: prodPolicy, Measurements: map[uint32][]byte{4: m4, 8: m8}},
		Tdx:    &epb.VMTdx{Measurements: []*epb.VMTdx_Measurement{{RamGib: 16, Mrtd: mrtd}}}}
	e := p.endorse(t, g)
	s, _ := sgtest.DefaultTestOnlyCertChain("Milan", now)
	mkAt := func(meas []byte) *spb.Attestation {
		rep := &spb.Report{Signature: make([]byte, sgabi.SignatureSize), Version: 2, ReportData: make([]byte, 64), FamilyId: make([]byte, 16), ImageId: make([]byte, 16), Measurement: meas, IdKeyDigest: make([]byte, 48), AuthorKeyDigest: make([]byte, 48), HostData: make([]byte, 32), ReportId: make([]byte, 32), ReportIdMa: make([]byte, 32), ChipId: make([]byte, 64), Policy: prodPolicy}
		return &spb.Attestation{Report: rep, CertificateChain: &spb.CertificateChain{VcekCert: s.Vcek.Raw}}
	}
	ctx := context.Background()
	try := func(name string, at *spb.Attestation, o *gcetcbendorsement.SevValidateOptions) {
		t.Logf("%-40s -> %v", name, gcetcbendorsement.SevValidate(ctx, at, o))
	}
	try("genuine m4 any", mkAt(m4), &gcetcbendorsement.SevValidateOptions{Endorsement: e, RootsOfTrust: pool, Now: now})
	try("genuine m4 vmsas=4", mkAt(m4), &gcetcbendorsement.SevValidateOptions{Endorsement: e, RootsOfTrust: pool, Now: now, ExpectedLaunchVmsas: 4})
	try("genuine m4 vmsas=8", mkAt(m4), &gcetcbendorsement.SevValidateOptions{Endorsement: e, RootsOfTrust: pool, Now: now, ExpectedLaunchVmsas: 8})
	bad := append([]byte{}, m4...)
	bad[0] ^= 1
	try("one-bit-off any", mkAt(bad), &gcetcbendorsement.SevValidateOptions{Endorsement: e, RootsOfTrust: pool, Now: now})
	forged := proto.Clone(e).(*epb.VMLaunchEndorsement)
	forged.Signature[10] ^= 1
	try("forged sig", mkAt(m4), &gcetcbendorsement.SevValidateOptions{Endorsement: forged, RootsOfTrust: pool, Now: now})
	try("expired", mkAt(m4), &gcetcbendorsement.SevValidateOptions{Endorsement: e, RootsOfTrust: pool, Now: nb.AddDate(6, 0, 0)})
	try("empty roots", mkAt(m4), &gcetcbendorsement.SevValidateOptions{Endorsement: e, RootsOfTrust: x509.NewCertPool(), Now: now})
	// in extras
	at := mkAt(m4)
	eb, _ := proto.Marshal(e)
	at.CertificateChain.Extras = map[string][]byte{sev.GCEFwCertGUID: eb}
	try("from extras", at, &gcetcbendorsement.SevValidateOptions{RootsOfTrust: pool, Now: now})
	// validator closure direct
	f := verify.SNPValidateFunc(&verify.Options{RootsOfTrust: pool, Now: now})
	t.Logf("closure genuine -> %v ; closure bad -> %v", f(mkAt(m4), eb), f(mkAt(bad), eb))
	// TDX
	raw := append([]byte{}, testdata.RawQuote...)
	copy(raw[184:], mrtd)
	tv := func(name string, q []byte, o *gcetcbendorsement.TdxValidateOptions) {
		t.Logf("%-40s -> %v", name, gcetcbendorsement.TdxValidate(ctx, q, o))
	}
	tv("tdx genuine", raw, &gcetcbendorsement.TdxValidateOptions{Endorsement: e, RootsOfTrust: pool, Now: now})
	tv("tdx genuine ram16", raw, &gcetcbendorsement.TdxValidateOptions{Endorsement: e, RootsOfTrust: pool, Now: now, ExpectedRAMGiB: 16})
	tv("tdx ram32 unlisted", raw, &gcetcbendorsement.TdxValidateOptions{Endorsement: e, RootsOfTrust: pool, Now: now, ExpectedRAMGiB: 32})
	tv("tdx forged sig", raw, &gcetcbendorsement.TdxValidateOptions{Endorsement: forged, RootsOfTrust: pool, Now: now})
	raw2 := append([]byte{}, raw...)
	raw2[184] ^= 1
	tv("tdx wrong mrtd", raw2, &gcetcbendorsement.TdxValidateOptions{Endorsement: e, RootsOfTrust: pool, Now: now})
}
