package spike

import (
	"bytes"
	"math/rand"
	"sort"
	"testing"

	"github.com/google/gce-tcb-verifier/ovmf/abi"
	"github.com/google/gce-tcb-verifier/sev"
	"github.com/google/gce-tcb-verifier/testing/fakeovmf"
	spb "github.com/google/go-sev-guest/proto/sevsnp"
)

// model validity per C04 classes (64-bit arithmetic)
func snpValid(secs []sec) string {
	seen := map[uint32]int{}
	for _, s := range secs {
		if s.kind < 1 || s.kind > 4 {
			return "unknown kind"
		}
		if s.length == 0 || s.length%4096 != 0 {
			return "bad length"
		}
		if s.addr%4096 != 0 {
			return "misaligned"
		}
		seen[s.kind]++
	}
	if seen[2] > 1 || seen[3] > 1 {
		return "duplicate"
	}
	if seen[1] == 0 || seen[2] == 0 || seen[3] == 0 {
		return "missing"
	}
	type iv struct{ s, e uint64 }
	var ivs []iv
	for _, s := range secs {
		ivs = append(ivs, iv{uint64(s.addr), uint64(s.addr) + uint64(s.length)})
	}
	sort.Slice(ivs, func(i, j int) bool { return ivs[i].s < ivs[j].s })
	for i := 0; i+1 < len(ivs); i++ {
		if ivs[i].e > ivs[i+1].s {
			return "overlap"
		}
	}
	return ""
}

func TestC04Diff(t *testing.T) {
	r := rand.New(rand.NewSource(11))
	stats := map[string]int{}
	for i := 0; i < 6000; i++ {
		size := []int{4096, 8192, 16384, 65536}[r.Intn(4)]
		fw := make([]byte, size)
		r.Read(fw[64 : size-256])
		n := 3 + r.Intn(5)
		var secs []sec
		var asecs []abi.SevMetadataSection
		// start from a valid layout on a page grid then perturb
		used := map[uint32]bool{}
		kinds := []uint32{1, 2, 3}
		for len(kinds) < n {
			kinds = append(kinds, []uint32{1, 1, 4}[r.Intn(3)])
		}
		r.Shuffle(len(kinds), func(a, b int) { kinds[a], kinds[b] = kinds[b], kinds[a] })
		for _, k := range kinds {
			var pg uint32
			for {
				pg = uint32(r.Intn(64))
				if !used[pg] && !used[pg+1] && !used[pg+2] {
					break
				}
			}
			ln := uint32(1 + r.Intn(2))
			for j := uint32(0); j < ln; j++ {
				used[pg+j] = true
			}
			base := []uint32{0x00800000, 0xff000000, 0xffffc000 - 64*4096 + 0x4000, 0}[r.Intn(4)]
			_ = base
			secs = append(secs, sec{addr: 0xfff00000 + pg*4096, length: ln * 4096, kind: k})
		}
		// perturbation
		switch r.Intn(10) {
		case 0:
			secs[r.Intn(len(secs))].length = 0
		case 1:
			secs[r.Intn(len(secs))].length += 0x800
		case 2:
			secs[r.Intn(len(secs))].addr += 0x10
		case 3:
			a, b := r.Intn(len(secs)), r.Intn(len(secs))
			secs[a].addr = secs[b].addr
		case 4:
			secs[r.Intn(len(secs))].kind = []uint32{0, 5, 99, 0xffffffff}[r.Intn(4)]
		case 5:
			secs[r.Intn(len(secs))].kind = []uint32{2, 3}[r.Intn(2)]
		case 6:
			// move to top of 32-bit space, possibly crossing
			j := r.Intn(len(secs))
			secs[j].addr = 0xfffff000
			if r.Intn(2) == 0 {
				secs[j].length = 0x2000
			}
		case 7:
			// drop a mandatory kind by retyping
			for j := range secs {
				if secs[j].kind == uint32(1+r.Intn(3)) {
					secs[j].kind = 4
				}
			}
		}
		for _, s := range secs {
			asecs = append(asecs, abi.SevMetadataSection{Address: s.addr, Length: s.length, Kind: s.kind})
		}
		if len(asecs)*12+16+200 > size {
			continue
		}
		reset := r.Uint32()
		if err := fakeovmf.InitializeSevGUIDTable(fw, abi.FwGUIDTableEndOffset, reset, asecs); err != nil {
			stats["builder error"]++
			continue
		}
		vcpus := []int{1, 2, 3, 8, 17}[r.Intn(5)]
		prod, bits := spb.SevProduct_SEV_PRODUCT_MILAN, uint(48)
		if r.Intn(2) == 0 {
			prod, bits = spb.SevProduct_SEV_PRODUCT_GENOA, 52
		}
		before := append([]byte{}, fw...)
		got, err := sev.LaunchDigest(&sev.LaunchOptions{Vcpus: vcpus, Product: prod}, fw)
		if !bytes.Equal(before, fw) {
			t.Errorf("image mutated")
		}
		why := snpValid(secs)
		switch {
		case err == nil && why != "":
			stats["VIOL accepted malformed: "+why]++
			if stats["VIOL accepted malformed: "+why] < 3 {
				t.Logf("accepted malformed (%s): %+v", why, secs)
			}
		case err == nil:
			want := snpRef(fw, secs, reset, vcpus, bits)
			if bytes.Equal(got, want) {
				stats["equal"]++
			} else {
				stats["VIOL digest mismatch"]++
				t.Logf("mismatch secs=%+v vcpus=%d", secs, vcpus)
			}
		case why == "":
			stats["rejected model-valid"]++
			if stats["rejected model-valid"] < 4 {
				t.Logf("rejected valid: %v %+v", err, secs)
			}
		default:
			stats["rejected malformed: "+why]++
		}
	}
	var ks []string
	for k := range stats {
		ks = append(ks, k)
	}
	sort.Strings(ks)
	for _, k := range ks {
		t.Logf("%6d %s", stats[k], k)
	}
}
