package spike

import (
	"context"
	"crypto"
	"crypto/rand"
	"crypto/x509"
	"errors"
	"math/big"
	"testing"
	"time"

	"github.com/google/gce-tcb-verifier/cmd/output"
	"github.com/google/gce-tcb-verifier/keys"
	"github.com/google/gce-tcb-verifier/rotate"
	"github.com/google/gce-tcb-verifier/sign/memca"
	"github.com/google/gce-tcb-verifier/sign/nonprod"
	styp "github.com/google/gce-tcb-verifier/sign/types"
	"github.com/google/gce-tcb-verifier/testing/nonprod/memkm"
)

type failSigner struct {
	*nonprod.Signer
	fail bool
}

func (f *failSigner) Sign(ctx context.Context, k string, d styp.Digest, o crypto.SignerOpts) ([]byte, error) {
	if f.fail {
		return nil, errors.New("injected sign failure")
	}
	return f.Signer.Sign(ctx, k, d, o)
}

func TestRotate(t *testing.T) {
	s := &nonprod.Signer{Rand: rand.Reader}
	km := &memkm.T{Signer: s}
	ca := memca.Create()
	fs := &failSigner{Signer: s}
	kc := &keys.Context{CA: ca, Manager: km, Signer: fs, Random: rand.Reader}
	ctx0 := output.NewContext(keys.NewContext(context.Background(), kc), &output.Options{})
	now := time.Date(2025, 1, 1, 0, 0, 0, 0, time.UTC)
	bctx := rotate.NewBootstrapContext(ctx0, &rotate.BootstrapContext{RootKeyCommonName: "r", SigningKeyCommonName: "s", RootKeySerial: big.NewInt(1), SigningKeySerial: big.NewInt(2), Now: now})
	if err := rotate.Bootstrap(bctx); err != nil {
		t.Fatal(err)
	}
	show := func(tag string) {
		for n, c := range ca.Certs {
			t.Logf("%s: cert %s serial=%v subjectSerial=%s notAfter-notBefore=%v isCA=%v", tag, n, c.SerialNumber, c.Subject.SerialNumber, c.NotAfter.Sub(c.NotBefore), c.IsCA)
		}
		t.Logf("%s: primary=%q keys=%v", tag, ca.PrimarySigningKey, keysOf(s))
	}
	show("boot")
	rctx := rotate.NewSigningKeyContext(ctx0, &rotate.SigningKeyContext{SigningKeyCommonName: "s", SigningKeySerial: big.NewInt(3), Now: now.Add(time.Hour)})
	k, err := rotate.Key(rctx)
	t.Logf("rotate1: %q %v", k, err)
	show("rot1")
	fs.fail = true
	rctx2 := rotate.NewSigningKeyContext(ctx0, &rotate.SigningKeyContext{SigningKeyCommonName: "s", SigningKeySerial: big.NewInt(4), Now: now.Add(2 * time.Hour)})
	k, err = rotate.Key(rctx2)
	t.Logf("rotate2 (sign fails): %q %v", k, err)
	show("rot2")
	_, cerr := ca.Certificate(context.Background(), ca.PrimarySigningKey)
	t.Logf("primary cert after failed rotation: err=%v", cerr)
	var _ = x509.Certificate{}
}

func keysOf(s *nonprod.Signer) []string {
	var r []string
	for k := range s.Keys {
		r = append(r, k)
	}
	return r
}
