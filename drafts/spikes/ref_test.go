package spike

import (
	"bytes"
	"crypto/sha512"
	"encoding/binary"
	"testing"

	"github.com/google/gce-tcb-verifier/ovmf"
	"github.com/google/gce-tcb-verifier/sev"
	"github.com/google/gce-tcb-verifier/tdx"
	"github.com/google/gce-tcb-verifier/testing/fakeovmf"
	spb "github.com/google/go-sev-guest/proto/sevsnp"
)

type sec struct{ addr, length, kind uint32 }

func pageInfo(cur []byte, contents []byte, ptype byte, gpa uint64) []byte {
	var b [0x70]byte
	copy(b[0:48], cur)
	copy(b[48:96], contents)
	binary.LittleEndian.PutUint16(b[0x60:], 0x70)
	b[0x62] = ptype
	binary.LittleEndian.PutUint64(b[0x68:], gpa)
	h := sha512.Sum384(b[:])
	return h[:]
}

func vmsaPage(rip, csbase uint64) []byte {
	p := make([]byte, 4096)
	seg := func(off int, sel, attr uint16, limit uint32, base uint64) {
		binary.LittleEndian.PutUint16(p[off:], sel)
		binary.LittleEndian.PutUint16(p[off+2:], attr)
		binary.LittleEndian.PutUint32(p[off+4:], limit)
		binary.LittleEndian.PutUint64(p[off+8:], base)
	}
	seg(0x00, 0, 0x93, 0xffff, 0)
	seg(0x10, 0xf000, 0x9b, 0xffff, csbase)
	seg(0x20, 0, 0x93, 0xffff, 0)
	seg(0x30, 0, 0x93, 0xffff, 0)
	seg(0x40, 0, 0x93, 0xffff, 0)
	seg(0x50, 0, 0x93, 0xffff, 0)
	seg(0x60, 0, 0, 0xffff, 0)
	seg(0x70, 0, 0x82, 0xffff, 0)
	seg(0x80, 0, 0, 0xffff, 0)
	seg(0x90, 0, 0x8b, 0xffff, 0)
	q := func(off int, v uint64) { binary.LittleEndian.PutUint64(p[off:], v) }
	q(0xD0, 0x1000)
	q(0x148, 0x40)
	q(0x158, 0x10)
	q(0x160, 0x400)
	q(0x168, 0xffff0ff0)
	q(0x170, 0x2)
	q(0x178, rip)
	q(0x268, 0x70106)
	q(0x310, 0x600)
	q(0x3B0, 0x1)
	q(0x3E8, 0x1)
	return p
}

func snpRef(fw []byte, secs []sec, resetAddr uint32, vcpus int, bits uint) []byte {
	cur := make([]byte, 48)
	base := uint64(1<<32) - uint64(len(fw))
	for off := 0; off < len(fw); off += 4096 {
		c := sha512.Sum384(fw[off : off+4096])
		cur = pageInfo(cur, c[:], 1, base+uint64(off))
	}
	zero := make([]byte, 48)
	for _, s := range secs {
		var pt byte
		switch s.kind {
		case 1:
			pt = 4
		case 2:
			pt = 5
		case 3:
			pt = 6
		case 4:
			pt = 3
		}
		for a := uint64(s.addr); a < uint64(s.addr)+uint64(s.length); a += 4096 {
			cur = pageInfo(cur, zero, pt, a)
		}
	}
	high := ((uint64(1) << bits) - 1) &^ 0xfff
	for i := 0; i < vcpus; i++ {
		var pg []byte
		if i == 0 {
			pg = vmsaPage(0xfff0, 0xffff0000)
		} else {
			pg = vmsaPage(uint64(resetAddr)&0xffff, uint64(resetAddr)&0xffff0000)
		}
		c := sha512.Sum384(pg)
		cur = pageInfo(cur, c[:], 2, high)
	}
	return cur
}

func TestSnpRef(t *testing.T) {
	fw := fakeovmf.CleanExample(t, 2*1024*1024)
	secs := []sec{{0xff001000, 0x1000, 1}, {0xff003000, 0x1000, 3}, {0xff004000, 0x1000, 2}}
	for _, tc := range []struct {
		v    int
		p    spb.SevProduct_SevProductName
		bits uint
	}{{1, spb.SevProduct_SEV_PRODUCT_MILAN, 48}, {4, spb.SevProduct_SEV_PRODUCT_MILAN, 48}, {7, spb.SevProduct_SEV_PRODUCT_GENOA, 52}} {
		got, err := sev.LaunchDigest(&sev.LaunchOptions{Vcpus: tc.v, Product: tc.p}, fw)
		want := snpRef(fw, secs, fakeovmf.SevEsAddrVal, tc.v, tc.bits)
		t.Logf("vcpus=%d product=%v err=%v equal=%v", tc.v, tc.p, err, bytes.Equal(got, want))
	}
}

func tdxRef(fw []byte, banks []ovmf.GuestPhysicalRegion, measureAll, earlyAll bool) []byte {
	type tsec struct {
		off, dsize   uint32
		base, msize  uint64
		typ, attr    uint32
	}
	d := 0x100 + 16
	n := int(binary.LittleEndian.Uint32(fw[d+12:]))
	var secs []tsec
	for i := 0; i < n; i++ {
		b := fw[d+16+32*i:]
		secs = append(secs, tsec{binary.LittleEndian.Uint32(b), binary.LittleEndian.Uint32(b[4:]), binary.LittleEndian.Uint64(b[8:]), binary.LittleEndian.Uint64(b[16:]), binary.LittleEndian.Uint32(b[24:]), binary.LittleEndian.Uint32(b[28:])})
	}
	// unaccepted = banks minus sections, ascending (boundary sweep)
	type iv struct{ s, e uint64 }
	var un []iv
	bs := append([]ovmf.GuestPhysicalRegion{}, banks...)
	for i := range bs {
		for j := i + 1; j < len(bs); j++ {
			if bs[j].Start < bs[i].Start {
				bs[i], bs[j] = bs[j], bs[i]
			}
		}
	}
	for _, b := range bs {
		cur := []iv{{uint64(b.Start), uint64(b.Start) + b.Length}}
		for _, s := range secs {
			var next []iv
			for _, c := range cur {
				ss, se := s.base, s.base+s.msize
				if se <= c.s || ss >= c.e {
					next = append(next, c)
					continue
				}
				if ss > c.s {
					next = append(next, iv{c.s, ss})
				}
				if se < c.e {
					next = append(next, iv{se, c.e})
				}
			}
			cur = next
		}
		for i := range cur {
			for j := i + 1; j < len(cur); j++ {
				if cur[j].s < cur[i].s {
					cur[i], cur[j] = cur[j], cur[i]
				}
			}
		}
		for _, c := range cur {
			if c.e > c.s {
				un = append(un, c)
			}
		}
	}
	var hobBase, hobSize uint64
	for _, s := range secs {
		if s.typ == 2 {
			hobBase, hobSize = s.base, s.msize
		}
	}
	hob := new(bytes.Buffer)
	w := func(v any) { binary.Write(hob, binary.LittleEndian, v) }
	nres := len(secs) + len(un)
	w(uint16(1)); w(uint16(56)); w(uint32(0)); w(uint32(9)); w(uint32(0))
	w(uint64(0)); w(uint64(0)); w(uint64(0)); w(uint64(0)); w(hobBase + 56 + uint64(48*nres))
	res := func(typ, attr uint32, s, l uint64) {
		w(uint16(3)); w(uint16(48)); w(uint32(0)); hob.Write(make([]byte, 16)); w(typ); w(attr); w(s); w(l)
	}
	for _, s := range secs {
		res(0, 7, s.base, s.msize)
	}
	for _, u := range un {
		attr := uint32(7)
		if u.e <= 4<<30 || earlyAll {
			attr |= 0x10000000
		}
		res(7, attr, u.s, u.e-u.s)
	}
	w(uint16(0xffff)); w(uint16(8)); w(uint32(0))
	hob.Write(make([]byte, int(hobSize)-hob.Len()))
	h := sha512.New384()
	for _, s := range secs {
		var data []byte
		switch s.typ {
		case 0, 1:
			data = fw[s.off : s.off+s.dsize]
		case 2:
			data = hob.Bytes()
		default:
			data = make([]byte, s.msize)
		}
		ext := measureAll || s.attr&1 != 0
		for p := uint64(0); p < s.msize; p += 4096 {
			var b [128]byte
			copy(b[:], "MEM.PAGE.ADD")
			binary.LittleEndian.PutUint64(b[16:], s.base+p)
			h.Write(b[:])
			if ext {
				for c := uint64(0); c < 4096; c += 256 {
					var e [128]byte
					copy(e[:], "MR.EXTEND")
					binary.LittleEndian.PutUint64(e[16:], s.base+p+c)
					h.Write(e[:])
					h.Write(data[p+c : p+c+256])
				}
			}
		}
	}
	return h.Sum(nil)
}

func TestTdxRef(t *testing.T) {
	fw := fakeovmf.CleanExample(t, 2*1024*1024)
	got, err := tdx.MRTD(tdx.LaunchOptionsDefault(""), fw)
	t.Logf("default: err=%v equal=%v", err, bytes.Equal(got[:], tdxRef(fw, nil, false, false)))
	for _, shape := range []string{"c3-standard-4", "c3-standard-88", "c3-standard-176"} {
		o := tdx.LaunchOptionsDefaultTDHOBBug(shape)
		got, err = tdx.MRTD(o, fw)
		t.Logf("%s bug: err=%v equal=%v banks=%d", shape, err, bytes.Equal(got[:], tdxRef(fw, o.GuestRAMBanks, true, false)), len(o.GuestRAMBanks))
		o.DisableUnacceptedMemory = true
		got, err = tdx.MRTD(o, fw)
		t.Logf("%s early: err=%v equal=%v", shape, err, bytes.Equal(got[:], tdxRef(fw, o.GuestRAMBanks, true, true)))
	}
}
