package spike

import (
	"bytes"
	"math/rand"
	"testing"

	"github.com/google/gce-tcb-verifier/ovmf"
	"github.com/google/gce-tcb-verifier/ovmf/abi"
	"github.com/google/gce-tcb-verifier/tdx"
	"github.com/google/gce-tcb-verifier/testing/fakeovmf"
)

func TestC05Banks(t *testing.T) {
	fw := fakeovmf.CleanExample(t, 2*1024*1024)
	r := rand.New(rand.NewSource(9))
	// interesting boundaries around declared sections (pages)
	pts := []uint64{0, 0x1000, 0x7ff000, 0x800000, 0x803000, 0x806000, 0x808000, 0x809000, 0x80a000, 0x80b000, 0x80d000, 0x80f000, 0x810000, 0x818000, 0x820000, 0x821000, 0xc0000000, 0xffe00000, 0xffe20000, 0xfff00000, 0x100000000, 0x100001000, 0x200000000}
	mism, okc, errc := 0, 0, 0
	for i := 0; i < 3000; i++ {
		// random non-overlapping banks from sorted distinct points
		n := 1 + r.Intn(4)
		idx := r.Perm(len(pts))[:2*n]
		// sort
		for a := range idx {
			for b := a + 1; b < len(idx); b++ {
				if idx[b] < idx[a] {
					idx[a], idx[b] = idx[b], idx[a]
				}
			}
		}
		var banks []ovmf.GuestPhysicalRegion
		for k := 0; k < n; k++ {
			s, e := pts[idx[2*k]], pts[idx[2*k+1]]
			if r.Intn(10) == 0 {
				e = s // zero length
			}
			banks = append(banks, ovmf.GuestPhysicalRegion{Start: abi.EFIPhysicalAddress(s), Length: e - s})
		}
		r.Shuffle(len(banks), func(a, b int) { banks[a], banks[b] = banks[b], banks[a] })
		early := r.Intn(2) == 0
		o := &tdx.LaunchOptions{GuestRAMBanks: banks, MeasureAllRegions: true, DisableUnacceptedMemory: early}
		got, err := tdx.MRTD(o, fw)
		if err != nil {
			errc++
			continue
		}
		want := tdxRef(fw, banks, true, early)
		if !bytes.Equal(got[:], want) {
			mism++
			if mism < 4 {
				t.Logf("MISMATCH banks=%v early=%v", banks, early)
			}
		} else {
			okc++
		}
	}
	t.Logf("equal=%d mismatch=%d errors=%d", okc, mism, errc)
}
