package spike

import (
	"context"
	"crypto/rand"
	"crypto/x509"
	"os"
	"path/filepath"
	"testing"
	"time"

	"github.com/google/gce-tcb-verifier/cmd"
	epb "github.com/google/gce-tcb-verifier/proto/endorsement"
	"github.com/google/gce-tcb-verifier/sign/nonprod"
	"github.com/google/gce-tcb-verifier/storage/local"
	"github.com/google/gce-tcb-verifier/testing/fakeovmf"
	"github.com/google/gce-tcb-verifier/testing/nonprod/localca"
	"github.com/google/gce-tcb-verifier/testing/nonprod/localkm"
	"github.com/google/gce-tcb-verifier/testing/nonprod/localnonvcs"
	"github.com/google/gce-tcb-verifier/testing/nonprod/memkm"
	"github.com/google/gce-tcb-verifier/verify"
	"google.golang.org/protobuf/proto"
)

func app() *cmd.AppComponents {
	return &cmd.AppComponents{
		Endorse:         &localnonvcs.T{},
		Bootstrap:       &cmd.PartialComponent{},
		Global:          cmd.Compose(&localkm.T{T: memkm.T{Signer: &nonprod.Signer{Rand: rand.Reader}}}, &localca.T{}),
		SignatureRandom: rand.Reader,
		Storage:         &local.StorageClient{},
	}
}

func run(t *testing.T, args ...string) error {
	t0 := time.Now()
	c := cmd.MakeApp(context.Background(), app())
	c.SetArgs(args)
	err := c.Execute()
	t.Logf("%v -> %v (%v)", args[0], err, time.Since(t0))
	return err
}

func TestCLIHistory(t *testing.T) {
	dir := t.TempDir()
	keyDir := filepath.Join(dir, "keys")
	bucketRoot := filepath.Join(dir, "ca")
	out := filepath.Join(dir, "out")
	for _, d := range []string{keyDir, bucketRoot, out} {
		os.MkdirAll(d, 0755)
	}
	fw := filepath.Join(dir, "fw.fd")
	os.WriteFile(fw, fakeovmf.CleanExample(t, 2*1024*1024), 0644)
	common := []string{"--key_dir", keyDir, "--bucket_root", bucketRoot, "--bucket", "b", "--root_path", "root.crt"}
	ts := func(s string) []string { return []string{"--timestamp", s} }
	if err := run(t, append(append([]string{"bootstrap"}, common...), ts("2025-01-01T00:00:00Z")...)...); err != nil {
		t.Fatal(err)
	}
	endorse := func(name, when string) []byte {
		args := append([]string{"endorse", "--uefi", fw, "--add_snp", "--add_tdx", "--out_root", out, "--candidate_name", name, "--clspec", "5"}, common...)
		args = append(args, ts(when)...)
		if err := run(t, args...); err != nil {
			t.Fatal(err)
		}
		b, err := os.ReadFile(filepath.Join(out, name+".binarypb"))
		if err != nil {
			t.Fatal(err)
		}
		return b
	}
	e1 := endorse("c1", "2025-01-02T00:00:00Z")
	if err := run(t, append(append([]string{"rotate"}, common...), ts("2025-02-01T00:00:00Z")...)...); err != nil {
		t.Fatal(err)
	}
	e2 := endorse("c2", "2025-02-02T00:00:00Z")
	if err := run(t, append(append([]string{"rotate"}, common...), ts("2025-03-01T00:00:00Z")...)...); err != nil {
		t.Fatal(err)
	}
	e3 := endorse("c3", "2025-03-02T00:00:00Z")
	rootPEM, _ := os.ReadFile(filepath.Join(bucketRoot, "b", "root.crt"))
	pool := x509.NewCertPool()
	pool.AppendCertsFromPEM(rootPEM)
	for i, e := range [][]byte{e1, e2, e3} {
		err := verify.Endorsement(e, &verify.Options{RootsOfTrust: pool, Now: time.Date(2025, 6, 1, 0, 0, 0, 0, time.UTC)})
		end := &epb.VMLaunchEndorsement{}
		proto.Unmarshal(e, end)
		g := &epb.VMGoldenMeasurement{}
		proto.Unmarshal(end.SerializedUefiGolden, g)
		c, _ := x509.ParseCertificate(g.Cert)
		t.Logf("e%d verify=%v certSerial=%v subjSerial=%s notBefore=%v counts=%d tdxrows=%d", i+1, err, c.SerialNumber, c.Subject.SerialNumber, c.NotBefore, len(g.SevSnp.Measurements), len(g.Tdx.Measurements))
	}
	entries, _ := os.ReadDir(filepath.Join(bucketRoot, "b", "signer_certs"))
	for _, e := range entries {
		t.Logf("cert object %s", e.Name())
	}
	m, _ := os.ReadFile(filepath.Join(bucketRoot, "b", "keyManifest.textproto"))
	t.Logf("manifest:\n%s", m)
	ks, _ := os.ReadDir(keyDir)
	for _, k := range ks {
		t.Logf("key file %s", k.Name())
	}
}
