package spike

import (
	"testing"
	"time"

	"github.com/google/gce-tcb-verifier/extract"
	"github.com/google/gce-tcb-verifier/sev"
	"github.com/google/gce-tcb-verifier/verify/verifytest"
	sgabi "github.com/google/go-sev-guest/abi"
	spb "github.com/google/go-sev-guest/proto/sevsnp"
	sgtest "github.com/google/go-sev-guest/testing"
	tabi "github.com/google/go-tdx-guest/abi"
	"github.com/google/go-tdx-guest/testing/testdata"
	tpmpb "github.com/google/go-tpm-tools/proto/attest"
	"google.golang.org/protobuf/proto"
)

func TestC16Kinds(t *testing.T) {
	e := verifytest.FakeEndorsement(t)
	now := time.Date(2025, 1, 1, 0, 0, 0, 0, time.UTC)
	s, _ := sgtest.DefaultTestOnlyCertChain("Milan", now)
	meas := make([]byte, 48)
	meas[0] = 7
	rep := &spb.Report{Signature: make([]byte, sgabi.SignatureSize), Version: 2, ReportData: make([]byte, 64), FamilyId: make([]byte, 16), ImageId: make([]byte, 16), Measurement: meas, IdKeyDigest: make([]byte, 48), AuthorKeyDigest: make([]byte, 48), HostData: make([]byte, 32), ReportId: make([]byte, 32), ReportIdMa: make([]byte, 32), ChipId: make([]byte, 64), SignatureAlgo: 1}
	withExtra := &spb.Attestation{Report: rep, CertificateChain: &spb.CertificateChain{VcekCert: s.Vcek.Raw, Extras: map[string][]byte{sev.GCEFwCertGUID: e}}}
	noExtra := &spb.Attestation{Report: rep, CertificateChain: &spb.CertificateChain{VcekCert: s.Vcek.Raw}}
	b1, _ := proto.Marshal(withExtra)
	b2, _ := proto.Marshal(noExtra)
	b3, _ := proto.Marshal(rep)
	raw, err := sgabi.ReportToAbiBytes(rep)
	if err != nil {
		t.Fatal(err)
	}
	ct := sgabi.CertsFromProto(withExtra.CertificateChain)
	var rawCerts []byte
	if ct != nil {
		rawCerts = ct.Marshal()
	}
	tq, _ := tabi.QuoteToProto(testdata.RawQuote)
	tqb, _ := proto.Marshal(tq.(proto.Message))
	tpm1, _ := proto.Marshal(&tpmpb.Attestation{TeeAttestation: &tpmpb.Attestation_SevSnpAttestation{SevSnpAttestation: withExtra}})
	cases := map[string][]byte{"snp-proto+extra": b1, "snp-proto": b2, "report-proto": b3, "raw-report": raw, "raw-report+certs": append(append([]byte{}, raw...), rawCerts...), "certs-only": rawCerts, "tdx-raw": testdata.RawQuote, "tdx-proto": tqb, "tpm-attestation": tpm1}
	for name, b := range cases {
		a, err := extract.Attestation(b)
		kind := "-"
		if a != nil {
			switch x := a.TeeAttestation.(type) {
			case *tpmpb.Attestation_SevSnpAttestation:
				kind = "snp"
				_ = x
			case *tpmpb.Attestation_TdxAttestation:
				kind = "tdx"
			case nil:
				kind = "tpm-without-tee"
			}
		}
		g := &recGetter{}
		out, eerr := extract.Endorsement(&extract.Options{Quote: b, Getter: g})
		g2 := &recGetter{}
		out2, eerr2 := extract.Endorsement(&extract.Options{Quote: b, Getter: g2, ForceFetch: true})
		t.Logf("%-18s len=%5d attest=%s/%v | extract: local=%v err=%v urls=%d | force: blob=%q err=%v urls=%v", name, len(b), kind, err, len(out) == len(e), eerr != nil, len(g.urls), string(out2), eerr2 != nil, g2.urls)
	}
}
