package spike

import (
	"bytes"
	"context"
	"crypto/x509"
	"encoding/binary"
	"runtime"
	"sync"
	"testing"
	"time"

	"github.com/google/gce-tcb-verifier/eventlog"
	"github.com/google/gce-tcb-verifier/gcetcbendorsement"
	"github.com/google/gce-tcb-verifier/gcetcbendorsement/parsepath"
	"github.com/google/gce-tcb-verifier/gcetcbendorsement/parsepath/testmessage"
	epb "github.com/google/gce-tcb-verifier/proto/endorsement"
	"github.com/google/gce-tcb-verifier/verify"
	"github.com/google/gce-tcb-verifier/verify/verifytest"
	spb "github.com/google/go-sev-guest/proto/sevsnp"
	tabi "github.com/google/go-tdx-guest/abi"
	"github.com/google/go-tdx-guest/testing/testdata"
	"google.golang.org/protobuf/proto"
)

func TestNilTimestamp(t *testing.T) {
	defer func() {
		if r := recover(); r != nil {
			t.Logf("PANIC confirmed: %v", r)
		}
	}()
	err := verify.Endorsement(nil, &verify.Options{RootsOfTrust: x509.NewCertPool(), Now: time.Now()})
	t.Logf("err=%v", err)
}

func TestTdxGarbageSig(t *testing.T) {
	e := verifytest.FakeEndorsement(t)
	end := &epb.VMLaunchEndorsement{}
	if err := proto.Unmarshal(e, end); err != nil {
		t.Fatal(err)
	}
	golden := &epb.VMGoldenMeasurement{}
	proto.Unmarshal(end.SerializedUefiGolden, golden)
	end.Signature = []byte("garbage")
	q, err := tabi.QuoteToProto(testdata.RawQuote)
	if err != nil {
		t.Fatal(err)
	}
	_ = q
	raw := append([]byte{}, testdata.RawQuote...)
	// MRTD offset in quote v4: header 48 + body: teeTcbSvn16 mrseam48 mrsignerseam48 seamattr8 tdattr8 xfam8 -> mrtd at 48+16+48+48+8+8+8=184
	copy(raw[184:184+48], golden.Tdx.Measurements[0].Mrtd)
	err = gcetcbendorsement.TdxValidate(context.Background(), raw, &gcetcbendorsement.TdxValidateOptions{
		Endorsement: end, RootsOfTrust: x509.NewCertPool(), Now: time.Now()})
	t.Logf("TdxValidate with garbage sig and empty roots: err=%v", err)
	err = gcetcbendorsement.TdxValidate(context.Background(), raw, &gcetcbendorsement.TdxValidateOptions{
		Endorsement: end, RootsOfTrust: x509.NewCertPool(), Now: time.Now(), ExpectedRAMGiB: 12345})
	raw[184] ^= 1
	err2 := gcetcbendorsement.TdxValidate(context.Background(), raw, &gcetcbendorsement.TdxValidateOptions{
		Endorsement: end, RootsOfTrust: x509.NewCertPool(), Now: time.Now(), ExpectedRAMGiB: 12345})
	t.Logf("unlisted RAM: err=%v ; wrong mrtd + unlisted RAM err=%v", err, err2)
}

func TestRace(t *testing.T) {
	d := verifytest.Data(t)
	_ = d
	e := verifytest.FakeEndorsement(t)
	opts := &verify.Options{RootsOfTrust: d.Rot, Now: time.Now()}
	f := verify.SNPValidateFunc(opts)
	good := make([]byte, 48)
	end := &epb.VMLaunchEndorsement{}
	proto.Unmarshal(e, end)
	golden := &epb.VMGoldenMeasurement{}
	proto.Unmarshal(end.SerializedUefiGolden, golden)
	copy(good, golden.SevSnp.Measurements[1])
	bad := make([]byte, 48)
	var wg sync.WaitGroup
	var accepted int
	var mu sync.Mutex
	for i := 0; i < 8; i++ {
		wg.Add(2)
		go func() {
			defer wg.Done()
			for j := 0; j < 50; j++ {
				f(&spb.Attestation{Report: &spb.Report{Measurement: good}}, e)
			}
		}()
		go func() {
			defer wg.Done()
			for j := 0; j < 50; j++ {
				if err := f(&spb.Attestation{Report: &spb.Report{Measurement: bad}}, e); err == nil {
					mu.Lock()
					accepted++
					mu.Unlock()
				}
			}
		}()
	}
	wg.Wait()
	t.Logf("bad accepted %d times", accepted)
}

func TestEventlogAlloc(t *testing.T) {
	// header: pcr(4) type(4) sha1(20) size(4)=0 ; then event2: pcr, type, digests count = 0xffffffff
	var b bytes.Buffer
	binary.Write(&b, binary.LittleEndian, uint32(0))
	binary.Write(&b, binary.LittleEndian, uint32(3))
	b.Write(make([]byte, 20))
	binary.Write(&b, binary.LittleEndian, uint32(0))
	binary.Write(&b, binary.LittleEndian, uint32(0))
	binary.Write(&b, binary.LittleEndian, uint32(3))
	binary.Write(&b, binary.LittleEndian, uint32(0x20000000))
	t.Logf("log size %d", b.Len())
	var m0, m1 runtime.MemStats
	runtime.ReadMemStats(&m0)
	el := &eventlog.CryptoAgileLog{}
	err := el.Unmarshal(bytes.NewBuffer(b.Bytes()))
	runtime.ReadMemStats(&m1)
	t.Logf("err=%v alloc=%d MiB", err, (m1.TotalAlloc-m0.TotalAlloc)>>20)
}

func TestPathMapValue(t *testing.T) {
	m := &testmessage.Test{Strkeymap: map[string]*testmessage.Test_Nested{"a": {Intfield: 7, Bytesfield: []byte("zz")}}}
	for _, p := range []string{`strkeymap["a"].intfield`, `strkeymap["a"].bytesfield`, `int32keymap[3].int32repeats`} {
		pp, err := parsepath.ParsePath(m.ProtoReflect().Descriptor(), p)
		if err != nil {
			t.Logf("%s: parse err %v", p, err)
			continue
		}
		v, err := parsepath.PathValues(pp, m)
		t.Logf("%s: v=%v err=%v", p, v.Values, err)
	}
}
