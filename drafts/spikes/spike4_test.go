package spike

import (
	"testing"

	"github.com/google/gce-tcb-verifier/ovmf/abi"
	epb "github.com/google/gce-tcb-verifier/proto/endorsement"
	"github.com/google/gce-tcb-verifier/sev"
	"github.com/google/gce-tcb-verifier/testing/fakeovmf"
	"github.com/google/gce-tcb-verifier/verify"
)

func TestK1(t *testing.T) {
	m := make([]byte, 48)
	m[0] = 1
	g := &epb.VMGoldenMeasurement{SevSnp: &epb.VMSevSnp{Measurements: map[uint32][]byte{1: m, 2: m}}}
	t.Logf("count=1: %v", verify.SNP(g, &verify.SNPOptions{Measurement: m, ExpectedLaunchVMSAs: 1}))
	t.Logf("count=2: %v", verify.SNP(g, &verify.SNPOptions{Measurement: m, ExpectedLaunchVMSAs: 2}))
	t.Logf("count=0: %v", verify.SNP(g, &verify.SNPOptions{Measurement: m}))
}

func TestK2(t *testing.T) {
	fw := make([]byte, 8192)
	secs := []abi.SevMetadataSection{
		{Address: 0xFFFFF000, Length: 0x1000, Kind: abi.SevUnmeasuredSection},
		{Address: 0xFFFFF000, Length: 0x1000, Kind: abi.SevCpuidSection},
		{Address: 0xFF004000, Length: 0x1000, Kind: abi.SevSecretSection},
	}
	if err := fakeovmf.InitializeSevGUIDTable(fw, abi.FwGUIDTableEndOffset, 0xff0000ff, secs); err != nil {
		t.Fatal(err)
	}
	d, err := sev.LaunchDigest(sev.LaunchOptionsDefault(), fw)
	t.Logf("identical sections at 0xFFFFF000: digest=%x err=%v", d, err)
	secs[1].Address = 0xFF003000
	secs[0] = abi.SevMetadataSection{Address: 0xFF003000, Length: 0x1000, Kind: abi.SevUnmeasuredSection}
	fw = make([]byte, 8192)
	fakeovmf.InitializeSevGUIDTable(fw, abi.FwGUIDTableEndOffset, 0xff0000ff, secs)
	_, err = sev.LaunchDigest(sev.LaunchOptionsDefault(), fw)
	t.Logf("identical sections at 0xFF003000: err=%v", err)
}
