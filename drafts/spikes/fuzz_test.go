package spike

import (
	"bytes"
	"context"
	"crypto/x509"
	"fmt"
	"math/rand"
	"runtime"
	"runtime/debug"
	"strings"
	"testing"
	"time"

	"github.com/google/gce-tcb-verifier/eventlog"
	"github.com/google/gce-tcb-verifier/extract"
	"github.com/google/gce-tcb-verifier/extract/extractsev"
	"github.com/google/gce-tcb-verifier/gcetcbendorsement"
	"github.com/google/gce-tcb-verifier/gcetcbendorsement/parsepath"
	"github.com/google/gce-tcb-verifier/gcetcbendorsement/parsepath/testmessage"
	epb "github.com/google/gce-tcb-verifier/proto/endorsement"
	"github.com/google/gce-tcb-verifier/sev"
	"github.com/google/gce-tcb-verifier/verify"
	"github.com/google/gce-tcb-verifier/verify/verifytest"
	sgabi "github.com/google/go-sev-guest/abi"
	spb "github.com/google/go-sev-guest/proto/sevsnp"
	sgtest "github.com/google/go-sev-guest/testing"
	"github.com/google/go-tdx-guest/testing/testdata"
	"google.golang.org/protobuf/proto"
)

type stat struct {
	calls, errs, panics int
	maxAlloc            uint64
	sigs                map[string]int
}

func guard(st *stat, f func() error) {
	var m0, m1 runtime.MemStats
	sample := st.calls%50 == 0
	if sample {
		runtime.ReadMemStats(&m0)
	}
	st.calls++
	func() {
		defer func() {
			if r := recover(); r != nil {
				st.panics++
				stk := string(debug.Stack())
				// top repo/dep frame
				sig := fmt.Sprint(r)
				for _, l := range strings.Split(stk, "\n") {
					if strings.Contains(l, "github.com/google/") && !strings.Contains(l, "spike") {
						sig += " @ " + strings.TrimSpace(l)
						break
					}
				}
				if st.sigs == nil {
					st.sigs = map[string]int{}
				}
				st.sigs[sig]++
			}
		}()
		if err := f(); err != nil {
			st.errs++
		}
	}()
	if sample {
		runtime.ReadMemStats(&m1)
		if d := m1.TotalAlloc - m0.TotalAlloc; d > st.maxAlloc {
			st.maxAlloc = d
		}
	}
}

func mutate(r *rand.Rand, seed []byte) []byte {
	b := append([]byte{}, seed...)
	switch r.Intn(6) {
	case 0:
		if len(b) > 0 {
			b = b[:r.Intn(len(b))]
		}
	case 1:
		for k := 0; k < 1+r.Intn(3); k++ {
			if len(b) > 0 {
				b[r.Intn(len(b))] ^= 1 << uint(r.Intn(8))
			}
		}
	case 2:
		if len(b) > 4 {
			i := r.Intn(len(b) - 4)
			v := []uint32{0, 1, 0x7fffffff, 0x80000000, 0xffffffff, 0xffff}[r.Intn(6)]
			b[i], b[i+1], b[i+2], b[i+3] = byte(v), byte(v>>8), byte(v>>16), byte(v>>24)
		}
	case 3:
		if len(b) > 0 {
			i := r.Intn(len(b))
			b[i] = []byte{0, 0xff, 0x7f, 0x80}[r.Intn(4)]
		}
	case 4:
		n := r.Intn(64)
		b = make([]byte, n)
		r.Read(b)
	case 5:
		if len(b) > 8 {
			i, j := r.Intn(len(b)), r.Intn(len(b))
			if i > j {
				i, j = j, i
			}
			b = append(b[:i], b[j:]...)
		}
	}
	return b
}

func TestFuzzDecoders(t *testing.T) {
	r := rand.New(rand.NewSource(1))
	e := verifytest.FakeEndorsement(t)
	now := time.Date(2025, 1, 1, 0, 0, 0, 0, time.UTC)
	s, err := sgtest.DefaultTestOnlyCertChain("Milan", now)
	if err != nil {
		t.Fatal(err)
	}
	rep := &spb.Report{Signature: make([]byte, sgabi.SignatureSize), Version: 2, ReportData: make([]byte, 64), FamilyId: make([]byte, 16), ImageId: make([]byte, 16), Measurement: make([]byte, 48), IdKeyDigest: make([]byte, 48), AuthorKeyDigest: make([]byte, 48), HostData: make([]byte, 32), ReportId: make([]byte, 32), ReportIdMa: make([]byte, 32), ChipId: make([]byte, 64)}
	at := &spb.Attestation{Report: rep, CertificateChain: &spb.CertificateChain{VcekCert: s.Vcek.Raw, Extras: map[string][]byte{sev.GCEFwCertGUID: e}}}
	atb, _ := proto.Marshal(at)
	rawRep, err := sgabi.ReportToAbiBytes(rep)
	if err != nil {
		t.Logf("ReportToAbiBytes: %v", err)
	}
	seeds := map[string][]byte{"endorsement": e, "snp-proto": atb, "snp-raw": rawRep, "tdx-raw": testdata.RawQuote}
	stats := map[string]*stat{}
	get := func(n string) *stat {
		if stats[n] == nil {
			stats[n] = &stat{}
		}
		return stats[n]
	}
	pool := x509.NewCertPool()
	for name, seed := range seeds {
		for i := 0; i < 4000; i++ {
			b := mutate(r, seed)
			guard(get("verify.Endorsement/"+name), func() error {
				return verify.Endorsement(b, &verify.Options{RootsOfTrust: pool, Now: now})
			})
			guard(get("extract.Attestation/"+name), func() error { _, err := extract.Attestation(b); return err })
			guard(get("extractsev.FromCertTable/"+name), func() error { _, err := extractsev.FromCertTable(b); return err })
			guard(get("extract.Endorsement/"+name), func() error {
				_, err := extract.Endorsement(&extract.Options{Quote: b, Getter: &recGetter{}})
				return err
			})
			end := &epb.VMLaunchEndorsement{}
			if proto.Unmarshal(b, end) == nil {
				guard(get("SevPolicy/"+name), func() error {
					_, err := gcetcbendorsement.SevPolicy(context.Background(), end, &gcetcbendorsement.SevPolicyOptions{LaunchVmsas: 1})
					return err
				})
				guard(get("TdxPolicy/"+name), func() error {
					_, err := gcetcbendorsement.TdxPolicy(context.Background(), end, &gcetcbendorsement.TdxPolicyOptions{})
					return err
				})
			}
			guard(get("SevValidate/"+name), func() error {
				a, err := extract.Attestation(b)
				if err != nil || a.GetSevSnpAttestation() == nil {
					return err
				}
				return gcetcbendorsement.SevValidate(context.Background(), a.GetSevSnpAttestation(), &gcetcbendorsement.SevValidateOptions{RootsOfTrust: pool, Now: now})
			})
			guard(get("TdxValidate/"+name), func() error {
				return gcetcbendorsement.TdxValidate(context.Background(), b, &gcetcbendorsement.TdxValidateOptions{Endorsement: &epb.VMLaunchEndorsement{SerializedUefiGolden: nil}, RootsOfTrust: pool, Now: now})
			})
			if len(b) >= 0 {
				guard(get("eventlog/"+name), func() error { return (&eventlog.CryptoAgileLog{}).Unmarshal(bytes.NewBuffer(b)) })
			}
			guard(get("sp800155/"+name), func() error { return (&eventlog.SP800155Event3{}).UnmarshalFromBytes(b) })
		}
	}
	for n, st := range stats {
		t.Logf("%-40s calls=%d errs=%d panics=%d maxAlloc=%dKiB", n, st.calls, st.errs, st.panics, st.maxAlloc>>10)
		for sig, c := range st.sigs {
			t.Logf("      %dx %s", c, sig)
		}
	}
}

func TestFuzzPaths(t *testing.T) {
	r := rand.New(rand.NewSource(2))
	md := (&testmessage.Test{}).ProtoReflect().Descriptor()
	gd := (&epb.VMGoldenMeasurement{}).ProtoReflect().Descriptor()
	toks := []string{"nested", "repeats", "int32repeats", "strkeymap", "boolkeymap", "int32keymap", "uint64keymap", "intfield", "bytesfield", "[", "]", ".", "(", ")", "0", "1", "-1", "0x10", "017", "true", "false", `"a"`, `'b'`, `"\x41"`, `"é"`, `"\U7FFFFFFF"`, `"\`, `\`, "testprotopath", "Test", "sev_snp", "measurements", "tdx", "mrtd", "timestamp", "seconds", "99999999999999999999", "key", "value", "\x00", "\xff", "é"}
	st := &stat{}
	m := &testmessage.Test{Nested: &testmessage.Test_Nested{Intfield: 1}, Repeats: []*testmessage.Test{{}}, Strkeymap: map[string]*testmessage.Test_Nested{"a": {}}, Boolkeymap: map[bool]*testmessage.Test{true: {}}, Int32Keymap: map[int32]*testmessage.Test{1: {}}}
	g := &epb.VMGoldenMeasurement{SevSnp: &epb.VMSevSnp{Measurements: map[uint32][]byte{1: {1}}}, Tdx: &epb.VMTdx{Measurements: []*epb.VMTdx_Measurement{{}}}}
	ok := 0
	for i := 0; i < 200000; i++ {
		var sb strings.Builder
		for k := 0; k < 1+r.Intn(8); k++ {
			sb.WriteString(toks[r.Intn(len(toks))])
		}
		p := sb.String()
		guard(st, func() error {
			pp, err := parsepath.ParsePath(md, p)
			if err != nil {
				return err
			}
			ok++
			_, err = parsepath.PathValues(pp, m)
			return err
		})
		guard(st, func() error {
			pp, err := parsepath.ParsePath(gd, p)
			if err != nil {
				return err
			}
			_, err = parsepath.PathValues(pp, g)
			return err
		})
	}
	t.Logf("paths calls=%d errs=%d panics=%d parsedOK=%d maxAlloc=%dKiB", st.calls, st.errs, st.panics, ok, st.maxAlloc>>10)
	for sig, c := range st.sigs {
		t.Logf("      %dx %s", c, sig)
	}
}
