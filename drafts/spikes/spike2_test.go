package spike

import (
	"bytes"
	"context"
	"encoding/binary"
	"fmt"
	"runtime"
	"testing"
	"time"

	"github.com/google/gce-tcb-verifier/endorse"
	"github.com/google/gce-tcb-verifier/eventlog"
	"github.com/google/gce-tcb-verifier/extract"
	"github.com/google/gce-tcb-verifier/keys"
	"github.com/google/gce-tcb-verifier/ovmf/abi"
	spb2 "github.com/google/gce-tcb-verifier/proto/sev"
	"github.com/google/gce-tcb-verifier/sev"
	"github.com/google/gce-tcb-verifier/sign/memca"
	"github.com/google/gce-tcb-verifier/tdx"
	"github.com/google/gce-tcb-verifier/testing/fakeovmf"
	"github.com/google/gce-tcb-verifier/testing/nonprod/localnonvcs"
	"github.com/google/gce-tcb-verifier/testing/nonprod/memkm"
	"github.com/google/gce-tcb-verifier/testing/testsign"
	"github.com/google/gce-tcb-verifier/verify/verifytest"
	spb "github.com/google/go-sev-guest/proto/sevsnp"
	"google.golang.org/protobuf/proto"
)

func try(t *testing.T, name string, f func() error) {
	var m0, m1 runtime.MemStats
	runtime.ReadMemStats(&m0)
	t0 := time.Now()
	func() {
		defer func() {
			if r := recover(); r != nil {
				t.Logf("%s: PANIC %v", name, r)
			}
		}()
		err := f()
		t.Logf("%s: err=%v", name, err)
	}()
	runtime.ReadMemStats(&m1)
	t.Logf("%s: alloc=%d KiB time=%v", name, (m1.TotalAlloc-m0.TotalAlloc)>>10, time.Since(t0))
}

// locate the SEV metadata offset block: find GUID bytes of SevMetadataOffsetGUID in the table.
func findGUID(fw []byte, guid string) int {
	var g [16]byte
	u := mustUUID(guid)
	abi.PutUUID(g[:], u)
	return bytes.LastIndex(fw, g[:])
}

func TestC08(t *testing.T) {
	base := fakeovmf.CleanExample(t, 64*1024)
	// SEV metadata offset entry: [offset u32][size u16][guid]
	gi := findGUID(base, abi.SevMetadataOffsetGUID)
	t.Logf("sev guid at %d of %d", gi, len(base))
	fw := append([]byte{}, base...)
	binary.LittleEndian.PutUint32(fw[gi-6:], 4) // offset 4 < 16
	try(t, "sev offset=4", func() error { _, err := sev.LaunchDigest(sev.LaunchOptionsDefault(), fw); return err })
	fw = append([]byte{}, base...)
	// metadata is at start of firmware (offset=len). Sections count overflow: 0x15555556*12+16 = 24 mod 2^32
	binary.LittleEndian.PutUint32(fw[4:], 24)
	binary.LittleEndian.PutUint32(fw[12:], 0x15555556)
	try(t, "sev sections overflow", func() error { _, err := sev.LaunchDigest(sev.LaunchOptionsDefault(), fw); return err })
	// TDX: descriptor at 0x100+16
	fw = append([]byte{}, base...)
	try(t, "tdx clean", func() error { _, err := tdx.MRTD(tdx.LaunchOptionsDefault(""), fw); return err })
}

func TestC08Tdx(t *testing.T) {
	base := fakeovmf.CleanExample(t, 2*1024*1024)
	d := 0x100 + 16
	fw := append([]byte{}, base...)
	// TDHOB section is index 4: sections start at d+16, each 32 bytes; memory size at +16
	sec := d + 16 + 4*32
	binary.LittleEndian.PutUint64(fw[sec+16:], 1<<62)
	try(t, "tdx tdhob size 2^62 default", func() error { _, err := tdx.MRTD(tdx.LaunchOptionsDefault(""), fw); return err })
	fw = append([]byte{}, base...)
	binary.LittleEndian.PutUint64(fw[sec+16:], 0xFFFFFFFFFFFFF000)
	try(t, "tdx tdhob size -4096 bug mode", func() error {
		_, err := tdx.MRTD(tdx.LaunchOptionsDefaultTDHOBBug("c3-standard-4"), fw)
		return err
	})
	fw = append([]byte{}, base...)
	tm := d + 16 + 2*32 // tempmem
	binary.LittleEndian.PutUint64(fw[tm+16:], 1<<33)
	try(t, "tdx tempmem 8GiB default mode", func() error { _, err := tdx.MRTD(tdx.LaunchOptionsDefault(""), fw); return err })
}

func TestC15(t *testing.T) {
	dir := t.TempDir()
	manager := memkm.TestOnlyT()
	kc := &keys.Context{CA: memca.TestOnlyCertificateAuthority(), Manager: manager, Signer: manager.Signer, Random: testsign.RootRand()}
	ec := &endorse.Context{
		SevSnp: &sev.SnpEndorsementRequest{LaunchVmsas: 1, Product: spb.SevProduct_SEV_PRODUCT_MILAN},
		ClSpec: 1, Image: fakeovmf.CleanExample(t, 64*1024), VCS: &localnonvcs.T{Root: dir}, Timestamp: time.Unix(1700000000, 0), DryRun: true,
	}
	ctx := endorse.NewContext(keys.NewContext(context.Background(), kc), ec)
	try(t, "dry run", func() error { return endorse.VirtualFirmware(ctx) })
}

type recGetter struct{ urls []string }

func (g *recGetter) Get(u string) ([]byte, error) { g.urls = append(g.urls, u); return []byte("blob"), nil }

func TestC16(t *testing.T) {
	e := verifytest.FakeEndorsement(t)
	at := &spb.Attestation{Report: &spb.Report{Measurement: make([]byte, 48)}, CertificateChain: &spb.CertificateChain{Extras: map[string][]byte{sev.GCEFwCertGUID: e}}}
	q, _ := proto.Marshal(at)
	g := &recGetter{}
	out, err := extract.Endorsement(&extract.Options{Getter: g, Quote: q, ForceFetch: true})
	t.Logf("force fetch: out=%q err=%v urls=%v", out, err, g.urls)
	g = &recGetter{}
	out, err = extract.Endorsement(&extract.Options{Getter: g, Quote: []byte{0xc0, 0xde}})
	t.Logf("garbage quote: out=%q err=%v urls=%v", out, err, g.urls)
}

func TestC18(t *testing.T) {
	v := &spb2.VmcbSaveArea{Reserved_11: make([]byte, 48)}
	try(t, "reserved_11 48 bytes", func() error { return sev.PutVmsa(v, make([]byte, 4096)) })
	// ByteSizedCStr truncated: size 10, only 3 bytes
	b := &eventlog.Uint32SizedArray{}
	err := b.Unmarshal(bytes.NewBuffer([]byte{10, 0, 0, 0, 1, 2, 3}))
	t.Logf("truncated array: err=%v data=%v", err, b.Data)
}

func mustUUID(s string) [16]byte {
	var u [16]byte
	var a, b2, c, d2 uint64
	var e uint64
	fmt.Sscanf(s, "%08x-%04x-%04x-%04x-%012x", &a, &b2, &c, &d2, &e)
	binary.BigEndian.PutUint32(u[0:], uint32(a))
	binary.BigEndian.PutUint16(u[4:], uint16(b2))
	binary.BigEndian.PutUint16(u[6:], uint16(c))
	binary.BigEndian.PutUint16(u[8:], uint16(d2))
	u[10] = byte(e >> 40); u[11] = byte(e >> 32); u[12] = byte(e >> 24); u[13] = byte(e >> 16); u[14] = byte(e >> 8); u[15] = byte(e)
	return u
}
