package spike

import (
	"bytes"
	"context"
	"crypto/sha512"
	"fmt"
	"math/rand"
	"os"
	"path/filepath"
	"testing"
	"time"

	"github.com/google/gce-tcb-verifier/cmd/output"
	"github.com/google/gce-tcb-verifier/endorse"
	"github.com/google/gce-tcb-verifier/keys"
	epb "github.com/google/gce-tcb-verifier/proto/endorsement"
	rpb "github.com/google/gce-tcb-verifier/proto/releases"
	"github.com/google/gce-tcb-verifier/sev"
	"github.com/google/gce-tcb-verifier/sign/memca"
	"github.com/google/gce-tcb-verifier/testing/fakeovmf"
	"github.com/google/gce-tcb-verifier/testing/nonprod/localnonvcs"
	"github.com/google/gce-tcb-verifier/testing/nonprod/memkm"
	"github.com/google/gce-tcb-verifier/testing/testsign"
	spb "github.com/google/go-sev-guest/proto/sevsnp"
	"google.golang.org/protobuf/encoding/prototext"
	"google.golang.org/protobuf/proto"
)

func TestC13(t *testing.T) {
	r := rand.New(rand.NewSource(5))
	var images [][]byte
	for i := 0; i < 3; i++ {
		fw := make([]byte, 8192)
		fw[100] = byte(i + 1)
		if err := fakeovmf.InitializeSevGUIDTable(fw, 0x20, 0xff0000ff, fakeovmf.DefaultSnpSections()); err != nil {
			t.Fatal(err)
		}
		images = append(images, fw)
	}
	names := []string{"", "a", "b"}
	manager := memkm.TestOnlyT()
	kc := &keys.Context{CA: memca.TestOnlyCertificateAuthority(), Manager: manager, Signer: manager.Signer, Random: testsign.RootRand()}
	states := map[string]bool{}
	viol := 0
	runs, fails := 0, 0
	for h := 0; h < 300; h++ {
		dir := t.TempDir()
		for step := 0; step < 12; step++ {
			img := images[r.Intn(3)]
			name := names[r.Intn(3)]
			ow := r.Intn(2) == 0
			ec := &endorse.Context{
				SevSnp: &sev.SnpEndorsementRequest{LaunchVmsas: 1, Product: spb.SevProduct_SEV_PRODUCT_MILAN, ImageID: "00000000-0000-4000-8000-000000000001"},
				ClSpec: 1, Image: img, VCS: &localnonvcs.T{Root: dir}, Timestamp: time.Unix(1700000000+int64(step), 0), CandidateName: name,
			}
			ctx := endorse.NewContext(output.NewContext(keys.NewContext(context.Background(), kc), &output.Options{Overwrite: ow, Quiet: true}), ec)
			base := name
			if base == "" {
				base = "endorsement"
			}
			target := filepath.Join(dir, base+".binarypb")
			before, berr := os.ReadFile(target)
			err := endorse.VirtualFirmware(ctx)
			runs++
			if err != nil {
				fails++
			}
			after, _ := os.ReadFile(target)
			if berr == nil && !ow {
				if err == nil || !bytes.Equal(before, after) {
					viol++
					t.Logf("VIOL no-overwrite replaced: err=%v", err)
				}
			}
			// invariants
			mb, merr := os.ReadFile(filepath.Join(dir, "manifest.textproto"))
			if merr != nil {
				continue
			}
			m := &rpb.VMEndorsementMap{}
			if e := prototext.Unmarshal(mb, m); e != nil {
				viol++
				t.Logf("VIOL manifest parse %v", e)
				continue
			}
			paths, digs := map[string]bool{}, map[string]bool{}
			key := ""
			for _, en := range m.Entries {
				if paths[en.Path] || digs[string(en.Digest)] {
					viol++
					t.Logf("VIOL duplicate %v", en)
				}
				paths[en.Path], digs[string(en.Digest)] = true, true
				fb, e := os.ReadFile(filepath.Join(dir, en.Path))
				if e != nil {
					viol++
					t.Logf("VIOL missing file %s", en.Path)
					continue
				}
				end := &epb.VMLaunchEndorsement{}
				proto.Unmarshal(fb, end)
				g := &epb.VMGoldenMeasurement{}
				proto.Unmarshal(end.SerializedUefiGolden, g)
				if !bytes.Equal(g.Digest, en.Digest) {
					viol++
					t.Logf("VIOL digest mismatch path=%s h=%d step=%d", en.Path, h, step)
				}
				key += fmt.Sprintf("%s:%x;", en.Path, en.Digest[:2])
			}
			if err == nil {
				d := sha512.Sum384(img)
				found := false
				for _, en := range m.Entries {
					if bytes.Equal(en.Digest, d[:]) && en.Path == base+".binarypb" {
						found = true
					}
				}
				if !found {
					viol++
					t.Logf("VIOL latest digest not mapped to written file h=%d step=%d", h, step)
				}
			}
			states[key] = true
		}
	}
	t.Logf("runs=%d fails=%d distinct manifest states=%d violations=%d", runs, fails, len(states), viol)
}
