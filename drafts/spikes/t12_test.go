package spike

import (
	"testing"

	"github.com/google/gce-tcb-verifier/ovmf/abi"
	opb "github.com/google/gce-tcb-verifier/proto/ovmf"
	"github.com/google/gce-tcb-verifier/tdx"
	"github.com/google/gce-tcb-verifier/testing/fakeovmf"
)

func TestT1T2(t *testing.T) {
	fw := fakeovmf.CleanExample(t, 2*1024*1024)
	v, err := tdx.UnsignedTDX(fw, &tdx.EndorsementRequest{MachineShapes: []string{"bogus-shape", "c3-standard-4"}, IncludeEarlyAccept: true})
	t.Logf("err=%v", err)
	if v != nil {
		for _, m := range v.Measurements {
			t.Logf("ram=%d early=%v mrtd=%x", m.RamGib, m.EarlyAccept, m.Mrtd[:6])
		}
	}
	buf := make([]byte, 22)
	g := make([]byte, 16)
	err = abi.PutSevEsResetBlock(buf, &opb.SevEsResetBlock{Addr: 1, Size: 0x12345, Guid: g})
	b, _ := abi.SevEsResetBlockFromBytes(buf)
	t.Logf("PutSevEsResetBlock size 0x12345: err=%v decoded size=%#x", err, b.Size)
}
