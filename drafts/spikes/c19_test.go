package spike

import (
	"fmt"
	"math/rand"
	"strconv"
	"strings"
	"testing"

	"github.com/google/gce-tcb-verifier/gcetcbendorsement/parsepath"
	"github.com/google/gce-tcb-verifier/gcetcbendorsement/parsepath/testmessage"
	"google.golang.org/protobuf/proto"
	"google.golang.org/protobuf/reflect/protoreflect"
)

func randTest(r *rand.Rand, depth int) *testmessage.Test {
	m := &testmessage.Test{}
	if depth > 3 {
		return m
	}
	nested := func() *testmessage.Test_Nested {
		n := &testmessage.Test_Nested{Intfield: int32(r.Intn(100)), Stringfield: fmt.Sprint("s", r.Intn(10)), Bytesfield: []byte{byte(r.Intn(256)), 2}}
		if r.Intn(3) == 0 {
			n.Nested = randTest(r, depth+1)
		}
		return n
	}
	if r.Intn(2) == 0 {
		m.Nested = nested()
	}
	for i := 0; i < r.Intn(3); i++ {
		m.Repeats = append(m.Repeats, randTest(r, depth+1))
	}
	for i := 0; i < r.Intn(3); i++ {
		m.Int32Repeats = append(m.Int32Repeats, int32(r.Intn(1000)))
	}
	keys := []string{"a", "b c", "q\"uote", "é", "tab\t", "back\\slash", ""}
	for i := 0; i < r.Intn(3); i++ {
		if m.Strkeymap == nil {
			m.Strkeymap = map[string]*testmessage.Test_Nested{}
		}
		m.Strkeymap[keys[r.Intn(len(keys))]] = nested()
	}
	if r.Intn(2) == 0 {
		m.Boolkeymap = map[bool]*testmessage.Test{r.Intn(2) == 0: randTest(r, depth+1)}
	}
	if r.Intn(2) == 0 {
		m.Int32Keymap = map[int32]*testmessage.Test{int32(r.Intn(20) - 10): randTest(r, depth+1)}
	}
	if r.Intn(2) == 0 {
		m.Int64Keymap = map[int64]*testmessage.Test{int64(r.Intn(20)-10) << 33: randTest(r, depth+1)}
	}
	if r.Intn(2) == 0 {
		m.Uint32Keymap = map[uint32]*testmessage.Test{uint32(r.Intn(20)): randTest(r, depth+1)}
	}
	if r.Intn(2) == 0 {
		m.Uint64Keymap = map[uint64]*testmessage.Test{uint64(r.Intn(20)) << 40: randTest(r, depth+1)}
	}
	return m
}

func quoteStr(r *rand.Rand, s string) string {
	q := byte('"')
	if r.Intn(2) == 0 {
		q = '\''
	}
	var b strings.Builder
	b.WriteByte(q)
	for _, c := range s {
		switch {
		case c == rune(q) || c == '\\':
			b.WriteByte('\\')
			b.WriteRune(c)
		case c == '\t':
			b.WriteString(`\t`)
		case c > 127 && r.Intn(2) == 0:
			fmt.Fprintf(&b, `\u%04x`, c)
		case c < 127 && c > 32 && r.Intn(5) == 0:
			fmt.Fprintf(&b, `\x%02x`, c)
		case c < 127 && c > 32 && r.Intn(5) == 0:
			fmt.Fprintf(&b, `\%03o`, c)
		default:
			b.WriteRune(c)
		}
	}
	b.WriteByte(q)
	return b.String()
}

func intLit(r *rand.Rand, v int64) string {
	neg := v < 0
	a := v
	if neg {
		a = -v
	}
	var s string
	switch r.Intn(3) {
	case 0:
		s = strconv.FormatInt(a, 10)
	case 1:
		s = "0x" + strconv.FormatInt(a, 16)
	default:
		if a == 0 {
			s = "0"
		} else {
			s = "0" + strconv.FormatInt(a, 8)
		}
	}
	if neg {
		s = "-" + s
	}
	return s
}

// walk generates a path and its expected value by walking m field by field.
func walk(r *rand.Rand, m protoreflect.Message, steps int) (string, protoreflect.Value, bool) {
	var path []string
	cur := protoreflect.ValueOfMessage(m)
	for s := 0; s < steps; s++ {
		msg := cur.Message()
		fds := msg.Descriptor().Fields()
		fd := fds.Get(r.Intn(fds.Len()))
		path = append(path, "."+string(fd.Name()))
		v := msg.Get(fd)
		switch {
		case fd.IsMap():
			var ks []protoreflect.MapKey
			v.Map().Range(func(k protoreflect.MapKey, _ protoreflect.Value) bool { ks = append(ks, k); return true })
			if len(ks) == 0 || r.Intn(4) == 0 {
				return strings.TrimPrefix(strings.Join(path, ""), "."), v, true
			}
			k := ks[r.Intn(len(ks))]
			var lit string
			switch fd.MapKey().Kind() {
			case protoreflect.StringKind:
				lit = quoteStr(r, k.String())
			case protoreflect.BoolKind:
				lit = strconv.FormatBool(k.Bool())
			case protoreflect.Int32Kind, protoreflect.Int64Kind:
				lit = intLit(r, k.Int())
			default:
				lit = intLit(r, int64(k.Uint()))
			}
			path = append(path, "["+lit+"]")
			cur = v.Map().Get(k)
		case fd.IsList():
			if v.List().Len() == 0 || r.Intn(4) == 0 {
				return strings.TrimPrefix(strings.Join(path, ""), "."), v, true
			}
			i := r.Intn(v.List().Len())
			path = append(path, "["+intLit(r, int64(i))+"]")
			cur = v.List().Get(i)
			if fd.Kind() != protoreflect.MessageKind {
				return strings.TrimPrefix(strings.Join(path, ""), "."), cur, true
			}
		case fd.Kind() == protoreflect.MessageKind:
			cur = v
		default:
			return strings.TrimPrefix(strings.Join(path, ""), "."), v, true
		}
	}
	return strings.TrimPrefix(strings.Join(path, ""), "."), cur, true
}

func valEq(a, b protoreflect.Value) bool {
	switch x := a.Interface().(type) {
	case protoreflect.Message:
		y, ok := b.Interface().(protoreflect.Message)
		return ok && proto.Equal(x.Interface(), y.Interface())
	case protoreflect.List:
		y, ok := b.Interface().(protoreflect.List)
		if !ok || x.Len() != y.Len() {
			return false
		}
		for i := 0; i < x.Len(); i++ {
			if !valEq(x.Get(i), y.Get(i)) {
				return false
			}
		}
		return true
	case protoreflect.Map:
		y, ok := b.Interface().(protoreflect.Map)
		return ok && x.Len() == y.Len()
	case []byte:
		y, ok := b.Interface().([]byte)
		return ok && string(x) == string(y)
	default:
		return a.Interface() == b.Interface()
	}
}

func TestC19Diff(t *testing.T) {
	r := rand.New(rand.NewSource(4))
	st := map[string]int{}
	for i := 0; i < 30000; i++ {
		m := randTest(r, 0)
		p, want, _ := walk(r, m.ProtoReflect(), 1+r.Intn(6))
		if r.Intn(3) == 0 {
			p = "(testprotopath.Test)." + p
		}
		func() {
			defer func() {
				if rec := recover(); rec != nil {
					st["PANIC"]++
					if st["PANIC"] < 4 {
						t.Logf("panic %q: %v", p, rec)
					}
				}
			}()
			pp, err := parsepath.ParsePath(m.ProtoReflect().Descriptor(), p)
			if err != nil {
				st["parse error"]++
				if st["parse error"] < 6 {
					t.Logf("parse error %q: %v", p, strings.Split(err.Error(), "\n")[0])
				}
				return
			}
			vs, err := parsepath.PathValues(pp, m)
			if err != nil {
				st["eval error"]++
				if st["eval error"] < 6 {
					t.Logf("eval error %q: %v", p, err)
				}
				return
			}
			got := vs.Index(-1).Value
			if !valEq(got, want) {
				st["MISMATCH"]++
				if st["MISMATCH"] < 6 {
					t.Logf("mismatch %q: got %v want %v", p, got, want)
				}
				return
			}
			st["equal"]++
			// evaluate on another message: must not panic
			other := randTest(r, 0)
			_, _ = parsepath.PathValues(pp, other)
		}()
	}
	t.Logf("%v", st)
}
