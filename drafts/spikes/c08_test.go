package spike

import (
	"encoding/binary"
	"fmt"
	"math/rand"
	"os"
	"runtime/debug"
	"strconv"
	"strings"
	"testing"
	"time"

	"github.com/google/gce-tcb-verifier/sev"
	"github.com/google/gce-tcb-verifier/tdx"
	"github.com/google/gce-tcb-verifier/testing/fakeovmf"
)

func TestC08Fuzz(t *testing.T) {
	seed, _ := strconv.Atoi(os.Getenv("SEED"))
	start, _ := strconv.Atoi(os.Getenv("START"))
	r := rand.New(rand.NewSource(int64(seed)))
	base := fakeovmf.CleanExample(t, 2*1024*1024)
	n := len(base)
	regions := [][2]int{{0, 16 + 3*12}, {0x100, 0x100 + 16 + 16 + 6*32}, {n - 0x20 - 18 - 22 - 22 - 22 - 4, n - 0x20}}
	vals := []uint64{0, 1, 2, 15, 16, 17, 0xfff, 0x1000, 0x1001, 0x7fffffff, 0x80000000, 0xffffffff, 0x15555556, 0x08000000, 0x08000001, 1 << 33, 1 << 40, 1 << 62, 1 << 63, ^uint64(0), ^uint64(0) - 0xfff, uint64(n), uint64(n - 1), uint64(n + 1), uint64(n - 16), 0xffe00000, 0xfffff000, 0x100000000, 0x10000000000}
	sigs := map[string]int{}
	var slow []string
	f, _ := os.OpenFile("/tmp/spike/c08.log", os.O_CREATE|os.O_WRONLY|os.O_APPEND, 0644)
	for i := 0; i < 4000; i++ {
		fw := append([]byte{}, base...)
		var desc []string
		for k := 0; k < 1+r.Intn(2); k++ {
			reg := regions[r.Intn(len(regions))]
			off := reg[0] + r.Intn(reg[1]-reg[0]-8)
			w := []int{1, 2, 4, 8}[r.Intn(4)]
			v := vals[r.Intn(len(vals))]
			switch w {
			case 1:
				fw[off] = byte(v)
			case 2:
				binary.LittleEndian.PutUint16(fw[off:], uint16(v))
			case 4:
				binary.LittleEndian.PutUint32(fw[off:], uint32(v))
			case 8:
				binary.LittleEndian.PutUint64(fw[off:], v)
			}
			desc = append(desc, fmt.Sprintf("off=%#x w=%d v=%#x", off, w, v))
		}
		if i < start {
			continue
		}
		fmt.Fprintf(f, "seed=%d case=%d %v\n", seed, i, desc)
		f.Sync()
		for mode := 0; mode < 4; mode++ {
			t0 := time.Now()
			func() {
				defer func() {
					if rec := recover(); rec != nil {
						stk := string(debug.Stack())
						sig := fmt.Sprint(rec)
						if len(sig) > 60 {
							sig = sig[:60]
						}
						for _, l := range strings.Split(stk, "\n") {
							if strings.Contains(l, "gce-tcb-verifier/") && !strings.Contains(l, "spike") {
								sig += " @ " + strings.Split(strings.TrimSpace(l), "(")[0]
								break
							}
						}
						sigs[fmt.Sprintf("mode%d %s", mode, sig)]++
					}
				}()
				switch mode {
				case 0:
					sev.LaunchDigest(&sev.LaunchOptions{Vcpus: 2}, fw)
				case 1:
					tdx.MRTD(tdx.LaunchOptionsDefault(""), fw)
				case 2:
					tdx.MRTD(tdx.LaunchOptionsDefaultTDHOBBug("c3-standard-4"), fw)
				case 3:
					o := tdx.LaunchOptionsDefaultTDHOBBug("c3-standard-88")
					o.DisableUnacceptedMemory = true
					tdx.MRTD(o, fw)
				}
			}()
			if d := time.Since(t0); d > 500*time.Millisecond {
				slow = append(slow, fmt.Sprintf("case=%d mode=%d %v %v", i, mode, d, desc))
			}
		}
	}
	for s, c := range sigs {
		t.Logf("%4dx %s", c, s)
	}
	for _, s := range slow {
		t.Logf("SLOW %s", s)
	}
}
