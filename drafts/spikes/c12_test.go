package spike

import (
	"crypto/x509"
	"encoding/pem"
	"fmt"
	"math/big"
	"math/rand"
	"os"
	"path/filepath"
	"strings"
	"testing"
	"time"

	cpb "github.com/google/gce-tcb-verifier/proto/certificates"
	"google.golang.org/protobuf/encoding/prototext"
)

type epochState struct {
	bootstrapped bool
	lastSerial   *big.Int
	names        map[string]bool
	certsSeen    map[string][]byte // object -> bytes at creation
}

func TestC12Hist(t *testing.T) {
	r := rand.New(rand.NewSource(21))
	viol := 0
	cmds := 0
	for h := 0; h < 12; h++ {
		dir := t.TempDir()
		keyDir := filepath.Join(dir, "keys")
		bucketRoot := filepath.Join(dir, "ca")
		os.MkdirAll(keyDir, 0755)
		os.MkdirAll(bucketRoot, 0755)
		common := []string{"--key_dir", keyDir, "--bucket_root", bucketRoot, "--bucket", "b", "--root_path", "root.crt", "--quiet"}
		now := time.Date(2025, 1, 1, 0, 0, 0, 0, time.UTC)
		ep := &epochState{names: map[string]bool{}, certsSeen: map[string][]byte{}}
		var hist []string
		for step := 0; step < 10; step++ {
			now = now.Add(time.Duration(1+r.Intn(1000)) * time.Hour)
			ts := now.Format(time.RFC3339)
			var args []string
			var kind string
			overwrite := r.Intn(3) == 0
			switch x := r.Intn(10); {
			case x < 2 || !ep.bootstrapped && x < 6:
				kind = "bootstrap"
				args = append([]string{"bootstrap", "--timestamp", ts}, common...)
			case x < 8:
				kind = "rotate"
				args = append([]string{"rotate", "--timestamp", ts}, common...)
				if r.Intn(4) == 0 {
					kind = "rotate-override"
					args = append(args, "--rotated_key_serial_override", fmt.Sprint(100+r.Intn(100)))
				}
			default:
				kind = []string{"wipeout", "wipeout ca", "wipeout keys"}[r.Intn(3)]
				args = append(strings.Fields(kind), common...)
			}
			if overwrite {
				args = append(args, "--overwrite")
				kind += "+ow"
			}
			// snapshot cert objects
			before := map[string][]byte{}
			filepath.Walk(filepath.Join(bucketRoot, "b"), func(p string, info os.FileInfo, err error) error {
				if err == nil && !info.IsDir() && strings.HasSuffix(p, ".crt") {
					b, _ := os.ReadFile(p)
					before[p] = b
				}
				return nil
			})
			err := run(t, args...)
			cmds++
			hist = append(hist, fmt.Sprintf("%s=%v", kind, err == nil))
			// no-clobber
			if !overwrite {
				for p, b := range before {
					if a, e := os.ReadFile(p); e == nil && string(a) != string(b) {
						viol++
						t.Logf("VIOL cert object changed without overwrite: %s hist=%v", p, hist)
					}
				}
			}
			if strings.HasPrefix(kind, "wipeout") && err == nil {
				if kind == "wipeout" || strings.HasPrefix(kind, "wipeout+") || strings.HasPrefix(kind, "wipeout ca") {
					if _, e := os.Stat(filepath.Join(bucketRoot, "b", "keyManifest.textproto")); e == nil {
						viol++
						t.Logf("VIOL manifest survives wipeout: %v", hist)
					}
				}
				if kind == "wipeout" || strings.HasPrefix(kind, "wipeout+") || strings.HasPrefix(kind, "wipeout keys") {
					if ks, _ := os.ReadDir(keyDir); len(ks) != 0 {
						viol++
						t.Logf("VIOL keys survive wipeout: %v", hist)
					}
				}
				ep = &epochState{names: map[string]bool{}, certsSeen: map[string][]byte{}}
				os.MkdirAll(filepath.Join(bucketRoot), 0755)
				continue
			}
			if strings.HasPrefix(kind, "bootstrap") && err == nil {
				ep = &epochState{bootstrapped: true, names: map[string]bool{}, certsSeen: map[string][]byte{}, lastSerial: big.NewInt(2)}
			}
			// read state
			mb, e := os.ReadFile(filepath.Join(bucketRoot, "b", "keyManifest.textproto"))
			if e != nil {
				continue
			}
			man := &cpb.GCECertificateManifest{}
			if e := prototext.Unmarshal(mb, man); e != nil {
				viol++
				t.Logf("VIOL manifest unparseable")
				continue
			}
			rootPEM, e := os.ReadFile(filepath.Join(bucketRoot, "b", "root.crt"))
			if e != nil {
				continue
			}
			blk, _ := pem.Decode(rootPEM)
			root, e := x509.ParseCertificate(blk.Bytes)
			if e != nil {
				viol++
				continue
			}
			if root.CheckSignatureFrom(root) != nil || !root.IsCA || root.KeyUsage&x509.KeyUsageCertSign == 0 || root.NotAfter.Sub(root.NotBefore) != 9131*24*time.Hour || root.SerialNumber.String() != root.Subject.SerialNumber {
				viol++
				t.Logf("VIOL root profile: life=%v serial=%v/%s hist=%v", root.NotAfter.Sub(root.NotBefore), root.SerialNumber, root.Subject.SerialNumber, hist)
			}
			if !ep.bootstrapped {
				continue
			}
			prim := man.PrimarySigningKeyVersionName
			for _, en := range man.Entries {
				if en.KeyVersionName == man.PrimaryRootKeyVersionName {
					continue
				}
				der, e := os.ReadFile(filepath.Join(bucketRoot, "b", en.ObjectPath))
				if e != nil {
					viol++
					t.Logf("VIOL entry without object %v", en)
					continue
				}
				c, e := x509.ParseCertificate(der)
				if e != nil {
					viol++
					continue
				}
				if c.CheckSignatureFrom(root) != nil {
					continue // previous epoch's certificate
				}
				if c.IsCA || c.KeyUsage != x509.KeyUsageDigitalSignature || c.SignatureAlgorithm != x509.SHA256WithRSAPSS || c.NotAfter.Sub(c.NotBefore) != 1826*24*time.Hour || c.SerialNumber.String() != c.Subject.SerialNumber {
					viol++
					t.Logf("VIOL signing cert profile %s: ca=%v ku=%v alg=%v life=%v serial=%v/%s hist=%v", en.KeyVersionName, c.IsCA, c.KeyUsage, c.SignatureAlgorithm, c.NotAfter.Sub(c.NotBefore), c.SerialNumber, c.Subject.SerialNumber, hist)
				}
				if en.KeyVersionName == prim && strings.HasPrefix(kind, "rotate") && err == nil {
					if !c.NotBefore.Equal(now) {
						viol++
						t.Logf("VIOL notBefore %v != %v", c.NotBefore, now)
					}
					if kind == "rotate" || kind == "rotate+ow" {
						want := new(big.Int).Add(ep.lastSerial, big.NewInt(1))
						if c.SerialNumber.Cmp(want) != 0 {
							viol++
							t.Logf("VIOL serial %v want %v hist=%v", c.SerialNumber, want, hist)
						}
					}
					ep.lastSerial = c.SerialNumber
					if ep.names[prim] {
						viol++
						t.Logf("VIOL name reused %s hist=%v", prim, hist)
					}
					ep.names[prim] = true
				}
			}
			// only primary + root keys exist
			ks, _ := os.ReadDir(keyDir)
			for _, k := range ks {
				n := strings.TrimSuffix(k.Name(), ".pem")
				if n != prim && n != man.PrimaryRootKeyVersionName {
					viol++
					t.Logf("VIOL extra live key %s (primary %s) hist=%v", n, prim, hist)
				}
			}
		}
		t.Logf("history %d: %v", h, hist)
	}
	t.Logf("commands=%d violations=%d", cmds, viol)
}
