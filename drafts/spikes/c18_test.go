package spike

import (
	"bytes"
	"math/rand"
	"testing"

	"github.com/google/gce-tcb-verifier/eventlog"
	"github.com/google/uuid"
)

func randEvt3(r *rand.Rand) *eventlog.SP800155Event3 {
	rs := func(n int) string {
		b := make([]byte, r.Intn(n))
		for i := range b {
			b[i] = byte(1 + r.Intn(254))
		}
		return string(b)
	}
	rb := func(n int) []byte { b := make([]byte, r.Intn(n)); r.Read(b); return b }
	return &eventlog.SP800155Event3{PlatformManufacturerID: r.Uint32(), ReferenceManifestGUID: eventlog.EfiGUID{UUID: uuid.New()},
		PlatformManufacturerStr: eventlog.ByteSizedCStr{Data: rs(40)}, PlatformModel: eventlog.ByteSizedCStr{Data: rs(40)}, PlatformVersion: eventlog.ByteSizedCStr{Data: rs(5)},
		FirmwareManufacturerStr: eventlog.ByteSizedCStr{Data: rs(20)}, FirmwareManufacturerID: r.Uint32(), FirmwareVersion: eventlog.ByteSizedCStr{Data: rs(8)},
		RIMLocatorType: uint32(r.Intn(4)), RIMLocator: eventlog.Uint32SizedArray{Data: rb(60)}, PlatformCertLocatorType: uint32(r.Intn(4)), PlatformCertLocator: eventlog.Uint32SizedArray{Data: rb(30)}}
}

func TestC18Log(t *testing.T) {
	r := rand.New(rand.NewSource(6))
	st := map[string]int{}
	for i := 0; i < 300; i++ {
		log := &eventlog.CryptoAgileLog{Header: eventlog.TCGPCClientPCREvent{PCRIndex: 0, EventType: 3, EventData: eventlog.TCGEventData{Event: &eventlog.UnknownEvent{Data: []byte("Spec ID Event03\x00....")}}}}
		for k := 0; k < 1+r.Intn(4); k++ {
			ev := &eventlog.TCGPCREvent2{PCRIndex: uint32(r.Intn(24)), EventType: uint32(r.Intn(10))}
			for d := 0; d < r.Intn(3); d++ {
				alg := []uint16{4, 0xb, 0xc}[r.Intn(3)]
				sz := map[uint16]int{4: 20, 0xb: 32, 0xc: 48}[alg]
				dg := make([]byte, sz)
				r.Read(dg)
				ev.Digests.Array = append(ev.Digests.Array, &eventlog.TaggedDigest{AlgID: alg, Digest: dg})
			}
			switch r.Intn(3) {
			case 0:
				ev.EventType = 3
				ev.EventData.Event = randEvt3(r)
			case 1:
				b := make([]byte, r.Intn(40))
				r.Read(b)
				ev.EventData.Event = &eventlog.UnknownEvent{Data: b}
			}
			log.Events = append(log.Events, ev)
		}
		var enc bytes.Buffer
		if err := log.Marshal(&enc); err != nil {
			st["marshal error"]++
			continue
		}
		b := enc.Bytes()
		for _, mk := range []string{"buffer", "reader"} {
			dec := &eventlog.CryptoAgileLog{}
			var err error
			if mk == "buffer" {
				err = dec.Unmarshal(bytes.NewBuffer(b))
			} else {
				err = dec.Unmarshal(bytes.NewReader(b))
			}
			if err != nil {
				st["VIOL decode of own encoding fails ("+mk+")"]++
				if st["VIOL decode of own encoding fails ("+mk+")"] < 3 {
					t.Logf("decode fail %s: %v", mk, err)
				}
				continue
			}
			var re bytes.Buffer
			dec.Marshal(&re)
			if !bytes.Equal(re.Bytes(), b) {
				st["VIOL re-encode differs ("+mk+")"]++
			} else {
				st["roundtrip ok ("+mk+")"]++
			}
		}
		// truncations
		for cut := 0; cut < len(b); cut++ {
			dec := &eventlog.CryptoAgileLog{}
			if err := dec.Unmarshal(bytes.NewBuffer(b[:cut])); err == nil {
				var re bytes.Buffer
				dec.Marshal(&re)
				if !bytes.Equal(re.Bytes(), b[:cut]) {
					st["VIOL truncated accepted, re-encodes differently"]++
				} else {
					st["truncated at event boundary accepted (legit)"]++
				}
			} else {
				st["truncation refused"]++
			}
		}
	}
	for k, v := range st {
		t.Logf("%7d %s", v, k)
	}
}
