#!/bin/bash
# MANIFEST.setup_cmd: compiles every property worker once (offline) so that later checks only rebuild incrementally.
set -e
cd "$(dirname "$0")/harness"
export GOFLAGS=-mod=mod GOPROXY=off GOSUMDB=off GOTOOLCHAIN=local GOWORK=off
mkdir -p ../.build
for d in props/c*/; do p=$(basename $d); go build -tags verif -o /dev/null ./cmd/w/$p; done
go build -tags verif -race -o /dev/null ./cmd/w/c09
echo setup ok
