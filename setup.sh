#!/bin/bash
# MANIFEST.setup_cmd: builds both worker binaries once (offline) so that later checks only rebuild incrementally.
set -e
cd "$(dirname "$0")/harness"
export GOFLAGS=-mod=mod GOPROXY=off GOSUMDB=off GOTOOLCHAIN=local GOWORK=off
mkdir -p ../.build
go build -tags verif -o /dev/null ./cmd/worker
go build -tags verif -race -o /dev/null ./cmd/worker
echo setup ok
